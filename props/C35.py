"""C35 Messages survive serialization and reach the addressed member (engine E11 Codec)."""
import glob
import json
import os

from tools import codec, vlib


class C35(vlib.Spec):
    model_vo = ["theories/Codec/Check.vo"]
    props_vo = "theories/Props/C35.vo"
    theorems = ["C35_roundtrip", "C35_prefix_free", "C35_frames_do_not_bleed", "C35_tagless_roundtrip",
                "C35_demux_routing", "C35_delivery"]
    crate, group, binary = "h_codec", "hydro", "h_codec"
    imports = "From HV Require Import Codec.Check."
    level = "proof"
    trusted_base = ["coqc 8.16.1 kernel (vm_compute used for case evaluation only)",
                    "hand-written Gallina model of the bincode 1.x wire format / serde data model, MemberId wrappers and "
                    "sinktools::demux_map: coq/theories/Codec/Model.v",
                    "correspondence harness harness/h_codec (dynamic serde values + derive-based Raft payload types) + tools/codec.py"]
    assumptions = ["serde and bincode are MODELLED, not verified: the theorems are about the model of the wire format, "
                   "validated byte-for-byte against bincode 1.3.3 on the generated values only",
                   "UTF-8 validation of strings, f32/f64, u128, char, maps and byte-limit options are not modelled",
                   "the generated send/receive closures are re-stated in the harness with the same expressions "
                   "(id.into_tagless(), bincode::serialize, MemberId::from_tagless, bincode::deserialize); they are not "
                   "extracted from a compiled Hydro program",
                   "TaglessMemberId is exercised in its Legacy{raw_id:u32} variant only"]
    rule = ("random nested type codes (depth <= 3/4) with edge-biased values; truncated/extended/random malformed frames; "
            "derive-based RaftRpc<u64,Replica>, LeaderView, LogEntry<String>, MemberId; demux_map runs incl. missing keys; "
            "whole send->demux->receive runs. non-trivial = value with at least one constructor below the root, or a "
            "non-empty item list, or a malformed frame")

    def gen(self, rng, tier, n):
        cases = []
        for f in sorted(glob.glob(os.path.join(vlib.ROOT, "corpus", "C35", "*.json"))):
            cases.append(json.load(open(f)))
        return cases + codec.gen_cases(rng, tier, n)

    def n_cases(self, tier):
        return 800 if tier == "quick" else 8000

    def to_coq(self, case, res):
        return codec.term(case, res)

    def shrink(self, case):
        return codec.shrink(case)

    def nontrivial(self, case, res):
        k = case["k"]
        if k == "val":
            return codec.depth_of(case["ty"]) >= 1 or case["ty"] in ("Str", "I64")
        if k in ("demux", "wire"):
            return len(case["items"]) > 0
        return True

    def describe(self, case, res):
        return {"case": case, "impl": res}

    def distribution(self, cases, results):
        d = {"by_kind": {}, "type_depth": {}, "root_kinds": {}, "dec_errors": 0, "dec_ok": 0, "demux_panics": 0,
             "max_frame_len": 0, "values_with_str": 0, "values_with_enum": 0}
        for c, r in zip(cases, results):
            k = c["k"]
            d["by_kind"][k] = d["by_kind"].get(k, 0) + 1
            if k in ("val", "dec", "wire"):
                dp = str(codec.depth_of(c["ty"]))
                d["type_depth"][dp] = d["type_depth"].get(dp, 0) + 1
                rk = codec.kind(c["ty"])
                d["root_kinds"][rk] = d["root_kinds"].get(rk, 0) + 1
            if k == "val":
                d["max_frame_len"] = max(d["max_frame_len"], len(c["mbytes"]))
                d["values_with_str"] += codec.has(c["ty"], ("Str",))
                d["values_with_enum"] += codec.has(c["ty"], ("Enum",))
            if k == "dec":
                d["dec_errors"] += "err" in r
                d["dec_ok"] += "v" in r
            if k == "demux":
                d["demux_panics"] += "panic" in r
        return d


def main(ctx):
    spec = C35()
    spec.ctx = ctx
    vlib.standard_check(ctx, spec)
