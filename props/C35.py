"""C35 Messages survive serialization and reach the addressed member (engine E11 Codec)."""
import glob
import json
import os

from tools import codec, vlib


class C35(vlib.Spec):
    model_vo = ["theories/Codec/Check.vo"]
    props_vo = "theories/Props/C35.vo"
    theorems = ["C35_roundtrip", "C35_prefix_free", "C35_frames_do_not_bleed", "C35_tagless_roundtrip",
                "C35_demux_routing", "C35_delivery", "C35_demux_ready_all", "C35_delivery_under_backpressure"]
    crate, group, binary = "h_codec", "hydro", "h_codec"
    imports = "From HV Require Import Codec.Check."
    level = "proof"
    trusted_base = ["coqc 8.16.1 kernel (vm_compute used for case evaluation only)",
                    "hand-written Gallina model of the bincode 1.x wire format / serde data model, MemberId wrappers and "
                    "sinktools::demux_map: coq/theories/Codec/Model.v",
                    "correspondence harness harness/h_codec (dynamic serde values + derive-based Raft payload types) + tools/codec.py",
                    "harness/h_quorum (embedded code generation of a cluster->cluster demux: the generated closures)"]
    assumptions = ["serde and bincode are MODELLED, not verified: the theorems are about the model of the wire format, "
                   "validated byte-for-byte against bincode 1.3.3 on the generated values only",
                   "UTF-8 validation of strings, f32/f64, u128, char, maps and byte-limit options are not modelled",
                   "the generated send/receive closures are exercised for two payload types (u32 and a nested tuple/option/"
                   "vec/string/Result/i64/bool type) through hydro_lang's embedded code generator (`emb` cases); for arbitrary "
                   "type codes they are re-stated in the harness with the same expressions",
                   "TaglessMemberId is exercised in its Legacy{raw_id:u32} variant only"]
    rule = ("random nested type codes (depth <= 3/4) with edge-biased values; truncated/extended/random malformed frames; "
            "derive-based RaftRpc<u64,Replica>, LeaderView, LogEntry<String>, MemberId; demux_map runs incl. missing keys; "
            "whole send->demux->receive runs; demux_map over scripted back-pressured one-slot member sinks (2-4 members, random "
            "Ready/Pending scripts) driven by a contract-following sender. non-trivial = value with at least one constructor below the root, or a "
            "non-empty item list, or a malformed frame")

    # The `emb` cases run the GENERATED send/receive closures: a cluster->cluster `demux(.., TCP.fail_stop()
    # .bincode())` compiled through hydro_lang's embedded code generator lives in harness/h_quorum (the crate
    # with the embedded-runtime feature set); it is built and run here, per case, also on replay.
    emb_crate, emb_group, emb_binary = "h_quorum", "hydro", "h_quorum"

    def emb_bin(self):
        if not hasattr(self, "_emb"):
            self._emb, log = codec.cached_build(self.emb_crate, self.emb_group, self.emb_binary)
            if self._emb is None:
                self.ctx.log("embedded harness build failed:\n" + log[-2000:])
        return self._emb

    def gen(self, rng, tier, n):
        cases = []
        for f in sorted(glob.glob(os.path.join(vlib.ROOT, "corpus", "C35", "*.json"))):
            cases.append(json.load(open(f)))
        cases += codec.gen_cases(rng, tier, n)
        emb = [codec.gen_emb(rng) for _ in range(min(60, n // 20))]
        self.emb_batch = self.emb_batch + emb
        return cases + emb

    def n_cases(self, tier):
        return 320 if tier == "quick" else 10000

    def to_coq(self, case, res):
        if case["k"] == "emb":
            b = self.emb_bin()
            if b is None:
                return 1  # the generated-closure harness no longer builds against /repo
            h = vlib.case_hash(case)
            if h not in self.emb_results and self.emb_batch:
                # all generated closure cases in one harness process
                batch, self.emb_batch = self.emb_batch, []
                for c, r in zip(batch, vlib.run_harness(self.ctx, b, batch, name="emb")):
                    self.emb_results[vlib.case_hash(c)] = r
            if h not in self.emb_results:
                self.emb_results[h] = vlib.run_harness(self.ctx, b, [case], name="emb")[0]
            return codec.emb_term(case, self.emb_results[h])
        return codec.term(case, res)

    emb_results = {}
    emb_batch = []

    def shrink(self, case):
        return codec.shrink(case)

    def nontrivial(self, case, res):
        k = case["k"]
        if k == "val":
            return codec.depth_of(case["ty"]) >= 1 or case["ty"] in ("Str", "I64")
        if k == "bp":
            return any(False in sc for _, sc in case["init"])
        if k in ("demux", "wire", "emb"):
            return len(case["items"]) > 0
        return True

    def describe(self, case, res):
        if case["k"] == "emb":
            res = self.emb_results.get(vlib.case_hash(case), res)
        return {"case": case, "impl": res}

    def distribution(self, cases, results):
        d = {"by_kind": {}, "type_depth": {}, "root_kinds": {}, "dec_errors": 0, "dec_ok": 0, "demux_panics": 0,
             "max_frame_len": 0, "values_with_str": 0, "values_with_enum": 0}
        for c, r in zip(cases, results):
            k = c["k"]
            d["by_kind"][k] = d["by_kind"].get(k, 0) + 1
            if k == "emb":
                d["emb_items"] = d.get("emb_items", 0) + len(c["items"])
            if k in ("val", "dec", "wire"):
                dp = str(codec.depth_of(c["ty"]))
                d["type_depth"][dp] = d["type_depth"].get(dp, 0) + 1
                rk = codec.kind(c["ty"])
                d["root_kinds"][rk] = d["root_kinds"].get(rk, 0) + 1
            if k == "val":
                d["max_frame_len"] = max(d["max_frame_len"], len(c["mbytes"]))
                d["values_with_str"] += codec.has(c["ty"], ("Str",))
                d["values_with_enum"] += codec.has(c["ty"], ("Enum",))
            if k == "dec":
                d["dec_errors"] += "err" in r
                d["dec_ok"] += "v" in r
            if k == "demux":
                d["demux_panics"] += "panic" in r
            if k == "bp":
                d["bp_polls"] = d.get("bp_polls", 0) + len(r.get("polls", []))
                d["bp_pending_polls"] = d.get("bp_pending_polls", 0) + sum(1 for b in r.get("polls", []) if not b)
        return d


def main(ctx):
    spec = C35()
    spec.ctx = ctx
    vlib.standard_check(ctx, spec)
