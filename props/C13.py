"""C13 Symmetric hash join emits exactly the join of everything that arrived (engine E4 Pull)."""
import glob
import json
import os

from tools import pull, vlib


class C13(vlib.Spec):
    model_vo = ["theories/Pull/CorrJoin.vo"]
    props_vo = "theories/Props/C13.vo"
    theorems = ['C13_poll_invariant', 'C13_run_invariant', 'C13_nothing_pending_at_end', 'C13_emits_join_of_tables', 'C13_new_tick', 'C13_new_tick_lhs_smaller', 'C13_new_tick_rhs_smaller', 'C13_build', 'C13_drain_multiset', 'C13_incremental', 'C13_incremental_persisted', 'C13_set_each_pair_once', 'C13_terminates', 'C13_fuel_enough', 'C13_new_tick_same_as_incremental', 'C13_ticks', 'C13_checker_sound', 'C13_checker_complete']
    crate, group, binary = "h_pull", "light", "h_pull"
    imports = "From HV Require Import Pull.CorrJoin."
    trusted_base = ["coqc 8.16.1 kernel (vm_compute used for case evaluation only)",
                    "hand-written Gallina model coq/theories/Pull/ModelJoin.v of symmetric_hash_join.rs and half_join_state/*.rs",
                    "correspondence harness harness/h_pull (scripted Pull sources) + tools/pull.py"]
    assumptions = ["model validated against dfir_pipes only on the generated scripts",
                   "FxHashMap is a duplicate-free association list; outputs depending on its iteration order are compared as multisets",
                   "keys and values are u64 in the harness, N in the model"]
    rule = ("incremental SymmetricHashJoin over scripted fused sources (set and multiset state, optionally "
            "pre-built tables): exact PullStep sequence and final tables; new-tick path over 1-4 ticks with "
            "'tick/'static persistence per side: per-tick multiset of rows and table sizes; non-trivial = at least "
            "one row is emitted")
    harness_shards = 4

    def corpus(self):
        return [json.load(open(f)) for f in sorted(glob.glob(os.path.join(vlib.ROOT, "corpus", "C13", "*.json")))]

    def gen(self, rng, tier, n):
        return pull.gen_c13(rng, tier, n, self.corpus())

    def n_cases(self, tier):
        return 600 if tier == "quick" else 4000

    def to_coq(self, case, res):
        return pull.c13_term(case, res)

    def shrink(self, case):
        return pull.shrink_c13(case)

    def nontrivial(self, case, res):
        if not isinstance(res, dict):
            return True
        if case["mode"] == "inc":
            return any(isinstance(x[2], list) for x in res.get("trace", []))
        return any(t["rows"] for t in res.get("ticks", []))

    def distribution(self, cases, results):
        return pull.dist_c13(cases, results)


def main(ctx):
    spec = C13()
    spec.ctx = ctx
    vlib.standard_check(ctx, spec)
