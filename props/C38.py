"""C38 Simulator runs replay deterministically (engine E9 Sim)."""
import copy
import glob
import json
import os

from props import sim_e2e
from props.C36 import SimSpec
from tools import sim, vlib

EXPLANATION = (
    "Implementation log = model log on every explored instance, and the model is a function of (hook states, map iteration "
    "order, decision values) (definitional). What is checked on every run: each corpus simulation "
    "instance (a tick's hook list driven over several rounds of input through the real run_hooks, corpus/C38/*.json) is "
    "executed with random decision inputs twice in one process and once in a fresh process; the complete logs (decisions "
    "actually consumed, simulator decision-log text, released items, remaining queues, hash-map iteration orders, "
    "panics) of the three runs must be identical AND every component, including the decision-log text, must equal the Coq "
    "model's (Sim/Log.v run_log) - also for the byte-driven instances, whose driver is wrapped to record the values it returns. "
    "Two drivers are used: the scripted/seeded driver (comparable with the model) and bolero's real byte-slice driver "
    "fed random bytes (the driver fuzz_repro uses). Coq theorems proved (Props/C38.v): scheduling predicates "
    "(can_run, readiness) do not depend on the keyed maps' iteration order; a witness shows decision outcomes DO, i.e. "
    "replay relies on FxHash/hashbrown iteration being deterministic, which is not modelled. Compiled end-to-end "
    "simulations: small Hydro programs compiled by the real pipeline are replayed with CompiledSim::fuzz_repro on random "
    "decision bytes, twice in one process and once in a fresh process; decision log text and outputs must be identical, and "
    "the log's notes (per tick run) and the outcome must be those of some valid decision string of the model of the scheduler "
    "loop around run_hooks (Sim/E2ELog.v) - the decisions themselves are not observable inside fuzz_repro.")


class C38(SimSpec):
    prop_id = "C38"
    model_vo = ["theories/Sim/Run.vo", "theories/Sim/Log.vo", "theories/Sim/E2ELog.vo"]
    props_vo = "theories/Props/C38.vo"
    imports = ("From Coq Require Import List NArith String.\nFrom HV Require Import Sim.Model Sim.Run Sim.Log.\n"
               "Import ListNotations.")
    theorems = ["C38_can_run_oracle_independent", "C38_readiness_oracle_independent",
                "C38_run_ignores_unused_decisions", "C38_model_run_is_a_function"]
    level = "other"
    harness_shards = 2
    trusted_base = ["coqc 8.16.1 kernel", "Gallina model coq/theories/Sim/Model.v",
                    "harness h_sim (scripted driver; bolero ByteSliceDriver as in fuzz_repro); verif_run_hooks_logged hook"]
    assumptions = ["FxHashMap iteration order is deterministic for equal insertion histories (observed, not modelled)",
                   "most instances are hook lists under run_hooks; a few compiled DFIR simulations (4 programs) are replayed too",
                   "the decision-log text is compared with colours disabled (NO_COLOR)"]
    rule = ("corpus instance (hook list + rounds of pushes) x random decision input (seeded scripted driver, or random bytes for "
            "the real byte-slice driver); each run twice in-process and once in a fresh process; non-trivial = at least one "
            "round released an item")

    def programs(self):
        out = []
        for f in sorted(glob.glob(os.path.join(vlib.ROOT, "corpus", "C38", "*.json"))):
            out.append(json.load(open(f)))
        return out

    def gen(self, rng, tier, n):
        cases = []
        progs = self.programs()
        per = max(2, n // max(1, len(progs)))
        for p in progs:
            for i in range(per):
                if i % 3 == 2:
                    nb = 4 + rng.below(60)
                    cases.append({"k": "bytes", "name": p["name"], "hooks": p["hooks"], "reps": 2,
                                  "rounds": [{"push": r["push"]} for r in p["rounds"]],
                                  "bytes": [rng.below(256) for _ in range(nb)]})
                else:
                    cases.append({"k": "tick", "name": p["name"], "hooks": p["hooks"], "reps": 2,
                                  "rounds": [{"push": r["push"], "ds": [], "seed": rng.next() >> 11}
                                             for r in p["rounds"]]})
        # the fresh-process runs: one separate harness process over the same case file
        fresh = vlib.run_harness(self.ctx, self.bin, cases, name="fresh")
        self.fresh = {vlib.case_hash(c): r for c, r in zip(cases, fresh)}
        return cases

    def n_cases(self, tier):
        return 120 if tier == "quick" else 1500

    def fresh_of(self, case):
        h = vlib.case_hash(case)
        if not hasattr(self, "fresh"):
            self.fresh = {}
        if h not in self.fresh:
            self.fresh[h] = vlib.run_harness(self.ctx, self.bin, [case], name="fresh1")[0]
        return self.fresh[h]

    def to_coq(self, case, res):
        runs = res.get("runs")
        fresh = self.fresh_of(case).get("runs")
        if not runs or not fresh:
            return 3
        logs = [json.dumps(r, sort_keys=True) for r in runs + fresh[:1]]
        replay_bad = 0 if all(l == logs[0] for l in logs) else 2
        # every component of the implementation's log (incl. the decision-log text) against the
        # model's, for the scripted driver and for the recorded decisions of the real byte driver
        inner = {k: v for k, v in case.items() if k != "reps"}
        t = sim.log_term(inner, runs[0])
        if isinstance(t, int):
            return t | replay_bad
        return "(%s + %d)" % (t, replay_bad)

    def shrink(self, case):
        for i in range(len(case["rounds"]) - 1, 0, -1):
            d = copy.deepcopy(case)
            del d["rounds"][i:]
            yield d

    def nontrivial(self, case, res):
        for run in res.get("runs", [])[:1]:
            for r in run.get("rounds", []):
                if any(r.get("emitted") or []):
                    return True
        return False

    def describe(self, case, res):
        return {"case": case, "first_run": (res.get("runs") or [None])[0]}

    def distribution(self, cases, results):
        d = {"by_driver": {}, "by_program": {}, "rounds_executed": {}, "panics": 0, "decisions_consumed": {}}
        for c, r in zip(cases, results):
            d["by_driver"][c["k"]] = d["by_driver"].get(c["k"], 0) + 1
            d["by_program"][c.get("name", "?")] = d["by_program"].get(c.get("name", "?"), 0) + 1
            run = (r.get("runs") or [{}])[0]
            rs = run.get("rounds", [])
            d["rounds_executed"][str(len(rs))] = d["rounds_executed"].get(str(len(rs)), 0) + 1
            d["panics"] += sum(1 for x in rs if "panic" in x or "outer_panic" in x)
            n = sum(len(x.get("ds_used", [])) for x in rs)
            b = "0" if n == 0 else "1-4" if n <= 4 else "5-16" if n <= 16 else ">16"
            d["decisions_consumed"][b] = d["decisions_consumed"].get(b, 0) + 1
        return d


def main(ctx):
    spec = C38()
    spec.ctx = ctx
    orig = vlib.finish

    def fin(c, level, coverage, assumptions, extra=None):
        coverage["explanation"] = EXPLANATION
        if not c.replay:
            summary, bad = sim_e2e.run_replay(c, c.rng.fork())
            coverage.update(summary)
            for case, res, v in bad[:2]:
                path = vlib.write_replay(c, {"property": c.prop, "kind": "compiled simulation replay differs",
                                             "case": case, "impl": res, "verdict": v})
                c.violations.append((path, "" if v & 2 else "no-failing-input-found"))
        return orig(c, level, coverage, assumptions, extra)

    vlib.finish = fin
    vlib.standard_check(ctx, spec)
