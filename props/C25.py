"""C25 References read settled state and run in declaration order (engine E7 Dfir)."""
from tools import dfir, vlib


class C25(dfir.DfirSpec):
    tag = "C25"
    props_vo = "theories/Props/C25.vo"
    theorems = ["C25_frame", "C25_settled_reads", "C25_slot_semantics", "C25_real_schedule", "C25_loop_schedule", "C25_settled_loop_schedule"]
    modes = ("ticks", "avail")
    level = "other"
    explanation = "Not category proof: that the partitioner ALWAYS produces a schedule with the producer before every referrer, access groups in order, referrers before the pipe consumer (clause 6 of engine E6's WellFormed) is E6's open item (C18 is translation validation); here the clause is an executable check (ModelRefs.chain_ok, frame part proved sound) evaluated on the real schedule of every loop-free C25 program on every run, and C25_real_schedule states settled reads on any schedule that passes it. For programs with loop blocks (references crossing a loop boundary) the same check runs on the blocks in program order descending into the loop gates (refs_ordered_l, C25_loop_schedule: blocks that do not use the slot leave it alone); and the settled-reads equation holds at instruction granularity for schedules with loop blocks (C25_settled_loop_schedule: after an instruction that uses the slot -- a block or a whole loop -- instructions passing the executable frame test leave it as it was, whatever their gates do). Closures with more than one reference and hydro_lang::handoff_ref are not modelled."
    assumptions = [
        "block order and subgraph membership come from the real partitioner via meta_graph(); the ordering guarantee "
        "itself is property C17/C18 (engine E6)",
        "reference closures restricted to a vocabulary with one #reference each (mutating mix, read pair, read "
        "filter, Optional read / write); a panic of the generated code is observed as the harness's caught panic",
        "within a block operators are applied to complete per-tick lists; a mutating closure is alone in its access "
        "group (the compiler rejects anything else), so item interleaving inside a block cannot be observed",
    ]
    rule = ("slot program (fold/reduce/raw source into singleton()/optional(); 2-4 access groups #{0}..#{3} of "
            "mutating and reading closures, written in group order or reversed; shared groups; producer behind a "
            "handoff) x random history (raw singleton: 0-2 items per tick so that both panics occur); "
            "non-trivial = some tick has input and (a sink recorded output or the run panicked)")

    def n_cases(self, tier):
        return 420 if tier == "quick" else 4200

    def gen(self, rng, tier, n):
        cases = dfir.DfirSpec.gen(self, rng, tier, n)
        for c in cases:
            p = dfir.catalogue()[c["prog"]]
            if getattr(p, "c25", {}).get("raw"):
                for step in c["hist"]:
                    k = rng.below(10)
                    step[0] = step[0][: (1 if k < 7 else (0 if k < 8 else 2))] or ([] if k == 7 else [rng.below(5)])
        return cases

    def failed(self, res):
        return any(k in res for k in ("hang", "crash", "garbled", "bad_case"))

    def nontrivial(self, case, res):
        if "panic" in res:
            return True
        if self.failed(res):
            return True
        return any(items for step in case["hist"] for items in step) and any(res["outs"])

    def to_coq(self, case, res):
        if self.failed(res):
            return 3
        p = dfir.catalogue()[case["prog"]]
        d = p.c25
        groups = "[" + "; ".join("(%d%%nat, %d%%nat, %s)" % (sink, src, dfir.coqfn(fn)) for sink, src, fn in d["groups"]) + "]"
        desc = "{| c_prod := %s; c_groups := %s; c_consumer := %s; c_vec := %s |}" % (
            d["prod"], groups, "None" if d["consumer"] is None else "(Some %d%%nat)" % d["consumer"],
            "true" if d.get("vec") else "false")
        panic = "panic" in res
        outs = [] if panic else res["outs"]
        obs = [] if panic else res["obs"]
        lo = self.low[case["prog"]]
        slots = sorted(set(h for _, _, h in lo.ref_groups))
        groups = "[" + "; ".join("(%d, %d)" % (n, g) for n, g, _ in lo.ref_groups) + "]"
        fn = "refs_ordered_l" if lo.loops else "refs_ordered"   # loop blocks: flattened block order
        sched = " && ".join("%s prog_%d %s %d" % (fn, case["prog"], groups, h) for h in slots) or "true"
        return dfir.guard(case["prog"], "vand (" + sched + ") (c25_chk %s prog_%d %s %s %s %s %s %s" % (
            "true" if case["mode"] == "avail" else "false", case["prog"], desc, dfir.g_bools(p.sinks),
            dfir.g_hist(case["hist"]), "true" if panic else "false", dfir.g_outs(outs),
            "[" + "; ".join(str(x) for x in obs) + "]") + ")")

    def distribution(self, cases, results):
        d = dfir.DfirSpec.distribution(self, cases, results)
        d["impl_panics"] = {}
        for c, r in zip(cases, results):
            if "panic" in r:
                k = r["panic"][:60]
                d["impl_panics"][k] = d["impl_panics"].get(k, 0) + 1
        return d


def main(ctx):
    dfir.run_plugin(ctx, C25())
