"""C29 Ordered and keyed streams keep their promised order (engine E8 Hydro)."""
from props.C28 import C28
from tools import hydro


class C29(C28):
    props_vo = "theories/Props/C29.vo"
    theorems = ["C29_total_order_modelled_ir", "C29_enumerate_static_tickinv", "C29_keyed_fold_per_key", "C29_keyed_reduce_per_key",
                "C29_interleaving_invariant_fold", "C29_interleaving_invariant_reduce",
                "C29_keyed_tick_partition_modelled_ir", "C29_proj_concat",
                "C29_repaired_typing_oracle_independent", "C29_sort_order_independent"]
    imports = "From HV Require Import Hydro.Model Hydro.ModelTick Hydro.ModelFlows."
    fn = "chk29"
    prop = "C29"
    rule = ("ordered / keyed corpus flows: small inputs under ALL partitions into <= 3 (4) ticks, large inputs "
            "under random partitions; keyed flows additionally: fixed per-key sequences under random cross-key "
            "interleavings (per-key order kept) x random partitions; the executable property is sequence equality "
            "with the denotation (TotalOrder) / for every key, value = fold of that key's subsequence and no key "
            "twice (keyed); non-trivial = >= 2 ticks, >= 2 items and some output")

    def gen(self, rng, tier, n):
        fl = [f for f in self.flows() if not hydro.FLOWS[f].get("unordered")]
        keyed = [f for f in fl if hydro.FLOWS[f]["kind"] == "keyed"]
        return (hydro.corpus_cases("C29") + hydro.emit_cases(self.flows()) + hydro.gen_net_cases(rng, tier, "C29")
                + hydro.gen_unordered_cases(rng, tier, "t_join_half_unord")
                + hydro.gen_interleave_cases(rng, tier, keyed) + hydro.gen_partition_cases(rng, tier, fl))

    def to_coq(self, case, res):
        if hydro.FLOWS[case["flow"]].get("net"):
            return hydro.net_term(self.translate(), case, res)
        if hydro.FLOWS[case["flow"]].get("unordered"):
            tr = self.translate()
            flow = case["flow"]
            if case.get("k") == "syntax":
                return 1 if flow in tr.failed else hydro.emit_term_named(flow, tr.name(flow), res, fn="chk_bemit")
            if hydro.broken(res) or len(res["ticks"]) != len(case["ticks"]):
                return 3
            canon = dict(case, ticks=hydro.canonical_ticks(case))
            term = "(chk29_perm %s %s %s %s)" % (tr.name(flow), hydro.g_ticks(case), hydro.g_ticks(canon),
                                                 hydro.g_impl(res))
            return tr.wrap(flow, case, term)
        return super().to_coq(case, res)

    def extra(self):
        e = super().extra()
        e["explanation"] = ("Coq theorems (Props/C29.v): TotalOrder nodes of the modelled IR emit exactly the denoted "
                            "sequence under every tick partition; keyed fold/reduce give every key the fold of its own "
                            "subsequence (proj), hence are invariant under cross-key interleavings (proj_interleave) and "
                            "tick partitions. Tied to the code by running the ordered/keyed corpus flows through the "
                            "production embedded builder under partitions x interleavings. Modelled IR subset only: %d of %d "
                            "HydroNode variants; per-key ordering of network-merged keyed streams is not modelled."
                            % (e["ir_coverage"]["modelled"], e["ir_coverage"]["hydro_node_variants"]))
        return e


def main(ctx):
    spec = C29()
    spec.ctx = ctx
    hydro.run_standard(ctx, spec, spec.extra)
