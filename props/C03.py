"""C03 Lattice comparisons, bottom and top agree with merge (engine E1)."""
from props.C01 import C01
from props.C04 import HetMixin
from tools import lat, vlib


def naive(ab, ba):
    return {(True, True): None, (True, False): "Lt", (False, True): "Gt", (False, False): "Eq"}[(ab, ba)]


def one_point(t):
    """the value lattice has a single lattice value (every value is bottom): unit and
    products / WithBot of such"""
    t = lat.norm(t)
    if t[0] == "Unit":
        return True
    if t[0] == "Bot":
        return one_point(t[1])
    if t[0] in ("Pair", "Dom"):
        return one_point(t[1]) and one_point(t[2])
    if t[0] == "Map":
        return one_point(t[2])
    return False


def degenerate_under(t):
    """some WithBot / MapUnion inside t sits over a one-point lattice"""
    t = lat.norm(t)
    h = t[0]
    if h == "Bot":
        return one_point(t[1]) or degenerate_under(t[1])
    if h == "Map":
        return one_point(t[2]) or degenerate_under(t[2])
    if h in ("Top", "Vec"):
        return degenerate_under(t[1])
    if h in ("Pair", "Dom"):
        return degenerate_under(t[1]) or degenerate_under(t[2])
    return False


class C03(HetMixin, C01):
    props_vo = "theories/Props/C03.vo"
    theorems = ["C03_order", "C03_eq_equiv", "C03_top", "C03_top_degenerate_refuted"]
    points = False
    pred = "C03_holds_b"
    model_vo = ["theories/Lattice/Het.vo"]
    imports = "From HV Require Import Lattice.Het."
    rule = ("typed triples per registered Rust lattice type (as C01); partial_cmp both ways, eq, is_bot, is_top of "
            "a and b compared with the merge flags; non-trivial = not (a=b=c) and a comparison differs from Eq")

    def to_coq(self, case, res):
        if case["k"] == "het":
            return lat.het_term(case, res)
        return C01.to_coq(self, case, res)

    def finding_key(self, case, res):
        if "ab" not in res or case["k"] != "triple":
            return None
        t = lat.parse_type(case["ty"])
        opp = {None: None, "Lt": "Gt", "Gt": "Lt", "Eq": "Eq"}
        others_ok = (res["cmp_ab"] == naive(res["ab"][1], res["ba"][1]) and res["cmp_ba"] == opp[res["cmp_ab"]]
                     and res["eq_ab"] == (res["cmp_ab"] == "Eq")
                     and (not res["bot_a"] or res["cmp_ab"] in ("Lt", "Eq"))
                     and (not res["top_a"] or res["cmp_ba"] in ("Lt", "Eq"))
                     and (not res["eq_ab"] or res["bot_a"] == res["bot_b"]))
        # equal values disagree on is_top only because None / an empty map over a one-point
        # value lattice is a greatest element that is_top does not report
        if others_ok and res["eq_ab"] and res["top_a"] != res["top_b"] and degenerate_under(t):
            return "is_top/one-point-inner"
        return None


def main(ctx):
    spec = C03()
    spec.ctx = ctx
    vlib.standard_check(ctx, spec)
