"""C16 Unsync channels are FIFO, lossless and never strand a sender (engine Chan)."""
from tools import chan, vlib

# the three stale-waker findings (two outstanding sends / re-polled send / dropped woken sender)
# were repaired by /repo commit 904d17adb85 and are no longer matched: a stranded sender is a
# VIOLATION again
# the close_this_sender finding was repaired by /repo commit fdb5498e919: no key is matched any more


class C16(vlib.Spec):
    model_vo = ["theories/Chan/ModelMpscChk.vo"]  # definitions only: runs even if a proof breaks
    props_vo = "theories/Props/C16.vo"
    theorems = ["C16_fifo_exactly_once", "C16_history_faithful", "C16_closure_consistent", "C16_try_send_closure",
                "C16_no_strand", "C16_waiting_implies_runnable",
                "C16_no_rx_strand", "C16_holds_b_on_model", "C16_agree_implies_holds"]
    crate, group, binary = "h_chan", "dfir", "h_chan"
    imports = ("From Coq Require Import List NArith.\nImport ListNotations.\n"
               "From HV Require Import Chan.Base Chan.ModelMpsc Chan.ModelMpscChk.")
    level = "proof"
    trusted_base = ["coqc 8.16.1 kernel (vm_compute used for case evaluation and for the refutation witnesses)",
                    "hand-written Gallina model coq/theories/Chan/ModelMpsc.v of dfir_rs/src/util/unsync/mpsc.rs",
                    "correspondence harness harness/h_chan (manual executor, logging wakers) + tools/chan.py",
                    "the executor model: a task polls all outstanding futures of its stage in join order; "
                    "a woken task is eventually polled"]
    assumptions = ["model validated against dfir_rs::util::unsync::mpsc only on the generated label sequences",
                   "single-threaded (the type is !Send)",
                   "the Sink impl (other than close_this_sender, which poll_close calls) is not part of the label alphabet"]
    rule = ("label sequences (poll sender task / poll receiver / drop sender / close_this_sender / try_send / clone sender for a new task / cancel one send future / close / drop receiver) enabled "
            "in the model's executor policy, on 1-3 sender tasks with 1-3 stages of 1-2 outstanding sends, "
            "capacity 1, 2 or unbounded; non-trivial = at least one send returned Pending (full) and at "
            "least one waker fired; distinct by case hash")

    def gen(self, rng, tier, n):
        return chan.gen_mpsc(rng, tier, n)

    def n_cases(self, tier):
        return 1500 if tier == "quick" else 6000

    def to_coq(self, case, res):
        return chan.mpsc_term(case, res)

    def shrink(self, case):
        return chan.shrink_mpsc(case)

    def finding_key(self, case, res):
        return None  # no known finding left: every stranded state is a VIOLATION

    def nontrivial(self, case, res):
        obs = res.get("obs", [])
        return any("F" in o.get("s", []) for o in obs) and any(o.get("w") for o in obs)

    def describe(self, case, res):
        return {"case": case, "impl": res}

    def distribution(self, cases, results):
        return chan.mpsc_distribution(cases, results)


def main(ctx):
    spec = C16()
    spec.ctx = ctx
    vlib.standard_check(ctx, spec)
