"""C10 Variadic collections behave as sets and multisets of tuples (engine E2 Coll)."""
from tools import coll, vlib


class C10(vlib.Spec):
    model_vo = ["theories/Coll/ModelVC.vo", "theories/Coll/ModelVar.vo"]
    props_vo = "theories/Props/C10.vo"
    theorems = ["C10_history", "C10_spec_is_multiset", "C10_set_equality", "C10_counted_equality",
                "C10_duplicate_counted", "C10_holds_b_sound", "C10_variadic_tuple_ops", "C10_variadic_vec_ops",
                "C10_split_by_suffix_roundtrip"]
    crate, group, binary = "h_coll", "light", "h_coll"
    imports = "From HV Require Import Coll.ModelVC Coll.ModelVar."
    harness_shards = 4
    trusted_base = ["coqc 8.16.1 kernel (vm_compute used for case evaluation only)",
                    "hand-written Gallina model coq/theories/Coll/ModelVC.v (hashbrown's HashTable is modelled "
                    "as a correct table: association list + the row's own equality; reserve is a no-op)",
                    "correspondence harness harness/h_coll + tools/coll.py"]
    assumptions = ["model validated against the variadics crate only on the generated histories",
                   "hash iteration order abstracted: row lists are compared as multisets",
                   "u32 columns in the harness, unbounded N in the model; usize overflow of counts not modelled",
                   "deterministic hasher BuildHasherDefault<DefaultHasher> in the harness (RandomState in production)"]
    rule = ("operation histories (1-60 ops, plus mirrored-copy sequences) over two registers of one collection type "
            "(set / counted / column, arity 2-4, value domains 2..40): insert, extend (batches 0-64, mostly onto "
            "non-empty collections), contains, get, len, is_empty, iter, into_iter, drain, ==; the observation of every "
            "op is compared with the Coq model and with the abstract multiset; non-trivial = at least one mutation and "
            "one observation; distinct = distinct case JSON; plus cases for the tuple-list operations of variadics/src/lib.rs "
            "(extend, reverse, LEN, Split / SplitBySuffix at every length, HomogenousVariadic get/into_iter, into_option, "
            "eq/eq_ref, VecVariadic push/zip_vecs/get/drain) on u32 variadics of arity 1-4")

    def gen(self, rng, tier, n):
        return coll.gen_c10(rng, tier, n)

    def n_cases(self, tier):
        return 320 if tier == "quick" else 4000

    def to_coq(self, case, res):
        return coll.c10_term(case, res)

    def shrink(self, case):
        return coll.shrink_vc(case) if case.get("k") == "vc" else []

    def finding_key(self, case, res):
        return coll.vc_finding_key(case, res)

    def nontrivial(self, case, res):
        return coll.vc_nontrivial(case, res) if case.get("k") == "vc" else True

    def describe(self, case, res):
        c = dict(case)
        if c.get("k") != "vc":
            return {"case": c, "impl": res}
        if len(c["ops"]) > 12:
            c = dict(c, ops=c["ops"][:12], ops_truncated_from=len(case["ops"]))
        r = res if "ans" not in res else {"ans": res["ans"][:12]}
        return {"case": c, "impl": r}

    def distribution(self, cases, results):
        return coll.c10_distribution(cases, results)


def main(ctx):
    spec = C10()
    spec.ctx = ctx
    vlib.standard_check(ctx, spec)
