"""C21 DFIR operators compute their documented per-tick results (engine E7 Dfir)."""
from tools import dfir, vlib


class C21(dfir.DfirSpec):
    tag = "C21"
    props_vo = "theories/Props/C21.vo"
    theorems = ["C21_families", "C21_operators", "C21_meaning"]
    level = "proof"
    assumptions = [
        "operator models are list-level transcriptions of write_fn/prologue/tick_end (the pull and push "
        "realisations compute the same list function; the poll protocol itself is property C11-C13)",
        "hash-table iteration order abstracted: outputs of join/cross_join/fold_keyed/reduce_keyed/union/"
        "sort_by_key are compared as multisets, all others as sequences",
        "closures restricted to a fixed total vocabulary in the correspondence check (theorems hold for all closures)",
        "not modelled (external effects or async completion order): source_file, source_stdin, source_json, "
        "source_interval, dest_sink*, dest_file, resolve_futures*, *_stream_blocking, scan_async_blocking; "
        "not yet modelled: "
        "join_fused*, lattice_*, state/state_by, defer_signal",
    ]
    rule = ("catalogue program (one operator x persistence choice between source_stream sources and for_each sinks) "
            "x random per-tick history (1-6 ticks, 0-8 items per source and tick, key domain 2-9); "
            "non-trivial = some tick has input and some sink recorded output")

    def n_cases(self, tier):
        return 1100 if tier == "quick" else 9000

    def to_coq(self, case, res):
        if self.failed(res):
            return 3
        p = dfir.catalogue()[case["prog"]]
        return dfir.guard(case["prog"], "c21_chk prog_%d (%s) %s %s %s %s" % (
            case["prog"], p.spec, dfir.g_bools(p.sinks), dfir.g_hist(case["hist"]),
            dfir.g_outs(res["outs"]), "[" + "; ".join(str(x) for x in res["obs"]) + "]"))


def main(ctx):
    dfir.run_plugin(ctx, C21())
