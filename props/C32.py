"""C32 Library-internal order and retry assumptions are justified (engine E8 Hydro)."""
from props.C30 import C30
from tools import hydro, vlib


class C32(C30):
    props_vo = "theories/Props/C32.vo"
    theorems = ["C32_max", "C32_min", "C32_extremum_any_ord", "C32_count", "C32_first", "C32_last",
                "C32_is_empty", "C32_value_counts", "C32_weaken",
                "C32_keyed_singleton_invariant_fold", "C32_keyed_singleton_invariant_reduce",
                "C32_into_singleton", "C32_get_max_key", "C32_repeat_with_keys"]
    prop = "C32"
    rule = ("per C32 flow (operator behind a trusted call site, input cast to the weakest type it accepts): base "
            "batches of <= 5 items; ALL permutations (ordering sites; sampled to 40 in the quick tier when > 40), random "
            "set-preserving duplications + shuffles (NoOrder+AtLeastOnce), random in-place stutterings "
            "(TotalOrder+AtLeastOnce); the result must equal the specification on the BASE batch; + all cuts of the "
            "base into <= 2 ticks; + the scanned call-site list vs the modelled table; non-trivial = >= 2 items")
    assumptions = ["duplication model: NoOrder+AtLeastOnce = any list with the same set of elements; TotalOrder+AtLeastOnce = "
                   "stuttering (in-place repetition); arbitrary late re-delivery on an ordered stream is outside the model "
                   "(Example C32_last_needs_stutter shows `last` would not be invariant under it)",
                   "4 call sites (repeat_with_keys, into_singleton x2, get_max_key) are proved under the keyed-singleton invariant "
                   "(distinct keys), itself proved for the emitted keyed fold / reduce states; other producers of keyed singletons "
                   "(e.g. cast_at_most_one_entry_per_key) are not modelled",
                   "the hash iteration order of keyed singletons cannot be controlled by the harness",
                   "only call sites inside hydro_lang/src/live_collections/** are scanned; user-level `manual_proof!` obligations are "
                   "outside this property's list -- e.g. (observation by the Proto engine, C40) the keyed fold in hydro_test paxos "
                   "`recommit_after_leader_election` is annotated `commutative = manual_proof!(/** TODO */)` and is order dependent "
                   "when more than f+1 logs arrive: nothing here checks such application-level proofs"]

    def flows(self):
        return [f for f in hydro.PERTURB]

    def gen(self, rng, tier, n):
        self.translate()
        fl = self.flows()
        return hydro.corpus_cases("C32") + hydro.emit_cases(fl) + hydro.gen_trusted_cases(rng, tier, fl)

    def to_coq(self, case, res):
        flow = case["flow"]
        if case.get("k") == "syntax":
            if flow in hydro.HAND_ONLY_C32:
                return 0  # per-batch function flows: no emission table entry
            if flow == "u_is_empty":
                if not isinstance(res, dict) or "syntax" not in res:
                    return 1
                return "(chk_toks u_is_empty_emit [%s])" % "; ".join(
                    vlib.g_string(t) + "%string" for t in hydro.op_tokens(res["syntax"]))
            tr = self.translate()
            return 1 if flow in tr.failed else hydro.emit_term_named(flow, tr.name(flow), res, fn="chk_bemit")
        if hydro.broken(res) or len(res["ticks"]) != len(case["ticks"]):
            return 3
        base = dict(case, ticks=case["base"])
        if flow == "u_is_empty":
            return "(chk_fun u_is_empty_fun %s %s %s)" % (hydro.g_ticks(case), hydro.g_ticks(base), hydro.g_impl(res))
        if flow == "u_into_singleton":
            impl = "[" + "; ".join("[" + "; ".join(hydro.g_vec(v) for v in t["out"]) + "]" for t in res["ticks"]) + "]"
            return "(chk_fun u_into_singleton_fun %s %s %s)" % (hydro.g_ticks(case), hydro.g_ticks(base), impl)
        if flow == "u_repeat_with_keys":
            return "(chk_fun2 false u_repeat_fun %s %s)" % (hydro.g_ticks(case), hydro.g_impl(res))
        tr = self.translate()
        term = "(chk29_perm %s %s %s %s)" % (tr.name(flow), hydro.g_ticks(case), hydro.g_ticks(base), hydro.g_impl(res))
        return tr.wrap(flow, case, term)

    def shrink(self, case):
        return []

    def nontrivial(self, case, res):
        return "ticks" not in case or sum(len(t.get("a", [])) for t in case["ticks"]) >= 2

    def extra(self):
        e = super().extra()
        rows, problems = hydro.trusted_check()
        self.site_problems = problems
        by = {}
        for r in rows:
            by[r["status"]] = by.get(r["status"], 0) + 1
        e["trusted_call_sites"] = rows
        e["trusted_call_sites_by_status"] = by
        e["trusted_call_site_problems"] = problems
        e["explanation"] = ("Coq theorems (Props/C32.v) justify %d of the %d scanned assume_*_trusted call sites "
                            "(invariance of the operator's list function under every permutation / admissible duplication); "
                            "%d are type-level no-ops or forwarding helpers, %d are listed but NOT proved (distinct-keys invariant), "
                            "%d are test code. The call-site list is regenerated from hydro_lang/src/live_collections/** on every run; "
                            "an unmodelled site fails the check. Correspondence: 10 flows through the production embedded builder under "
                            "all permutations / duplications of <= 5 items." %
                            (by.get("proved", 0), len(rows), by.get("noop", 0) + by.get("forward", 0),
                             by.get("unproved", 0), by.get("test", 0)))
        return e


def main(ctx):
    spec = C32()
    spec.ctx = ctx
    rows, problems = hydro.trusted_check()
    if problems:
        # the modelled list no longer matches the source: report as a broken correspondence
        for p in problems:
            ctx.log("CALL-SITE-TABLE:", p)
        path = vlib.write_replay(ctx, {"property": "C32", "kind": "no-failing-input-found",
                                       "correspondence_failures": problems})
        ctx.violations.append((path, "no-failing-input-found"))
    hydro.run_standard(ctx, spec, spec.extra)
