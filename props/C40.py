"""C40 Replicated log examples never diverge (engine E10 Proto) -- Raft part."""
import glob
import json
import os

from tools import proto, vlib


class C40(vlib.Spec):
    model_vo = ["theories/Proto/RaftNet.vo", "theories/Proto/PaxosCheck.vo"]
    props_vo = "theories/Props/C40.vo"
    theorems = ["C40_raft_term_monotone", "C40_raft_vote_once_per_term", "C40_raft_commit_monotone",
                "C40_raft_election_safety", "C40_raft_leader_append_only", "C40_raft_sms_partial", "C40_raft_log_wf",
                "C40_raft_committed_prefix_stable", "C40_raft_leader_commit_rule", "C40_raft_log_matching",
                "C40_raft_sms_from_leader_completeness", "C40_raft_vote_restriction", "C40_raft_log_terms_monotone",
                "C40_raft_lc_from_vote_invariant", "C40_raft_invariants_step", "C40_raft_invariants_reachable",
                "C40_raft_leader_completeness", "C40_raft_commit_sound", "C40_raft_sms_all",
                "C40_paxos_safety", "C40_paxos_recommit_obeys_pick", "C40_paxos_slot_reuse_refuted",
                "C40_paxos_acceptor_refines", "C40_paxos_proposer_refines_if_reconciled_once",
                "C40_paxos_leader_by_one_acceptor_refuted"]
    crate, group, binary = "h_raft", "hydro", "h_raft"
    imports = "From HV Require Import Proto.RaftNet.\nFrom HV Require Proto.PaxosCheck."
    level = "proof"
    trusted_base = ["coqc 8.16.1 kernel (vm_compute used for case evaluation only)",
                    "hand transcription of hydro_test/src/cluster/raft.rs raft_step into coq/theories/Proto/RaftModel.v",
                    "network transition system coq/theories/Proto/RaftNet.v (any delay/reorder/duplication/loss, fail-stop crash)",
                    "correspondence harness harness/h_raft + tools/proto.py"]
    assumptions = ["raft_step model validated against the real raft_step only on the generated (state,input) calls and cluster runs",
                   "the Hydro dataflow wiring around raft_step (raft_server: batching per tick, network demux) is not modelled; "
                   "the transition system lets a member consume any list of ever-sent messages per step",
                   "usize modelled as unbounded N; HashSet/HashMap compared after sorting",
                   "Paxos: safety (C40_paxos_safety) is proved for an ABSTRACT multi-Paxos transition system; tie to paxos.rs: "
                   "(a) the ACCEPTOR node and (b) the PROPOSER node of the whole paxos_core program are generated for their "
                   "locations by the production embedded code generator (unnamed network channels numbered) and driven tick by "
                   "tick with scripted message batches (bincode on the wire, paused tokio clock); the acceptor model is compared "
                   "on every run and proved to refine the abstract system (C40_paxos_acceptor_refines); the proposer's "
                   "sequencing model (recommit + index_payloads as wired) is compared on every run and does NOT refine it "
                   "(known findings); its leader decision (ballot calculation, p1b quorum via hydro_std quorum) is modelled "
                   "and compared on every run; election timers/heartbeat sending, p2b Err ballots and checkpoints are not "
                   "modelled; paxos_with_client.rs is not run"]
    rule = ("cluster cases: n in 3..5 members, decision-list schedules (election rounds, replication rounds, racing "
            "candidacies, partial FIFO/reordered/duplicated deliveries, crashes) executed with the REAL raft_step; "
            "step cases: arbitrary (partly ill-formed) states and message batches incl. panicking ones; "
            "non-trivial = cluster run that elected a leader and committed an entry, or a step with >=1 message/timer")
    explanation = (
        "Raft: State Machine Safety is PROVED IN FULL in Coq (C40_raft_sms_all: forall n, C40_raft_sms n) for all "
        "executions of the asynchronous fail-stop network model (any delay/reordering/duplication/loss, crashes, any "
        "timer firings and client requests) over the field-by-field transcription of raft_step, for every cluster size. "
        "Route: ghost-instrumented system (all messages ever sent, votes cast, elected pairs, per-term leader logs); "
        "Election Safety (quorum intersection), Log Matching, sorted/bounded log terms, the election restriction, "
        "persistence of acknowledged prefixes, the vote invariants V4/V3/VInvS, Leader Completeness "
        "(C40_raft_leader_completeness: what a majority holds in term t is in every later leader's log; strong "
        "induction over elected terms) and commit soundness (C40_raft_commit_sound); ten invariants preserved by every "
        "step (C40_raft_invariants_step). The round-2 formulation LCstar turned out stronger than what Raft guarantees "
        "and is not used. "
        "Every run additionally compares the real raft_step field by field with the model on generated calls and "
        "evaluates election safety / log matching / SMS on whole cluster runs executed with the real raft_step "
        "(this generator caught a seeded change that swapped the up-to-date comparison of the vote restriction). "
        "Paxos: abstract multi-Paxos safety (one value per slot) is proved (C40_paxos_safety, generalised p1b reports); "
        "the real ACCEPTOR node of paxos_core is driven with scripted batches, its model is proved to refine the abstract "
        "system (C40_paxos_acceptor_refines); the real PROPOSER node is driven too and VIOLATES the property after a "
        "leader change with non-empty logs (KNOWN FINDINGS px/slot-reuse-after-leader-change: two payloads proposed and "
        "reported decided for one slot; px/quorum-counts-replies-not-acceptors, px/p1b-quorum-counts-replies-not-acceptors: both "
        "quorums count replies, not distinct acceptors; C40_paxos_slot_reuse_refuted). So for Paxos the property is REFUTED "
        "on the shipped program, not proved. The proposed one-line repair of the sequencing is backed by "
        "C40_paxos_proposer_refines_if_reconciled_once but not applied (it changes the IR snapshot test paxos_ir). "
        "Not modelled: election timers, checkpoints; the Hydro dataflow wiring around raft_step.")

    def gen(self, rng, tier, n):
        cases = []
        for f in sorted(glob.glob(os.path.join(vlib.ROOT, "corpus", "C40", "*.json"))):
            cases.append(json.load(open(f)))
        ncl = n // 6
        for i in range(ncl):
            cases.append(proto.gen_cluster(rng, tier, small=(i % 10 == 9)))
        npx = n // 8
        while len(cases) < n - npx:
            cases.append(proto.gen_step(rng, tier))
        px = [proto.gen_px(rng, tier) for _ in range(npx)]
        self.px_batch = self.px_batch + [c for c in cases if c["k"].startswith("px_")] + px
        return cases + px

    # Paxos component cases run the real hydro_test functions compiled through the embedded code generator
    # (harness/h_paxos); built and run here, per case, also on replay.
    px_results = {}
    px_batch = []

    def px_bin(self):
        if not hasattr(self, "_px"):
            from tools import codec
            self._px, log = codec.cached_build("h_paxos", "hydro", "h_paxos")
            if self._px is None:
                self.ctx.log("h_paxos build failed:\n" + log[-2000:])
        return self._px

    def n_cases(self, tier):
        return 480 if tier == "quick" else 6000

    def to_coq(self, case, res):
        if case["k"].startswith("px_"):
            b = self.px_bin()
            if b is None:
                return 1
            h = vlib.case_hash(case)
            if h not in self.px_results and self.px_batch:
                # all generated Paxos cases in one harness process (its start-up dominates)
                batch, self.px_batch = self.px_batch, []
                rs = vlib.run_harness(self.ctx, b, [proto.px_harness_case(c) for c in batch], name="px", shards=4)
                for c, r in zip(batch, rs):
                    self.px_results[vlib.case_hash(c)] = r
            if h not in self.px_results:
                self.px_results[h] = vlib.run_harness(self.ctx, b, [proto.px_harness_case(case)], name="px")[0]
            return proto.px_term(case, self.px_results[h])
        return proto.raft_term(case, res)

    def finding_key(self, case, res):
        if case["k"].startswith("px_"):
            return proto.px_finding_key(case, self.px_results.get(vlib.case_hash(case)))
        return None

    def shrink(self, case):
        if case["k"].startswith("px_"):
            return []
        return proto.shrink_raft(case)

    def nontrivial(self, case, res):
        if case["k"] == "px_recommit":
            return any(l["entries"] for l in case["logs"])
        if case["k"] == "px_index":
            return any(t["payloads"] for t in case["ticks"])
        if case["k"] == "px_acc":
            return any(t["p2a"] for t in case["ticks"]) and any(t["p1a"] for t in case["ticks"])
        if case["k"] == "px_seq":
            return any(case["ticks"])
        if case["k"] == "px_prop":
            return True
        if case["k"] == "px_elect":
            return any(t["p1b"] for t in case["ticks"])
        if case["k"] == "cluster":
            st = proto.raft_stats(case, res)
            return bool(st["leaders"]) and st["commit"] > 0
        i = case["input"]
        return bool(i["msgs"]) or i["el"] or i["hb"]

    def describe(self, case, res):
        if case["k"].startswith("px_"):
            return {"kind": case["k"], "case": case, "impl": self.px_results.get(vlib.case_hash(case))}
        if case["k"] == "cluster":
            st = proto.raft_stats(case, res)
            return {"kind": "cluster", "n": case["n"], "mode": case["mode"], "sched": case["sched"][:12],
                    "sched_len": len(case["sched"]), "leaders": sorted(st["leaders"]), "max_commit": st["commit"],
                    "final": [t for t in res.get("trace", []) if "post" in t][-1:]}
        return {"kind": "step", "case": case, "impl": res}

    def distribution(self, cases, results):
        d = {"cluster_runs": 0, "step_calls": 0, "by_n": {}, "by_mode": {}, "runs_with_leader": 0,
             "runs_with_commit": 0, "runs_with_2plus_leaders": 0, "runs_with_truncation": 0, "cluster_steps": 0,
             "max_commit": 0, "max_log": 0, "cluster_panics": 0, "step_panics": 0, "msg_kinds": {}}
        for c, r in zip(cases, results):
            if c["k"].startswith("px_"):
                d[c["k"]] = d.get(c["k"], 0) + 1
                continue
            if c["k"] == "cluster":
                st = proto.raft_stats(c, r)
                d["cluster_runs"] += 1
                d["by_n"][str(c["n"])] = d["by_n"].get(str(c["n"]), 0) + 1
                d["by_mode"][c["mode"]] = d["by_mode"].get(c["mode"], 0) + 1
                d["runs_with_leader"] += bool(st["leaders"])
                d["runs_with_2plus_leaders"] += len(st["leaders"]) >= 2
                d["runs_with_commit"] += st["commit"] > 0
                d["runs_with_truncation"] += st["truncations"] > 0
                d["cluster_steps"] += st["steps"]
                d["max_commit"] = max(d["max_commit"], st["commit"])
                d["max_log"] = max(d["max_log"], st["maxlog"])
                d["cluster_panics"] += st["panics"]
                for t in r.get("trace", []):
                    for _, m in t.get("input", {}).get("msgs", []):
                        d["msg_kinds"][m["t"]] = d["msg_kinds"].get(m["t"], 0) + 1
            else:
                d["step_calls"] += 1
                d["step_panics"] += "panic" in r
                for _, m in c["input"]["msgs"]:
                    d["msg_kinds"][m["t"]] = d["msg_kinds"].get(m["t"], 0) + 1
        return d


def main(ctx):
    spec = C40()
    spec.ctx = ctx
    vlib.standard_check(ctx, spec)
