//! Correspondence harness for the lattice engine (E1): runs the real `lattices` crate on
//! JSON cases and prints the observation the Coq model is compared with.
//!
//! Case kinds:
//!   {"k":"triple","ty":NAME,"a":V,"b":V,"c":V}  -> the `obs` record of Lattice/Univ.v
//!   {"k":"types"}                                 -> the registered type names
//! Values: unit = null; Max/Min = number; Set = sorted array; Map = sorted array of [k,v];
//! WithBot/WithTop/Conflict = null | [v]; Pair/DomPair = [a,b]; Vec = array.
use std::collections::{BTreeMap, BTreeSet, HashMap, HashSet};

use hvcommon::{Value, guarded, json};
use lattices::collections::{ArrayMap, ArraySet, OptionMap, OptionSet, SingletonMap, SingletonSet, VecMap};
use lattices::map_union::MapUnion;
use lattices::set_union::SetUnion;
use lattices::{
    Conflict, DomPair, IsBot, IsTop, Lattice, LatticeFrom, Max, Merge, Min, Pair, VecUnion, WithBot, WithTop,
};

type K = u16;

pub trait Canon: Sized {
    fn name() -> String;
    fn to_json(&self) -> Value;
    fn from_json(v: &Value) -> Self;
}

fn num(v: &Value) -> u64 {
    v.as_u64().expect("number")
}

macro_rules! scalar {
    ($t:ty, $n:expr, $conv:expr, $back:expr) => {
        impl Canon for Max<$t> {
            fn name() -> String {
                format!("(Max {})", $n)
            }
            fn to_json(&self) -> Value {
                json!($back(*self.as_reveal_ref()))
            }
            fn from_json(v: &Value) -> Self {
                Max::new($conv(num(v)))
            }
        }
        impl Canon for Min<$t> {
            fn name() -> String {
                format!("(Min {})", $n)
            }
            fn to_json(&self) -> Value {
                json!($back(*self.as_reveal_ref()))
            }
            fn from_json(v: &Value) -> Self {
                Min::new($conv(num(v)))
            }
        }
    };
}
scalar!(u8, "u8", |n| n as u8, |x| x as u64);
scalar!(u64, "unb", |n| n, |x: u64| x);
scalar!(bool, "bool", |n| n != 0, |x| x as u64);

impl Canon for () {
    fn name() -> String {
        "Unit".into()
    }
    fn to_json(&self) -> Value {
        Value::Null
    }
    fn from_json(_: &Value) -> Self {}
}

// ---- set representations
pub trait SetRepr: Sized {
    fn rname() -> String;
    fn items(&self) -> Vec<K>;
    fn build(items: Vec<K>) -> Self;
}
impl SetRepr for HashSet<K> {
    fn rname() -> String {
        "Hash".into()
    }
    fn items(&self) -> Vec<K> {
        self.iter().copied().collect()
    }
    fn build(items: Vec<K>) -> Self {
        items.into_iter().collect()
    }
}
impl SetRepr for BTreeSet<K> {
    fn rname() -> String {
        "BTree".into()
    }
    fn items(&self) -> Vec<K> {
        self.iter().copied().collect()
    }
    fn build(items: Vec<K>) -> Self {
        items.into_iter().collect()
    }
}
impl SetRepr for SingletonSet<K> {
    fn rname() -> String {
        "Singleton".into()
    }
    fn items(&self) -> Vec<K> {
        vec![self.0]
    }
    fn build(items: Vec<K>) -> Self {
        assert_eq!(items.len(), 1);
        SingletonSet(items[0])
    }
}
impl SetRepr for OptionSet<K> {
    fn rname() -> String {
        "Option".into()
    }
    fn items(&self) -> Vec<K> {
        self.0.iter().copied().collect()
    }
    fn build(items: Vec<K>) -> Self {
        assert!(items.len() <= 1);
        OptionSet(items.first().copied())
    }
}
impl<const N: usize> SetRepr for ArraySet<K, N> {
    fn rname() -> String {
        format!("Array{}", N)
    }
    fn items(&self) -> Vec<K> {
        self.0.to_vec()
    }
    fn build(items: Vec<K>) -> Self {
        ArraySet(items.try_into().expect("array length"))
    }
}
impl<S: SetRepr> Canon for SetUnion<S> {
    fn name() -> String {
        format!("(Set {})", S::rname())
    }
    fn to_json(&self) -> Value {
        let mut v = self.as_reveal_ref().items();
        v.sort();
        json!(v)
    }
    fn from_json(v: &Value) -> Self {
        SetUnion::new(S::build(v.as_array().unwrap().iter().map(|x| num(x) as K).collect()))
    }
}

// ---- map representations
pub trait MapRepr<V>: Sized {
    fn rname() -> String;
    fn entries(&self) -> Vec<(K, &V)>;
    fn build(items: Vec<(K, V)>) -> Self;
}
impl<V> MapRepr<V> for HashMap<K, V> {
    fn rname() -> String {
        "Hash".into()
    }
    fn entries(&self) -> Vec<(K, &V)> {
        self.iter().map(|(k, v)| (*k, v)).collect()
    }
    fn build(items: Vec<(K, V)>) -> Self {
        items.into_iter().collect()
    }
}
impl<V> MapRepr<V> for BTreeMap<K, V> {
    fn rname() -> String {
        "BTree".into()
    }
    fn entries(&self) -> Vec<(K, &V)> {
        self.iter().map(|(k, v)| (*k, v)).collect()
    }
    fn build(items: Vec<(K, V)>) -> Self {
        items.into_iter().collect()
    }
}
impl<V> MapRepr<V> for VecMap<K, V> {
    fn rname() -> String {
        "Vec".into()
    }
    fn entries(&self) -> Vec<(K, &V)> {
        self.keys.iter().copied().zip(self.vals.iter()).collect()
    }
    fn build(items: Vec<(K, V)>) -> Self {
        let (k, v) = items.into_iter().unzip();
        VecMap::new(k, v)
    }
}
impl<V> MapRepr<V> for SingletonMap<K, V> {
    fn rname() -> String {
        "Singleton".into()
    }
    fn entries(&self) -> Vec<(K, &V)> {
        vec![(self.0, &self.1)]
    }
    fn build(items: Vec<(K, V)>) -> Self {
        assert_eq!(items.len(), 1);
        let (k, v) = items.into_iter().next().unwrap();
        SingletonMap(k, v)
    }
}
impl<V> MapRepr<V> for OptionMap<K, V> {
    fn rname() -> String {
        "Option".into()
    }
    fn entries(&self) -> Vec<(K, &V)> {
        self.0.iter().map(|(k, v)| (*k, v)).collect()
    }
    fn build(items: Vec<(K, V)>) -> Self {
        assert!(items.len() <= 1);
        OptionMap(items.into_iter().next())
    }
}
impl<V, const N: usize> MapRepr<V> for ArrayMap<K, V, N> {
    fn rname() -> String {
        format!("Array{}", N)
    }
    fn entries(&self) -> Vec<(K, &V)> {
        self.keys.iter().copied().zip(self.vals.iter()).collect()
    }
    fn build(items: Vec<(K, V)>) -> Self {
        let (k, v): (Vec<K>, Vec<V>) = items.into_iter().unzip();
        ArrayMap { keys: k.try_into().ok().expect("array length"), vals: v.try_into().ok().expect("array length") }
    }
}
pub struct MapOf<M, V>(std::marker::PhantomData<(M, V)>);
impl<M: MapRepr<V>, V: Canon> Canon for MapUnion<M>
where
    M: MapValue<Val = V>,
{
    fn name() -> String {
        format!("(Map {} {})", M::rname(), V::name())
    }
    fn to_json(&self) -> Value {
        let mut e = self.as_reveal_ref().entries();
        e.sort_by_key(|(k, _)| *k);
        Value::Array(e.into_iter().map(|(k, v)| json!([k, v.to_json()])).collect())
    }
    fn from_json(v: &Value) -> Self {
        MapUnion::new(M::build(
            v.as_array()
                .unwrap()
                .iter()
                .map(|kv| (num(&kv[0]) as K, V::from_json(&kv[1])))
                .collect(),
        ))
    }
}
/// ties a map representation to its value type (so `MapUnion<M>: Canon` is unambiguous)
pub trait MapValue {
    type Val;
}
impl<V> MapValue for HashMap<K, V> {
    type Val = V;
}
impl<V> MapValue for BTreeMap<K, V> {
    type Val = V;
}
impl<V> MapValue for VecMap<K, V> {
    type Val = V;
}
impl<V> MapValue for SingletonMap<K, V> {
    type Val = V;
}
impl<V> MapValue for OptionMap<K, V> {
    type Val = V;
}
impl<V, const N: usize> MapValue for ArrayMap<K, V, N> {
    type Val = V;
}

fn opt_to_json<T: Canon>(o: Option<&T>) -> Value {
    match o {
        None => Value::Null,
        Some(x) => json!([x.to_json()]),
    }
}
fn opt_from_json<T: Canon>(v: &Value) -> Option<T> {
    if v.is_null() { None } else { Some(T::from_json(&v[0])) }
}
impl<T: Canon> Canon for WithBot<T> {
    fn name() -> String {
        format!("(Bot {})", T::name())
    }
    fn to_json(&self) -> Value {
        opt_to_json(self.as_reveal_ref())
    }
    fn from_json(v: &Value) -> Self {
        WithBot::new(opt_from_json(v))
    }
}
impl<T: Canon> Canon for WithTop<T> {
    fn name() -> String {
        format!("(Top {})", T::name())
    }
    fn to_json(&self) -> Value {
        opt_to_json(self.as_reveal_ref())
    }
    fn from_json(v: &Value) -> Self {
        WithTop::new(opt_from_json(v))
    }
}
impl Canon for Conflict<K> {
    fn name() -> String {
        "Conflict".into()
    }
    fn to_json(&self) -> Value {
        match self.as_reveal_ref() {
            None => Value::Null,
            Some(x) => json!([x]),
        }
    }
    fn from_json(v: &Value) -> Self {
        Conflict::new(if v.is_null() { None } else { Some(num(&v[0]) as K) })
    }
}
impl<A: Canon, B: Canon> Canon for Pair<A, B> {
    fn name() -> String {
        format!("(Pair {} {})", A::name(), B::name())
    }
    fn to_json(&self) -> Value {
        json!([self.a.to_json(), self.b.to_json()])
    }
    fn from_json(v: &Value) -> Self {
        Pair::new(A::from_json(&v[0]), B::from_json(&v[1]))
    }
}
impl<A: Canon, B: Canon> Canon for DomPair<A, B> {
    fn name() -> String {
        format!("(Dom {} {})", A::name(), B::name())
    }
    fn to_json(&self) -> Value {
        let (k, v) = self.as_reveal_ref();
        json!([k.to_json(), v.to_json()])
    }
    fn from_json(v: &Value) -> Self {
        DomPair::new(A::from_json(&v[0]), B::from_json(&v[1]))
    }
}
// ---- tombstone lattices and union-find (hash-backed; models Lattice/Tomb.v, Lattice/UF.v)
// values: SetTomb = [live, tomb]; MapTomb = [[[k, v]..], tomb]; UF = [[k, parent]..]
type STomb = lattices::set_union_with_tombstones::SetUnionWithTombstones<HashSet<K>, HashSet<K>>;
type MTomb<V> = lattices::map_union_with_tombstones::MapUnionWithTombstones<HashMap<K, V>, HashSet<K>>;
type UFH = lattices::union_find::UnionFindHashMap<K>;

fn sorted_keys(s: &HashSet<K>) -> Vec<K> {
    let mut v: Vec<K> = s.iter().copied().collect();
    v.sort();
    v
}
fn keys_from(v: &Value) -> HashSet<K> {
    v.as_array().unwrap().iter().map(|x| num(x) as K).collect()
}
impl Canon for STomb {
    fn name() -> String {
        "SetTomb".into()
    }
    fn to_json(&self) -> Value {
        let (s, t) = self.as_reveal_ref();
        json!([sorted_keys(s), sorted_keys(t)])
    }
    fn from_json(v: &Value) -> Self {
        STomb::new(keys_from(&v[0]), keys_from(&v[1]))
    }
}
impl<V: Canon> Canon for MTomb<V> {
    fn name() -> String {
        format!("(MapTomb {})", V::name())
    }
    fn to_json(&self) -> Value {
        let (m, t) = self.as_reveal_ref();
        let mut e: Vec<(K, &V)> = m.iter().map(|(k, v)| (*k, v)).collect();
        e.sort_by_key(|(k, _)| *k);
        json!([Value::Array(e.into_iter().map(|(k, v)| json!([k, v.to_json()])).collect()), sorted_keys(t)])
    }
    fn from_json(v: &Value) -> Self {
        MTomb::new(
            v[0].as_array().unwrap().iter().map(|kv| (num(&kv[0]) as K, V::from_json(&kv[1]))).collect(),
            keys_from(&v[1]),
        )
    }
}
impl Canon for UFH {
    fn name() -> String {
        "UF".into()
    }
    fn to_json(&self) -> Value {
        let mut e: Vec<(K, K)> = self.as_reveal_ref().iter().map(|(k, p)| (*k, p.get())).collect();
        e.sort();
        json!(e)
    }
    fn from_json(v: &Value) -> Self {
        UFH::new(
            v.as_array()
                .unwrap()
                .iter()
                .map(|kv| (num(&kv[0]) as K, std::cell::Cell::new(num(&kv[1]) as K)))
                .collect(),
        )
    }
}

impl<T: Canon> Canon for VecUnion<T> {
    fn name() -> String {
        format!("(Vec {})", T::name())
    }
    fn to_json(&self) -> Value {
        Value::Array(self.as_reveal_ref().iter().map(Canon::to_json).collect())
    }
    fn from_json(v: &Value) -> Self {
        VecUnion::new(v.as_array().unwrap().iter().map(T::from_json).collect())
    }
}

// ---- #[derive(Lattice)] structs: named fields, tuple struct, nested generic
#[derive(Clone, Debug, Lattice)]
pub struct Named3<A, B, C> {
    pub x: A,
    pub y: B,
    pub z: C,
}
#[derive(Clone, Debug, Lattice)]
pub struct Tup2<A, B>(pub A, pub B);

impl<A: Canon, B: Canon, C: Canon> Canon for Named3<A, B, C> {
    fn name() -> String {
        // field-wise = nested pairs in the model
        format!("(Pair {} (Pair {} {}))", A::name(), B::name(), C::name())
    }
    fn to_json(&self) -> Value {
        json!([self.x.to_json(), [self.y.to_json(), self.z.to_json()]])
    }
    fn from_json(v: &Value) -> Self {
        Named3 { x: A::from_json(&v[0]), y: B::from_json(&v[1][0]), z: C::from_json(&v[1][1]) }
    }
}
impl<A: Canon, B: Canon> Canon for Tup2<A, B> {
    fn name() -> String {
        format!("(Pair {} {})", A::name(), B::name())
    }
    fn to_json(&self) -> Value {
        json!([self.0.to_json(), self.1.to_json()])
    }
    fn from_json(v: &Value) -> Self {
        Tup2(A::from_json(&v[0]), B::from_json(&v[1]))
    }
}

// ---------------------------------------------------------------------------------------
fn ord_json(o: Option<std::cmp::Ordering>) -> Value {
    match o {
        None => Value::Null,
        Some(std::cmp::Ordering::Less) => json!("Lt"),
        Some(std::cmp::Ordering::Equal) => json!("Eq"),
        Some(std::cmp::Ordering::Greater) => json!("Gt"),
    }
}

fn merged<T: Canon + Clone + Merge<T>>(a: &T, b: &T) -> (T, bool) {
    let mut x = a.clone();
    let ch = x.merge(b.clone());
    (x, ch)
}
fn mj<T: Canon>(r: &(T, bool)) -> Value {
    json!([r.0.to_json(), r.1])
}

fn triple<T>(case: &Value) -> Value
where
    T: Canon + Clone + Merge<T> + PartialOrd + PartialEq + IsBot + IsTop,
{
    let a = T::from_json(&case["a"]);
    let b = T::from_json(&case["b"]);
    let c = T::from_json(&case["c"]);
    let ab = merged(&a, &b);
    let ba = merged(&b, &a);
    let aa = merged(&a, &a);
    let ab_c = merged(&ab.0, &c);
    let bc = merged(&b, &c);
    let a_bc = merged(&a, &bc.0);
    // merge_owned must agree with merge
    let owned = T::merge_owned(a.clone(), b.clone());
    let owned_ok = owned.to_json() == ab.0.to_json();
    json!({
        "ab": mj(&ab), "ba": mj(&ba), "aa": mj(&aa), "ab_c": mj(&ab_c), "bc": mj(&bc), "a_bc": mj(&a_bc),
        "eq_aa_a": aa.0 == a, "eq_ab_ba": ab.0 == ba.0, "eq_assoc": ab_c.0 == a_bc.0,
        "eq_ab_a": ab.0 == a, "eq_ba_b": ba.0 == b,
        "cmp_ab": ord_json(a.partial_cmp(&b)), "cmp_ba": ord_json(b.partial_cmp(&a)), "eq_ab": a == b,
        "bot_a": a.is_bot(), "top_a": a.is_top(), "bot_b": b.is_bot(), "top_b": b.is_top(),
        "owned_ok": owned_ok,
    })
}

/// Heterogeneous case {"k":"het","ty":NAME,"a":V,"b":V}: `a : S`, `b : O` (another
/// representation of the same lattice).  Observes `Merge<O> for S`, `PartialOrd<O>`,
/// `PartialEq<O>`, `LatticeFrom<O>` and the same operations after converting `b` to `S`.
fn het<S, O>(case: &Value) -> Value
where
    S: Canon + Clone + Merge<O> + Merge<S> + PartialOrd<O> + PartialOrd<S> + PartialEq<O> + PartialEq<S> + LatticeFrom<O>,
    O: Canon + Clone + IsBot + IsTop,
{
    let b = O::from_json(&case["b"]);
    let mut v = het_nb::<S, O>(case);
    // is_bot / is_top asked of the other representation itself
    v["bot_b"] = json!(b.is_bot());
    v["top_b"] = json!(b.is_top());
    v
}

/// as `het`, for other-representations that do not implement IsBot (VecMap-backed maps)
fn het_nb<S, O>(case: &Value) -> Value
where
    S: Canon + Clone + Merge<O> + Merge<S> + PartialOrd<O> + PartialOrd<S> + PartialEq<O> + PartialEq<S> + LatticeFrom<O>,
    O: Canon + Clone,
{
    let a = S::from_json(&case["a"]);
    let b = O::from_json(&case["b"]);
    let mut x = a.clone();
    let ch = x.merge(b.clone());
    let conv = S::lattice_from(b.clone());
    let mut y = a.clone();
    let ch2 = y.merge(conv.clone());
    json!({
        "ab": [x.to_json(), ch],
        "cmp_ab": ord_json(a.partial_cmp(&b)),
        "eq_ab": a == b,
        "from_b": conv.to_json(),
        // the same questions asked of the converted value
        "hom_ab": [y.to_json(), ch2],
        "hom_cmp_ab": ord_json(a.partial_cmp(&conv)),
        "hom_eq_ab": a == conv,
        "bot_b": Value::Null, "top_b": Value::Null,
    })
}

type Runner = fn(&Value) -> Value;
struct Registry {
    names: Vec<String>,
    triple: HashMap<String, Runner>,
    het_names: Vec<String>,
    het: HashMap<String, Runner>,
}
impl Registry {
    fn add<T>(&mut self, rust: &str)
    where
        T: Canon + Clone + Merge<T> + PartialOrd + PartialEq + IsBot + IsTop,
    {
        // registered name = model code name + "@" + the Rust type, so several Rust types can
        // share one model code
        let n = format!("{}@{}", T::name(), rust);
        self.names.push(n.clone());
        self.triple.insert(n, triple::<T>);
    }
    fn add_het<S, O>(&mut self, rust: &str)
    where
        S: Canon + Clone + Merge<O> + Merge<S> + PartialOrd<O> + PartialOrd<S> + PartialEq<O> + PartialEq<S> + LatticeFrom<O>,
        O: Canon + Clone + IsBot + IsTop,
    {
        // name = "<self code> <- <other code>@<rust pair>"
        let n = format!("{} <- {}@{}", S::name(), O::name(), rust);
        self.het_names.push(n.clone());
        self.het.insert(n, het::<S, O>);
    }
    fn add_het_nb<S, O>(&mut self, rust: &str)
    where
        S: Canon + Clone + Merge<O> + Merge<S> + PartialOrd<O> + PartialOrd<S> + PartialEq<O> + PartialEq<S> + LatticeFrom<O>,
        O: Canon + Clone,
    {
        let n = format!("{} <- {}@{}", S::name(), O::name(), rust);
        self.het_names.push(n.clone());
        self.het.insert(n, het_nb::<S, O>);
    }
}
macro_rules! reg {
    ($r:expr; $($t:ty),* $(,)?) => { $( $r.add::<$t>(stringify!($t)); )* };
}
macro_rules! reg_het_nb {
    ($r:expr; $(($s:ty, $o:ty)),* $(,)?) => { $( $r.add_het_nb::<$s, $o>(stringify!(($s, $o))); )* };
}
macro_rules! reg_het {
    ($r:expr; $(($s:ty, $o:ty)),* $(,)?) => { $( $r.add_het::<$s, $o>(stringify!(($s, $o))); )* };
}

type SH = SetUnion<HashSet<K>>;
type SB = SetUnion<BTreeSet<K>>;
type MH<V> = MapUnion<HashMap<K, V>>;
type MB<V> = MapUnion<BTreeMap<K, V>>;

type SS = SetUnion<SingletonSet<K>>;
type SO = SetUnion<OptionSet<K>>;
type SA2 = SetUnion<ArraySet<K, 2>>;
type SA3 = SetUnion<ArraySet<K, 3>>;
type MS<V> = MapUnion<SingletonMap<K, V>>;
type MO<V> = MapUnion<OptionMap<K, V>>;
type MVec<V> = MapUnion<VecMap<K, V>>;
type MA2<V> = MapUnion<ArrayMap<K, V, 2>>;

fn registry() -> Registry {
    let mut r = Registry { names: vec![], triple: HashMap::new(), het_names: vec![], het: HashMap::new() };
    reg_het!(r;
        (SH, SB), (SB, SH), (SH, SS), (SH, SO), (SH, SA2), (SB, SA3), (SB, SS),
        (MH<Max<u8>>, MB<Max<u8>>), (MB<Max<u8>>, MH<Max<u8>>), (MH<Max<u8>>, MS<Max<u8>>),
        (MH<Max<u8>>, MO<Max<u8>>), (MB<Max<u8>>, MA2<Max<u8>>),
        (MH<SH>, MS<SS>), (MH<SH>, MB<SB>), (MH<MH<SH>>, MS<MS<SS>>),
        (MH<WithBot<SH>>, MO<WithBot<SS>>), (MH<SH>, MS<SO>), (MB<SB>, MO<SA2>), (WithBot<SH>, WithBot<SO>),
        (WithBot<MH<SH>>, WithBot<MO<SO>>), (VecUnion<SH>, VecUnion<SO>), (Pair<SH, SB>, Pair<SO, SS>),
        (WithBot<WithBot<SH>>, WithBot<WithBot<SO>>),
        (WithBot<SH>, WithBot<SB>), (WithBot<SH>, WithBot<SS>), (WithTop<SH>, WithTop<SO>),
        (WithBot<MH<SH>>, WithBot<MS<SS>>),
        (Pair<SH, MH<Max<u8>>>, Pair<SB, MB<Max<u8>>>), (Pair<SH, SB>, Pair<SS, SA2>),
        (VecUnion<SH>, VecUnion<SB>), (VecUnion<MH<SH>>, VecUnion<MS<SS>>),
        (DomPair<Max<u8>, SH>, DomPair<Max<u8>, SS>), (DomPair<Max<u64>, MH<SH>>, DomPair<Max<u64>, MB<SB>>),
    );
    reg_het_nb!(r;
        (MH<Max<u8>>, MVec<Max<u8>>), (MH<SB>, MVec<SA2>), (MB<SH>, MVec<SO>),
    );
    reg!(r;
        (), Max<u8>, Max<u64>, Max<bool>, Min<u8>, Min<u64>, Min<bool>, Conflict<K>,
        SH, SB,
        MH<Max<u8>>, MB<Max<u8>>, MH<Min<u8>>, MH<SH>, MB<SB>, MH<WithBot<Max<u64>>>,
        MH<MH<Max<u8>>>, MH<MB<SH>>, MH<Conflict<K>>, MH<WithTop<Max<u8>>>, MH<Pair<Max<u8>, SH>>,
        MH<VecUnion<Max<u8>>>, MH<DomPair<Max<u64>, SH>>, MH<()>,
        WithBot<Max<u8>>, WithBot<Min<u8>>, WithBot<SH>, WithBot<WithBot<Max<u8>>>, WithBot<MH<Max<u8>>>,
        WithBot<WithTop<Max<bool>>>, WithBot<Conflict<K>>, WithBot<Pair<SH, Max<u8>>>, WithBot<VecUnion<SH>>,
        WithBot<()>,
        WithTop<Max<u64>>, WithTop<SH>, WithTop<WithBot<SH>>, WithTop<MH<Max<u8>>>, WithTop<Max<bool>>,
        WithTop<Max<u8>>, WithTop<Min<u64>>, WithTop<WithTop<SH>>, WithTop<Pair<SH, SH>>, WithTop<Conflict<K>>,
        WithTop<VecUnion<Max<u8>>>, WithTop<()>,
        Pair<Max<u8>, Min<u8>>, Pair<SH, SB>, Pair<SH, MH<Max<u8>>>, Pair<WithBot<SH>, WithTop<SH>>,
        Pair<Pair<Max<u8>, SH>, Conflict<K>>, Pair<VecUnion<Max<u8>>, SH>, Pair<(), Max<bool>>,
        Named3<SH, Max<u64>, WithBot<Min<u8>>>, Named3<Max<u8>, MH<SH>, VecUnion<Max<bool>>>, Tup2<SH, Max<u8>>,
        Tup2<Named3<Max<u8>, SH, Conflict<K>>, WithTop<SH>>,
        DomPair<Max<u8>, SH>, DomPair<Max<u64>, Max<u8>>, DomPair<Min<u8>, MH<Max<u8>>>,
        DomPair<WithBot<Max<u8>>, SH>, DomPair<WithTop<Max<u64>>, WithBot<SH>>, DomPair<Max<bool>, VecUnion<Max<u8>>>,
        DomPair<Max<u64>, DomPair<Max<u8>, SH>>, DomPair<SH, Max<u8>>, DomPair<(), SH>,
        VecUnion<Max<u8>>, VecUnion<SH>, VecUnion<WithBot<Max<u8>>>, VecUnion<MH<Max<u8>>>, VecUnion<VecUnion<Max<u8>>>,
        VecUnion<Pair<Max<u8>, SH>>, VecUnion<Conflict<K>>, VecUnion<WithTop<SH>>, VecUnion<()>,
        // tombstone lattices and union-find, alone and nested
        STomb, MTomb<Max<u8>>, MTomb<SH>, UFH,
        MH<STomb>, MH<UFH>, WithBot<MTomb<Max<u8>>>, WithTop<STomb>, Pair<SH, UFH>, Pair<STomb, MTomb<Max<u8>>>,
        VecUnion<STomb>, DomPair<Max<u8>, STomb>, MTomb<STomb>, MTomb<UFH>, MTomb<WithBot<SH>>,
    );
    r
}

fn run(case: &Value) -> Value {
    thread_local! { static REG: Registry = registry(); }
    REG.with(|r| match case["k"].as_str().unwrap_or("") {
        "types" => json!(r.names),
        "het_types" => json!(r.het_names),
        "point" => {
            // Point<u16, ()>: merge / partial_cmp panic on inequal values
            let a = lattices::Point::<K, ()>::new(num(&case["a"]) as K);
            let b = lattices::Point::<K, ()>::new(num(&case["b"]) as K);
            let merged = std::panic::catch_unwind(std::panic::AssertUnwindSafe(|| {
                let mut x = a;
                let ch = x.merge(b);
                (x.val, ch)
            }));
            let cmp = std::panic::catch_unwind(std::panic::AssertUnwindSafe(|| a.partial_cmp(&b)));
            json!({
                "merge": merged.ok().map(|(v, c)| json!([v, c])),
                "cmp": cmp.ok().map(ord_json),
                "eq": a == b, "bot": a.is_bot(), "top": a.is_top(),
            })
        }
        "het" => {
            let ty = case["ty"].as_str().unwrap();
            match r.het.get(ty) {
                Some(f) => guarded(|| f(case)),
                None => json!({ "unknown_type": ty }),
            }
        }
        "triple" => {
            let ty = case["ty"].as_str().unwrap();
            match r.triple.get(ty) {
                Some(f) => guarded(|| f(case)),
                None => json!({ "unknown_type": ty }),
            }
        }
        k => json!({ "unknown_kind": k }),
    })
}

fn main() {
    hvcommon::main_loop(run);
}
