//! C22 compile probe (cargo feature "probe"; NOT built by a plain `cargo build`).
//!
//! The same program as catalogue entry `v_multiset_delta__base`, except that the operator's input
//! comes out of a `tee()`, which places `multiset_delta()` on the push side of its subgraph.
//! Until /repo commit 142a948fa19 rustc rejected it (E0282 "type annotations needed for `&_`"): the push
//! realisation in dfir_lang/src/graph/ops/multiset_delta.rs built `push::filter(|item| { ..
//! item.clone() .. }, output)` and the method call `item.clone()` needs the item type before
//! it can be inferred from upstream; the pull realisation of the same operator compiles.
use std::cell::RefCell;
use std::rc::Rc;

use dfir_rs::dfir_syntax;

fn show<T: std::fmt::Debug>(o: &Rc<RefCell<Vec<String>>>, tick: u64, x: T) {
    o.borrow_mut().push(format!("{}:{:?}", tick, x));
}

fn main() {
    let (s0, r0) = dfir_rs::util::unbounded_channel::<u64>();
    let out = Rc::new(RefCell::new(Vec::new()));
    let o0 = out.clone();
    let mut df = dfir_syntax! {
        t0 = source_stream(r0) -> tee();
        t0 -> null();
        t0 -> the_op;
        the_op = multiset_delta() -> for_each(|x| show(&o0, context.current_tick().0, x));
    };
    for x in [1u64, 1, 2] {
        s0.send(x).unwrap();
    }
    df.run_tick_sync();
    for x in [1u64, 1, 1, 3] {
        s0.send(x).unwrap();
    }
    df.run_tick_sync();
    // multiset growth since the previous tick: tick 0 -> 1 1 2, tick 1 -> 1 3
    println!("{}", out.borrow().join(" "));
}
