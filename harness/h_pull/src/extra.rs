//! The rest of dfir_pipes::pull: stream adaptors, either, and the consuming futures, driven
//! by scripted streams / futures / pushes / sinks (kind "c11x").
use std::collections::{HashMap, VecDeque};
use std::future::Future;
use std::pin::Pin;
use std::task::{Context, Poll, Waker};

use dfir_pipes::pull::{self, Fold, FoldFrom, Pull, Reduce, accumulate_all};
use dfir_pipes::push::{Push, PushStep};
use dfir_pipes::{Either, Yes};
use hvcommon::{Value, json};

use crate::{Src, Step, drive, num, parse_src};

// ------------------------------------------------------------------------------------------
/// A scripted `futures::Stream`: same scripts as `Src`; size_hint = (rem - lo, rem + hi).
pub struct SStream<T>(Src<T>);

impl<T> Unpin for SStream<T> {}

impl<T> futures_core::Stream for SStream<T> {
    type Item = T;
    fn poll_next(self: Pin<&mut Self>, _cx: &mut Context<'_>) -> Poll<Option<T>> {
        match self.get_mut().0.steps.pop_front() {
            None | Some(Step::End) => Poll::Ready(None),
            Some(Step::Pend) => Poll::Pending,
            Some(Step::Rdy(a)) => Poll::Ready(Some(a)),
        }
    }
    fn size_hint(&self) -> (usize, Option<usize>) {
        let rem = self.0.rem();
        (rem.saturating_sub(self.0.lo), self.0.hi.and_then(|k| rem.checked_add(k)))
    }
}

fn sstream_of(steps: Vec<Step<u64>>) -> SStream<u64> {
    let v = json!({ "s": [], "lo": 0, "hi": 0 });
    let mut s = parse_src(&v, num);
    s.steps = VecDeque::from(steps);
    SStream(s)
}

fn script_item(x: &Value) -> SStream<u64> {
    let v = json!({ "s": x, "lo": 0, "hi": 0 });
    SStream(parse_src(&v, num))
}

/// inner-stream vocabulary (mirrors ev_st in coq/theories/Pull/CorrX.v)
fn ev_st(name: &str) -> Box<dyn FnMut(u64) -> SStream<u64>> {
    use Step::*;
    match name {
        "s_rep" => Box::new(|x| {
            let mut v = vec![Pend; (x % 2) as usize];
            v.extend(vec![Rdy(x); (x % 3) as usize]);
            sstream_of(v)
        }),
        "s_pp" => Box::new(|x| sstream_of(vec![Rdy(x), Pend, Rdy(x + 1)])),
        "s_empty" => Box::new(|_| sstream_of(vec![])),
        "s_pend" => Box::new(|_| sstream_of(vec![Pend, Pend])),
        "s_endmid" => Box::new(|x| sstream_of(vec![Rdy(x), End, Rdy(x + 5)])),
        o => panic!("bad stream fn {o}"),
    }
}

/// A future that is Pending `k` times and then resolves to `out`.
pub struct PendK {
    k: usize,
    out: Option<Option<u64>>,
}

impl Future for PendK {
    type Output = Option<u64>;
    fn poll(self: Pin<&mut Self>, _cx: &mut Context<'_>) -> Poll<Option<u64>> {
        let this = self.get_mut();
        if this.k > 0 {
            this.k -= 1;
            Poll::Pending
        } else {
            Poll::Ready(this.out.take().expect("future polled after completion"))
        }
    }
}

/// future vocabulary (mirrors ev_fu in CorrX.v)
fn ev_fu(name: &str) -> Box<dyn FnMut(u64) -> PendK> {
    match name {
        "a_half" => Box::new(|x| PendK {
            k: (x % 3) as usize,
            out: Some(if x % 2 == 0 { Some(x / 2) } else { None }),
        }),
        "a_now" => Box::new(|x| PendK { k: 0, out: Some(Some(x + 1)) }),
        "a_none" => Box::new(|x| PendK { k: (x % 2) as usize, out: Some(None) }),
        "a_slow" => Box::new(|x| PendK { k: 2, out: Some(Some(x)) }),
        o => panic!("bad future fn {o}"),
    }
}

// ------------------------------------------------------------------------------------------
/// A scripted downstream for send_push / send_sink: poll_ready / finalize answer from scripts
/// of booleans (true = Done, exhausted = Done) and every call is logged.
pub struct SPush {
    ready: VecDeque<bool>,
    fin: VecDeque<bool>,
    log: Vec<Value>,
    last_ready: bool,
}

impl SPush {
    fn new(case: &Value) -> Self {
        let b = |k: &str| -> VecDeque<bool> {
            case[k].as_array().map_or_else(VecDeque::new, |a| a.iter().map(|x| x.as_bool().unwrap()).collect())
        };
        SPush { ready: b("ready"), fin: b("fin"), log: Vec::new(), last_ready: false }
    }
    fn do_ready(&mut self) -> bool {
        let d = self.ready.pop_front().unwrap_or(true);
        self.log.push(json!(["Rd", d]));
        self.last_ready = d;
        d
    }
    fn do_send(&mut self, x: u64) {
        assert!(self.last_ready, "protocol: start_send without a Done poll_ready");
        self.last_ready = false;
        self.log.push(json!(["S", x]));
    }
    fn do_fin(&mut self) -> bool {
        let d = self.fin.pop_front().unwrap_or(true);
        self.log.push(json!(["F", d]));
        d
    }
}

impl Push<u64, ()> for SPush {
    type Ctx<'ctx> = ();
    type CanPend = Yes;
    fn poll_ready(self: Pin<&mut Self>, _ctx: &mut ()) -> PushStep<Yes> {
        if self.get_mut().do_ready() { PushStep::Done } else { PushStep::Pending(Yes) }
    }
    fn start_send(self: Pin<&mut Self>, item: u64, _meta: ()) {
        self.get_mut().do_send(item)
    }
    fn poll_finalize(self: Pin<&mut Self>, _ctx: &mut ()) -> PushStep<Yes> {
        if self.get_mut().do_fin() { PushStep::Done } else { PushStep::Pending(Yes) }
    }
    fn size_hint(self: Pin<&mut Self>, hint: (usize, Option<usize>)) {
        self.get_mut().log.push(json!(["H", hint.0, hint.1]));
    }
}

impl futures_sink::Sink<u64> for SPush {
    type Error = std::convert::Infallible;
    fn poll_ready(self: Pin<&mut Self>, _cx: &mut Context<'_>) -> Poll<Result<(), Self::Error>> {
        if self.get_mut().do_ready() { Poll::Ready(Ok(())) } else { Poll::Pending }
    }
    fn start_send(self: Pin<&mut Self>, item: u64) -> Result<(), Self::Error> {
        self.get_mut().do_send(item);
        Ok(())
    }
    fn poll_flush(self: Pin<&mut Self>, _cx: &mut Context<'_>) -> Poll<Result<(), Self::Error>> {
        self.get_mut().log.push(json!(["flush"]));
        Poll::Ready(Ok(()))
    }
    fn poll_close(self: Pin<&mut Self>, _cx: &mut Context<'_>) -> Poll<Result<(), Self::Error>> {
        if self.get_mut().do_fin() { Poll::Ready(Ok(())) } else { Poll::Pending }
    }
}

// ------------------------------------------------------------------------------------------
fn plain_items(v: &Value) -> Vec<u64> {
    v["s"].as_array().expect("script").iter().map(num).collect()
}

/// Poll a future to completion (at most `cap` polls): number of Pending polls and the output.
fn run_future<F: Future>(fut: F, cap: usize) -> (usize, Option<F::Output>) {
    let mut fut = std::pin::pin!(fut);
    let mut cx = Context::from_waker(Waker::noop());
    let mut pend = 0;
    for _ in 0..cap {
        match fut.as_mut().poll(&mut cx) {
            Poll::Ready(o) => return (pend, Some(o)),
            Poll::Pending => pend += 1,
        }
    }
    (pend, None)
}

pub fn run_x(case: &Value) -> Value {
    let ins = case["ins"].as_array().expect("ins");
    let extra = case["extra"].as_u64().unwrap_or(2) as usize;
    let total: usize = ins
        .iter()
        .flat_map(|i| i["s"].as_array().expect("script").iter())
        .map(|x| 8 + x.as_array().map_or(0, |a| a.len()))
        .sum();
    let cap = total + extra + 8;
    let a = || parse_src(&ins[0], num);
    let f = case["fn"].as_str().unwrap_or("");
    let done = |pend: usize, completed: bool, after_end: usize, result: Value| {
        json!({ "pendings": pend, "completed": completed, "after_end": after_end, "result": result })
    };
    match case["comb"].as_str().expect("comb") {
        // plain sources: the script must hold items only
        "iter" => drive(pull::iter(plain_items(&ins[0])), extra, cap),
        "once" => drive(pull::once(plain_items(&ins[0])[0]), extra, cap),
        "empty" => drive(pull::empty::<u64>(), extra, cap),
        "stream" => drive(pull::stream(SStream(a())), extra, cap),
        "stream_compat" => drive(pull::stream(pull::stream_compat(a())), extra, cap),
        "stream_ready" => drive(pull::stream_ready(SStream(a()), Waker::noop().clone()), extra, cap),
        "either_l" => drive(Either::<Src<u64>, Src<u64>>::Left(a()), extra, cap),
        "either_r" => drive(Either::<Src<u64>, Src<u64>>::Right(parse_src(&ins[1], num)), extra, cap),
        "flat_map_stream" => drive(a().flat_map_stream(ev_st(f)), extra, cap),
        "flatten_stream" => drive(parse_src(&ins[0], script_item).flatten_stream(), extra, cap),
        "filter_map_async" => drive(a().filter_map_async(ev_fu(f)), extra, cap),
        "collect" => {
            let src = a();
            let ae = src.after_end.clone();
            let (p, out) = run_future(src.collect::<Vec<u64>>(), cap);
            done(p, out.is_some(), ae.get(), json!(out.unwrap_or_default()))
        }
        "for_each" => {
            let src = a();
            let ae = src.after_end.clone();
            let mut log = Vec::new();
            let (p, out) = run_future(src.for_each(|x| log.push(x)), cap);
            done(p, out.is_some(), ae.get(), json!(log))
        }
        "next" => {
            // `next` consumes the pull: one future per item would need by_ref; poll one future
            let src = a();
            let ae = src.after_end.clone();
            let (p, out) = run_future(src.next(), cap);
            let r = match out {
                Some(Some((x, ()))) => json!(["R", x]),
                Some(None) => json!("E"),
                None => json!("P"),
            };
            done(p, out.is_some(), ae.get(), r)
        }
        "accumulate" => {
            let kv = |x: &Value| {
                let p = x.as_array().expect("kv");
                (num(&p[0]), num(&p[1]))
            };
            let src = parse_src(&ins[0], kv);
            let ae = src.after_end.clone();
            let mut map: HashMap<u64, u64> = HashMap::new();
            let (p, completed) = match f {
                "fold" => {
                    let mut acc = Fold::new(|| 100u64, |a: &mut u64, x: u64| *a += x);
                    let (p, o) = run_future(accumulate_all(&mut acc, &mut map, src), cap);
                    (p, o.is_some())
                }
                "reduce" => {
                    let mut acc = Reduce::new(|a: &mut u64, x: u64| *a += x);
                    let (p, o) = run_future(accumulate_all(&mut acc, &mut map, src), cap);
                    (p, o.is_some())
                }
                "fold_from" => {
                    let mut acc = FoldFrom::new(|x: u64| 2 * x, |a: &mut u64, x: u64| *a += x);
                    let (p, o) = run_future(accumulate_all(&mut acc, &mut map, src), cap);
                    (p, o.is_some())
                }
                o => panic!("bad accumulator {o}"),
            };
            let mut rows: Vec<(u64, u64)> = map.into_iter().collect();
            rows.sort();
            done(p, completed, ae.get(), json!(rows))
        }
        "send_push" => {
            let src = a();
            let ae = src.after_end.clone();
            let mut push = SPush::new(case);
            let (p, out) = run_future(src.send_push(&mut push), cap + 16);
            done(p, out.is_some(), ae.get(), json!(push.log))
        }
        "send_sink" => {
            let src = a();
            let ae = src.after_end.clone();
            let mut push = SPush::new(case);
            let (p, out) = run_future(src.send_sink(&mut push), cap + 16);
            done(p, out.is_some(), ae.get(), json!(push.log))
        }
        o => panic!("bad comb {o}"),
    }
}
