//! Correspondence harness for the pull side of dfir_pipes (properties C11, C13).
//!
//! Implements its own scripted `Pull` source for the *public* trait (the crate's `TestPull`
//! is `pub(crate)` and test-only), builds one combinator over it as named by the JSON case,
//! polls it until it reports the end plus a few extra polls and records, for every poll, the
//! `size_hint` before the poll and the exact `PullStep`.
use std::cell::Cell;
use std::collections::VecDeque;
use std::rc::Rc;
use std::pin::Pin;
use std::task::Waker;

use dfir_pipes::pull::{FusedPull, Pull, PullStep};
use dfir_pipes::{EitherOrBoth, Yes};
use hvcommon::{Value, json};

mod extra;
mod join;
mod pipe;

// ------------------------------------------------------------------------------------------
// scripted sources

#[derive(Clone, Debug)]
pub enum Step<T> {
    Rdy(T),
    Pend,
    End,
}

/// A scripted pull: pops one scripted answer per poll, `Ended` for ever once the script is
/// exhausted. An `End` in the middle of the script is a non-fused source that continues
/// after reporting the end. `size_hint` = (rem.saturating_sub(lo), hi.and_then(|k| rem.checked_add(k))) where `rem` is the number
/// of items before the first end.
pub struct Src<T> {
    pub steps: VecDeque<Step<T>>,
    pub lo: usize,
    pub hi: Option<usize>,
    ended: bool,
    /// number of polls made after this source first reported the end
    pub after_end: Rc<Cell<usize>>,
}

impl<T> Unpin for Src<T> {}

impl<T> Src<T> {
    pub fn rem(&self) -> usize {
        let mut n = 0;
        for s in &self.steps {
            match s {
                Step::Rdy(_) => n += 1,
                Step::Pend => {}
                Step::End => break,
            }
        }
        n
    }

    fn is_fused(&self) -> bool {
        let mut ended = false;
        for s in &self.steps {
            match s {
                Step::End => ended = true,
                _ if ended => return false,
                _ => {}
            }
        }
        true
    }
}

impl<T> Pull for Src<T> {
    type Ctx<'ctx> = ();
    type Item = T;
    type Meta = ();
    type CanPend = Yes;
    type CanEnd = Yes;

    fn pull(self: Pin<&mut Self>, _ctx: &mut Self::Ctx<'_>) -> PullStep<T, (), Yes, Yes> {
        let this = self.get_mut();
        if this.ended {
            this.after_end.set(this.after_end.get() + 1);
        }
        match this.steps.pop_front() {
            None | Some(Step::End) => {
                this.ended = true;
                PullStep::Ended(Yes)
            }
            Some(Step::Pend) => PullStep::Pending(Yes),
            Some(Step::Rdy(a)) => PullStep::Ready(a, ()),
        }
    }

    fn size_hint(&self) -> (usize, Option<usize>) {
        let rem = self.rem();
        (rem.saturating_sub(self.lo), self.hi.and_then(|k| rem.checked_add(k)))
    }
}

/// A scripted source whose script is fused (checked at construction); declares `FusedPull`.
pub struct FSrc<T>(Src<T>);

impl<T> FSrc<T> {
    pub fn new(s: Src<T>) -> Self {
        assert!(s.is_fused(), "bad case: a FusedPull input needs a fused script");
        FSrc(s)
    }
}

impl<T> Pull for FSrc<T> {
    type Ctx<'ctx> = ();
    type Item = T;
    type Meta = ();
    type CanPend = Yes;
    type CanEnd = Yes;

    fn pull(self: Pin<&mut Self>, ctx: &mut Self::Ctx<'_>) -> PullStep<T, (), Yes, Yes> {
        Pin::new(&mut self.get_mut().0).pull(ctx)
    }

    fn size_hint(&self) -> (usize, Option<usize>) {
        self.0.size_hint()
    }
}

impl<T> FusedPull for FSrc<T> {}

pub fn parse_src<T>(v: &Value, item: fn(&Value) -> T) -> Src<T> {
    let steps = v["s"]
        .as_array()
        .expect("script")
        .iter()
        .map(|x| match x.as_str() {
            Some("P") => Step::Pend,
            Some("E") => Step::End,
            Some(o) => panic!("bad script step {o}"),
            None => Step::Rdy(item(x)),
        })
        .collect();
    Src {
        steps,
        lo: v["lo"].as_u64().unwrap_or(0) as usize,
        hi: v["hi"].as_u64().map(|x| x as usize),
        ended: false,
        after_end: Rc::new(Cell::new(0)),
    }
}

pub fn num(x: &Value) -> u64 {
    x.as_u64().expect("number")
}

pub fn nums(x: &Value) -> Vec<u64> {
    x.as_array().expect("list item").iter().map(num).collect()
}

// ------------------------------------------------------------------------------------------
// closure vocabulary (mirrors ev_fn / ev_pr / ev_op / ev_ls in coq/theories/Pull/Corr.v)

pub fn ev_fn(f: &Value) -> Box<dyn FnMut(u64) -> u64> {
    if let Some(a) = f.as_array() {
        assert_eq!(a[0], "add");
        let k = num(&a[1]);
        return Box::new(move |x| x + k);
    }
    match f.as_str().expect("fn") {
        "mul2" => Box::new(|x| x * 2),
        "mod5" => Box::new(|x| x % 5),
        o => panic!("bad fn {o}"),
    }
}

pub fn ev_pr(p: &Value) -> Box<dyn FnMut(&u64) -> bool> {
    if let Some(a) = p.as_array() {
        assert_eq!(a[0], "lt");
        let k = num(&a[1]);
        return Box::new(move |x| *x < k);
    }
    match p.as_str().expect("pred") {
        "mod3" => Box::new(|x| *x % 3 == 0),
        "even" => Box::new(|x| *x % 2 == 0),
        "true" => Box::new(|_| true),
        "false" => Box::new(|_| false),
        o => panic!("bad pred {o}"),
    }
}

pub fn ev_op(p: &Value) -> Box<dyn FnMut(u64) -> Option<u64>> {
    match p.as_str().expect("optfn") {
        "half_even" => Box::new(|x| if x % 2 == 0 { Some(x / 2) } else { None }),
        "dec" => Box::new(|x| x.checked_sub(1)),
        "none" => Box::new(|_| None),
        o => panic!("bad optfn {o}"),
    }
}

pub fn ev_ls(p: &Value) -> Box<dyn FnMut(u64) -> Vec<u64>> {
    match p.as_str().expect("listfn") {
        "rep_mod3" => Box::new(|x| vec![x; (x % 3) as usize]),
        "dup" => Box::new(|x| vec![x, x + 1]),
        "empty" => Box::new(|_| vec![]),
        "iota" => Box::new(|x| (x..x + x % 4).collect()),
        o => panic!("bad listfn {o}"),
    }
}

// ------------------------------------------------------------------------------------------
// observation

pub trait ToVal {
    fn to_val(&self) -> Value;
}
impl ToVal for u64 {
    fn to_val(&self) -> Value {
        json!(self)
    }
}
impl ToVal for usize {
    fn to_val(&self) -> Value {
        json!(self)
    }
}
impl<A: ToVal, B: ToVal> ToVal for (A, B) {
    fn to_val(&self) -> Value {
        json!(["p", self.0.to_val(), self.1.to_val()])
    }
}
impl<A: ToVal, B: ToVal> ToVal for EitherOrBoth<A, B> {
    fn to_val(&self) -> Value {
        match self {
            EitherOrBoth::Both(a, b) => json!(["b", a.to_val(), b.to_val()]),
            EitherOrBoth::Left(a) => json!(["l", a.to_val()]),
            EitherOrBoth::Right(b) => json!(["r", b.to_val()]),
        }
    }
}

/// Poll until the first `Ended`, then `extra` more times (at most `cap` polls in all).
pub fn drive<P>(p: P, extra: usize, cap: usize) -> Value
where
    P: Pull,
    P::Item: ToVal,
{
    let mut p = std::pin::pin!(p);
    let waker = Waker::noop();
    let mut cx = std::task::Context::from_waker(waker);
    let mut trace = Vec::new();
    let mut after_end: Option<usize> = None;
    for _ in 0..cap {
        if let Some(k) = after_end {
            if k >= extra {
                break;
            }
        }
        let (lo, hi) = p.size_hint();
        let ctx = <P::Ctx<'_> as dfir_pipes::Context<'_>>::from_task(&mut cx);
        let step = match p.as_mut().pull(ctx) {
            PullStep::Ready(item, _meta) => json!(["R", item.to_val()]),
            PullStep::Pending(_) => json!("P"),
            PullStep::Ended(_) => json!("E"),
        };
        if let Some(k) = after_end.as_mut() {
            *k += 1;
        } else if step == "E" {
            after_end = Some(0);
        }
        trace.push(json!([lo, hi, step]));
    }
    json!({ "trace": trace })
}

fn run_c11(case: &Value) -> Value {
    let ins = case["ins"].as_array().expect("ins");
    let extra = case["extra"].as_u64().unwrap_or(3) as usize;
    // enough polls for every scripted answer and every item a flat_map / flatten can expand to
    let total: usize = ins
        .iter()
        .flat_map(|i| i["s"].as_array().expect("script").iter())
        .map(|x| 4 + x.as_array().map_or(0, |a| a.len()))
        .sum();
    let cap = total + extra + 8;
    let a = || parse_src(&ins[0], num);
    let b = || parse_src(&ins[1], num);
    let n = || case["n"].as_u64().expect("n") as usize;
    match case["comb"].as_str().expect("comb") {
        "map" => drive(a().map(ev_fn(&case["fn"])), extra, cap),
        "inspect" => {
            // the side effect is checked against the items that come out
            let mut seen = Vec::new();
            let seen_ref = &mut seen;
            let mut r = drive(a().inspect(move |x: &u64| seen_ref.push(*x)), extra, cap);
            r["inspected"] = json!(seen);
            r
        }
        "filter" => drive(a().filter(ev_pr(&case["fn"])), extra, cap),
        "filter_map" => drive(a().filter_map(ev_op(&case["fn"])), extra, cap),
        "flat_map" => drive(a().flat_map(ev_ls(&case["fn"])), extra, cap),
        "flatten" => drive(parse_src(&ins[0], nums).flatten(), extra, cap),
        "take_while" => drive(a().take_while(ev_pr(&case["fn"])), extra, cap),
        "skip_while" => drive(a().skip_while(ev_pr(&case["fn"])), extra, cap),
        "take" => drive(a().take(n()), extra, cap),
        "skip" => drive(a().skip(n()), extra, cap),
        "enumerate" => drive(a().enumerate(), extra, cap),
        "fuse" => drive(a().fuse(), extra, cap),
        "chain" => drive(FSrc::new(a()).chain(b()), extra, cap),
        "zip" => drive(a().zip(b()), extra, cap),
        "zip_longest" => drive(FSrc::new(a()).zip_longest(FSrc::new(b())), extra, cap),
        "cross_singleton" => drive(a().cross_singleton(b()), extra, cap),
        o => panic!("bad comb {o}"),
    }
}

fn run(case: &Value) -> Value {
    match case["k"].as_str().unwrap_or("") {
        "c11" => run_c11(case),
        "c13" => join::run_c13(case),
        "c11x" => extra::run_x(case),
        "c11p" => pipe::run_pipe(case),
        o => json!({ "bad_case": format!("unknown kind {o}") }),
    }
}

fn main() {
    hvcommon::main_loop(run)
}
