//! C13: symmetric hash join over scripted sources.
//!
//! mode "inc":   the incremental `SymmetricHashJoin` pull (optionally over pre-built, i.e.
//!               persisted, states), observed poll by poll like a C11 combinator, plus the
//!               final tables.
//! mode "ticks": the join operator's path: `symmetric_hash_join(.., is_new_tick = true)` once
//!               per tick (drain both inputs, then enumerate), states cleared at the end of a
//!               tick for a side with 'tick persistence.
use std::borrow::Cow;
use std::future::Future;
use std::pin::pin;
use std::task::{Context, Poll, Waker};

use dfir_pipes::pull::{
    HalfJoinState, HalfMultisetJoinState, HalfSetJoinState, Pull, PullStep, symmetric_hash_join,
};
use hvcommon::{Value, json};

use crate::{FSrc, drive, num, parse_src};

fn kv(x: &Value) -> (u64, u64) {
    let a = x.as_array().expect("kv");
    (num(&a[0]), num(&a[1]))
}

fn dump<S: HalfJoinState<u64, u64, u64>>(s: &S) -> Value {
    let mut rows: Vec<(u64, u64)> = Vec::new();
    for (k, vs) in s.iter() {
        for v in vs.iter() {
            rows.push((*k, *v));
        }
    }
    rows.sort();
    json!({ "rows": rows, "len": s.len() })
}

fn run_inc<L, R>(case: &Value, mut ls: L, mut rs: R) -> Value
where
    L: HalfJoinState<u64, u64, u64>,
    R: HalfJoinState<u64, u64, u64>,
{
    if let Some(pre) = case["pre"].as_array() {
        for x in pre[0].as_array().unwrap() {
            let (k, v) = kv(x);
            ls.build(k, Cow::Owned(v));
        }
        for x in pre[1].as_array().unwrap() {
            let (k, v) = kv(x);
            rs.build(k, Cow::Owned(v));
        }
    }
    let ins = case["ins"].as_array().expect("ins");
    let extra = case["extra"].as_u64().unwrap_or(2) as usize;
    let total: usize = ins.iter().map(|i| i["s"].as_array().unwrap().len()).sum();
    // every arrival can match every earlier arrival
    let cap = (total + 2) * (total + 2) + extra + 8 + case["pre"].as_array().map_or(0, |p| {
        (p[0].as_array().unwrap().len() + p[1].as_array().unwrap().len()) * (total + 1)
    });
    let lhs = FSrc::new(parse_src(&ins[0], kv));
    let rhs = FSrc::new(parse_src(&ins[1], kv));
    let mut res = drive(lhs.symmetric_hash_join_state(rhs, &mut ls, &mut rs), extra, cap);
    res["tables"] = json!([dump(&ls), dump(&rs)]);
    res
}

fn run_ticks<L, R>(case: &Value, mut ls: L, mut rs: R) -> Value
where
    L: HalfJoinState<u64, u64, u64>,
    R: HalfJoinState<u64, u64, u64>,
{
    let persist = case["persist"].as_array().expect("persist");
    let (p1, p2) = (persist[0].as_bool().unwrap(), persist[1].as_bool().unwrap());
    let waker = Waker::noop();
    let mut cx = Context::from_waker(waker);
    let mut outs = Vec::new();
    for tick in case["ticks"].as_array().expect("ticks") {
        let lhs = FSrc::new(parse_src(&tick[0], kv));
        let rhs = FSrc::new(parse_src(&tick[1], kv));
        let mut rows: Vec<(u64, u64, u64)> = Vec::new();
        let mut awaits = 0usize;
        {
            let mut fut = pin!(symmetric_hash_join(lhs, rhs, &mut ls, &mut rs, true));
            let pull = loop {
                match fut.as_mut().poll(&mut cx) {
                    Poll::Ready(p) => break p,
                    Poll::Pending => {
                        awaits += 1;
                        assert!(awaits < 10_000, "drain never completes");
                    }
                }
            };
            let mut pull = pin!(pull);
            let mut polls = 0usize;
            loop {
                polls += 1;
                assert!(polls < 1_000_000, "enumeration never ends");
                match pull.as_mut().pull(&mut ()) {
                    PullStep::Ready((k, (v1, v2)), ()) => rows.push((k, v1, v2)),
                    PullStep::Pending(_) => {}
                    PullStep::Ended(_) => break,
                }
            }
        }
        rows.sort();
        outs.push(json!({ "rows": rows, "awaits": awaits, "lens": [ls.len(), rs.len()] }));
        if !p1 {
            ls.clear();
        }
        if !p2 {
            rs.clear();
        }
    }
    json!({ "ticks": outs })
}

pub fn run_c13(case: &Value) -> Value {
    let set = match case["sem"].as_str().expect("sem") {
        "set" => true,
        "multi" => false,
        o => panic!("bad sem {o}"),
    };
    match (case["mode"].as_str().expect("mode"), set) {
        ("inc", true) => run_inc(
            case,
            HalfSetJoinState::<u64, u64, u64>::default(),
            HalfSetJoinState::<u64, u64, u64>::default(),
        ),
        ("inc", false) => run_inc(
            case,
            HalfMultisetJoinState::<u64, u64, u64>::default(),
            HalfMultisetJoinState::<u64, u64, u64>::default(),
        ),
        ("ticks", true) => run_ticks(
            case,
            HalfSetJoinState::<u64, u64, u64>::default(),
            HalfSetJoinState::<u64, u64, u64>::default(),
        ),
        ("ticks", false) => run_ticks(
            case,
            HalfMultisetJoinState::<u64, u64, u64>::default(),
            HalfMultisetJoinState::<u64, u64, u64>::default(),
        ),
        (o, _) => panic!("bad mode {o}"),
    }
}
