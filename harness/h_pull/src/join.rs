//! C13: symmetric hash join (filled in later).
use hvcommon::{Value, json};

pub fn run_c13(_case: &Value) -> Value {
    json!({ "bad_case": "c13 not implemented yet" })
}
