//! Pipelines (kind "c11p"): a scripted source under 2-3 unary combinators, each stage boxed
//! behind a uniform `Pull<Item = u64>` so that any sequence of stages type-checks.
use std::pin::Pin;
use std::task::{Context, Waker};

use dfir_pipes::Yes;
use dfir_pipes::pull::{Pull, PullStep};
use hvcommon::Value;

use crate::{drive, ev_fn, ev_ls, ev_op, ev_pr, num, parse_src};

trait DynPull {
    fn pull_dyn(&mut self) -> PullStep<u64, (), Yes, Yes>;
    fn hint_dyn(&self) -> (usize, Option<usize>);
}

impl<P> DynPull for P
where
    P: Pull<Item = u64, Meta = ()> + Unpin,
{
    fn pull_dyn(&mut self) -> PullStep<u64, (), Yes, Yes> {
        let mut cx = Context::from_waker(Waker::noop());
        let ctx = <P::Ctx<'_> as dfir_pipes::Context<'_>>::from_task(&mut cx);
        Pin::new(self).pull(ctx).convert_into()
    }
    fn hint_dyn(&self) -> (usize, Option<usize>) {
        self.size_hint()
    }
}

/// One boxed stage; forwards `pull` and `size_hint` unchanged.
pub struct Dyn(Box<dyn DynPull>);

impl Pull for Dyn {
    type Ctx<'ctx> = ();
    type Item = u64;
    type Meta = ();
    type CanPend = Yes;
    type CanEnd = Yes;
    fn pull(self: Pin<&mut Self>, _ctx: &mut ()) -> PullStep<u64, (), Yes, Yes> {
        self.get_mut().0.pull_dyn()
    }
    fn size_hint(&self) -> (usize, Option<usize>) {
        self.0.hint_dyn()
    }
}

fn stage(prev: Dyn, st: &Value) -> Dyn {
    let n = || st["n"].as_u64().expect("n") as usize;
    match st["op"].as_str().expect("op") {
        "map" => Dyn(Box::new(prev.map(ev_fn(&st["fn"])))),
        "inspect" => Dyn(Box::new(prev.inspect(|_| {}))),
        "filter" => Dyn(Box::new(prev.filter(ev_pr(&st["fn"])))),
        "filter_map" => Dyn(Box::new(prev.filter_map(ev_op(&st["fn"])))),
        "flat_map" => Dyn(Box::new(prev.flat_map(ev_ls(&st["fn"])))),
        "take_while" => Dyn(Box::new(prev.take_while(ev_pr(&st["fn"])))),
        "skip_while" => Dyn(Box::new(prev.skip_while(ev_pr(&st["fn"])))),
        "take" => Dyn(Box::new(prev.take(n()))),
        "skip" => Dyn(Box::new(prev.skip(n()))),
        "fuse" => Dyn(Box::new(prev.fuse())),
        o => panic!("bad stage {o}"),
    }
}

/// a source under its unary stages, and a bound on the polls it can need
fn side(src: &Value, stages: &Value) -> (Dyn, usize) {
    let len = src["s"].as_array().unwrap().len();
    let mut expand = 1usize;
    let mut p = Dyn(Box::new(parse_src(src, num)));
    for st in stages.as_array().expect("stages") {
        if st["op"] == "flat_map" {
            expand *= 3;
        }
        p = stage(p, st);
    }
    (p, (len + 2) * expand * 2)
}

pub fn run_pipe(case: &Value) -> Value {
    let extra = case["extra"].as_u64().unwrap_or(2) as usize;
    let (a, ca) = side(&case["ins"][0], &case["stages"]);
    let Some(bin) = case["bin"].as_str() else {
        return drive(a, extra, ca + extra + 8);
    };
    // a binary combinator over two pipelines; FusedPull inputs are obtained with fuse()
    let (b, cb) = side(&case["ins"][1], &case["stages_b"]);
    let cap = ca + cb + extra + 8;
    match bin {
        "zip" => drive(a.zip(b), extra, cap),
        "chain" => drive(a.fuse().chain(b), extra, cap),
        "zip_longest" => drive(a.fuse().zip_longest(b.fuse()), extra, cap),
        "cross_singleton" => drive(a.cross_singleton(b), extra, cap),
        o => panic!("bad bin {o}"),
    }
}
