//! Component flows of hydro_test's Paxos for the C40 correspondence harness: the real
//! `recommit_after_leader_election` (the new leader's choice of p2a values from a quorum of p1b
//! logs) and `index_payloads` (the proposer's slot bookkeeping), wired to embedded inputs/outputs.
#[cfg(stageleft_runtime)]
hydro_lang::setup!();

use std::collections::HashMap;

use hydro_lang::live_collections::stream::TotalOrder;
use hydro_lang::location::{Location, MemberId};
use hydro_lang::prelude::*;
pub use hydro_test::cluster::paxos::{Ballot, LogValue, Proposer};
use hydro_test::cluster::paxos::{index_payloads, recommit_after_leader_election};
pub use hydro_test::cluster::paxos::{Acceptor, P2a, PaxosConfig, paxos_core};

pub type P1bLog = (Option<usize>, HashMap<usize, LogValue<u32>>);

fn recommit_flow<'a>(
    logs: Stream<P1bLog, Cluster<'a, Proposer>>,
    ballot: Stream<Ballot, Cluster<'a, Proposer>>,
    f: usize,
) {
    let tick = logs.location().tick();
    let lb = logs.batch(&tick, nondet!(/** harness */)).weaken_ordering();
    let b = ballot.batch(&tick, nondet!(/** harness */)).fold(
        q!(|| Ballot { num: 0, proposer_id: MemberId::from_raw_id(0) }),
        q!(|acc, x| *acc = x),
    );
    let (recommit, max_slot) = recommit_after_leader_election(lb, b, f);
    recommit
        .all_ticks()
        .assume_ordering::<TotalOrder>(nondet!(/** harness sorts */))
        .embedded_output("recommit");
    max_slot.into_stream().all_ticks().embedded_output("max_slot");
}

pub fn px_recommit_f1<'a>(logs: Stream<P1bLog, Cluster<'a, Proposer>>, ballot: Stream<Ballot, Cluster<'a, Proposer>>) {
    recommit_flow(logs, ballot, 1)
}
pub fn px_recommit_f2<'a>(logs: Stream<P1bLog, Cluster<'a, Proposer>>, ballot: Stream<Ballot, Cluster<'a, Proposer>>) {
    recommit_flow(logs, ballot, 2)
}

/// `index_payloads`: `max` carries the max slot learnt from p1bs in that tick (at most one item)
pub fn px_index<'a>(max: Stream<usize, Process<'a, ()>>, payloads: Stream<u32, Process<'a, ()>>) {
    let tick = payloads.location().tick();
    let m = max.batch(&tick, nondet!(/** harness */)).max();
    let p = payloads.batch(&tick, nondet!(/** harness */));
    index_payloads(m, p).all_ticks().embedded_output("out");
}


/// The whole `paxos_core` program (f = 1: 3 acceptors), payloads `u32`, with embedded inputs for the
/// client payloads at the proposers and the checkpoint at the acceptors, and embedded outputs for
/// the leader notifications and the decided `(slot, value)` stream.
pub fn px_core<'a>(
    proposers: &Cluster<'a, Proposer>,
    acceptors: &Cluster<'a, Acceptor>,
    payloads: Stream<u32, Cluster<'a, Proposer>>,
    checkpoint: Stream<usize, Cluster<'a, Acceptor>>,
) {
    let (ballots, decided) = paxos_core(
        proposers,
        acceptors,
        checkpoint.max(),
        |_new_leader| payloads,
        PaxosConfig {
            f: 1,
            i_am_leader_send_timeout: 1,
            i_am_leader_check_timeout: 3,
            i_am_leader_check_timeout_delay_multiplier: 1,
        },
        nondet!(/** harness */),
        nondet!(/** harness */),
    );
    ballots.embedded_output("leader");
    decided
        .assume_ordering::<TotalOrder>(nondet!(/** harness sorts */))
        .embedded_output("decided");
}
