//! Generates plain DFIR code for the Paxos component flows through the production embedded builder.
use hydro_lang::compile::builder::FlowBuilder;
use hydro_lang::location::Location;

fn main() {
    println!("cargo::rerun-if-changed=build.rs");
    let out_dir = std::env::var("OUT_DIR").unwrap();
    let mut mods = String::new();
    macro_rules! emit {
        ($name:expr, $code:expr) => {{
            std::fs::write(format!("{out_dir}/{}.rs", $name), prettyplease::unparse(&$code)).unwrap();
            mods.push_str(&format!(
                "#[allow(unused_imports, unused_qualifications, non_snake_case, clippy::all)]\npub mod {n} {{ include!(concat!(env!(\"OUT_DIR\"), \"/{n}.rs\")); }}\n",
                n = $name
            ));
        }};
    }
    macro_rules! recommit {
        ($name:ident) => {{
            let mut flow = FlowBuilder::new();
            let proposers = flow.cluster::<h_paxos_flows::Proposer>();
            h_paxos_flows::$name(
                proposers.embedded_input::<h_paxos_flows::P1bLog>("logs"),
                proposers.embedded_input::<h_paxos_flows::Ballot>("ballot"),
            );
            let code = flow.with_cluster(&proposers, stringify!($name)).generate_embedded("h_paxos_flows");
            emit!(stringify!($name), code);
        }};
    }
    recommit!(px_recommit_f1);
    recommit!(px_recommit_f2);
    {
        let mut flow = FlowBuilder::new();
        let process = flow.process::<()>();
        h_paxos_flows::px_index(process.embedded_input::<usize>("max"), process.embedded_input::<u32>("payloads"));
        let code = flow.with_process(&process, "px_index").generate_embedded("h_paxos_flows");
        emit!("px_index", code);
    }
    {
        // the whole paxos_core program; its network channels are unnamed in paxos.rs, the embedded
        // generator needs names: number them (labels only, the program is unchanged)
        let mut flow = FlowBuilder::new();
        let proposers = flow.cluster::<h_paxos_flows::Proposer>();
        let acceptors = flow.cluster::<h_paxos_flows::Acceptor>();
        h_paxos_flows::px_core(
            &proposers,
            &acceptors,
            proposers.embedded_input::<u32>("payloads"),
            acceptors.embedded_input::<usize>("checkpoint"),
        );
        let mut k = 0usize;
        let built = flow.optimize_with(|ir| {
            let mut seen = Default::default();
            for root in ir.iter_mut() {
                root.transform_bottom_up(
                    &mut |_r| {},
                    &mut |n| {
                        if let hydro_lang::compile::ir::HydroNode::Network { name, .. } = n {
                            if name.is_none() {
                                *name = Some(format!("ch{k}"));
                                k += 1;
                            }
                        }
                    },
                    &mut seen,
                    false,
                );
            }
        });
        let code = built
            .with_cluster(&proposers, "px_proposer")
            .with_cluster(&acceptors, "px_acceptor")
            .generate_embedded("h_paxos_flows");
        emit!("px_core", code);
    }
    std::fs::write(format!("{out_dir}/mods.rs"), mods).unwrap();
}
