//! C40 (Paxos part) component harness: the real `recommit_after_leader_election` and `index_payloads`
//! of hydro_test/src/cluster/paxos.rs, compiled through the production embedded code generator.
//!
//! {"k":"px_recommit","f":1|2,"ballot":[num,pid],"logs":[{"cp":null|n,"entries":[[slot,[num,pid],val|null],..]},..]}
//!    -> {"recommit":[[[slot,[num,pid]],val|null],..],"max_slot":[n]|[]}       (one tick)
//! {"k":"px_acc","ticks":[{"p1a":[[num,pid],..],"p2a":[[sender,[num,pid],slot,val|null],..]},..]}
//!    -> {"ticks":[{"p1b":[[to,[num,pid],{"ok":[[slot,[num,pid],val|null],..]}|{"err":[num,pid]|null}],..],
//!                  "p2b":[[to,slot,[num,pid],{"ok":true}|{"err":[num,pid]|null}],..]},..]}
//!    the ACCEPTOR node of the whole `paxos_core` program (f = 1), as generated for that location by the
//!    embedded code generator; network channels are fed/collected per tick as bincode bytes.
//! {"k":"px_index","ticks":[{"max":null|n,"payloads":[..]},..]} -> {"ticks":[[[slot,payload],..],..]}
use std::cell::RefCell;
use std::collections::{HashMap, VecDeque};
use std::pin::Pin;
use std::rc::Rc;
use std::task::{Context, Poll};

use h_paxos_flows::{Ballot, LogValue, P1bLog};
use hvcommon::{Value, json};
use hydro_lang::location::{MemberId, TaglessMemberId};

mod generated {
    include!(concat!(env!("OUT_DIR"), "/mods.rs"));
}

struct QS<T>(Rc<RefCell<VecDeque<T>>>);
impl<T> dfir_rs::futures::Stream for QS<T> {
    type Item = T;
    fn poll_next(self: Pin<&mut Self>, _cx: &mut Context<'_>) -> Poll<Option<T>> {
        match self.0.borrow_mut().pop_front() {
            Some(x) => Poll::Ready(Some(x)),
            None => Poll::Pending,
        }
    }
}

fn ballot(v: &Value) -> Ballot {
    Ballot { num: v[0].as_u64().unwrap() as u32, proposer_id: MemberId::from_raw_id(v[1].as_u64().unwrap() as u32) }
}
fn j_ballot(b: &Ballot) -> Value {
    json!([b.num, b.proposer_id.get_raw_id()])
}
fn log(v: &Value) -> P1bLog {
    let cp = v["cp"].as_u64().map(|x| x as usize);
    let mut m = HashMap::new();
    for e in v["entries"].as_array().unwrap() {
        m.insert(
            e[0].as_u64().unwrap() as usize,
            LogValue { ballot: ballot(&e[1]), value: e[2].as_u64().map(|x| x as u32) },
        );
    }
    (cp, m)
}

macro_rules! recommit {
    ($case:ident, $name:ident) => {{
        let me = TaglessMemberId::from_raw_id(0);
        let bq: Rc<RefCell<VecDeque<Ballot>>> = Rc::new(RefCell::new(VecDeque::new()));
        bq.borrow_mut().push_back(ballot(&$case["ballot"]));
        let lq: Rc<RefCell<VecDeque<P1bLog>>> = Rc::new(RefCell::new(VecDeque::new()));
        for l in $case["logs"].as_array().unwrap() {
            lq.borrow_mut().push_back(log(l));
        }
        let rec: Rc<RefCell<Vec<Value>>> = Rc::new(RefCell::new(Vec::new()));
        let mx: Rc<RefCell<Vec<Value>>> = Rc::new(RefCell::new(Vec::new()));
        {
            let (r2, m2) = (rec.clone(), mx.clone());
            let mut outputs = generated::$name::$name::EmbeddedOutputs {
                max_slot: move |s: usize| m2.borrow_mut().push(json!(s)),
                recommit: move |((slot, b), v): ((usize, Ballot), Option<u32>)| {
                    r2.borrow_mut().push(json!([[slot, j_ballot(&b)], v]))
                },
            };
            let mut df = generated::$name::$name(&me, QS(bq), QS(lq), &mut outputs);
            df.run_tick_sync();
            drop(df);
        }
        json!({"recommit": Value::Array(rec.borrow().clone()), "max_slot": Value::Array(mx.borrow().clone())})
    }};
}

type NetItem = Result<(TaglessMemberId, dfir_rs::bytes::BytesMut), std::io::Error>;
type P1b = (Ballot, Result<P1bLog, Option<Ballot>>);
type P2b = ((usize, Ballot), Result<(), Option<Ballot>>);

fn j_oballot(b: &Option<Ballot>) -> Value {
    match b {
        Some(b) => j_ballot(b),
        None => Value::Null,
    }
}

fn sorted(mut v: Vec<Value>) -> Value {
    v.sort_by_key(|x| x.to_string());
    Value::Array(v)
}

fn run_acceptor(case: &Value) -> Value {
    use dfir_rs::bytes::{Bytes, BytesMut};
    let me = TaglessMemberId::from_raw_id(case["id"].as_u64().unwrap_or(0) as u32);
    let q1: Rc<RefCell<VecDeque<NetItem>>> = Rc::new(RefCell::new(VecDeque::new()));
    let q2: Rc<RefCell<VecDeque<NetItem>>> = Rc::new(RefCell::new(VecDeque::new()));
    let cp: Rc<RefCell<VecDeque<usize>>> = Rc::new(RefCell::new(VecDeque::new()));
    let o1: Rc<RefCell<Vec<(TaglessMemberId, Bytes)>>> = Rc::new(RefCell::new(Vec::new()));
    let o2: Rc<RefCell<Vec<(TaglessMemberId, Bytes)>>> = Rc::new(RefCell::new(Vec::new()));
    let mut res = Vec::new();
    {
        let (a1, a2) = (o1.clone(), o2.clone());
        let mut net_out = generated::px_core::px_acceptor::EmbeddedNetworkOut {
            ch2: move |x: (TaglessMemberId, Bytes)| a1.borrow_mut().push(x),
            ch4: move |x: (TaglessMemberId, Bytes)| a2.borrow_mut().push(x),
        };
        let net_in = generated::px_core::px_acceptor::EmbeddedNetworkIn { ch1: QS(q1.clone()), ch3: QS(q2.clone()) };
        let mut df = generated::px_core::px_acceptor(&me, QS(cp.clone()), net_in, &mut net_out);
        for t in case["ticks"].as_array().unwrap() {
            for b in t["p1a"].as_array().unwrap() {
                let bal = ballot(b);
                let from = bal.proposer_id.clone().into_tagless();
                let bytes = bincode::serialize(&bal).unwrap();
                q1.borrow_mut().push_back(Ok((from, BytesMut::from(&bytes[..]))));
            }
            for m in t["p2a"].as_array().unwrap() {
                let sender = m[0].as_u64().unwrap() as u32;
                let p2a = h_paxos_flows::P2a::<u32, h_paxos_flows::Proposer> {
                    sender: MemberId::from_raw_id(sender),
                    ballot: ballot(&m[1]),
                    slot: m[2].as_u64().unwrap() as usize,
                    value: m[3].as_u64().map(|x| x as u32),
                };
                let bytes = bincode::serialize(&p2a).unwrap();
                q2.borrow_mut().push_back(Ok((TaglessMemberId::from_raw_id(sender), BytesMut::from(&bytes[..]))));
            }
            df.run_tick_sync();
            let mut p1b = Vec::new();
            for (to, bytes) in o1.borrow_mut().drain(..) {
                let (b, r): P1b = bincode::deserialize(&bytes).unwrap();
                let body = match r {
                    Ok((cp, log)) => {
                        let mut es: Vec<(usize, Value)> =
                            log.iter().map(|(s, lv)| (*s, json!([s, j_ballot(&lv.ballot), lv.value]))).collect();
                        es.sort_by_key(|x| x.0);
                        json!({"ok": es.into_iter().map(|x| x.1).collect::<Vec<_>>(), "cp": cp})
                    }
                    Err(mb) => json!({"err": j_oballot(&mb)}),
                };
                p1b.push(json!([to.get_raw_id(), j_ballot(&b), body]));
            }
            let mut p2b = Vec::new();
            for (to, bytes) in o2.borrow_mut().drain(..) {
                let ((slot, b), r): P2b = bincode::deserialize(&bytes).unwrap();
                let body = match r {
                    Ok(()) => json!({"ok": true}),
                    Err(mb) => json!({"err": j_oballot(&mb)}),
                };
                p2b.push(json!([to.get_raw_id(), slot, j_ballot(&b), body]));
            }
            res.push(json!({"p1b": sorted(p1b), "p2b": sorted(p2b)}));
        }
        drop(df);
    }
    json!({"ticks": res})
}

fn p1blog(v: &Value) -> P1bLog {
    let mut m = HashMap::new();
    for e in v.as_array().unwrap() {
        m.insert(
            e[0].as_u64().unwrap() as usize,
            LogValue { ballot: ballot(&e[1]), value: e[2].as_u64().map(|x| x as u32) },
        );
    }
    (None, m)
}

/// The PROPOSER node of the whole `paxos_core` program (f = 1; proposers {0,1}, acceptors {0,1,2}),
/// driven tick by tick under a paused tokio clock:
/// {"k":"px_prop","id":0|1,"ticks":[{"adv_ms":n,"payloads":[..],"hb":[[num,pid],..],
///    "p1b":[[acc,[num,pid],{"ok":[[slot,[num,pid],val|null],..]}|{"err":[num,pid]|null}],..],
///    "p2b":[[acc,slot,[num,pid],{"ok":true}|{"err":..}],..]},..]}
///  -> {"ticks":[{"p1a":[[to,[num,pid]],..],"p2a":[[to,sender,[num,pid],slot,val|null],..],"hb":[[to,[num,pid]],..],
///               "decided":[[slot,val|null],..],"leader":[[num,pid],..]},..]}
fn run_proposer(case: &Value) -> Value {
    use dfir_rs::bytes::{Bytes, BytesMut};
    use hydro_lang::location::MembershipEvent;
    let rt = tokio::runtime::Builder::new_current_thread().enable_time().start_paused(true).build().unwrap();
    rt.block_on(async {
        let me = TaglessMemberId::from_raw_id(case["id"].as_u64().unwrap_or(0) as u32);
        let q0: Rc<RefCell<VecDeque<NetItem>>> = Rc::new(RefCell::new(VecDeque::new()));
        let q2: Rc<RefCell<VecDeque<NetItem>>> = Rc::new(RefCell::new(VecDeque::new()));
        let q4: Rc<RefCell<VecDeque<NetItem>>> = Rc::new(RefCell::new(VecDeque::new()));
        let pq: Rc<RefCell<VecDeque<u32>>> = Rc::new(RefCell::new(VecDeque::new()));
        let mp: Rc<RefCell<VecDeque<(TaglessMemberId, MembershipEvent)>>> = Rc::new(RefCell::new(VecDeque::new()));
        let ma: Rc<RefCell<VecDeque<(TaglessMemberId, MembershipEvent)>>> = Rc::new(RefCell::new(VecDeque::new()));
        for i in 0..2 {
            mp.borrow_mut().push_back((TaglessMemberId::from_raw_id(i), MembershipEvent::Joined));
        }
        for i in 0..3 {
            ma.borrow_mut().push_back((TaglessMemberId::from_raw_id(i), MembershipEvent::Joined));
        }
        let o0: Rc<RefCell<Vec<(TaglessMemberId, Bytes)>>> = Rc::new(RefCell::new(Vec::new()));
        let o1: Rc<RefCell<Vec<(TaglessMemberId, Bytes)>>> = Rc::new(RefCell::new(Vec::new()));
        let o3: Rc<RefCell<Vec<(TaglessMemberId, Bytes)>>> = Rc::new(RefCell::new(Vec::new()));
        let dec: Rc<RefCell<Vec<Value>>> = Rc::new(RefCell::new(Vec::new()));
        let led: Rc<RefCell<Vec<Value>>> = Rc::new(RefCell::new(Vec::new()));
        let mut res = Vec::new();
        {
            let (a0, a1, a3, d2, l2) = (o0.clone(), o1.clone(), o3.clone(), dec.clone(), led.clone());
            let mut outputs = generated::px_core::px_proposer::EmbeddedOutputs {
                decided: move |(s, v): (usize, Option<u32>)| d2.borrow_mut().push(json!([s, v])),
                leader: move |b: Ballot| l2.borrow_mut().push(j_ballot(&b)),
            };
            let mut net_out = generated::px_core::px_proposer::EmbeddedNetworkOut {
                ch0: move |x: (TaglessMemberId, Bytes)| a0.borrow_mut().push(x),
                ch1: move |x: (TaglessMemberId, Bytes)| a1.borrow_mut().push(x),
                ch3: move |x: (TaglessMemberId, Bytes)| a3.borrow_mut().push(x),
            };
            let net_in = generated::px_core::px_proposer::EmbeddedNetworkIn {
                ch0: QS(q0.clone()),
                ch2: QS(q2.clone()),
                ch4: QS(q4.clone()),
            };
            let mem = generated::px_core::px_proposer::EmbeddedMembershipStreams { px_proposer: QS(mp.clone()), px_acceptor: QS(ma.clone()) };
            let mut df = generated::px_core::px_proposer(&me, mem, QS(pq.clone()), &mut outputs, net_in, &mut net_out);
            for t in case["ticks"].as_array().unwrap() {
                let adv = t["adv_ms"].as_u64().unwrap_or(0);
                if adv > 0 {
                    tokio::time::advance(std::time::Duration::from_millis(adv)).await;
                }
                for p in t["payloads"].as_array().map(|v| v.as_slice()).unwrap_or(&[]) {
                    pq.borrow_mut().push_back(p.as_u64().unwrap() as u32);
                }
                for b in t["hb"].as_array().map(|v| v.as_slice()).unwrap_or(&[]) {
                    let bal = ballot(b);
                    let from = bal.proposer_id.clone().into_tagless();
                    let bytes = bincode::serialize(&bal).unwrap();
                    q0.borrow_mut().push_back(Ok((from, BytesMut::from(&bytes[..]))));
                }
                for m in t["p1b"].as_array().map(|v| v.as_slice()).unwrap_or(&[]) {
                    let from = TaglessMemberId::from_raw_id(m[0].as_u64().unwrap() as u32);
                    let body: Result<P1bLog, Option<Ballot>> = if m[2].get("ok").is_some() {
                        Ok(p1blog(&m[2]["ok"]))
                    } else if m[2]["err"].is_null() {
                        Err(None)
                    } else {
                        Err(Some(ballot(&m[2]["err"])))
                    };
                    let msg: P1b = (ballot(&m[1]), body);
                    let bytes = bincode::serialize(&msg).unwrap();
                    q2.borrow_mut().push_back(Ok((from, BytesMut::from(&bytes[..]))));
                }
                for m in t["p2b"].as_array().map(|v| v.as_slice()).unwrap_or(&[]) {
                    let from = TaglessMemberId::from_raw_id(m[0].as_u64().unwrap() as u32);
                    let body: Result<(), Option<Ballot>> = if m[3].get("ok").is_some() {
                        Ok(())
                    } else if m[3]["err"].is_null() {
                        Err(None)
                    } else {
                        Err(Some(ballot(&m[3]["err"])))
                    };
                    let msg: P2b = ((m[1].as_u64().unwrap() as usize, ballot(&m[2])), body);
                    let bytes = bincode::serialize(&msg).unwrap();
                    q4.borrow_mut().push_back(Ok((from, BytesMut::from(&bytes[..]))));
                }
                df.run_tick_sync();
                let mut p1a = Vec::new();
                for (to, bytes) in o1.borrow_mut().drain(..) {
                    let b: Ballot = bincode::deserialize(&bytes).unwrap();
                    p1a.push(json!([to.get_raw_id(), j_ballot(&b)]));
                }
                let mut hb = Vec::new();
                for (to, bytes) in o0.borrow_mut().drain(..) {
                    let b: Ballot = bincode::deserialize(&bytes).unwrap();
                    hb.push(json!([to.get_raw_id(), j_ballot(&b)]));
                }
                let mut p2a = Vec::new();
                for (to, bytes) in o3.borrow_mut().drain(..) {
                    let m: h_paxos_flows::P2a<u32, h_paxos_flows::Proposer> = bincode::deserialize(&bytes).unwrap();
                    p2a.push(json!([to.get_raw_id(), m.sender.get_raw_id(), j_ballot(&m.ballot), m.slot, m.value]));
                }
                res.push(json!({"p1a": sorted(p1a), "p2a": sorted(p2a), "hb": sorted(hb),
                                "decided": sorted(std::mem::take(&mut *dec.borrow_mut())),
                                "leader": Value::Array(std::mem::take(&mut *led.borrow_mut()))}));
            }
            drop(df);
        }
        json!({"ticks": res})
    })
}

fn run(case: &Value) -> Value {
    match case["k"].as_str().unwrap_or("") {
        "px_acc" => run_acceptor(case),
        "px_prop" => run_proposer(case),
        "px_recommit" => {
            if case["f"].as_u64() == Some(1) {
                recommit!(case, px_recommit_f1)
            } else {
                recommit!(case, px_recommit_f2)
            }
        }
        "px_index" => {
            let mq: Rc<RefCell<VecDeque<usize>>> = Rc::new(RefCell::new(VecDeque::new()));
            let pq: Rc<RefCell<VecDeque<u32>>> = Rc::new(RefCell::new(VecDeque::new()));
            let out: Rc<RefCell<Vec<Value>>> = Rc::new(RefCell::new(Vec::new()));
            let mut res = Vec::new();
            {
                let o2 = out.clone();
                let mut outputs = generated::px_index::px_index::EmbeddedOutputs {
                    out: move |(s, p): (usize, u32)| o2.borrow_mut().push(json!([s, p])),
                };
                let mut df = generated::px_index::px_index(QS(mq.clone()), QS(pq.clone()), &mut outputs);
                for t in case["ticks"].as_array().unwrap() {
                    if let Some(m) = t["max"].as_u64() {
                        mq.borrow_mut().push_back(m as usize);
                    }
                    for p in t["payloads"].as_array().unwrap() {
                        pq.borrow_mut().push_back(p.as_u64().unwrap() as u32);
                    }
                    df.run_tick_sync();
                    res.push(Value::Array(std::mem::take(&mut *out.borrow_mut())));
                }
                drop(df);
            }
            json!({"ticks": res})
        }
        _ => json!({"bad_case": "unknown kind"}),
    }
}

fn main() {
    // the Paxos program prints progress lines with println!: keep fd 1 for the result lines only
    use std::io::{BufRead, Write};
    use std::os::fd::{AsRawFd, FromRawFd};
    let saved = unsafe { libc::dup(1) };
    let devnull = std::fs::OpenOptions::new().write(true).open("/dev/null").unwrap();
    unsafe { libc::dup2(devnull.as_raw_fd(), 1) };
    let mut out = unsafe { std::fs::File::from_raw_fd(saved) };
    std::panic::set_hook(Box::new(|_| {}));
    let path = std::env::args().nth(1).expect("usage: h_paxos <cases.jsonl>");
    let file = std::io::BufReader::new(std::fs::File::open(&path).expect("open case file"));
    for line in file.lines() {
        let line = line.unwrap();
        if line.trim().is_empty() {
            continue;
        }
        let res = match serde_json::from_str::<Value>(&line) {
            Ok(case) => hvcommon::guarded(|| run(&case)),
            Err(e) => json!({ "bad_case": e.to_string() }),
        };
        writeln!(out, "{}", res).unwrap();
    }
}
