//! C40 (Paxos part) component harness: the real `recommit_after_leader_election` and `index_payloads`
//! of hydro_test/src/cluster/paxos.rs, compiled through the production embedded code generator.
//!
//! {"k":"px_recommit","f":1|2,"ballot":[num,pid],"logs":[{"cp":null|n,"entries":[[slot,[num,pid],val|null],..]},..]}
//!    -> {"recommit":[[[slot,[num,pid]],val|null],..],"max_slot":[n]|[]}       (one tick)
//! {"k":"px_index","ticks":[{"max":null|n,"payloads":[..]},..]} -> {"ticks":[[[slot,payload],..],..]}
use std::cell::RefCell;
use std::collections::{HashMap, VecDeque};
use std::pin::Pin;
use std::rc::Rc;
use std::task::{Context, Poll};

use h_paxos_flows::{Ballot, LogValue, P1bLog};
use hvcommon::{Value, json};
use hydro_lang::location::{MemberId, TaglessMemberId};

mod generated {
    include!(concat!(env!("OUT_DIR"), "/mods.rs"));
}

struct QS<T>(Rc<RefCell<VecDeque<T>>>);
impl<T> dfir_rs::futures::Stream for QS<T> {
    type Item = T;
    fn poll_next(self: Pin<&mut Self>, _cx: &mut Context<'_>) -> Poll<Option<T>> {
        match self.0.borrow_mut().pop_front() {
            Some(x) => Poll::Ready(Some(x)),
            None => Poll::Pending,
        }
    }
}

fn ballot(v: &Value) -> Ballot {
    Ballot { num: v[0].as_u64().unwrap() as u32, proposer_id: MemberId::from_raw_id(v[1].as_u64().unwrap() as u32) }
}
fn j_ballot(b: &Ballot) -> Value {
    json!([b.num, b.proposer_id.get_raw_id()])
}
fn log(v: &Value) -> P1bLog {
    let cp = v["cp"].as_u64().map(|x| x as usize);
    let mut m = HashMap::new();
    for e in v["entries"].as_array().unwrap() {
        m.insert(
            e[0].as_u64().unwrap() as usize,
            LogValue { ballot: ballot(&e[1]), value: e[2].as_u64().map(|x| x as u32) },
        );
    }
    (cp, m)
}

macro_rules! recommit {
    ($case:ident, $name:ident) => {{
        let me = TaglessMemberId::from_raw_id(0);
        let bq: Rc<RefCell<VecDeque<Ballot>>> = Rc::new(RefCell::new(VecDeque::new()));
        bq.borrow_mut().push_back(ballot(&$case["ballot"]));
        let lq: Rc<RefCell<VecDeque<P1bLog>>> = Rc::new(RefCell::new(VecDeque::new()));
        for l in $case["logs"].as_array().unwrap() {
            lq.borrow_mut().push_back(log(l));
        }
        let rec: Rc<RefCell<Vec<Value>>> = Rc::new(RefCell::new(Vec::new()));
        let mx: Rc<RefCell<Vec<Value>>> = Rc::new(RefCell::new(Vec::new()));
        {
            let (r2, m2) = (rec.clone(), mx.clone());
            let mut outputs = generated::$name::$name::EmbeddedOutputs {
                max_slot: move |s: usize| m2.borrow_mut().push(json!(s)),
                recommit: move |((slot, b), v): ((usize, Ballot), Option<u32>)| {
                    r2.borrow_mut().push(json!([[slot, j_ballot(&b)], v]))
                },
            };
            let mut df = generated::$name::$name(&me, QS(bq), QS(lq), &mut outputs);
            df.run_tick_sync();
            drop(df);
        }
        json!({"recommit": Value::Array(rec.borrow().clone()), "max_slot": Value::Array(mx.borrow().clone())})
    }};
}

fn run(case: &Value) -> Value {
    match case["k"].as_str().unwrap_or("") {
        "px_recommit" => {
            if case["f"].as_u64() == Some(1) {
                recommit!(case, px_recommit_f1)
            } else {
                recommit!(case, px_recommit_f2)
            }
        }
        "px_index" => {
            let mq: Rc<RefCell<VecDeque<usize>>> = Rc::new(RefCell::new(VecDeque::new()));
            let pq: Rc<RefCell<VecDeque<u32>>> = Rc::new(RefCell::new(VecDeque::new()));
            let out: Rc<RefCell<Vec<Value>>> = Rc::new(RefCell::new(Vec::new()));
            let mut res = Vec::new();
            {
                let o2 = out.clone();
                let mut outputs = generated::px_index::px_index::EmbeddedOutputs {
                    out: move |(s, p): (usize, u32)| o2.borrow_mut().push(json!([s, p])),
                };
                let mut df = generated::px_index::px_index(QS(mq.clone()), QS(pq.clone()), &mut outputs);
                for t in case["ticks"].as_array().unwrap() {
                    if let Some(m) = t["max"].as_u64() {
                        mq.borrow_mut().push_back(m as usize);
                    }
                    for p in t["payloads"].as_array().unwrap() {
                        pq.borrow_mut().push_back(p.as_u64().unwrap() as u32);
                    }
                    df.run_tick_sync();
                    res.push(Value::Array(std::mem::take(&mut *out.borrow_mut())));
                }
                drop(df);
            }
            json!({"ticks": res})
        }
        _ => json!({"bad_case": "unknown kind"}),
    }
}

fn main() {
    hvcommon::main_loop(run)
}
