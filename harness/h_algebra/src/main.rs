//! Correspondence harness for the Algebra engine (E3, property C09): runs the real law
//! checkers of `lattices::algebra`, the `cartesian_power` iterator of `lattices::test` and the
//! semiring applications of `lattices::semiring_application` on JSON cases.
//!
//! Carrier elements are `u8` values `0..n`; a binary operation is an `n x n` table
//! (`t[a][b]`), a unary map an `n`-vector.  `items` is any list (length <= 7) of carrier
//! elements (the checkers take `&[S; N]`, dispatched over `N` below).
//!
//! Case kinds (`"k"`):
//!   associativity|commutativity|idempotency|semigroup            items f
//!   identity|absorbing_element|monoid|commutative_monoid|
//!   no_nonzero_zero_divisors                                      items f e
//!   inverse|group|abelian_group                                   items f e b
//!   nonzero_inverse                                               items f e zero b
//!   left_distributes|right_distributes|distributive               items f g
//!   semiring                                                      items f g zero one
//!   ring|commutative_ring|integral_domain                         items f g zero one b
//!   field                                                         items f g zero one b b2
//!   linearity                                                     items f g q(vector)
//!   bilinearity                                                   items items2 f h g q(table)
//!   props (get_single_function_properties)                        items f e b z
//!       -> {"r":"ok"} | {"r":"err","m":<message>} | {"props":[..]}
//!   cpow   items arity(0..=4)  -> {"tuples":[[..]..],"lens":[len before each next.., final len],
//!                                   "after":<next() after the end is None>}
//!   sr     ty a b c            -> {"v":[..20 expression values or "panic"..]}
//!   sr_new ty a                -> {"v": raw | "panic"}
use hvcommon::{Value, guarded, json};
use lattices::algebra::*;
use lattices::semiring_application::{
    BinaryTrust, ConfidenceScore, Cost, FuzzyLogic, Multiplicity, U32WithInfinity,
};
use lattices::test::cartesian_power;
use lattices::{Addition, Multiplication, One, Zero};

type E = u8;

fn elem(v: &Value) -> E {
    v.as_u64().expect("element") as E
}
fn vecu(v: &Value) -> Vec<E> {
    v.as_array().expect("vector").iter().map(elem).collect()
}
fn tbl(v: &Value) -> Vec<Vec<E>> {
    v.as_array().expect("table").iter().map(vecu).collect()
}
fn res(r: Result<(), &'static str>) -> Value {
    match r {
        Ok(()) => json!({"r": "ok"}),
        Err(m) => json!({"r": "err", "m": m}),
    }
}

/// dispatch a slice of length 0..=7 to a `&[E; N]`
macro_rules! with_arr {
    ($items:expr, $arr:ident => $body:expr) => {{
        let s: &[E] = &$items[..];
        macro_rules! arm {
            ($n:literal) => {{
                let $arr: &[E; $n] = s.try_into().unwrap();
                $body
            }};
        }
        match s.len() {
            0 => arm!(0),
            1 => arm!(1),
            2 => arm!(2),
            3 => arm!(3),
            4 => arm!(4),
            5 => arm!(5),
            6 => arm!(6),
            7 => arm!(7),
            n => panic!("items length {} not supported by the harness", n),
        }
    }};
}

fn cpow<const N: usize>(items: &[E]) -> Value {
    let mut it = cartesian_power::<E, N>(items);
    let mut tuples = Vec::new();
    let mut lens = Vec::new();
    loop {
        lens.push(it.len());
        // `len()` asserts size_hint's lower == upper; record both anyway
        let (lo, hi) = it.size_hint();
        assert_eq!(Some(lo), hi);
        match it.next() {
            Some(t) => tuples.push(t.iter().map(|x| **x).collect::<Vec<E>>()),
            None => break,
        }
        if tuples.len() > 100_000 {
            panic!("cartesian_power does not terminate");
        }
    }
    let after = it.next().is_none() && it.len() == 0;
    json!({"tuples": tuples, "lens": lens, "after": after})
}

// ------------------------------------------------------------------ semiring applications

trait Sr: Addition<Self> + Multiplication<Self> + Sized {
    type Raw: Copy;
    fn mk(r: Self::Raw) -> Self;
    fn raw(&self) -> Self::Raw;
    fn zero_raw(&self) -> Self::Raw;
    fn one_raw(&self) -> Self::Raw;
    fn parse(v: &Value) -> Self::Raw;
    fn show(r: Self::Raw) -> Value;
}

impl Sr for BinaryTrust {
    type Raw = bool;
    fn mk(r: bool) -> Self {
        BinaryTrust::verif_from_raw(r)
    }
    fn raw(&self) -> bool {
        self.verif_raw()
    }
    fn zero_raw(&self) -> bool {
        self.zero()
    }
    fn one_raw(&self) -> bool {
        self.one()
    }
    fn parse(v: &Value) -> bool {
        v.as_u64().unwrap() != 0
    }
    fn show(r: bool) -> Value {
        json!(r as u64)
    }
}

impl Sr for Multiplicity {
    type Raw = u32;
    fn mk(r: u32) -> Self {
        Multiplicity::new(r)
    }
    fn raw(&self) -> u32 {
        self.verif_raw()
    }
    fn zero_raw(&self) -> u32 {
        self.zero()
    }
    fn one_raw(&self) -> u32 {
        self.one()
    }
    fn parse(v: &Value) -> u32 {
        v.as_u64().unwrap() as u32
    }
    fn show(r: u32) -> Value {
        json!(r)
    }
}

impl Sr for Cost {
    type Raw = U32WithInfinity;
    fn mk(r: U32WithInfinity) -> Self {
        Cost::new(r)
    }
    fn raw(&self) -> U32WithInfinity {
        self.verif_raw()
    }
    fn zero_raw(&self) -> U32WithInfinity {
        self.zero()
    }
    fn one_raw(&self) -> U32WithInfinity {
        self.one()
    }
    fn parse(v: &Value) -> U32WithInfinity {
        match v.as_u64() {
            Some(n) => U32WithInfinity::Finite(n as u32),
            None => U32WithInfinity::Infinity,
        }
    }
    fn show(r: U32WithInfinity) -> Value {
        match r {
            U32WithInfinity::Infinity => Value::Null,
            U32WithInfinity::Finite(n) => json!(n),
        }
    }
}

fn fbits(v: &Value) -> f64 {
    f64::from_bits(v.as_u64().expect("f64 bit pattern"))
}

impl Sr for ConfidenceScore {
    type Raw = f64;
    fn mk(r: f64) -> Self {
        ConfidenceScore::new(r)
    }
    fn raw(&self) -> f64 {
        self.verif_raw()
    }
    fn zero_raw(&self) -> f64 {
        self.zero()
    }
    fn one_raw(&self) -> f64 {
        self.one()
    }
    fn parse(v: &Value) -> f64 {
        fbits(v)
    }
    fn show(r: f64) -> Value {
        json!(r.to_bits())
    }
}

impl Sr for FuzzyLogic {
    type Raw = f64;
    fn mk(r: f64) -> Self {
        FuzzyLogic::new(r)
    }
    fn raw(&self) -> f64 {
        self.verif_raw()
    }
    fn zero_raw(&self) -> f64 {
        self.zero()
    }
    fn one_raw(&self) -> f64 {
        self.one()
    }
    fn parse(v: &Value) -> f64 {
        fbits(v)
    }
    fn show(r: f64) -> Value {
        json!(r.to_bits())
    }
}

#[derive(Clone, Copy)]
enum X {
    A,
    B,
    C,
    Zero,
    One,
}
enum Ex {
    L(X),
    Add(Box<Ex>, Box<Ex>),
    Mul(Box<Ex>, Box<Ex>),
}
fn l(x: X) -> Box<Ex> {
    Box::new(Ex::L(x))
}
fn add(a: Box<Ex>, b: Box<Ex>) -> Box<Ex> {
    Box::new(Ex::Add(a, b))
}
fn mul(a: Box<Ex>, b: Box<Ex>) -> Box<Ex> {
    Box::new(Ex::Mul(a, b))
}

fn eval<T: Sr>(e: &Ex, a: T::Raw, b: T::Raw, c: T::Raw) -> T {
    match e {
        Ex::L(X::A) => T::mk(a),
        Ex::L(X::B) => T::mk(b),
        Ex::L(X::C) => T::mk(c),
        Ex::L(X::Zero) => {
            let z = T::mk(a).zero_raw();
            T::mk(z)
        }
        Ex::L(X::One) => {
            let o = T::mk(a).one_raw();
            T::mk(o)
        }
        Ex::Add(x, y) => {
            let mut s: T = eval(x, a, b, c);
            s.add(eval(y, a, b, c));
            s
        }
        Ex::Mul(x, y) => {
            let mut s: T = eval(x, a, b, c);
            s.mul(eval(y, a, b, c));
            s
        }
    }
}

/// the 20 expressions of an `sr` case, in the order of `sr_exprs` in Algebra/Model.v
fn sr_exprs() -> Vec<Box<Ex>> {
    use X::*;
    vec![
        add(l(A), l(B)),
        add(l(B), l(A)),
        mul(l(A), l(B)),
        mul(l(B), l(A)),
        add(add(l(A), l(B)), l(C)),
        add(l(A), add(l(B), l(C))),
        mul(mul(l(A), l(B)), l(C)),
        mul(l(A), mul(l(B), l(C))),
        mul(l(A), add(l(B), l(C))),
        add(mul(l(A), l(B)), mul(l(A), l(C))),
        mul(add(l(B), l(C)), l(A)),
        add(mul(l(B), l(A)), mul(l(C), l(A))),
        add(l(A), l(Zero)),
        add(l(Zero), l(A)),
        mul(l(A), l(One)),
        mul(l(One), l(A)),
        mul(l(A), l(Zero)),
        mul(l(Zero), l(A)),
        l(Zero),
        l(One),
    ]
}

fn sr<T: Sr>(case: &Value) -> Value {
    let (a, b, c) = (T::parse(&case["a"]), T::parse(&case["b"]), T::parse(&case["c"]));
    let vals: Vec<Value> = sr_exprs()
        .iter()
        .map(|e| {
            let v = guarded(|| T::show(eval::<T>(e, a, b, c).raw()));
            if v.get("panic").is_some() { json!("panic") } else { v }
        })
        .collect();
    json!({ "v": vals })
}

fn sr_new<T: Sr>(case: &Value) -> Value {
    let a = T::parse(&case["a"]);
    let v = guarded(|| T::show(T::mk(a).raw()));
    if v.get("panic").is_some() { json!({"v": "panic"}) } else { json!({ "v": v }) }
}

macro_rules! by_ty {
    ($case:expr, $f:ident) => {
        match $case["ty"].as_str().unwrap() {
            "binary_trust" => $f::<BinaryTrust>($case),
            "multiplicity" => $f::<Multiplicity>($case),
            "cost" => $f::<Cost>($case),
            "confidence" => $f::<ConfidenceScore>($case),
            "fuzzy" => $f::<FuzzyLogic>($case),
            t => panic!("unknown semiring type {}", t),
        }
    };
}

// ------------------------------------------------------------------ dispatch

fn run(case: &Value) -> Value {
    let k = case["k"].as_str().expect("k");
    match k {
        "sr" => return by_ty!(case, sr),
        "sr_new" => return by_ty!(case, sr_new),
        _ => {}
    }
    let items = vecu(&case["items"]);
    if k == "cpow" {
        return match case["arity"].as_u64().unwrap() {
            0 => cpow::<0>(&items),
            1 => cpow::<1>(&items),
            2 => cpow::<2>(&items),
            3 => cpow::<3>(&items),
            4 => cpow::<4>(&items),
            n => panic!("arity {} not supported by the harness", n),
        };
    }
    let get_t = |name: &str| if case.get(name).is_some() { tbl(&case[name]) } else { vec![] };
    let get_v = |name: &str| if case.get(name).is_some() { vecu(&case[name]) } else { vec![] };
    let get_e = |name: &str| if case.get(name).is_some() { elem(&case[name]) } else { 0 };
    let (ft, gt, ht) = (get_t("f"), get_t("g"), get_t("h"));
    let f = |a: E, b: E| ft[a as usize][b as usize];
    let g = |a: E, b: E| gt[a as usize][b as usize];
    let h = |a: E, b: E| ht[a as usize][b as usize];
    let (bv, b2v) = (get_v("b"), get_v("b2"));
    let b = |a: E| bv[a as usize];
    let b2 = |a: E| b2v[a as usize];
    let (e, zero, one, z) = (get_e("e"), get_e("zero"), get_e("one"), get_e("z"));
    match k {
        "associativity" => with_arr!(items, a => res(associativity(a, f))),
        "commutativity" => with_arr!(items, a => res(commutativity(a, f))),
        "idempotency" => with_arr!(items, a => res(idempotency(a, f))),
        "semigroup" => with_arr!(items, a => res(semigroup(a, &f))),
        "identity" => with_arr!(items, a => res(identity(a, f, e))),
        "absorbing_element" => with_arr!(items, a => res(absorbing_element(a, f, e))),
        "monoid" => with_arr!(items, a => res(monoid(a, &f, e))),
        "commutative_monoid" => with_arr!(items, a => res(commutative_monoid(a, &f, e))),
        "no_nonzero_zero_divisors" => {
            with_arr!(items, a => res(no_nonzero_zero_divisors(a, &f, e)))
        }
        "inverse" => with_arr!(items, a => res(inverse(a, f, e, b))),
        "group" => with_arr!(items, a => res(group(a, &f, e, &b))),
        "abelian_group" => with_arr!(items, a => res(abelian_group(a, &f, e, &b))),
        "nonzero_inverse" => with_arr!(items, a => res(nonzero_inverse(a, f, e, zero, b))),
        "left_distributes" => with_arr!(items, a => res(left_distributes(a, f, g))),
        "right_distributes" => with_arr!(items, a => res(right_distributes(a, f, g))),
        "distributive" => with_arr!(items, a => res(distributive(a, &f, &g))),
        "semiring" => with_arr!(items, a => res(semiring(a, &f, &g, zero, one))),
        "ring" => with_arr!(items, a => res(ring(a, &f, &g, zero, one, &b))),
        "commutative_ring" => {
            with_arr!(items, a => res(commutative_ring(a, &f, &g, zero, one, &b)))
        }
        "integral_domain" => {
            with_arr!(items, a => res(integral_domain(a, &f, &g, zero, one, &b)))
        }
        "field" => with_arr!(items, a => res(field(a, &f, &g, zero, one, &b, &b2))),
        "linearity" => {
            let qv = vecu(&case["q"]);
            res(linearity(&items, f, g, |a: E| qv[a as usize]))
        }
        "bilinearity" => {
            let items2 = vecu(&case["items2"]);
            let qt = tbl(&case["q"]);
            res(bilinearity(&items, &items2, f, h, g, |a: E, c: E| qt[a as usize][c as usize]))
        }
        "props" => {
            let p = with_arr!(items, a => get_single_function_properties(a, f, e, b, z));
            json!({ "props": p })
        }
        other => panic!("unknown case kind {}", other),
    }
}

fn main() {
    hvcommon::main_loop(run)
}
