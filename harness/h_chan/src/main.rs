//! Correspondence harness of engine Chan (C16 unsync mpsc, C27 WakeState/Dfir::run).
//! A deterministic single-thread executor: every task has one logging waker; the case file
//! gives the label sequence; each label is executed on the real code and the poll results and
//! the wakers fired during the step (in firing order) are reported.
use std::collections::VecDeque;
use std::future::Future;
use std::pin::Pin;
use std::rc::Rc;
use std::sync::{Arc, Mutex};
use std::task::{Context, Poll, Wake, Waker};

use dfir_rs::util::unsync::mpsc;
use hvcommon::{Value, json};

mod wake;

/// waker of task `id` (-1 = the receiver task); logs every firing, in order
pub struct LogWaker {
    pub id: i64,
    pub log: Arc<Mutex<Vec<i64>>>,
}
impl Wake for LogWaker {
    fn wake(self: Arc<Self>) {
        self.log.lock().unwrap().push(self.id);
    }
    fn wake_by_ref(self: &Arc<Self>) {
        self.log.lock().unwrap().push(self.id);
    }
}

type SendFut = Pin<Box<dyn Future<Output = Result<(), mpsc::SendError<u32>>>>>;

struct STask {
    sender: Option<Rc<mpsc::Sender<u32>>>,
    /// outstanding (not yet completed) send futures of the current stage, in join order
    cur: Vec<SendFut>,
    rest: VecDeque<Vec<u32>>,
    waker: Waker,
}
impl STask {
    /// move to the next stage(s): creates the futures, does not poll them
    fn advance(&mut self) {
        if self.cur.is_empty() {
            if let (Some(stage), Some(s)) = (self.rest.pop_front(), self.sender.as_ref()) {
                for x in stage {
                    let s = s.clone();
                    self.cur.push(Box::pin(async move { s.send(x).await }));
                }
            }
        }
    }
    fn finished(&self) -> bool {
        self.cur.is_empty() && self.rest.is_empty()
    }
}

fn drain(log: &Arc<Mutex<Vec<i64>>>) -> Vec<i64> {
    std::mem::take(&mut *log.lock().unwrap())
}

fn run_mpsc(case: &Value) -> Value {
    let log = Arc::new(Mutex::new(Vec::new()));
    let (tx, rx) = match case["cap"].as_u64() {
        Some(c) => mpsc::bounded::<u32>(c as usize),
        None => mpsc::unbounded::<u32>(),
    };
    let mut rx = Some(rx);
    let rx_waker = Waker::from(Arc::new(LogWaker { id: -1, log: log.clone() }));
    let mut tasks: Vec<STask> = Vec::new();
    for (i, p) in case["progs"].as_array().unwrap().iter().enumerate() {
        let rest: VecDeque<Vec<u32>> = p
            .as_array()
            .unwrap()
            .iter()
            .map(|st| st.as_array().unwrap().iter().map(|x| x.as_u64().unwrap() as u32).collect())
            .collect();
        let mut t = STask {
            sender: Some(Rc::new(tx.clone())),
            cur: Vec::new(),
            rest,
            waker: Waker::from(Arc::new(LogWaker { id: i as i64, log: log.clone() })),
        };
        t.advance();
        tasks.push(t);
    }
    drop(tx);
    let _ = drain(&log);
    let mut obs = Vec::new();
    for l in case["labels"].as_array().unwrap() {
        let kind = l[0].as_str().unwrap();
        let o = match kind {
            "p" => {
                let t = &mut tasks[l[1].as_u64().unwrap() as usize];
                if t.sender.is_none() || t.finished() {
                    json!({"dis": true})
                } else {
                    let mut res = Vec::new();
                    let mut keep = Vec::new();
                    let w = t.waker.clone();
                    let mut cx = Context::from_waker(&w);
                    for mut f in std::mem::take(&mut t.cur) {
                        match f.as_mut().poll(&mut cx) {
                            Poll::Ready(Ok(())) => res.push("S"),
                            Poll::Ready(Err(_)) => res.push("C"),
                            Poll::Pending => {
                                res.push("F");
                                keep.push(f);
                            }
                        }
                    }
                    t.cur = keep;
                    t.advance();
                    json!({"s": res, "fin": t.finished(), "w": drain(&log)})
                }
            }
            "r" => match rx.as_mut() {
                None => json!({"dis": true}),
                Some(r) => {
                    let cx = Context::from_waker(&rx_waker);
                    let res = match r.poll_recv(&cx) {
                        Poll::Ready(Some(v)) => json!(["some", v]),
                        Poll::Ready(None) => json!(["none"]),
                        Poll::Pending => json!(["pend"]),
                    };
                    json!({"r": res, "w": drain(&log)})
                }
            },
            "d" => {
                let t = &mut tasks[l[1].as_u64().unwrap() as usize];
                if t.sender.is_none() {
                    json!({"dis": true})
                } else {
                    t.cur.clear();
                    t.rest.clear();
                    t.sender = None;
                    json!({"w": drain(&log)})
                }
            }
            "k" => {
                // close_this_sender of a finished task (no outstanding future holds the Rc)
                let t = &mut tasks[l[1].as_u64().unwrap() as usize];
                match t.sender.as_mut().and_then(Rc::get_mut) {
                    Some(s) => {
                        s.close_this_sender();
                        json!({"w": drain(&log)})
                    }
                    None => json!({"dis": true}),
                }
            }
            "y" => {
                // try_send by task t
                let t = &tasks[l[1].as_u64().unwrap() as usize];
                match t.sender.as_ref() {
                    None => json!({"dis": true}),
                    Some(s) => {
                        let r = match s.try_send(l[2].as_u64().unwrap() as u32) {
                            Ok(()) => "S",
                            Err(mpsc::TrySendError::Full(_)) => "F",
                            Err(mpsc::TrySendError::Closed(_)) => "C",
                        };
                        json!({"y": r, "w": drain(&log)})
                    }
                }
            }
            "n" => {
                // task t clones its Sender for a new task running the given program
                let src = l[1].as_u64().unwrap() as usize;
                match tasks[src].sender.as_ref() {
                    None => json!({"dis": true}),
                    Some(s) => {
                        let cloned: mpsc::Sender<u32> = (**s).clone();
                        let rest: VecDeque<Vec<u32>> = l[2]
                            .as_array()
                            .unwrap()
                            .iter()
                            .map(|st| st.as_array().unwrap().iter().map(|x| x.as_u64().unwrap() as u32).collect())
                            .collect();
                        let id = tasks.len() as i64;
                        let mut t = STask {
                            sender: Some(Rc::new(cloned)),
                            cur: Vec::new(),
                            rest,
                            waker: Waker::from(Arc::new(LogWaker { id, log: log.clone() })),
                        };
                        t.advance();
                        tasks.push(t);
                        json!({"w": drain(&log)})
                    }
                }
            }
            "z" => {
                // task t drops its k-th outstanding send future (keeps the Sender)
                let t = &mut tasks[l[1].as_u64().unwrap() as usize];
                let k = l[2].as_u64().unwrap() as usize;
                if t.sender.is_none() || k >= t.cur.len() {
                    json!({"dis": true})
                } else {
                    drop(t.cur.remove(k));
                    t.advance();
                    json!({"w": drain(&log)})
                }
            }
            "c" => match rx.as_mut() {
                None => json!({"dis": true}),
                Some(r) => {
                    r.close();
                    json!({"w": drain(&log)})
                }
            },
            "x" => {
                if rx.is_none() {
                    json!({"dis": true})
                } else {
                    rx = None;
                    json!({"w": drain(&log)})
                }
            }
            _ => json!({"bad_label": kind}),
        };
        obs.push(o);
    }
    json!({ "obs": obs })
}

fn run(case: &Value) -> Value {
    match case["k"].as_str() {
        Some("mpsc") => run_mpsc(case),
        Some("wake") => wake::run_wake(case),
        Some("wake2") => wake::run_wake2(case),
        _ => json!({"bad_case": "unknown kind"}),
    }
}

fn main() {
    hvcommon::main_loop(run)
}
