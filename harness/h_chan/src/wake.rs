//! C27: drives the real `Dfir::run` with a manual executor and fires the external waker
//! (`Context::waker()`, i.e. `WakeState::wake_by_ref`) at chosen program points, through the
//! `#[cfg(hydro_verif)] verif_point` hook of dfir_rs::scheduled::context.
//!
//! Program points (= the runner step about to execute): 0 run_available store(false),
//! 1 run_tick swap, 2 tick body, 3 run_tick load, 4 run_available swap, 5 yield_now,
//! 6 AtomicWaker::register, 7 idle load, 8 about to return Pending, 9 parked (executor idle).
//! Case: {"k":"wake","wakes":[[point, occurrence], ...],"inline":bool}: wake i fires the occurrence-th time
//! (0-based) its point is reached.  Log: ["p",n] point reached, ["t"] tick body runs,
//! ["w",i] wake i fired, ["park"] the runner is parked and not woken.
//! With "inline": true the runner task's waker polls the runner IMMEDIATELY, inside `wake()`
//! (an executor thread that picks the task up the moment it is woken), unless the runner is
//! being polled already (then it is polled again right after).  A wake fired while the
//! executor is idle (point 9) therefore gets the runner polled BETWEEN the statements of
//! `WakeState::wake_by_ref` that follow `task_waker.wake()`: the order store-then-notify
//! becomes observable.
use std::cell::RefCell;
use std::future::Future;
use std::sync::Arc;
use std::task::{Context as TaskContext, Poll, Wake, Waker};

use dfir_rs::scheduled::context::{Context, Dfir, TickClosure, verif};
use hvcommon::{Value, json};

struct Sched {
    wakes: Vec<(u8, u32, bool)>, // point, occurrence, fired
    /// wake2: wake i is a producer's send instead of a raw wake_by_ref
    pushes: Vec<bool>,
    tx: Option<tokio_sender::Tx>,
    counts: [u32; 11],
    log: Vec<Value>,
    waker: Option<Waker>,
}

thread_local! {
    static SCHED: RefCell<Option<Sched>> = const { RefCell::new(None) };
}

/// point reached: log it and fire the wakes scheduled here (the waker is called with the
/// scheduler borrow released: it re-enters nothing of ours, but keep it clean)
fn point(p: u8) {
    let (to_fire, waker) = SCHED.with(|s| {
        let mut g = s.borrow_mut();
        let sc = g.as_mut().expect("scheduler installed");
        let occ = sc.counts[p as usize];
        sc.counts[p as usize] += 1;
        if p != 9 {
            sc.log.push(json!(["p", p]));
        }
        let mut fire = Vec::new();
        for (i, w) in sc.wakes.iter_mut().enumerate() {
            if w.0 == p && w.1 == occ && !w.2 {
                w.2 = true;
                fire.push(i);
            }
        }
        for i in &fire {
            sc.log.push(json!(["w", i]));
        }
        let kinds: Vec<bool> = fire.iter().map(|i| sc.pushes.get(*i).copied().unwrap_or(false)).collect();
        (kinds, (sc.waker.clone(), sc.tx.clone()))
    });
    for is_push in to_fire {
        if is_push {
            // a producer's send: tokio enqueues and wakes the waker the receiver registered
            let _ = waker.1.as_ref().unwrap().send(1);
        } else {
            waker.0.as_ref().unwrap().wake_by_ref();
        }
    }
}

struct CountTick;
impl TickClosure for CountTick {
    fn call_tick<'a>(&'a mut self, _ctx: &'a mut Context) -> impl Future<Output = bool> + 'a {
        SCHED.with(|s| s.borrow_mut().as_mut().unwrap().log.push(json!(["t"])));
        std::future::ready(false)
    }
}

/// the runner task, its executor state, and the waker that drives it
struct Exec {
    fut: Option<std::pin::Pin<Box<dyn Future<Output = dfir_rs::Never>>>>,
    polls: u32,
}

thread_local! {
    static EXEC: RefCell<Exec> = const { RefCell::new(Exec { fut: None, polls: 0 }) };
    static POLLING: std::cell::Cell<bool> = const { std::cell::Cell::new(false) };
    static WOKEN: std::cell::Cell<bool> = const { std::cell::Cell::new(false) };
    static INLINE: std::cell::Cell<bool> = const { std::cell::Cell::new(false) };
}

struct TaskWaker;
impl Wake for TaskWaker {
    fn wake(self: Arc<Self>) {
        self.wake_by_ref();
    }
    fn wake_by_ref(self: &Arc<Self>) {
        WOKEN.with(|w| w.set(true));
        if INLINE.with(|i| i.get()) && !POLLING.with(|p| p.get()) {
            drive();
        }
    }
}

/// poll the runner until it is pending with no wake-up outstanding
fn drive() {
    POLLING.with(|p| p.set(true));
    let waker = Waker::from(Arc::new(TaskWaker));
    let mut cx = TaskContext::from_waker(&waker);
    loop {
        WOKEN.with(|w| w.set(false));
        let runaway = EXEC.with(|e| {
            let mut e = e.borrow_mut();
            e.polls += 1;
            if e.polls > 200 {
                return true;
            }
            match e.fut.as_mut().unwrap().as_mut().poll(&mut cx) {
                Poll::Ready(_) => unreachable!(),
                Poll::Pending => false,
            }
        });
        if runaway {
            SCHED.with(|s| s.borrow_mut().as_mut().unwrap().log.push(json!(["runaway"])));
            break;
        }
        if !WOKEN.with(|w| w.get()) {
            break;
        }
    }
    POLLING.with(|p| p.set(false));
}

pub fn run_wake(case: &Value) -> Value {
    let wakes: Vec<(u8, u32, bool)> = case["wakes"]
        .as_array()
        .unwrap()
        .iter()
        .map(|w| (w[0].as_u64().unwrap() as u8, w[1].as_u64().unwrap() as u32, false))
        .collect();
    let ctx = Context::default();
    let ext_waker = ctx.waker();
    SCHED.with(|s| {
        *s.borrow_mut() = Some(Sched { wakes, pushes: Vec::new(), tx: None, counts: [0; 11], log: Vec::new(), waker: Some(ext_waker) })
    });
    execute(case, Dfir::new(CountTick, ctx, None, None))
}

/// wake2: the tick body polls a real tokio channel with `Context::waker()` until Pending, as
/// `source_stream` does (which registers the WakeState waker with the channel), and, on the
/// ticks listed in "defers", calls `schedule_subgraph(true)` as the generated code does when a
/// non-lazy defer_tick buffer holds data.  Point 10 = after the source poll, inside the body.
struct SourceTick {
    rx: tokio_sender::Rx,
    ticks: u64,
    defers: Vec<u64>,
}
impl TickClosure for SourceTick {
    fn call_tick<'a>(&'a mut self, ctx: &'a mut Context) -> impl Future<Output = bool> + 'a {
        use futures::Stream;
        let w = ctx.waker();
        let mut cx = TaskContext::from_waker(&w);
        let mut n = 0u64;
        while let Poll::Ready(Some(_)) = std::pin::Pin::new(&mut self.rx).poll_next(&mut cx) {
            n += 1;
        }
        SCHED.with(|s| s.borrow_mut().as_mut().unwrap().log.push(json!(["t", n])));
        point(10);
        if self.defers.contains(&self.ticks) {
            SCHED.with(|s| s.borrow_mut().as_mut().unwrap().log.push(json!(["d"])));
            ctx.schedule_subgraph(true);
        }
        self.ticks += 1;
        std::future::ready(false)
    }
}

mod tokio_sender {
    pub type Tx = tokio::sync::mpsc::UnboundedSender<u32>;
    pub type Rx = tokio_stream::wrappers::UnboundedReceiverStream<u32>;
}

pub fn run_wake2(case: &Value) -> Value {
    let acts = case["acts"].as_array().unwrap();
    let wakes: Vec<(u8, u32, bool)> =
        acts.iter().map(|w| (w[0].as_u64().unwrap() as u8, w[1].as_u64().unwrap() as u32, false)).collect();
    let pushes: Vec<bool> = acts.iter().map(|w| w[2].as_str() == Some("push")).collect();
    let defers: Vec<u64> = case["defers"].as_array().unwrap().iter().map(|x| x.as_u64().unwrap()).collect();
    let (tx, rx) = dfir_rs::util::unbounded_channel::<u32>();
    let ctx = Context::default();
    let ext_waker = ctx.waker();
    SCHED.with(|s| {
        *s.borrow_mut() =
            Some(Sched { wakes, pushes, tx: Some(tx), counts: [0; 11], log: Vec::new(), waker: Some(ext_waker) })
    });
    execute(case, Dfir::new(SourceTick { rx, ticks: 0, defers }, ctx, None, None))
}

fn execute<T: TickClosure + 'static>(case: &Value, dfir: Dfir<T>) -> Value {
    // the Dfir is leaked into the boxed future so that the task can live in a thread local
    let df: &'static mut Dfir<T> = Box::leak(Box::new(dfir));
    INLINE.with(|i| i.set(case["inline"].as_bool().unwrap_or(false)));
    WOKEN.with(|w| w.set(false));
    POLLING.with(|p| p.set(false));
    verif::set_hook(point);
    EXEC.with(|e| {
        let mut e = e.borrow_mut();
        e.fut = Some(Box::pin(df.run()));
        e.polls = 0;
    });
    drive();
    loop {
        if EXEC.with(|e| e.borrow().polls > 200) {
            break;
        }
        // the runner is parked and not woken: executor idle = point 9
        WOKEN.with(|w| w.set(false));
        let before = EXEC.with(|e| e.borrow().polls);
        point(9);
        if WOKEN.with(|w| w.get()) {
            drive(); // (not inline) the waker only marked the task
            continue;
        }
        if EXEC.with(|e| e.borrow().polls) != before {
            continue; // (inline) the runner was polled inside wake() and is parked again
        }
        SCHED.with(|s| s.borrow_mut().as_mut().unwrap().log.push(json!(["park"])));
        break;
    }
    // from here on nothing may drive the runner any more (dropping the channel's sender wakes
    // the waker the receiver registered)
    INLINE.with(|i| i.set(false));
    EXEC.with(|e| e.borrow_mut().fut = None);
    verif::set_hook(|_| {});
    let sc = SCHED.with(|s| s.borrow_mut().take().unwrap());
    let unfired: Vec<usize> = sc.wakes.iter().enumerate().filter(|(_, w)| !w.2).map(|(i, _)| i).collect();
    json!({ "log": sc.log, "unfired": unfired })
}
