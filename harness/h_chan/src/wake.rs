//! C27: drives the real `Dfir::run` with a manual executor and fires the external waker
//! (`Context::waker()`, i.e. `WakeState::wake_by_ref`) at chosen program points, through the
//! `#[cfg(hydro_verif)] verif_point` hook of dfir_rs::scheduled::context.
//!
//! Program points (= the runner step about to execute): 0 run_available store(false),
//! 1 run_tick swap, 2 tick body, 3 run_tick load, 4 run_available swap, 5 yield_now,
//! 6 AtomicWaker::register, 7 idle load, 8 about to return Pending, 9 parked (executor idle).
//! Case: {"k":"wake","wakes":[[point, occurrence], ...]}: wake i fires the occurrence-th time
//! (0-based) its point is reached.  Log: ["p",n] point reached, ["t"] tick body runs,
//! ["w",i] wake i fired, ["park"] the runner is parked and not woken.
use std::cell::RefCell;
use std::future::Future;
use std::sync::Arc;
use std::sync::atomic::{AtomicBool, Ordering};
use std::task::{Context as TaskContext, Poll, Wake, Waker};

use dfir_rs::scheduled::context::{Context, Dfir, TickClosure, verif};
use hvcommon::{Value, json};

struct Sched {
    wakes: Vec<(u8, u32, bool)>, // point, occurrence, fired
    counts: [u32; 10],
    log: Vec<Value>,
    waker: Option<Waker>,
}

thread_local! {
    static SCHED: RefCell<Option<Sched>> = const { RefCell::new(None) };
}

/// point reached: log it and fire the wakes scheduled here (the waker is called with the
/// scheduler borrow released: it re-enters nothing of ours, but keep it clean)
fn point(p: u8) {
    let (to_fire, waker) = SCHED.with(|s| {
        let mut g = s.borrow_mut();
        let sc = g.as_mut().expect("scheduler installed");
        let occ = sc.counts[p as usize];
        sc.counts[p as usize] += 1;
        if p != 9 {
            sc.log.push(json!(["p", p]));
        }
        let mut fire = Vec::new();
        for (i, w) in sc.wakes.iter_mut().enumerate() {
            if w.0 == p && w.1 == occ && !w.2 {
                w.2 = true;
                fire.push(i);
            }
        }
        for i in &fire {
            sc.log.push(json!(["w", i]));
        }
        (fire.len(), sc.waker.clone())
    });
    for _ in 0..to_fire {
        waker.as_ref().unwrap().wake_by_ref();
    }
}

struct CountTick;
impl TickClosure for CountTick {
    fn call_tick<'a>(&'a mut self, _ctx: &'a mut Context) -> impl Future<Output = bool> + 'a {
        SCHED.with(|s| s.borrow_mut().as_mut().unwrap().log.push(json!(["t"])));
        std::future::ready(false)
    }
}

struct TaskWaker(AtomicBool);
impl Wake for TaskWaker {
    fn wake(self: Arc<Self>) {
        self.0.store(true, Ordering::SeqCst);
    }
    fn wake_by_ref(self: &Arc<Self>) {
        self.0.store(true, Ordering::SeqCst);
    }
}

pub fn run_wake(case: &Value) -> Value {
    let wakes: Vec<(u8, u32, bool)> = case["wakes"]
        .as_array()
        .unwrap()
        .iter()
        .map(|w| (w[0].as_u64().unwrap() as u8, w[1].as_u64().unwrap() as u32, false))
        .collect();
    let ctx = Context::default();
    let ext_waker = ctx.waker();
    SCHED.with(|s| {
        *s.borrow_mut() = Some(Sched { wakes, counts: [0; 10], log: Vec::new(), waker: Some(ext_waker) })
    });
    verif::set_hook(point);
    let mut df = Dfir::new(CountTick, ctx, None, None);
    let task = Arc::new(TaskWaker(AtomicBool::new(false)));
    let task_waker = Waker::from(task.clone());
    let mut cx = TaskContext::from_waker(&task_waker);
    let mut polls = 0u32;
    {
        let mut fut = std::pin::pin!(df.run());
        loop {
            polls += 1;
            if polls > 200 {
                SCHED.with(|s| s.borrow_mut().as_mut().unwrap().log.push(json!(["runaway"])));
                break;
            }
            match fut.as_mut().poll(&mut cx) {
                Poll::Ready(_) => unreachable!(),
                Poll::Pending => {}
            }
            if task.0.swap(false, Ordering::SeqCst) {
                continue; // woken (yield_now or the AtomicWaker): poll again
            }
            // parked and not woken: executor idle = point 9
            point(9);
            if task.0.swap(false, Ordering::SeqCst) {
                continue;
            }
            SCHED.with(|s| s.borrow_mut().as_mut().unwrap().log.push(json!(["park"])));
            break;
        }
    }
    verif::set_hook(|_| {});
    let sc = SCHED.with(|s| s.borrow_mut().take().unwrap());
    let unfired: Vec<usize> = sc.wakes.iter().enumerate().filter(|(_, w)| !w.2).map(|(i, _)| i).collect();
    json!({ "log": sc.log, "unfired": unfired })
}
