//! C27 (WakeState / Dfir::run) -- filled in later.
use hvcommon::{Value, json};

pub fn run_wake(_case: &Value) -> Value {
    json!({"bad_case": "not built yet"})
}
