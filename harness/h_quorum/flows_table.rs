// name(inputs) -> (outputs); included by build.rs
flows! {
    cq_1_1(a: Resp) -> (err: (u32, u32), ok: u32);
    cq_2_2(a: Resp) -> (err: (u32, u32), ok: u32);
    cq_3_3(a: Resp) -> (err: (u32, u32), ok: u32);
    cq_1_2(a: Resp) -> (err: (u32, u32), ok: u32);
    cq_1_3(a: Resp) -> (err: (u32, u32), ok: u32);
    cq_2_3(a: Resp) -> (err: (u32, u32), ok: u32);
    cq_2_4(a: Resp) -> (err: (u32, u32), ok: u32);
    cqr_1_1(a: RespV) -> (err: (u32, u32), ok: (u32, u32));
    cqr_2_2(a: RespV) -> (err: (u32, u32), ok: (u32, u32));
    cqr_3_3(a: RespV) -> (err: (u32, u32), ok: (u32, u32));
    cqr_1_2(a: RespV) -> (err: (u32, u32), ok: (u32, u32));
    cqr_1_3(a: RespV) -> (err: (u32, u32), ok: (u32, u32));
    cqr_2_3(a: RespV) -> (err: (u32, u32), ok: (u32, u32));
    cqr_2_4(a: RespV) -> (err: (u32, u32), ok: (u32, u32));
    jr(m: (u32, u32), r: (u32, u32)) -> (out: (u32, (u32, u32)));
}
