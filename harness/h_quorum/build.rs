//! Generates, through the production embedded builder of /repo's working tree, plain DFIR Rust code
//! for every flow of `h_quorum_flows` (flows_table.rs) and the tick-by-tick drivers of src/main.rs.
use hydro_lang::compile::builder::FlowBuilder;
use hydro_lang::compile::embedded::EmbeddedDeploy;
use hydro_lang::location::Location;

#[allow(dead_code)]
type Resp = h_quorum_flows::Resp;
#[allow(dead_code)]
type RespV = h_quorum_flows::RespV;

fn main() {
    println!("cargo::rerun-if-changed=build.rs");
    println!("cargo::rerun-if-changed=flows_table.rs");
    let out_dir = std::env::var("OUT_DIR").unwrap();
    let mut mods = String::new();
    let mut drivers = String::new();
    let mut dispatch = String::new();

    macro_rules! flows {
        ($( $name:ident ( $( $i:ident : $it:ty ),* ) -> ( $( $o:ident : $ot:ty ),* ) ; )*) => {
            {$(
            {
                let name = stringify!($name);
                let mut flow = FlowBuilder::new();
                let process = flow.process::<()>();
                h_quorum_flows::$name( $( process.embedded_input::<$it>(stringify!($i)) ),* );
                let built = flow.finalize();
                let deploy: hydro_lang::compile::deploy::DeployFlow<'_, EmbeddedDeploy> =
                    built.with_process(&process, name);
                let code = deploy.generate_embedded("h_quorum_flows");
                std::fs::write(format!("{out_dir}/{name}.rs"), prettyplease::unparse(&code)).unwrap();
                mods.push_str(&format!(
                    "#[allow(unused_imports, unused_qualifications, non_snake_case, clippy::all)]\npub mod {n} {{ include!(concat!(env!(\"OUT_DIR\"), \"/{n}.rs\")); }}\n",
                    n = name
                ));
                drivers.push_str(&format!(
                    "#[allow(non_snake_case, unused_variables, unused_mut)]\nfn drive_{n}(ticks: &[Value]) -> Value {{ paste_mod!({n}, ticks, ({ins}), ({outs})) }}\n",
                    n = name,
                    ins = [ $( format!("{}: {}", stringify!($i), stringify!($it)) ),* ].join(", "),
                    outs = [ $( format!("{}: {}", stringify!($o), stringify!($ot)) ),* ].join(", "),
                ));
                dispatch.push_str(&format!("        {:?} => drive_{}(ticks),\n", name, name));
            }
            )*}
        };
    }
    include!("flows_table.rs");

    // C35: cluster -> cluster demux with the generated bincode closures
    macro_rules! demux_flow {
        ($name:ident, $t:ty) => {{
            let name = stringify!($name);
            let mut flow = FlowBuilder::new();
            let src = flow.cluster::<h_quorum_flows::Src>();
            let dst = flow.cluster::<h_quorum_flows::Dst>();
            h_quorum_flows::$name(
                &dst,
                src.embedded_input::<(hydro_lang::location::MemberId<h_quorum_flows::Dst>, $t)>("input"),
            )
            .assume_ordering::<hydro_lang::live_collections::stream::TotalOrder>(hydro_lang::prelude::nondet!(/** harness */))
            .embedded_output("output");
            let code = flow
                .with_cluster(&src, concat!(stringify!($name), "_sender"))
                .with_cluster(&dst, concat!(stringify!($name), "_receiver"))
                .generate_embedded("h_quorum_flows");
            std::fs::write(format!("{out_dir}/{name}.rs"), prettyplease::unparse(&code)).unwrap();
            mods.push_str(&format!(
                "#[allow(unused_imports, unused_qualifications, non_snake_case, clippy::all)]\npub mod {n} {{ include!(concat!(env!(\"OUT_DIR\"), \"/{n}.rs\")); }}\n",
                n = name
            ));
        }};
    }
    demux_flow!(dm_u32, u32);
    demux_flow!(dm_rich, h_quorum_flows::Rich);

    std::fs::write(format!("{out_dir}/mods.rs"), mods).unwrap();
    drivers.push_str("fn dispatch(flow: &str, ticks: &[Value]) -> Value {\n    match flow {\n");
    drivers.push_str(&dispatch);
    drivers.push_str("        _ => json!({\"not_compiled\": flow}),\n    }\n}\n");
    std::fs::write(format!("{out_dir}/drivers.rs"), drivers).unwrap();
}
