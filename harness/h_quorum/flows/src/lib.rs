//! Instances of the hydro_std quorum helpers for the C39 correspondence harness: the real
//! `collect_quorum`, `collect_quorum_with_response` and `join_responses` wired to embedded
//! inputs/outputs on one process.  `min`/`max` are staged constants, so every (min, max) pair is
//! its own flow.
#[cfg(stageleft_runtime)]
hydro_lang::setup!();

use hydro_lang::live_collections::stream::TotalOrder;
use hydro_lang::location::Location;
use hydro_lang::prelude::*;

pub type P<'a> = Process<'a, ()>;
pub type Resp = (u32, Result<(), u32>);
pub type RespV = (u32, Result<u32, u32>);

macro_rules! cq {
    ($name:ident, $min:expr, $max:expr) => {
        pub fn $name<'a>(a: Stream<Resp, P<'a>>) {
            let (ok, err) = hydro_std::quorum::collect_quorum(a, $min, $max);
            ok.assume_ordering::<TotalOrder>(nondet!(/** harness sorts the output */)).embedded_output("ok");
            err.embedded_output("err");
        }
    };
}
macro_rules! cqr {
    ($name:ident, $min:expr, $max:expr) => {
        pub fn $name<'a>(a: Stream<RespV, P<'a>>) {
            let (ok, err) = hydro_std::quorum::collect_quorum_with_response(a, $min, $max);
            ok.embedded_output("ok");
            err.embedded_output("err");
        }
    };
}

cq!(cq_1_1, 1, 1);
cq!(cq_2_2, 2, 2);
cq!(cq_3_3, 3, 3);
cq!(cq_1_2, 1, 2);
cq!(cq_1_3, 1, 3);
cq!(cq_2_3, 2, 3);
cq!(cq_2_4, 2, 4);
cqr!(cqr_1_1, 1, 1);
cqr!(cqr_2_2, 2, 2);
cqr!(cqr_3_3, 3, 3);
cqr!(cqr_1_2, 1, 2);
cqr!(cqr_1_3, 1, 3);
cqr!(cqr_2_3, 2, 3);
cqr!(cqr_2_4, 2, 4);

/// `join_responses` wired as in hydro_std's own test: metadata is batched atomically into the tick
pub fn jr<'a>(m: Stream<(u32, u32), P<'a>>, r: Stream<(u32, u32), P<'a>>) {
    let process = r.location().clone();
    let metadata = m
        .atomic()
        .batch_atomic(&process.tick(), nondet!(/** harness */))
        .weaken_ordering();
    hydro_std::request_response::join_responses(r.weaken_ordering(), metadata)
        .assume_ordering::<TotalOrder>(nondet!(/** harness sorts the output */))
        .embedded_output("out");
}

// ------------------------------------------------------------------------------------ C35
// Cluster-addressed sends: the generated serialize / deserialize closures of
// `Stream::demux(.., TCP.fail_stop().bincode())` between two clusters.
use hydro_lang::live_collections::stream::NoOrder;
use hydro_lang::location::MemberId;

pub struct Src {}
pub struct Dst {}

/// a nested payload: struct-like tuple, option, vec, string, enum (Result), signed integer
pub type Rich = (u32, Option<Vec<String>>, Result<i64, String>, bool);

pub fn dm_u32<'a>(
    dst: &Cluster<'a, Dst>,
    input: Stream<(MemberId<Dst>, u32), Cluster<'a, Src>>,
) -> Stream<(MemberId<Src>, u32), Cluster<'a, Dst>, Unbounded, NoOrder> {
    input.demux(dst, TCP.fail_stop().bincode().name("dm_data")).entries()
}

pub fn dm_rich<'a>(
    dst: &Cluster<'a, Dst>,
    input: Stream<(MemberId<Dst>, Rich), Cluster<'a, Src>>,
) -> Stream<(MemberId<Src>, Rich), Cluster<'a, Dst>, Unbounded, NoOrder> {
    input.demux(dst, TCP.fail_stop().bincode().name("dm_data")).entries()
}
