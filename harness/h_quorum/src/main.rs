//! C39 correspondence harness: the real hydro_std `collect_quorum`, `collect_quorum_with_response`
//! and `join_responses`, compiled through the production (embedded) DFIR code generator, driven
//! with one `run_tick_sync` per batch.
//!
//! case {"flow":name,"ticks":[{"a":[..]},..]} -> {"ticks":[{"ok":[..],"err":[..]},..]}
//! case {"flow":name,"runs":[ticks,..]}        -> {"runs":[{"ticks":..},..]} (fresh instance per run)
//! items: Resp = [key, null | err] (null = Ok(())), RespV = [key, {"ok":v} | {"err":e}], pairs [a,b]
use std::cell::RefCell;
use std::collections::VecDeque;
use std::pin::Pin;
use std::rc::Rc;
use std::task::{Context, Poll};

use hvcommon::{Value, json};

type Resp = (u32, Result<(), u32>);
type RespV = (u32, Result<u32, u32>);

mod generated {
    include!(concat!(env!("OUT_DIR"), "/mods.rs"));
}

/// An input stream the driver refills between ticks: yields what is queued, then `Pending`
/// (never ends), so one `run_tick_sync` consumes exactly the batch pushed for that tick.
struct QS<T>(Rc<RefCell<VecDeque<T>>>);
impl<T> dfir_rs::futures::Stream for QS<T> {
    type Item = T;
    fn poll_next(self: Pin<&mut Self>, _cx: &mut Context<'_>) -> Poll<Option<T>> {
        match self.0.borrow_mut().pop_front() {
            Some(x) => Poll::Ready(Some(x)),
            None => Poll::Pending,
        }
    }
}

trait FromJ: Sized {
    fn from_j(v: &Value) -> Self;
}
impl FromJ for u32 {
    fn from_j(v: &Value) -> Self {
        v.as_u64().expect("u32 item") as u32
    }
}
impl FromJ for Result<(), u32> {
    fn from_j(v: &Value) -> Self {
        if v.is_null() { Ok(()) } else { Err(v.as_u64().unwrap() as u32) }
    }
}
impl FromJ for Result<u32, u32> {
    fn from_j(v: &Value) -> Self {
        if let Some(x) = v.get("ok") { Ok(x.as_u64().unwrap() as u32) } else { Err(v["err"].as_u64().unwrap() as u32) }
    }
}
impl<A: FromJ, B: FromJ> FromJ for (A, B) {
    fn from_j(v: &Value) -> Self {
        let a = v.as_array().expect("pair");
        (A::from_j(&a[0]), B::from_j(&a[1]))
    }
}
trait ToJ {
    fn to_j(&self) -> Value;
}
impl ToJ for u32 {
    fn to_j(&self) -> Value {
        json!(*self)
    }
}
impl<A: ToJ, B: ToJ> ToJ for (A, B) {
    fn to_j(&self) -> Value {
        json!([self.0.to_j(), self.1.to_j()])
    }
}

macro_rules! paste_mod {
    ($name:ident, $ticks:ident, ( $( $i:ident : $it:ty ),* ), ( $( $o:ident : $ot:ty ),* )) => {{
        $( let $i: Rc<RefCell<VecDeque<$it>>> = Rc::new(RefCell::new(VecDeque::new())); )*
        $( let $o: Rc<RefCell<Vec<Value>>> = Rc::new(RefCell::new(Vec::new())); )*
        let mut outputs = generated::$name::$name::EmbeddedOutputs {
            $( $o: { let $o = $o.clone(); move |x: $ot| $o.borrow_mut().push(x.to_j()) } ),*
        };
        let mut df = generated::$name::$name( $( QS($i.clone()), )* &mut outputs);
        let mut res: Vec<Value> = Vec::new();
        for t in $ticks {
            $(
                if let Some(items) = t.get(stringify!($i)).and_then(|x| x.as_array()) {
                    for it in items {
                        $i.borrow_mut().push_back(<$it as FromJ>::from_j(it));
                    }
                }
            )*
            df.run_tick_sync();
            let mut m = serde_json::Map::new();
            $( m.insert(stringify!($o).to_owned(), Value::Array(std::mem::take(&mut *$o.borrow_mut()))); )*
            res.push(Value::Object(m));
        }
        drop(df);
        json!({"ticks": res})
    }};
}

include!(concat!(env!("OUT_DIR"), "/drivers.rs"));

// ------------------------------------------------------------------------------------ C35
// case {"k":"emb","flow":"dm_u32"|"dm_rich","sender":s,"members":[..],"items":[[dest,V],..]}
//   -> {"wire":[[dest,[bytes]],..], "recv":[[member,[[from,V],..]],..]}
// The sender cluster member's generated dataflow serializes and addresses the items; the frames
// addressed to each member are handed (tagged with the sender's id, as the transport does) to
// that member's generated receiver dataflow.
use dfir_rs::bytes::{Bytes, BytesMut};
use hydro_lang::location::{MemberId, TaglessMemberId};

type Rich = h_quorum_flows::Rich;

fn rich_from(v: &Value) -> Rich {
    let o = v[1].as_array().unwrap();
    let opt = if o.is_empty() {
        None
    } else {
        Some(o[0].as_array().unwrap().iter().map(|s| s.as_str().unwrap().to_owned()).collect())
    };
    let r = if v[2]["tag"].as_u64().unwrap() == 0 {
        Ok(v[2]["v"].as_i64().unwrap())
    } else {
        Err(v[2]["v"].as_str().unwrap().to_owned())
    };
    (v[0].as_u64().unwrap() as u32, opt, r, v[3].as_bool().unwrap())
}
fn rich_to(x: &Rich) -> Value {
    let opt = match &x.1 {
        None => json!([]),
        Some(v) => json!([v]),
    };
    let r = match &x.2 {
        Ok(i) => json!({"tag": 0, "v": i}),
        Err(s) => json!({"tag": 1, "v": s}),
    };
    json!([x.0, opt, r, x.3])
}
fn u32_from(v: &Value) -> u32 {
    v.as_u64().unwrap() as u32
}
fn u32_to(x: &u32) -> Value {
    json!(*x)
}

macro_rules! run_dm {
    ($case:ident, $name:ident, $sender:ident, $receiver:ident, $t:ty, $from:ident, $to:ident) => {{
        let sender = TaglessMemberId::from_raw_id($case["sender"].as_u64().unwrap() as u32);
        let members: Vec<u32> = $case["members"].as_array().unwrap().iter().map(|x| x.as_u64().unwrap() as u32).collect();
        let q: Rc<RefCell<VecDeque<(MemberId<h_quorum_flows::Dst>, $t)>>> = Rc::new(RefCell::new(VecDeque::new()));
        for p in $case["items"].as_array().unwrap() {
            q.borrow_mut().push_back((MemberId::from_raw_id(p[0].as_u64().unwrap() as u32), $from(&p[1])));
        }
        let wire: Rc<RefCell<Vec<(u32, Vec<u8>)>>> = Rc::new(RefCell::new(Vec::new()));
        {
            let w = wire.clone();
            let mut net_out = generated::$name::$sender::EmbeddedNetworkOut {
                dm_data: move |(id, b): (TaglessMemberId, Bytes)| w.borrow_mut().push((id.get_raw_id(), b.to_vec())),
            };
            let mut df = generated::$name::$sender(&sender, QS(q.clone()), &mut net_out);
            df.run_tick_sync();
            drop(df);
        }
        let mut recv = Vec::new();
        for d in &members {
            let frames: VecDeque<Result<(TaglessMemberId, BytesMut), std::io::Error>> = wire
                .borrow()
                .iter()
                .filter(|(to, _)| to == d)
                .map(|(_, b)| Ok((sender.clone(), BytesMut::from(&b[..]))))
                .collect();
            let got: Rc<RefCell<Vec<Value>>> = Rc::new(RefCell::new(Vec::new()));
            {
                let g = got.clone();
                let mut outputs = generated::$name::$receiver::EmbeddedOutputs {
                    output: move |(from, v): (MemberId<h_quorum_flows::Src>, $t)| {
                        g.borrow_mut().push(json!([from.get_raw_id(), $to(&v)]))
                    },
                };
                let me = TaglessMemberId::from_raw_id(*d);
                let net_in = generated::$name::$receiver::EmbeddedNetworkIn { dm_data: QS(Rc::new(RefCell::new(frames))) };
                let mut df = generated::$name::$receiver(&me, &mut outputs, net_in);
                df.run_tick_sync();
                drop(df);
            }
            recv.push(json!([d, Value::Array(std::mem::take(&mut *got.borrow_mut()))]));
        }
        json!({"wire": wire.borrow().iter().map(|(d, b)| json!([d, b])).collect::<Vec<_>>(), "recv": recv})
    }};
}

fn run_emb(case: &Value) -> Value {
    match case["flow"].as_str().unwrap_or("") {
        "dm_u32" => run_dm!(case, dm_u32, dm_u32_sender, dm_u32_receiver, u32, u32_from, u32_to),
        "dm_rich" => run_dm!(case, dm_rich, dm_rich_sender, dm_rich_receiver, Rich, rich_from, rich_to),
        _ => json!({"bad_case": "unknown emb flow"}),
    }
}

fn run(case: &Value) -> Value {
    if case.get("k").and_then(|k| k.as_str()) == Some("emb") {
        return run_emb(case);
    }
    let flow = case["flow"].as_str().expect("flow");
    if let Some(runs) = case.get("runs").and_then(|r| r.as_array()) {
        // several batchings of one response sequence, each on a fresh dataflow instance
        let out: Vec<Value> = runs.iter().map(|t| dispatch(flow, t.as_array().expect("ticks"))).collect();
        return json!({"runs": out});
    }
    let ticks = case["ticks"].as_array().expect("ticks");
    dispatch(flow, ticks)
}

fn main() {
    hvcommon::main_loop(run)
}
