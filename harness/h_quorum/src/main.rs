//! C39 correspondence harness: the real hydro_std `collect_quorum`, `collect_quorum_with_response`
//! and `join_responses`, compiled through the production (embedded) DFIR code generator, driven
//! with one `run_tick_sync` per batch.
//!
//! case {"flow":name,"ticks":[{"a":[..]},..]} -> {"ticks":[{"ok":[..],"err":[..]},..]}
//! case {"flow":name,"runs":[ticks,..]}        -> {"runs":[{"ticks":..},..]} (fresh instance per run)
//! items: Resp = [key, null | err] (null = Ok(())), RespV = [key, {"ok":v} | {"err":e}], pairs [a,b]
use std::cell::RefCell;
use std::collections::VecDeque;
use std::pin::Pin;
use std::rc::Rc;
use std::task::{Context, Poll};

use hvcommon::{Value, json};

type Resp = (u32, Result<(), u32>);
type RespV = (u32, Result<u32, u32>);

mod generated {
    include!(concat!(env!("OUT_DIR"), "/mods.rs"));
}

/// An input stream the driver refills between ticks: yields what is queued, then `Pending`
/// (never ends), so one `run_tick_sync` consumes exactly the batch pushed for that tick.
struct QS<T>(Rc<RefCell<VecDeque<T>>>);
impl<T> dfir_rs::futures::Stream for QS<T> {
    type Item = T;
    fn poll_next(self: Pin<&mut Self>, _cx: &mut Context<'_>) -> Poll<Option<T>> {
        match self.0.borrow_mut().pop_front() {
            Some(x) => Poll::Ready(Some(x)),
            None => Poll::Pending,
        }
    }
}

trait FromJ: Sized {
    fn from_j(v: &Value) -> Self;
}
impl FromJ for u32 {
    fn from_j(v: &Value) -> Self {
        v.as_u64().expect("u32 item") as u32
    }
}
impl FromJ for Result<(), u32> {
    fn from_j(v: &Value) -> Self {
        if v.is_null() { Ok(()) } else { Err(v.as_u64().unwrap() as u32) }
    }
}
impl FromJ for Result<u32, u32> {
    fn from_j(v: &Value) -> Self {
        if let Some(x) = v.get("ok") { Ok(x.as_u64().unwrap() as u32) } else { Err(v["err"].as_u64().unwrap() as u32) }
    }
}
impl<A: FromJ, B: FromJ> FromJ for (A, B) {
    fn from_j(v: &Value) -> Self {
        let a = v.as_array().expect("pair");
        (A::from_j(&a[0]), B::from_j(&a[1]))
    }
}
trait ToJ {
    fn to_j(&self) -> Value;
}
impl ToJ for u32 {
    fn to_j(&self) -> Value {
        json!(*self)
    }
}
impl<A: ToJ, B: ToJ> ToJ for (A, B) {
    fn to_j(&self) -> Value {
        json!([self.0.to_j(), self.1.to_j()])
    }
}

macro_rules! paste_mod {
    ($name:ident, $ticks:ident, ( $( $i:ident : $it:ty ),* ), ( $( $o:ident : $ot:ty ),* )) => {{
        $( let $i: Rc<RefCell<VecDeque<$it>>> = Rc::new(RefCell::new(VecDeque::new())); )*
        $( let $o: Rc<RefCell<Vec<Value>>> = Rc::new(RefCell::new(Vec::new())); )*
        let mut outputs = generated::$name::$name::EmbeddedOutputs {
            $( $o: { let $o = $o.clone(); move |x: $ot| $o.borrow_mut().push(x.to_j()) } ),*
        };
        let mut df = generated::$name::$name( $( QS($i.clone()), )* &mut outputs);
        let mut res: Vec<Value> = Vec::new();
        for t in $ticks {
            $(
                if let Some(items) = t.get(stringify!($i)).and_then(|x| x.as_array()) {
                    for it in items {
                        $i.borrow_mut().push_back(<$it as FromJ>::from_j(it));
                    }
                }
            )*
            df.run_tick_sync();
            let mut m = serde_json::Map::new();
            $( m.insert(stringify!($o).to_owned(), Value::Array(std::mem::take(&mut *$o.borrow_mut()))); )*
            res.push(Value::Object(m));
        }
        drop(df);
        json!({"ticks": res})
    }};
}

include!(concat!(env!("OUT_DIR"), "/drivers.rs"));

fn run(case: &Value) -> Value {
    let flow = case["flow"].as_str().expect("flow");
    if let Some(runs) = case.get("runs").and_then(|r| r.as_array()) {
        // several batchings of one response sequence, each on a fresh dataflow instance
        let out: Vec<Value> = runs.iter().map(|t| dispatch(flow, t.as_array().expect("ticks"))).collect();
        return json!({"runs": out});
    }
    let ticks = case["ticks"].as_array().expect("ticks");
    dispatch(flow, ticks)
}

fn main() {
    hvcommon::main_loop(run)
}
