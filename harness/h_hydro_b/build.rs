//! For every corpus flow of `h_hydro_b_flows` (table: flows_table.rs), through the production
//! builder of /repo's working tree:
//!   * the finalized Hydro IR (`BuiltFlow::ir()`, serde JSON with shared nodes de-duplicated),
//!   * the emitted flat DFIR graph per location (`compile::ir::emit` -> `FlatGraphBuilder::build`),
//!     before and after `eliminate_extra_unions_tees`, as (operator names, ported edges, the
//!     delay type the operator table assigns to every edge's input port),
//!   * the verdict of the real `dfir_lang::graph::partition_graph` on it,
//!   * if it partitions: plain DFIR Rust code (`generate_embedded`), compiled into the harness
//!     binary (this is the sampled "rustc accepts the generated code" part of C41) and driven
//!     tick by tick by src/main.rs.
//! Also dumps dfir_lang's operator table (`OPERATORS`) as JSON.
use dfir_lang::graph::ops::{DelayType, OPERATORS, PortListSpec};
use dfir_lang::graph::{
    DfirGraph, FlatGraphBuilderOutput, GraphNode, PortIndexValue, eliminate_extra_unions_tees,
    partition_graph,
};
use hydro_lang::compile::builder::FlowBuilder;
use hydro_lang::compile::embedded::EmbeddedDeploy;
use hydro_lang::compile::ir::{deep_clone, emit, serialize_dedup_shared};
use hydro_lang::location::Location;
use quote::ToTokens;
use serde_json::{Value, json};
use std::ops::Bound;

fn delay_str(d: Option<DelayType>) -> Value {
    match d {
        None => Value::Null,
        Some(DelayType::Tick) => json!("Tick"),
        Some(DelayType::TickLazy) => json!("TickLazy"),
        Some(DelayType::Loop) => json!("Loop"),
        Some(DelayType::LoopLazy) => json!("LoopLazy"),
    }
}

fn bound_lo(b: Bound<&usize>) -> Value {
    match b {
        Bound::Included(n) => json!(*n),
        Bound::Excluded(n) => json!(*n + 1),
        Bound::Unbounded => json!(0),
    }
}
fn bound_hi(b: Bound<&usize>) -> Value {
    match b {
        Bound::Included(n) => json!(*n),
        Bound::Excluded(n) => json!(n.saturating_sub(1)),
        Bound::Unbounded => Value::Null,
    }
}

fn port_names(spec: Option<fn() -> PortListSpec>) -> Value {
    match spec.map(|f| f()) {
        None => Value::Null,
        Some(PortListSpec::Variadic) => json!("variadic"),
        Some(PortListSpec::Fixed(ports)) => Value::Array(
            ports
                .iter()
                .map(|p| json!(p.to_token_stream().to_string()))
                .collect(),
        ),
    }
}

fn dump_optable() -> Value {
    let mut ops = Vec::new();
    for op in OPERATORS {
        // the delay type of every input port the operator could be given: elided, 0..3, named
        let mut delays = Vec::new();
        let mut probe: Vec<(String, PortIndexValue)> =
            vec![("[]".to_owned(), PortIndexValue::Elided(None))];
        for i in 0..4isize {
            probe.push((
                i.to_string(),
                PortIndexValue::Int(dfir_lang::parse::IndexInt {
                    value: i,
                    span: proc_macro2::Span::call_site(),
                }),
            ));
        }
        if let Some(PortListSpec::Fixed(ports)) = op.ports_inn.map(|f| f()) {
            for p in ports.iter() {
                let s = p.to_token_stream().to_string();
                if let Ok(path) = syn::parse_str::<syn::ExprPath>(&s) {
                    probe.push((s, PortIndexValue::Path(path)));
                }
            }
        }
        for (name, piv) in &probe {
            let d = (op.input_delaytype_fn)(piv);
            if d.is_some() {
                delays.push(json!([name, delay_str(d)]));
            }
        }
        ops.push(json!({
            "name": op.name,
            "inn_lo": bound_lo(op.hard_range_inn.start_bound()),
            "inn_hi": bound_hi(op.hard_range_inn.end_bound()),
            "out_lo": bound_lo(op.hard_range_out.start_bound()),
            "out_hi": bound_hi(op.hard_range_out.end_bound()),
            "ports_inn": port_names(op.ports_inn),
            "ports_out": port_names(op.ports_out),
            "delays": delays,
            "external": op.is_external_input,
        }));
    }
    Value::Array(ops)
}

fn dump_graph(g: &DfirGraph) -> Value {
    let ids: Vec<_> = g.node_ids().collect();
    let idx = |id| ids.iter().position(|x| *x == id).unwrap();
    let nodes: Vec<Value> = ids
        .iter()
        .map(|&id| match g.node(id) {
            GraphNode::Operator(op) => json!(op.name_string().replace(' ', "")),
            GraphNode::Handoff { .. } => json!("#handoff"),
            GraphNode::ModuleBoundary { .. } => json!("#module_boundary"),
        })
        .collect();
    let mut edges = Vec::new();
    for (eid, (src, dst)) in g.edges() {
        let (sp, dp) = g.edge_ports(eid);
        let delay = g
            .node_op_inst(dst)
            .and_then(|oi| (oi.op_constraints.input_delaytype_fn)(dp));
        edges.push(json!([idx(src), sp.to_string(), idx(dst), dp.to_string(), delay_str(delay)]));
    }
    // handoff references (`#var` captures) of every node: (target index, is_mut, access group)
    let refs: Vec<Value> = ids
        .iter()
        .map(|&id| {
            Value::Array(
                g.node_handoff_references(id)
                    .iter()
                    .map(|r| json!([r.node_id.map(idx), r.is_mut, r.access_group]))
                    .collect(),
            )
        })
        .collect();
    json!({"nodes": nodes, "edges": edges, "refs": refs})
}

/// IR dump + the production path emit -> FlatGraphBuilder::build -> eliminate -> partition
fn analyse(ir: &[hydro_lang::compile::ir::HydroRoot]) -> (Value, Vec<Value>, bool, Value) {
    let ir_json: Value = serialize_dedup_shared(|| serde_json::to_value(ir)).expect("IR serialization");
    let mut ir2 = deep_clone(ir);
    let mut locs = Vec::new();
    let mut all_ok = true;
    let emitted = std::panic::catch_unwind(std::panic::AssertUnwindSafe(|| emit(&mut ir2)));
    let mut emit_panic = Value::Null;
    let emitted = match emitted {
        Ok(m) => m,
        Err(e) => {
            all_ok = false;
            let msg = if let Some(s) = e.downcast_ref::<&str>() {
                (*s).to_owned()
            } else if let Some(s) = e.downcast_ref::<String>() {
                s.clone()
            } else {
                "<non-string panic>".to_owned()
            };
            emit_panic = json!(msg);
            Default::default()
        }
    };
    for (k, b) in emitted {
        let mut loc = serde_json::Map::new();
        loc.insert("location".into(), json!(format!("{:?}", k)));
        match b.build() {
            Err(diags) => {
                all_ok = false;
                loc.insert("build".into(), json!("err"));
                loc.insert(
                    "diagnostics".into(),
                    json!(diags.iter().map(|d| d.to_string()).collect::<Vec<_>>()),
                );
            }
            Ok(FlatGraphBuilderOutput { mut flat_graph, .. }) => {
                loc.insert("build".into(), json!("ok"));
                loc.insert("flat".into(), dump_graph(&flat_graph));
                eliminate_extra_unions_tees(&mut flat_graph);
                loc.insert("flat_elim".into(), dump_graph(&flat_graph));
                match partition_graph(flat_graph) {
                    Ok(pg) => {
                        loc.insert("partition".into(), json!("ok"));
                        loc.insert("subgraphs".into(), json!(pg.subgraph_ids().count()));
                    }
                    Err(e) => {
                        all_ok = false;
                        loc.insert("partition".into(), json!("err"));
                        loc.insert("diagnostic".into(), json!(e.diagnostic.to_string()));
                    }
                }
            }
        }
        locs.push(Value::Object(loc));
    }
    std::mem::forget(ir2);
    (ir_json, locs, all_ok, emit_panic)
}

fn main() {
    println!("cargo::rerun-if-changed=build.rs");
    println!("cargo::rerun-if-changed=flows_table.rs");
    println!("cargo::rerun-if-changed=net_flows_table.rs");
    println!("cargo::rerun-if-changed=generated_table.rs");
    let out_dir = std::env::var("OUT_DIR").unwrap();
    std::panic::set_hook(Box::new(|_| {}));
    let mut dumps: Vec<(String, String)> = Vec::new();
    let mut mods = String::new();
    let mut compiled: Vec<String> = Vec::new();
    let mut drivers = String::new();
    let mut dispatch = String::new();

    macro_rules! flows {
        ($( $name:ident ( $( $i:ident : $it:ty ),* ) -> ( $( $o:ident : $ot:ty ),* ) ; )*) => {
            {$(
            'flow: {
                let name = stringify!($name);
                // building the flow with the typed API can itself panic (builder assertions)
                let constructed = std::panic::catch_unwind(|| {
                    let mut flow = FlowBuilder::new();
                    let process = flow.process::<()>();
                    h_hydro_b_flows::$name( $( process.embedded_input::<$it>(stringify!($i)) ),* );
                    (flow.finalize(), process)
                });
                let (built, process) = match constructed {
                    Ok(x) => x,
                    Err(e) => {
                        let msg = if let Some(s) = e.downcast_ref::<&str>() { (*s).to_owned() }
                            else if let Some(s) = e.downcast_ref::<String>() { s.clone() }
                            else { "<non-string panic>".to_owned() };
                        let d = json!({"flow": name, "flow_panic": msg, "ir": [], "locations": [], "codegen": false, "emit_panic": Value::Null});
                        dumps.push((name.to_owned(), d.to_string()));
                        break 'flow;
                    }
                };
                let (ir_json, locs, all_ok, emit_panic) = analyse(built.ir());
                let mut codegen = false;
                if all_ok {
                    let deploy: hydro_lang::compile::deploy::DeployFlow<'_, EmbeddedDeploy> =
                        built.with_process(&process, name);
                    let code = deploy.generate_embedded("h_hydro_b_flows");
                    std::fs::write(format!("{out_dir}/{name}.rs"), prettyplease::unparse(&code)).unwrap();
                    mods.push_str(&format!(
                        "#[allow(unused_imports, unused_qualifications, non_snake_case, clippy::all)]\npub mod {n} {{ include!(concat!(env!(\"OUT_DIR\"), \"/{n}.rs\")); }}\n",
                        n = name
                    ));
                    compiled.push(name.to_owned());
                    codegen = true;
                    drivers.push_str(&format!(
                        "#[allow(non_snake_case, unused_variables, unused_mut)]\nfn drive_{n}(ticks: &[Value]) -> Value {{ paste_mod!({n}, ticks, ({ins}), ({outs})) }}\n",
                        n = name,
                        ins = [ $( format!("{}: {}", stringify!($i), stringify!($it)) ),* ].join(", "),
                        outs = [ $( format!("{}: {}", stringify!($o), stringify!($ot)) ),* ].join(", "),
                    ));
                    dispatch.push_str(&format!("        {:?} => drive_{}(ticks),\n", name, name));
                }
                let d = json!({"flow": name, "ir": ir_json, "locations": locs, "codegen": codegen, "emit_panic": emit_panic});
                dumps.push((name.to_owned(), d.to_string()));
            }
            )*}
        };
    }
    include!("flows_table.rs");
    include!("generated_table.rs");

    // two-process flows (network): dumped and code-generated (compiled by rustc), not driven
    macro_rules! net_flows {
        ($( $name:ident ( $( $i:ident : $it:ty ),* ) ; )*) => {
            {$(
            {
                let name = stringify!($name);
                let mut flow = FlowBuilder::new();
                let process = flow.process::<()>();
                let p2 = flow.process::<h_hydro_b_flows::P2>();
                h_hydro_b_flows::$name(&p2, $( process.embedded_input::<$it>(stringify!($i)) ),* );
                let built = flow.finalize();
                let (ir_json, locs, all_ok, emit_panic) = analyse(built.ir());
                let mut codegen = false;
                if all_ok {
                    let deploy: hydro_lang::compile::deploy::DeployFlow<'_, EmbeddedDeploy> =
                        built.with_process(&process, name).with_process(&p2, format!("{name}_p2"));
                    let code = deploy.generate_embedded("h_hydro_b_flows");
                    std::fs::write(format!("{out_dir}/{name}.rs"), prettyplease::unparse(&code)).unwrap();
                    mods.push_str(&format!(
                        "#[allow(unused_imports, unused_qualifications, non_snake_case, dead_code, clippy::all)]\npub mod {n} {{ include!(concat!(env!(\"OUT_DIR\"), \"/{n}.rs\")); }}\n",
                        n = name
                    ));
                    codegen = true;
                }
                let d = json!({"flow": name, "ir": ir_json, "locations": locs, "codegen": codegen, "emit_panic": emit_panic, "net": true});
                dumps.push((name.to_owned(), d.to_string()));
            }
            )*}
        };
    }
    include!("net_flows_table.rs");

    std::fs::write(format!("{out_dir}/mods.rs"), mods).unwrap();
    drivers.push_str("fn dispatch(flow: &str, ticks: &[Value]) -> Value {\n    match flow {\n");
    drivers.push_str(&dispatch);
    drivers.push_str("        _ => json!({\"not_compiled\": flow}),\n    }\n}\n");
    std::fs::write(format!("{out_dir}/drivers.rs"), drivers).unwrap();
    let mut tbl = String::from("pub static DUMPS: &[(&str, &str)] = &[\n");
    for (n, s) in &dumps {
        tbl.push_str(&format!("    ({:?}, {:?}),\n", n, s));
    }
    tbl.push_str("];\n");
    tbl.push_str(&format!("pub static OPTABLE: &str = {:?};\n", dump_optable().to_string()));
    tbl.push_str("pub static COMPILED: &[&str] = &[");
    for n in &compiled {
        tbl.push_str(&format!("{:?}, ", n));
    }
    tbl.push_str("];\n");
    std::fs::write(format!("{out_dir}/dumps.rs"), tbl).unwrap();
}
