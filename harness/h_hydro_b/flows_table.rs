// The single table of corpus flows: name(inputs in alphabetical order) -> (outputs in alphabetical order).
// Included by build.rs (IR dump, DFIR emission, partitioning, code generation through the
// production embedded builder); build.rs also generates the tick-by-tick drivers of src/main.rs.
flows! {
    c41_map_filter(a: u32) -> (out: u32);
    c41_tee_top_and_tick(a: u32) -> (per_tick: u32, total: u32);
    c41_tick_cycle(a: u32) -> (out: u32);
    c41_forward_ref_acyclic(a: u32) -> (out: u32);
    c41_forward_ref_via_defer(a: u32) -> (out: u32);
    c41_forward_ref_sync_cycle(a: u32) -> (out: u32);
    c41_forward_ref_sync_cycle_tick(a: u32) -> (out: u32);
    c41_join_top(a: (u32, u32), b: (u32, u32)) -> (joined: (u32, u32), keys: u32);
    c41_join_tick_cycle(a: (u32, u32), b: (u32, u32)) -> (out: (u32, (u32, u32)));
    c41_cross_singleton_snapshot(a: u32) -> (out: (u32, usize));
    c41_two_ticks(a: u32) -> (out: u32);
    c41_keyed_fold(a: (u32, u32)) -> (per_tick: (u32, u32), total: (u32, u32));
    c41_misc_ops(a: u32) -> (tick: u32, top: u32);
    c41_difference_seen(a: u32) -> (out: u32);
    c41_atomic(r: u32, w: u32) -> (ack: u32, read: (u32, u32));
    c41_sliced_state(a: u32) -> (out: u32);
    c41_scan_top(a: u32) -> (out: u32);
    c41_bounded_source_chain(a: u32) -> (init_sum: u32, out: u32);
    c41_top_bounded_keyed_fold(a: u32) -> (echo: u32, out: (u32, u32));
    c41_forward_ref_chain(a: u32) -> (out: u32);
    c41_cross_product(a: u32, b: u32) -> (tick: (u32, u32), top: (u32, u32));
    c41_nested_tee(a: u32) -> (o1: u32, o2: u32, o3: u32);
    c41_anti_join(a: (u32, u32), b: u32) -> (out: (u32, u32));
    c41_optional_gate(a: u32, g: u32) -> (out: (u32, (usize, u32)));
    c41_tick_scan_top_fold(a: u32) -> (items: (u32, u32), total: u32);
    c41_ref_top(a: u32) -> (echo: u32, out: u32);
    c41_ref_tick_two_uses(a: u32) -> (out: (u32, u32));
    c41_ref_mut_then_ref(a: u32) -> (out: u32);
    c41_ref_borrower_after_consumer(a: u32) -> (first: (u32, u32), second: u32);
    c41_filter_not_in_unbounded(a: u32) -> (out: u32);
    c41_partition_one_side(a: u32) -> (out: u32);
    c41_partition_both_sides(a: u32) -> (even: u32, odd: u32);
    c41_tee_two_defers(a: u32) -> (out: (u32, usize));
    c31_batch(a: u32) -> (out: Vec<u32>);
    c31_snapshot(a: u32) -> (out: (usize, usize));
    c31_state(a: u32) -> (out: (u32, u32));
    c31_two(a: u32, b: u32) -> (out: (Vec<u32>, Vec<u32>));
    c31_bk_stream(a: u32) -> (out: (Vec<u32>, usize));
    c31_bk_keyed(a: u32) -> (out: (Vec<(u32, u32)>, usize));
    c31_bk_singleton(a: u32) -> (out: (u32, usize));
    c31_bk_optional(a: u32) -> (out: (Vec<u32>, usize));
    c34_counter(r: u32, w: u32) -> (ack: u32, read: (u32, usize));
    c34_sum(r: u32, w: u32) -> (ack: u32, read: (u32, u32));
    c34_yield_atomic(r: u32, w: u32) -> (ack: u32, read: (u32, u32));
}
