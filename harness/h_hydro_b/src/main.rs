//! HydroB correspondence harness (C41, C31, C34).
//!
//! case {"k":"flows"}                 -> {"flows":[names], "compiled":[names]}
//! case {"k":"optable"}               -> {"optable": dfir_lang OPERATORS as JSON}
//! case {"k":"dump","flow":name}      -> the build-time dump of that flow: Hydro IR, emitted flat
//!                                       DFIR graph per location, `partition_graph` verdict
//! case {"flow":name,"ticks":[{"a":[..],..},..]} -> {"ticks":[{"out":[..],..},..]}: the flow's
//!        production (embedded) DFIR code driven with one `run_tick_sync` per entry of `ticks`
use std::cell::RefCell;
use std::collections::VecDeque;
use std::pin::Pin;
use std::rc::Rc;
use std::task::{Context, Poll};

use hvcommon::{Value, json};

mod generated {
    include!(concat!(env!("OUT_DIR"), "/mods.rs"));
}
include!(concat!(env!("OUT_DIR"), "/dumps.rs"));

/// An input stream the driver refills between ticks: yields what is queued, then `Pending`
/// (never ends), so one `run_tick_sync` consumes exactly the batch pushed for that tick.
struct QS<T>(Rc<RefCell<VecDeque<T>>>);
impl<T> dfir_rs::futures::Stream for QS<T> {
    type Item = T;
    fn poll_next(self: Pin<&mut Self>, _cx: &mut Context<'_>) -> Poll<Option<T>> {
        match self.0.borrow_mut().pop_front() {
            Some(x) => Poll::Ready(Some(x)),
            None => Poll::Pending,
        }
    }
}

trait FromJ: Sized {
    fn from_j(v: &Value) -> Self;
}
impl FromJ for u32 {
    fn from_j(v: &Value) -> Self {
        v.as_u64().expect("u32 item") as u32
    }
}
impl<A: FromJ, B: FromJ> FromJ for (A, B) {
    fn from_j(v: &Value) -> Self {
        let a = v.as_array().expect("pair");
        (A::from_j(&a[0]), B::from_j(&a[1]))
    }
}
trait ToJ {
    fn to_j(&self) -> Value;
}
impl ToJ for u32 {
    fn to_j(&self) -> Value {
        json!(*self)
    }
}
impl ToJ for usize {
    fn to_j(&self) -> Value {
        json!(*self)
    }
}
impl ToJ for bool {
    fn to_j(&self) -> Value {
        json!(*self)
    }
}
impl ToJ for () {
    fn to_j(&self) -> Value {
        json!([])
    }
}
impl<A: ToJ, B: ToJ> ToJ for (A, B) {
    fn to_j(&self) -> Value {
        json!([self.0.to_j(), self.1.to_j()])
    }
}
impl<A: ToJ, B: ToJ, C: ToJ> ToJ for (A, B, C) {
    fn to_j(&self) -> Value {
        json!([self.0.to_j(), self.1.to_j(), self.2.to_j()])
    }
}
impl<A: ToJ> ToJ for Vec<A> {
    fn to_j(&self) -> Value {
        Value::Array(self.iter().map(|x| x.to_j()).collect())
    }
}
impl<A: ToJ> ToJ for Option<A> {
    fn to_j(&self) -> Value {
        match self {
            None => Value::Null,
            Some(x) => json!([x.to_j()]),
        }
    }
}

macro_rules! paste_mod {
    ($name:ident, $ticks:ident, ( $( $i:ident : $it:ty ),* ), ( $( $o:ident : $ot:ty ),* )) => {{
        $( let $i: Rc<RefCell<VecDeque<$it>>> = Rc::new(RefCell::new(VecDeque::new())); )*
        $( let $o: Rc<RefCell<Vec<Value>>> = Rc::new(RefCell::new(Vec::new())); )*
        let mut outputs = generated::$name::$name::EmbeddedOutputs {
            $( $o: { let $o = $o.clone(); move |x: $ot| $o.borrow_mut().push(x.to_j()) } ),*
        };
        let mut df = generated::$name::$name( $( QS($i.clone()), )* &mut outputs);
        let mut res: Vec<Value> = Vec::new();
        for t in $ticks {
            $(
                if let Some(items) = t.get(stringify!($i)).and_then(|x| x.as_array()) {
                    for it in items {
                        $i.borrow_mut().push_back(<$it as FromJ>::from_j(it));
                    }
                }
            )*
            df.run_tick_sync();
            let mut m = serde_json::Map::new();
            $( m.insert(stringify!($o).to_owned(), Value::Array(std::mem::take(&mut *$o.borrow_mut()))); )*
            res.push(Value::Object(m));
        }
        drop(df);
        json!({"ticks": res})
    }};
}

include!(concat!(env!("OUT_DIR"), "/drivers.rs"));

fn run(case: &Value) -> Value {
    match case.get("k").and_then(|k| k.as_str()) {
        Some("flows") => {
            let names: Vec<&str> = DUMPS.iter().map(|(n, _)| *n).collect();
            return json!({"flows": names, "compiled": COMPILED});
        }
        Some("echo") => {
            // cases evaluated by another harness (h_sim); see tools/hydrob.py sim_result
            return json!({"echo": true});
        }
        Some("optable") => {
            return json!({"optable": serde_json::from_str::<Value>(OPTABLE).unwrap()});
        }
        Some("dump") => {
            let flow = case["flow"].as_str().expect("flow");
            return match DUMPS.iter().find(|(n, _)| *n == flow) {
                Some((_, s)) => serde_json::from_str::<Value>(s).unwrap(),
                None => json!({"bad_case": format!("unknown flow {flow}")}),
            };
        }
        _ => {}
    }
    let flow = case["flow"].as_str().expect("flow");
    let ticks = case["ticks"].as_array().expect("ticks");
    dispatch(flow, ticks)
}

fn main() {
    hvcommon::main_loop(run)
}
