//! Union-find correspondence harness (union-find part of C04).
//!
//! case: {"rep": "hash"|"btree", "init": null | [[key, parent]..], "ops": [op..]}
//!   op = ["union", a, b] | ["same", a, b] | ["bot"]
//!      | ["merge", orep, [op..]] | ["cmp", orep, [op..]]        (orep: "hash"|"btree"|"vec")
//! The other operand of merge / cmp is built from Default by its own sub-history (its answers
//! are reported too, in chronological order); "vec" converts it to a VecMap-backed UnionFind
//! before merging (VecMap has no insert, so it can only be a merge source).
//! result: {"ans": [u64..]}  union / merge: returned flag; same: answer; bot: is_bot;
//!   cmp: 2 * (0 Lt | 1 Eq | 2 Gt | 3 None) + (self == other)
//! "init" builds a possibly malformed map with new_from; a rho-shaped one makes find spin, which
//! the watchdog of hvcommon reports as {"hang": true}.
use std::cell::Cell;
use std::cmp::Ordering;
use std::collections::{BTreeMap, HashMap};

use hvcommon::{Value, json};
use lattices::cc_traits::{MapIter, MapMut};
use lattices::collections::VecMap;
use lattices::union_find::UnionFind;
use lattices::{IsBot, Merge};

trait UfMap:
    MapMut<u64, Cell<u64>, Key = u64, Item = Cell<u64>>
    + MapIter
    + Default
    + IntoIterator<Item = (u64, Cell<u64>)>
    + FromIterator<(u64, Cell<u64>)>
{
}
impl UfMap for HashMap<u64, Cell<u64>> {}
impl UfMap for BTreeMap<u64, Cell<u64>> {}

fn build_other<M: UfMap>(ops: &[Value], out: &mut Vec<u64>) -> UnionFind<M> {
    let mut o = UnionFind::<M>::default();
    exec(&mut o, ops, out);
    o
}

fn cmp_code(c: Option<Ordering>) -> u64 {
    match c {
        Some(Ordering::Less) => 0,
        Some(Ordering::Equal) => 1,
        Some(Ordering::Greater) => 2,
        None => 3,
    }
}

fn exec<M: UfMap>(uf: &mut UnionFind<M>, ops: &[Value], out: &mut Vec<u64>) {
    for op in ops {
        let name = op[0].as_str().unwrap();
        match name {
            "union" => {
                let f = uf.union(op[1].as_u64().unwrap(), op[2].as_u64().unwrap()).into_reveal();
                out.push(f as u64);
            }
            "same" => {
                let f = uf.same(op[1].as_u64().unwrap(), op[2].as_u64().unwrap()).into_reveal();
                out.push(f as u64);
            }
            "bot" => out.push(uf.is_bot() as u64),
            "merge" => {
                let sub = op[2].as_array().unwrap();
                let f = match op[1].as_str().unwrap() {
                    "hash" => {
                        let o = build_other::<HashMap<u64, Cell<u64>>>(sub, out);
                        uf.merge(o)
                    }
                    "btree" => {
                        let o = build_other::<BTreeMap<u64, Cell<u64>>>(sub, out);
                        uf.merge(o)
                    }
                    "vec" => {
                        let o = build_other::<BTreeMap<u64, Cell<u64>>>(sub, out);
                        let (keys, vals): (Vec<u64>, Vec<Cell<u64>>) = o.into_reveal().into_iter().unzip();
                        uf.merge(UnionFind::new(VecMap::new(keys, vals)))
                    }
                    r => panic!("bad orep {r}"),
                };
                out.push(f as u64);
            }
            "cmp" => {
                let sub = op[2].as_array().unwrap();
                let code = match op[1].as_str().unwrap() {
                    "btree" => {
                        let o = build_other::<BTreeMap<u64, Cell<u64>>>(sub, out);
                        let c = (*uf).partial_cmp(&o);
                        2 * cmp_code(c) + ((*uf == o) as u64)
                    }
                    _ => {
                        let o = build_other::<HashMap<u64, Cell<u64>>>(sub, out);
                        let c = (*uf).partial_cmp(&o);
                        2 * cmp_code(c) + ((*uf == o) as u64)
                    }
                };
                out.push(code);
            }
            n => panic!("bad op {n}"),
        }
    }
}

fn run_rep<M: UfMap>(case: &Value) -> Value {
    let mut uf = match case.get("init").and_then(|v| v.as_array()) {
        Some(entries) => UnionFind::<M>::new(
            entries
                .iter()
                .map(|kv| (kv[0].as_u64().unwrap(), Cell::new(kv[1].as_u64().unwrap())))
                .collect::<M>(),
        ),
        None => UnionFind::<M>::default(),
    };
    let mut out = Vec::new();
    exec(&mut uf, case["ops"].as_array().unwrap(), &mut out);
    json!({ "ans": out })
}

fn run(case: &Value) -> Value {
    match case["rep"].as_str().unwrap() {
        "hash" => run_rep::<HashMap<u64, Cell<u64>>>(case),
        "btree" => run_rep::<BTreeMap<u64, Cell<u64>>>(case),
        r => json!({ "bad_rep": r }),
    }
}

fn main() {
    hvcommon::main_loop(run)
}
