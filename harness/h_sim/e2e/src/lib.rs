//! Small Hydro programs with known outcome sets, compiled by the real simulator pipeline
//! (FlowBuilder -> sim() -> trybuild dylib) and run under the real exhaustive / byte drivers.
#[cfg(stageleft_runtime)]
hydro_lang::setup!();

use hydro_lang::live_collections::sliced::sliced;
use hydro_lang::live_collections::stream::{ExactlyOnce, NoOrder, TotalOrder};
use hydro_lang::prelude::*;
use hydro_lang::properties::manual_proof;
use hydro_lang::sim::{SimReceiver, SimSender};

pub type In<O> = SimSender<i32, O, ExactlyOnce>;
pub type OutVec = SimReceiver<Vec<i32>, TotalOrder, ExactlyOnce>;

/// P1: a totally ordered input batched into a tick; every tick reports its batch.
pub fn batch_total<'a>(node: &Process<'a, ()>) -> (In<TotalOrder>, OutVec) {
    let (send, input) = node.sim_input();
    let out = sliced! {
        let b = use::batch(input, nondet!(/** e2e */));
        b.fold(q!(|| Vec::new()), q!(|acc, v| acc.push(v))).into_stream()
    }
    .sim_output();
    (send, out)
}

/// P2: an unordered input batched into a tick; every tick reports its batch as a sorted vector.
pub fn batch_noorder<'a>(node: &Process<'a, ()>) -> (In<NoOrder>, OutVec) {
    let (send, input) = node.sim_input::<i32, NoOrder, ExactlyOnce>();
    let out = sliced! {
        let b = use::batch(input, nondet!(/** e2e */));
        b.fold(
            q!(|| Vec::new()),
            q!(
                |acc, v| {
                    acc.push(v);
                    acc.sort();
                },
                commutative = manual_proof!(/** a sorted vector is a multiset */)
            ),
        )
        .into_stream()
    }
    .sim_output();
    (send, out)
}

/// P3: two independent ticks, each batching its own totally ordered input.
pub fn two_ticks<'a>(node: &Process<'a, ()>) -> (In<TotalOrder>, In<TotalOrder>, OutVec, OutVec) {
    let (sa, a) = node.sim_input();
    let (sb, b) = node.sim_input();
    let oa = sliced! {
        let x = use::batch(a, nondet!(/** e2e */));
        x.fold(q!(|| Vec::new()), q!(|acc, v| acc.push(v))).into_stream()
    }
    .sim_output();
    let ob = sliced! {
        let y = use::batch(b, nondet!(/** e2e */));
        y.fold(q!(|| Vec::new()), q!(|acc, v| acc.push(v))).into_stream()
    }
    .sim_output();
    (sa, sb, oa, ob)
}

/// P4: one tick with two batch hooks (run_hooks with two hooks, forced non-trivial rule).
pub fn two_hooks<'a>(
    node: &Process<'a, ()>,
) -> (In<TotalOrder>, In<TotalOrder>, SimReceiver<(Vec<i32>, Vec<i32>), TotalOrder, ExactlyOnce>) {
    let (sa, a) = node.sim_input();
    let (sb, b) = node.sim_input();
    let out = sliced! {
        let x = use::batch(a, nondet!(/** e2e */));
        let y = use::batch(b, nondet!(/** e2e */));
        let fx = x.fold(q!(|| Vec::new()), q!(|acc, v| acc.push(v)));
        let fy = y.fold(q!(|| Vec::new()), q!(|acc, v| acc.push(v)));
        fx.zip(fy).into_stream()
    }
    .sim_output();
    (sa, sb, out)
}

/// C34 program (atomic acknowledgements imply read-after-write): keyed write requests with
/// UNORDERED values enter an atomic region; acknowledgements leave it through `end_atomic()`;
/// the state lives in a `sliced!` region fed by `use::atomic` of that keyed atomic stream; a
/// read is sent only after the acknowledgement has been observed.  Runs the real exhaustive
/// simulator and returns (number of executions, the total every read observed).
pub fn atomic_keyed_exhaustive(key: u32, inc: i32) -> (usize, Vec<i32>) {
    use std::sync::Mutex;
    static SEEN: Mutex<Vec<i32>> = Mutex::new(Vec::new());
    SEEN.lock().unwrap().clear();

    let mut flow = FlowBuilder::new();
    let node = flow.process::<()>();

    let (write_send, write_req) = node.sim_input::<(u32, i32), NoOrder, _>();
    let (read_send, read_req) = node.sim_input::<(), _, _>();

    let atomic_write = write_req.into_keyed().atomic();
    let write_ack_recv = atomic_write.clone().end_atomic().entries().sim_output();

    let read_response_recv = sliced! {
        let writes = use::atomic(atomic_write, nondet!(/** e2e */));
        let reads = use::batch(read_req, nondet!(/** e2e */));
        let mut total = use::state(|l| l.singleton(q!(0)));

        let added = writes.values().fold(
            q!(|| 0),
            q!(
                |acc, v| *acc += v,
                commutative = manual_proof!(/** integer addition is commutative */)
            ),
        );
        let new_total = total.clone().zip(added).map(q!(|(old, add)| old + add));
        total = new_total.clone();

        reads.cross_singleton(new_total)
    }
    .sim_output();

    let count = flow.sim().exhaustive(async || {
        write_send.send_many_unordered([(key, inc)]);
        write_ack_recv.assert_yields_unordered([(key, inc)]).await;
        // the acknowledgement has been observed: the write must be visible to any later read
        read_send.send(());
        let (_, seen) = read_response_recv.next().await;
        SEEN.lock().unwrap().push(seen);
    });
    (count, SEEN.lock().unwrap().clone())
}
