//! End-to-end harness: {"k":"exh","prog":..,"input":..} runs CompiledSim::exhaustive and reports
//! the execution count and the distinct outcomes; {"k":"bytes",..} replays decision bytes with
//! fuzz_repro (decision log + outputs), `reps` times in this process.
use std::collections::BTreeSet;
use std::panic::{AssertUnwindSafe, catch_unwind};
use std::sync::Mutex;

use hvcommon::{Value, json, panic_message};
use hydro_lang::prelude::*;

static OUT: Mutex<Vec<String>> = Mutex::new(Vec::new());

fn ints(v: &Value) -> Vec<i32> {
    v.as_array().map(|a| a.iter().map(|x| x.as_i64().unwrap() as i32).collect()).unwrap_or_default()
}

fn run_exh(case: &Value) -> Value {
    OUT.lock().unwrap().clear();
    let prog = case["prog"].as_str().unwrap().to_owned();
    if prog == "atomic_keyed" {
        // C34: every read is sent after the acknowledgement of the write (key, inc) was observed
        let a = ints(&case["a"]);
        let (count, seen) = h_sim_e2e::atomic_keyed_exhaustive(a[0] as u32, a[1]);
        let distinct: BTreeSet<i32> = seen.iter().copied().collect();
        return json!({"executions": count, "observed": seen.len(), "distinct": distinct.len(),
                      "outcomes": distinct.into_iter().collect::<Vec<i32>>(), "acked_increment": a[1]});
    }
    let a = ints(&case["a"]);
    let b = ints(&case["b"]);
    let mut flow = FlowBuilder::new();
    let node = flow.process::<()>();
    let count = match prog.as_str() {
        "batch_total" => {
            let (send, out) = h_sim_e2e::batch_total(&node);
            flow.sim().exhaustive(async || {
                send.send_many(a.clone());
                let all: Vec<Vec<i32>> = out.collect().await;
                OUT.lock().unwrap().push(json!([all]).to_string());
            })
        }
        "batch_noorder" => {
            let (send, out) = h_sim_e2e::batch_noorder(&node);
            flow.sim().exhaustive(async || {
                send.send_many_unordered(a.clone());
                let all: Vec<Vec<i32>> = out.collect().await;
                OUT.lock().unwrap().push(json!([all]).to_string());
            })
        }
        "two_ticks" => {
            let (sa, sb, oa, ob) = h_sim_e2e::two_ticks(&node);
            flow.sim().exhaustive(async || {
                sa.send_many(a.clone());
                sb.send_many(b.clone());
                let xa: Vec<Vec<i32>> = oa.collect().await;
                let xb: Vec<Vec<i32>> = ob.collect().await;
                OUT.lock().unwrap().push(json!([xa, xb]).to_string());
            })
        }
        "two_hooks" => {
            let (sa, sb, out) = h_sim_e2e::two_hooks(&node);
            flow.sim().exhaustive(async || {
                sa.send_many(a.clone());
                sb.send_many(b.clone());
                let all: Vec<(Vec<i32>, Vec<i32>)> = out.collect().await;
                OUT.lock().unwrap().push(json!([all]).to_string());
            })
        }
        other => return json!({"bad_case": format!("unknown program {other}")}),
    };
    let all = OUT.lock().unwrap().clone();
    let distinct: BTreeSet<String> = all.iter().cloned().collect();
    let outcomes: Vec<Value> = distinct.iter().map(|s| serde_json::from_str(s).unwrap()).collect();
    json!({"executions": count, "observed": all.len(), "distinct": distinct.len(), "outcomes": outcomes})
}

fn finish(r: std::thread::Result<()>, log: Vec<u8>, result: Value) -> Value {
    let log = String::from_utf8_lossy(&log).to_string();
    match r {
        Ok(()) => json!({"result": result, "log": log}),
        Err(e) => json!({"panic": panic_message(e), "log": log}),
    }
}

/// compile once, replay the same decision bytes `reps` times with fuzz_repro
macro_rules! replay {
    ($compiled:expr, $bytes:expr, $reps:expr, |$log:ident, $result:ident| $thunk:block) => {{
        let compiled = $compiled;
        (0..$reps)
            .map(|_| {
                let mut $log: Vec<u8> = Vec::new();
                let mut $result = Value::Null;
                let r = catch_unwind(AssertUnwindSafe(|| {
                    compiled.fuzz_repro($bytes.clone(), async |c| {
                        c.run_with_scheduler_and_logger(&mut $log, async $thunk).await;
                    })
                }));
                finish(r, $log, $result)
            })
            .collect::<Vec<Value>>()
    }};
}

fn run_bytes(case: &Value) -> Value {
    let prog = case["prog"].as_str().unwrap().to_owned();
    let a = ints(&case["a"]);
    let b = ints(&case["b"]);
    let reps = case["reps"].as_u64().unwrap_or(2);
    let bytes: Vec<u8> = case["bytes"].as_array().unwrap().iter().map(|x| x.as_u64().unwrap() as u8).collect();
    let mut flow = FlowBuilder::new();
    let node = flow.process::<()>();
    let runs = match prog.as_str() {
        "batch_total" => {
            let (send, out) = h_sim_e2e::batch_total(&node);
            replay!(flow.sim().compiled(), bytes, reps, |log, result| {
                send.send_many(a.clone());
                let all: Vec<Vec<i32>> = out.collect().await;
                result = json!([all]);
            })
        }
        "batch_noorder" => {
            let (send, out) = h_sim_e2e::batch_noorder(&node);
            replay!(flow.sim().compiled(), bytes, reps, |log, result| {
                send.send_many_unordered(a.clone());
                let all: Vec<Vec<i32>> = out.collect().await;
                result = json!([all]);
            })
        }
        "two_ticks" => {
            let (sa, sb, oa, ob) = h_sim_e2e::two_ticks(&node);
            replay!(flow.sim().compiled(), bytes, reps, |log, result| {
                sa.send_many(a.clone());
                sb.send_many(b.clone());
                let xa: Vec<Vec<i32>> = oa.collect().await;
                let xb: Vec<Vec<i32>> = ob.collect().await;
                result = json!([xa, xb]);
            })
        }
        "two_hooks" => {
            let (sa, sb, out) = h_sim_e2e::two_hooks(&node);
            replay!(flow.sim().compiled(), bytes, reps, |log, result| {
                sa.send_many(a.clone());
                sb.send_many(b.clone());
                let all: Vec<(Vec<i32>, Vec<i32>)> = out.collect().await;
                result = json!([all]);
            })
        }
        other => return json!({"bad_case": format!("unknown program {other}")}),
    };
    json!({ "runs": runs })
}

fn run(case: &Value) -> Value {
    match case["k"].as_str().unwrap_or("") {
        "exh" => run_exh(case),
        "bytes" => run_bytes(case),
        other => json!({"bad_case": format!("unknown kind {other}")}),
    }
}

fn main() {
    // the simulator shells out to cargo for the generated crate: it needs the manifest dir of
    // this crate (as under `cargo run`) and a working directory inside it
    let dir = std::env::var("CARGO_MANIFEST_DIR").unwrap_or_else(|_| env!("CARGO_MANIFEST_DIR").to_owned());
    unsafe {
        std::env::set_var("CARGO_MANIFEST_DIR", &dir);
        std::env::set_var("NO_COLOR", "1");
    }
    std::env::set_current_dir(&dir).unwrap();
    // cargo's progress output and bolero's per-run report go to stderr, which the check
    // pipeline merges into the JSON-lines result stream: discard it (HV_KEEP_STDERR keeps it)
    if std::env::var_os("HV_KEEP_STDERR").is_none() {
        unsafe {
            let fd = libc::open(c"/dev/null".as_ptr(), libc::O_WRONLY);
            if fd >= 0 {
                libc::dup2(fd, 2);
                libc::close(fd);
            }
        }
    }
    hvcommon::main_loop(run)
}
