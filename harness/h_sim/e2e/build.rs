fn main() {
    stageleft_tool::gen_final!();
}
