//! Correspondence harness for engine E9 "Sim" (C36, C37, C38).
//!
//! Builds the real simulator hooks of `hydro_lang::sim::runtime` from a JSON description,
//! drives `autonomous_decision` / `release_decision` / (via the cfg(hydro_verif) hook)
//! `run_hooks` with a *scripted* bolero driver that replays the case's decision list, and
//! reports everything observable: released items, remaining queues, decisions consumed,
//! return values, panics. For C37 the real bolero exhaustive engine enumerates the decision
//! space; for C38 the real byte-slice driver replays decision bytes.
use std::cell::RefCell;
use std::collections::{BTreeSet, VecDeque};
use std::ops::Bound;
use std::panic::{AssertUnwindSafe, catch_unwind};
use std::rc::Rc;
use std::sync::Mutex;
use std::task::{Context, Poll, Waker};

use bolero::generator::bolero_generator::any::scope;
use bolero::generator::bolero_generator::driver::object::{Borrowed, DynDriver, Object};
use dfir_rs::rustc_hash::FxHashMap;
use dfir_rs::util::unsync::mpsc::{Receiver, unbounded};
use hvcommon::{Value, json, panic_message};
use hydro_lang::live_collections::stream::{NoOrder, TotalOrder};
use hydro_lang::sim::compiled::{verif_can_run, verif_run_hooks_logged};
use hydro_lang::sim::runtime::{
    KeyedMergeOrderedHook, KeyedSingletonHook, KeyedStreamHook, KeyedStreamOrderHook, MergeOrderedHook,
    PartiallyOrderedStreamHook, PassthroughSingletonHook, SimHook, SimInlineHook, TopLevelKeyedMergeOrderedHook,
    SingletonHook, StreamHook, StreamOrderHook, TopLevelFoldHook, TopLevelMergeOrderedHook,
    TopLevelKeyedStreamOrderHook, TopLevelPartiallyOrderedStreamHook, TopLevelStreamOrderHook,
};

// ------------------------------------------------------------------ scripted driver

#[derive(Default)]
struct St {
    script: Vec<u64>,
    pos: usize,
    bad: bool,
    depth: usize,
    /// when set, requests beyond the end of the script are answered by a SplitMix64 stream
    /// (value = lo + next % width); every value returned is recorded in `used`
    seed: Option<u64>,
    used: Vec<u64>,
}

#[derive(Clone)]
struct Scripted(Rc<RefCell<St>>);

impl Scripted {
    fn new(script: Vec<u64>) -> Self {
        Scripted(Rc::new(RefCell::new(St { script, ..Default::default() })))
    }
    fn from_round(r: &Value) -> Self {
        let d = Self::new(u64s(&r["ds"]));
        d.0.borrow_mut().seed = r["seed"].as_u64();
        d
    }
    /// next scripted value, which must lie in the inclusive range [lo, hi]
    fn next(&self, lo: i128, hi: i128) -> Option<u64> {
        let mut st = self.0.borrow_mut();
        if lo > hi {
            st.bad = true;
            return None;
        }
        if st.pos >= st.script.len() {
            let Some(s) = st.seed else {
                st.bad = true;
                return None;
            };
            let s = s.wrapping_add(0x9E3779B97F4A7C15);
            st.seed = Some(s);
            let mut z = s;
            z = (z ^ (z >> 30)).wrapping_mul(0xBF58476D1CE4E5B9);
            z = (z ^ (z >> 27)).wrapping_mul(0x94D049BB133111EB);
            z ^= z >> 31;
            let v = (lo as u64) + z % ((hi - lo + 1) as u64);
            st.pos += 1;
            st.used.push(v);
            return Some(v);
        }
        let v = st.script[st.pos];
        st.pos += 1;
        st.used.push(v);
        if (v as i128) < lo || (v as i128) > hi {
            st.bad = true;
            return None;
        }
        Some(v)
    }
}

macro_rules! gen_int {
    ($name:ident, $ty:ty) => {
        fn $name(&mut self, min: Bound<&$ty>, max: Bound<&$ty>) -> Option<$ty> {
            let lo: i128 = match min {
                Bound::Included(v) => *v as i128,
                Bound::Excluded(v) => (*v as i128).saturating_add(1),
                Bound::Unbounded => <$ty>::MIN as i128,
            };
            let hi: i128 = match max {
                Bound::Included(v) => *v as i128,
                Bound::Excluded(v) => (*v as i128).saturating_sub(1),
                Bound::Unbounded => <$ty>::MAX as i128,
            };
            self.next(lo, hi).map(|v| v as $ty)
        }
    };
}

impl DynDriver for Scripted {
    fn depth(&self) -> usize {
        self.0.borrow().depth
    }
    fn set_depth(&mut self, depth: usize) {
        self.0.borrow_mut().depth = depth;
    }
    fn max_depth(&self) -> usize {
        64
    }
    fn gen_variant(&mut self, variants: usize, _base_case: usize) -> Option<usize> {
        self.next(0, variants as i128 - 1).map(|v| v as usize)
    }
    gen_int!(gen_u8, u8);
    gen_int!(gen_i8, i8);
    gen_int!(gen_u16, u16);
    gen_int!(gen_i16, i16);
    gen_int!(gen_u32, u32);
    gen_int!(gen_i32, i32);
    gen_int!(gen_u64, u64);
    gen_int!(gen_i64, i64);
    gen_int!(gen_u128, u128);
    gen_int!(gen_i128, i128);
    gen_int!(gen_usize, usize);
    gen_int!(gen_isize, isize);
    fn gen_f32(&mut self, _: Bound<&f32>, _: Bound<&f32>) -> Option<f32> {
        self.0.borrow_mut().bad = true;
        None
    }
    fn gen_f64(&mut self, _: Bound<&f64>, _: Bound<&f64>) -> Option<f64> {
        self.0.borrow_mut().bad = true;
        None
    }
    fn gen_char(&mut self, _: Bound<&char>, _: Bound<&char>) -> Option<char> {
        self.0.borrow_mut().bad = true;
        None
    }
    fn gen_bool(&mut self, _probability: Option<f32>) -> Option<bool> {
        self.next(0, 1).map(|v| v == 1)
    }
    fn gen_from_bytes(
        &mut self,
        _hint: &mut dyn FnMut() -> (usize, Option<usize>),
        _produce: &mut dyn FnMut(&[u8]) -> Option<usize>,
    ) -> Option<()> {
        self.0.borrow_mut().bad = true;
        None
    }
}

// ------------------------------------------------------------------ building hooks

type Q = Rc<RefCell<VecDeque<u32>>>;
type M = Rc<RefCell<FxHashMap<u32, VecDeque<u32>>>>;

enum Obs {
    /// plain queue, items emitted one by one
    Q(Q, Receiver<u32>),
    /// keyed queues, (key, value) pairs emitted one by one
    M(M, Receiver<(u32, u32)>),
    /// plain queue, one Vec emitted per release (top-level fold)
    V(Q, Receiver<Vec<u32>>),
    /// two plain queues (top-level merge_ordered), items emitted one by one
    Q2(Q, Q, Receiver<u32>),
    /// two keyed maps (top-level keyed merge_ordered): entries of the first, then of the second
    M2(M, M, Receiver<(u32, u32)>),
}

struct Built {
    hook: Box<dyn SimHook>,
    obs: Obs,
}

const LOC: (&str, &str, &str) = ("loc", "line", "  ");

fn fmt_u32(v: &u32) -> Option<String> {
    Some(format!("{:?}", v))
}
fn fmt_kv(v: &(u32, u32)) -> Option<String> {
    Some(format!("{:?}", v))
}

fn u32s(v: &Value) -> Vec<u32> {
    v.as_array().map(|a| a.iter().map(|x| x.as_u64().unwrap() as u32).collect()).unwrap_or_default()
}
fn u64s(v: &Value) -> Vec<u64> {
    v.as_array().map(|a| a.iter().map(|x| x.as_u64().unwrap()).collect()).unwrap_or_default()
}
fn pairs(v: &Value) -> Vec<(u32, u32)> {
    v.as_array()
        .map(|a| a.iter().map(|p| (p[0].as_u64().unwrap() as u32, p[1].as_u64().unwrap() as u32)).collect())
        .unwrap_or_default()
}
fn keyed(v: &Value) -> Vec<(u32, Vec<u32>)> {
    v.as_array()
        .map(|a| a.iter().map(|p| (p[0].as_u64().unwrap() as u32, u32s(&p[1]))).collect())
        .unwrap_or_default()
}

fn drain<T>(rx: &mut Receiver<T>) -> Vec<T> {
    let mut cx = Context::from_waker(Waker::noop());
    let mut out = vec![];
    while let Poll::Ready(Some(v)) = rx.poll_recv(&mut cx) {
        out.push(v);
    }
    out
}

fn fill_map(m: &M, entries: &[(u32, Vec<u32>)]) {
    let mut mm = m.borrow_mut();
    for (k, vs) in entries {
        mm.entry(*k).or_default().extend(vs.iter().copied());
    }
}

fn build(h: &Value) -> Built {
    let kind = h["kind"].as_str().unwrap();
    match kind {
        "stream_t" | "stream_n" | "top_order" | "single" | "pass" => {
            let q: Q = Rc::new(RefCell::new(VecDeque::new()));
            let (tx, mut rx) = unbounded::<u32>();
            let tr = if h["tr"].is_null() { None } else { Some(u32s(&h["tr"])) };
            let hook: Box<dyn SimHook> = match kind {
                "stream_t" => Box::new(StreamHook::<u32, TotalOrder> {
                    input: q.clone(),
                    to_release: tr,
                    output: tx,
                    batch_location: LOC,
                    format_item_debug: fmt_u32,
                    _order: std::marker::PhantomData,
                }),
                "stream_n" => Box::new(StreamHook::<u32, NoOrder> {
                    input: q.clone(),
                    to_release: tr,
                    output: tx,
                    batch_location: LOC,
                    format_item_debug: fmt_u32,
                    _order: std::marker::PhantomData,
                }),
                "top_order" => Box::new(TopLevelStreamOrderHook::<u32> {
                    input: q.clone(),
                    to_release: tr,
                    output: tx,
                    location: LOC,
                    format_item_debug: fmt_u32,
                }),
                "single" => {
                    let mut hk = SingletonHook::<u32>::new(q.clone(), tx, LOC, fmt_u32);
                    if let Some(last) = h["last"].as_u64() {
                        // prime `last_released` (a private field) through the public behaviour:
                        // one forced release of a one-element queue
                        q.borrow_mut().push_back(last as u32);
                        let mut d = Scripted::new(vec![0]);
                        let mut b = Borrowed(&mut d);
                        hk.autonomous_decision(&mut b, true);
                        hk.release_decision(None);
                        drain(&mut rx);
                    }
                    Box::new(hk)
                }
                _ => {
                    let mut hk = PassthroughSingletonHook::<u32>::new(q.clone(), tx, LOC, fmt_u32);
                    if let Some(last) = h["last"].as_u64() {
                        // prime `last_released` through the public behaviour: release one value
                        q.borrow_mut().push_back(last as u32);
                        let mut d = Scripted::new(vec![]);
                        let mut b = Borrowed(&mut d);
                        hk.autonomous_decision(&mut b, false);
                        hk.release_decision(None);
                        drain(&mut rx);
                    }
                    Box::new(hk)
                }
            };
            q.borrow_mut().extend(u32s(&h["q"]));
            Built { hook, obs: Obs::Q(q, rx) }
        }
        "top_fold" => {
            let q: Q = Rc::new(RefCell::new(VecDeque::new()));
            let (tx, rx) = unbounded::<Vec<u32>>();
            let tr = if h["tr"].is_null() { None } else { Some(u32s(&h["tr"])) };
            q.borrow_mut().extend(u32s(&h["q"]));
            let hook = Box::new(TopLevelFoldHook::<u32> {
                input: q.clone(),
                to_release: tr,
                output: tx,
                location: LOC,
                format_item_debug: fmt_u32,
            });
            Built { hook, obs: Obs::V(q, rx) }
        }
        "top_merge" => {
            let q1: Q = Rc::new(RefCell::new(VecDeque::new()));
            let q2: Q = Rc::new(RefCell::new(VecDeque::new()));
            let (tx, rx) = unbounded::<u32>();
            q1.borrow_mut().extend(u32s(&h["q"]));
            q2.borrow_mut().extend(u32s(&h["q2"]));
            let hook = Box::new(TopLevelMergeOrderedHook::<u32> {
                first: q1.clone(),
                second: q2.clone(),
                to_release: None,
                release_source: None,
                output: tx,
                location: LOC,
                format_item_debug: fmt_u32,
            });
            Built { hook, obs: Obs::Q2(q1, q2, rx) }
        }
        "top_kmerge" => {
            let m1: M = Rc::new(RefCell::new(FxHashMap::default()));
            let m2: M = Rc::new(RefCell::new(FxHashMap::default()));
            let (tx, rx) = unbounded::<(u32, u32)>();
            fill_map(&m1, &keyed(&h["m"]));
            fill_map(&m2, &keyed(&h["m2"]));
            let hook = Box::new(TopLevelKeyedMergeOrderedHook::<u32, u32> {
                first: m1.clone(),
                second: m2.clone(),
                to_release: None,
                release_source: None,
                output: tx,
                location: LOC,
                format_item_debug: fmt_kv,
            });
            Built { hook, obs: Obs::M2(m1, m2, rx) }
        }
        "top_keyed_order" | "top_partial" => {
            let m: M = Rc::new(RefCell::new(FxHashMap::default()));
            let (tx, rx) = unbounded::<(u32, u32)>();
            fill_map(&m, &keyed(&h["m"]));
            let hook: Box<dyn SimHook> = if kind == "top_partial" {
                Box::new(TopLevelPartiallyOrderedStreamHook::<u32, u32> {
                    input: m.clone(),
                    to_release: None,
                    output: tx,
                    location: LOC,
                    format_item_debug: fmt_kv,
                })
            } else {
                Box::new(TopLevelKeyedStreamOrderHook::<u32, u32> {
                    input: m.clone(),
                    to_release: None,
                    output: tx,
                    location: LOC,
                    format_item_debug: fmt_kv,
                })
            };
            Built { hook, obs: Obs::M(m, rx) }
        }
        "keyed_t" | "keyed_n" | "ksingle" => {
            let m: M = Rc::new(RefCell::new(FxHashMap::default()));
            let (tx, mut rx) = unbounded::<(u32, u32)>();
            let tr = if h["tr"].is_null() { None } else { Some(pairs(&h["tr"])) };
            let hook: Box<dyn SimHook> = match kind {
                "keyed_t" => Box::new(KeyedStreamHook::<u32, u32, TotalOrder> {
                    input: m.clone(),
                    to_release: tr,
                    output: tx,
                    batch_location: LOC,
                    format_item_debug: fmt_kv,
                    _order: std::marker::PhantomData,
                }),
                "keyed_n" => Box::new(KeyedStreamHook::<u32, u32, NoOrder> {
                    input: m.clone(),
                    to_release: tr,
                    output: tx,
                    batch_location: LOC,
                    format_item_debug: fmt_kv,
                    _order: std::marker::PhantomData,
                }),
                _ => {
                    let mut hk = KeyedSingletonHook::<u32, u32>::new(m.clone(), tx, LOC, fmt_u32, fmt_u32);
                    let last = pairs(&h["last"]);
                    if !last.is_empty() {
                        // prime `last_released`: one fresh one-element queue per key, each released
                        // (script per key: "no null release" = 0, index 0)
                        let entries: Vec<(u32, Vec<u32>)> = last.iter().map(|(k, v)| (*k, vec![*v])).collect();
                        fill_map(&m, &entries);
                        let mut d = Scripted::new(vec![0; 2 * last.len()]);
                        let mut b = Borrowed(&mut d);
                        hk.autonomous_decision(&mut b, false);
                        hk.release_decision(None);
                        drain(&mut rx);
                    }
                    Box::new(hk)
                }
            };
            fill_map(&m, &keyed(&h["m"]));
            Built { hook, obs: Obs::M(m, rx) }
        }
        other => panic!("unknown hook kind {other}"),
    }
}

/// the hook's pending input; keyed maps in *iteration order* (the order oracle of the model)
fn snapshot(obs: &Obs) -> Value {
    match obs {
        Obs::Q(q, _) | Obs::V(q, _) => json!([[0, q.borrow().iter().copied().collect::<Vec<u32>>()]]),
        Obs::Q2(a, b, _) => json!([
            [0, a.borrow().iter().copied().collect::<Vec<u32>>()],
            [1, b.borrow().iter().copied().collect::<Vec<u32>>()]
        ]),
        Obs::M(m, _) => {
            #[allow(clippy::disallowed_methods)]
            let v: Vec<Value> =
                m.borrow().iter().map(|(k, q)| json!([k, q.iter().copied().collect::<Vec<u32>>()])).collect();
            Value::Array(v)
        }
        Obs::M2(a, b, _) => {
            #[allow(clippy::disallowed_methods)]
            let mut v: Vec<Value> =
                a.borrow().iter().map(|(k, q)| json!([k, q.iter().copied().collect::<Vec<u32>>()])).collect();
            #[allow(clippy::disallowed_methods)]
            v.extend(b.borrow().iter().map(|(k, q)| json!([k, q.iter().copied().collect::<Vec<u32>>()])));
            Value::Array(v)
        }
    }
}

fn emitted(obs: &mut Obs) -> Value {
    match obs {
        Obs::Q(_, rx) | Obs::Q2(_, _, rx) => Value::Array(drain(rx).into_iter().map(|v| json!([0, v])).collect()),
        Obs::M(_, rx) | Obs::M2(_, _, rx) => Value::Array(drain(rx).into_iter().map(|(k, v)| json!([k, v])).collect()),
        // one Vec per release: flattened, with the batch index as "key"
        Obs::V(_, rx) => Value::Array(
            drain(rx).into_iter().enumerate().flat_map(|(i, b)| b.into_iter().map(move |v| json!([i, v]))).collect(),
        ),
    }
}

fn push(obs: &Obs, k: u32, v: u32) {
    match obs {
        Obs::Q(q, _) | Obs::V(q, _) => q.borrow_mut().push_back(v),
        Obs::Q2(a, b, _) => (if k == 0 { a } else { b }).borrow_mut().push_back(v),
        Obs::M(m, _) | Obs::M2(m, _, _) => m.borrow_mut().entry(k).or_default().push_back(v),
    }
}

fn cur(h: &dyn SimHook) -> Value {
    match h.current_decision() {
        None => Value::Null,
        Some(b) => json!(b),
    }
}

fn panic_code(msg: &str) -> u64 {
    if msg.contains("No decision to release") {
        1
    } else if msg.contains("Cannot make nontrivial decision") {
        2
    } else if msg.contains("No input and no last released") {
        3
    } else if msg.contains("Option::unwrap()") {
        4
    } else if msg.contains("subtract with overflow") {
        5
    } else {
        99
    }
}

fn panic_value(e: Box<dyn std::any::Any + Send>, bad: bool) -> Value {
    let msg = panic_message(e);
    if bad { json!({"bad": true}) } else { json!({"panic": panic_code(&msg), "msg": msg}) }
}

// ------------------------------------------------------------------ case kinds

/// one hook, rounds of (push; autonomous_decision(force); release_decision)
fn run_hook(case: &Value) -> Value {
    let mut b = build(&case["hook"]);
    let mut rounds = vec![];
    for r in case["rounds"].as_array().unwrap() {
        for p in r["push"].as_array().map(|a| a.as_slice()).unwrap_or(&[]) {
            push(&b.obs, p[0].as_u64().unwrap() as u32, p[1].as_u64().unwrap() as u32);
        }
        let force = r["force"].as_bool().unwrap_or(false);
        let before = snapshot(&b.obs);
        let (cur0, can0, ready0) = (cur(&*b.hook), b.hook.can_make_nontrivial_decision(), b.hook.is_ready());
        let mut d = Scripted::from_round(r);
        let st = d.0.clone();
        let ret = catch_unwind(AssertUnwindSafe(|| {
            let mut bd = Borrowed(&mut d);
            b.hook.autonomous_decision(&mut bd, force)
        }));
        let ret = match ret {
            Ok(v) => v,
            Err(e) => {
                let bad = st.borrow().bad;
                let mut v = panic_value(e, bad);
                v["before"] = before;
                v["at"] = json!("decide");
                v["ds_used"] = json!(st.borrow().used);
                rounds.push(v);
                break;
            }
        };
        let cur1 = cur(&*b.hook);
        let after_decision = snapshot(&b.obs);
        let rel = catch_unwind(AssertUnwindSafe(|| b.hook.release_decision(None)));
        if let Err(e) = rel {
            let mut v = panic_value(e, false);
            v["before"] = before;
            v["at"] = json!("release");
            v["ret"] = json!(ret);
            v["used"] = json!(st.borrow().pos);
            v["ds_used"] = json!(st.borrow().used);
            rounds.push(v);
            break;
        }
        let em = emitted(&mut b.obs);
        rounds.push(json!({
            "before": before, "cur0": cur0, "can0": can0, "ready0": ready0, "ret": ret, "cur1": cur1,
            "emitted": em, "after": after_decision, "used": st.borrow().pos, "ds_used": st.borrow().used,
            "cur2": cur(&*b.hook), "can2": b.hook.can_make_nontrivial_decision(), "ready2": b.hook.is_ready(),
        }));
    }
    json!({ "rounds": rounds })
}

/// inline (ObserveNonDet) hooks: one full batch in, one decision, one Vec out
fn run_inline(case: &Value) -> Value {
    let kind = case["kind"].as_str().unwrap();
    let (tx, mut rx) = unbounded::<Vec<u32>>();
    let (ktx, mut krx) = unbounded::<Vec<(u32, u32)>>();
    let mut group_order = Value::Null;
    let mut hook: Box<dyn SimInlineHook> = match kind {
        "shuffle" => {
            let input = Rc::new(RefCell::new(Some(u32s(&case["input"]))));
            Box::new(StreamOrderHook::<u32>::new(input, tx, LOC, fmt_u32))
        }
        "merge" => {
            let a = Rc::new(RefCell::new(Some(u32s(&case["first"]))));
            let b = Rc::new(RefCell::new(Some(u32s(&case["second"]))));
            Box::new(MergeOrderedHook::<u32>::new(a, b, tx, LOC, fmt_u32))
        }
        "kshuffle" => {
            let inp = pairs(&case["input"]);
            // the hook groups its batch into an FxHashMap and decides per key in that map's
            // iteration order: the same grouping built here has the same order (the oracle)
            let mut g: FxHashMap<u32, Vec<u32>> = FxHashMap::default();
            for (k, v) in &inp {
                g.entry(*k).or_insert_with(Vec::new).push(*v);
            }
            #[allow(clippy::disallowed_methods)]
            let order: Vec<u32> = g.keys().copied().collect();
            group_order = json!(order);
            let input = Rc::new(RefCell::new(Some(inp)));
            Box::new(KeyedStreamOrderHook::<u32, u32>::new(input, ktx, LOC, fmt_u32, fmt_u32))
        }
        "partial" => {
            let input = Rc::new(RefCell::new(Some(pairs(&case["input"]))));
            Box::new(PartiallyOrderedStreamHook::<u32, u32>::new(input, ktx, LOC, fmt_u32, fmt_u32))
        }
        "kmerge" => {
            let a = Rc::new(RefCell::new(Some(pairs(&case["first"]))));
            let b = Rc::new(RefCell::new(Some(pairs(&case["second"]))));
            Box::new(KeyedMergeOrderedHook::<u32, u32>::new(a, b, ktx, LOC, fmt_kv))
        }
        other => panic!("unknown inline hook kind {other}"),
    };
    let pending0 = hook.pending_decision();
    let has0 = hook.has_decision();
    let mut d = Scripted::from_round(case);
    let st = d.0.clone();
    let r = catch_unwind(AssertUnwindSafe(|| {
        let mut bd = Borrowed(&mut d);
        hook.autonomous_decision(&mut bd);
    }));
    if let Err(e) = r {
        let bad = st.borrow().bad;
        let mut v = panic_value(e, bad);
        v["ds_used"] = json!(st.borrow().used);
        v["group_order"] = group_order;
        return v;
    }
    let has1 = hook.has_decision();
    let pending1 = hook.pending_decision();
    let mut log = String::new();
    if let Err(e) = catch_unwind(AssertUnwindSafe(|| hook.release_decision(Some(&mut log)))) {
        return panic_value(e, false);
    }
    let out: Vec<Vec<u32>> = drain(&mut rx);
    let kout: Vec<Vec<(u32, u32)>> = drain(&mut krx);
    json!({
        "pending0": pending0, "has0": has0, "has1": has1, "pending1": pending1, "has2": hook.has_decision(),
        "out": out, "kout": kout, "group_order": group_order,
        "used": st.borrow().pos, "ds_used": st.borrow().used, "log": log,
    })
}

struct Tick {
    hooks: Vec<Box<dyn SimHook>>,
    obs: Vec<Obs>,
}

fn build_tick(hs: &Value) -> Tick {
    let mut hooks = vec![];
    let mut obs = vec![];
    for h in hs.as_array().unwrap() {
        let b = build(h);
        hooks.push(b.hook);
        obs.push(b.obs);
    }
    Tick { hooks, obs }
}

fn tick_push(t: &Tick, r: &Value) {
    for p in r["push"].as_array().map(|a| a.as_slice()).unwrap_or(&[]) {
        let i = p[0].as_u64().unwrap() as usize;
        push(&t.obs[i], p[1].as_u64().unwrap() as u32, p[2].as_u64().unwrap() as u32);
    }
}

/// a tick's hook list, rounds of (push; can_run; run_hooks) under the scripted driver
fn run_tick(case: &Value) -> Value {
    let mut t = build_tick(&case["hooks"]);
    let mut rounds = vec![];
    for r in case["rounds"].as_array().unwrap() {
        tick_push(&t, r);
        let before: Vec<Value> = t.obs.iter().map(snapshot).collect();
        let can_run = verif_can_run(&t.hooks);
        let info: Vec<Value> = t
            .hooks
            .iter()
            .map(|h| json!([cur(&**h), h.can_make_nontrivial_decision(), h.is_ready()]))
            .collect();
        let d = Scripted::from_round(r);
        let st = d.0.clone();
        let mut log = String::new();
        let res = catch_unwind(AssertUnwindSafe(|| {
            scope::with(Box::new(d), || verif_run_hooks_logged(&mut log, &mut t.hooks));
        }));
        let em: Vec<Value> = t.obs.iter_mut().map(emitted).collect();
        let after: Vec<Value> = t.obs.iter().map(snapshot).collect();
        let used = st.borrow().pos;
        let ds_used = st.borrow().used.clone();
        match res {
            Ok(()) => rounds.push(json!({
                "before": before, "can_run": can_run, "info": info, "emitted": em, "after": after,
                "used": used, "log": log, "ds_used": ds_used,
            })),
            Err(e) => {
                let bad = st.borrow().bad;
                let mut v = panic_value(e, bad);
                v["before"] = json!(before);
                v["can_run"] = json!(can_run);
                v["info"] = json!(info);
                v["emitted"] = json!(em);
                v["after"] = json!(after);
                v["used"] = json!(used);
                v["ds_used"] = json!(ds_used);
                rounds.push(v);
                break;
            }
        }
    }
    json!({ "rounds": rounds })
}

static OUTCOMES: Mutex<Vec<String>> = Mutex::new(Vec::new());

fn engine_location() -> bolero::TargetLocation {
    bolero::TargetLocation {
        package_name: "",
        manifest_dir: "",
        module_path: "",
        file: "",
        line: 0,
        item_path: "<unknown>::__bolero_item_path__",
        test_name: None,
    }
}

/// C37: let the *real* bolero exhaustive engine (the call sequence of `CompiledSim::exhaustive`)
/// enumerate the decisions of one hook (`force`) or of a hook list under `run_hooks`; report the
/// multiset of outcomes.
fn run_exhaustive(case: &Value) -> Value {
    OUTCOMES.lock().unwrap().clear();
    let text = case.to_string();
    // the pending input as the hooks see it (keyed maps in iteration order)
    let before = if case["hooks"].is_array() {
        Value::Array(build_tick(&case["hooks"]).obs.iter().map(snapshot).collect())
    } else {
        snapshot(&build(&case["hook"]).obs)
    };
    bolero::test(engine_location()).exhaustive().run_with_replay(move |_is_replay| {
        let case: Value = serde_json::from_str(&text).unwrap();
        let out = catch_unwind(AssertUnwindSafe(|| {
            if case["hooks"].is_array() {
                let mut t = build_tick(&case["hooks"]);
                let mut log = String::new();
                let r = catch_unwind(AssertUnwindSafe(|| verif_run_hooks_logged(&mut log, &mut t.hooks)));
                let em: Vec<Value> = t.obs.iter_mut().map(emitted).collect();
                let after: Vec<Value> = t.obs.iter().map(snapshot).collect();
                match r {
                    Ok(()) => json!({"emitted": em, "after": after}),
                    Err(e) => json!({"panic": panic_code(&panic_message(e)), "emitted": em, "after": after}),
                }
            } else {
                let mut b = build(&case["hook"]);
                let force = case["force"].as_bool().unwrap_or(false);
                let r = catch_unwind(AssertUnwindSafe(|| {
                    scope::borrow_with(|d| b.hook.autonomous_decision(d, force))
                }));
                match r {
                    Ok(ret) => {
                        let after = snapshot(&b.obs);
                        match catch_unwind(AssertUnwindSafe(|| b.hook.release_decision(None))) {
                            Ok(()) => json!({"ret": ret, "emitted": emitted(&mut b.obs), "after": after}),
                            Err(e) => json!({"panic": panic_code(&panic_message(e)), "ret": ret, "after": after}),
                        }
                    }
                    Err(e) => json!({"panic": panic_code(&panic_message(e))}),
                }
            }
        }));
        let s = match out {
            Ok(v) => v.to_string(),
            Err(e) => json!({"harness_panic": panic_message(e)}).to_string(),
        };
        OUTCOMES.lock().unwrap().push(s);
    });
    let all = OUTCOMES.lock().unwrap().clone();
    let distinct: BTreeSet<String> = all.iter().cloned().collect();
    let outcomes: Vec<Value> = distinct.iter().map(|s| serde_json::from_str(s).unwrap()).collect();
    json!({ "before": before, "executions": all.len(), "distinct": distinct.len(), "outcomes": outcomes })
}

/// C38: the real byte-slice driver (as in `CompiledSim::fuzz_repro`) replays `bytes` on a hook
/// list over several rounds; the full observable log is returned. Run `reps` times in-process.
/// forwards every request to bolero's real byte-slice driver and records the values it
/// returned, so that the model can be replayed on exactly the decisions the real driver made
struct Recording {
    inner: Object<bolero::bolero_engine::driver::bytes::Driver<Vec<u8>>>,
    st: Rc<RefCell<St>>,
}

impl Recording {
    fn note(&self, v: Option<u64>) {
        let mut st = self.st.borrow_mut();
        match v {
            Some(v) => {
                st.pos += 1;
                st.used.push(v);
            }
            None => st.bad = true,
        }
    }
}

macro_rules! fwd_int {
    ($name:ident, $ty:ty) => {
        fn $name(&mut self, min: Bound<&$ty>, max: Bound<&$ty>) -> Option<$ty> {
            let r = self.inner.$name(min, max);
            self.note(r.map(|v| v as u64));
            r
        }
    };
}

impl DynDriver for Recording {
    fn depth(&self) -> usize {
        DynDriver::depth(&self.inner)
    }
    fn set_depth(&mut self, depth: usize) {
        DynDriver::set_depth(&mut self.inner, depth)
    }
    fn max_depth(&self) -> usize {
        DynDriver::max_depth(&self.inner)
    }
    fn gen_variant(&mut self, variants: usize, base_case: usize) -> Option<usize> {
        let r = DynDriver::gen_variant(&mut self.inner, variants, base_case);
        self.note(r.map(|v| v as u64));
        r
    }
    fwd_int!(gen_u8, u8);
    fwd_int!(gen_i8, i8);
    fwd_int!(gen_u16, u16);
    fwd_int!(gen_i16, i16);
    fwd_int!(gen_u32, u32);
    fwd_int!(gen_i32, i32);
    fwd_int!(gen_u64, u64);
    fwd_int!(gen_i64, i64);
    fwd_int!(gen_u128, u128);
    fwd_int!(gen_i128, i128);
    fwd_int!(gen_usize, usize);
    fwd_int!(gen_isize, isize);
    fn gen_f32(&mut self, a: Bound<&f32>, b: Bound<&f32>) -> Option<f32> {
        DynDriver::gen_f32(&mut self.inner, a, b)
    }
    fn gen_f64(&mut self, a: Bound<&f64>, b: Bound<&f64>) -> Option<f64> {
        DynDriver::gen_f64(&mut self.inner, a, b)
    }
    fn gen_char(&mut self, a: Bound<&char>, b: Bound<&char>) -> Option<char> {
        DynDriver::gen_char(&mut self.inner, a, b)
    }
    fn gen_bool(&mut self, probability: Option<f32>) -> Option<bool> {
        let r = DynDriver::gen_bool(&mut self.inner, probability);
        self.note(r.map(|v| v as u64));
        r
    }
    fn gen_from_bytes(
        &mut self,
        hint: &mut dyn FnMut() -> (usize, Option<usize>),
        produce: &mut dyn FnMut(&[u8]) -> Option<usize>,
    ) -> Option<()> {
        DynDriver::gen_from_bytes(&mut self.inner, hint, produce)
    }
}

fn run_bytes_once(case: &Value) -> Value {
    use bolero::bolero_engine::driver::bytes::Driver as BytesDriver;
    let bytes: Vec<u8> = u64s(&case["bytes"]).into_iter().map(|b| b as u8).collect();
    let mut t = build_tick(&case["hooks"]);
    let rounds_in = case["rounds"].as_array().unwrap().clone();
    let mut rounds = vec![];
    let st = Rc::new(RefCell::new(St::default()));
    let drv = Box::new(Recording { inner: Object(BytesDriver::new(bytes, &Default::default())), st: st.clone() });
    let res = catch_unwind(AssertUnwindSafe(|| {
        scope::with(drv, || {
            for r in &rounds_in {
                tick_push(&t, r);
                let before: Vec<Value> = t.obs.iter().map(snapshot).collect();
                let can_run = verif_can_run(&t.hooks);
                let info: Vec<Value> = t
                    .hooks
                    .iter()
                    .map(|h| json!([cur(&**h), h.can_make_nontrivial_decision(), h.is_ready()]))
                    .collect();
                let start = st.borrow().used.len();
                st.borrow_mut().bad = false;
                let mut log = String::new();
                let r = catch_unwind(AssertUnwindSafe(|| verif_run_hooks_logged(&mut log, &mut t.hooks)));
                let em: Vec<Value> = t.obs.iter_mut().map(emitted).collect();
                let after: Vec<Value> = t.obs.iter().map(snapshot).collect();
                let ds_used: Vec<u64> = st.borrow().used[start..].to_vec();
                match r {
                    Ok(()) => rounds.push(json!({
                        "before": before, "can_run": can_run, "info": info, "emitted": em, "after": after,
                        "used": ds_used.len(), "ds_used": ds_used, "log": log,
                    })),
                    Err(e) => {
                        let bad = st.borrow().bad;
                        let mut v = panic_value(e, bad);
                        v["before"] = json!(before);
                        v["can_run"] = json!(can_run);
                        v["info"] = json!(info);
                        v["emitted"] = json!(em);
                        v["after"] = json!(after);
                        v["used"] = json!(ds_used.len());
                        v["ds_used"] = json!(ds_used);
                        v["log"] = json!(log);
                        rounds.push(v);
                        break;
                    }
                }
            }
        });
    }));
    if let Err(e) = res {
        rounds.push(json!({"outer_panic": panic_message(e)}));
    }
    json!({ "rounds": rounds })
}

fn run_bytes(case: &Value) -> Value {
    let reps = case["reps"].as_u64().unwrap_or(2);
    let runs: Vec<Value> = (0..reps).map(|_| run_bytes_once(case)).collect();
    json!({ "runs": runs })
}

fn run(case: &Value) -> Value {
    // C38: `reps` > 0 runs the instance that many times in this process
    if let Some(reps) = case["reps"].as_u64() {
        if case["k"] != "bytes" {
            let mut inner = case.clone();
            inner.as_object_mut().unwrap().remove("reps");
            let runs: Vec<Value> = (0..reps).map(|_| run(&inner)).collect();
            return json!({ "runs": runs });
        }
    }
    match case["k"].as_str().unwrap_or("") {
        "hook" => run_hook(case),
        "tick" => run_tick(case),
        "exh" => run_exhaustive(case),
        "inline" => run_inline(case),
        "bytes" => run_bytes(case),
        other => json!({ "bad_case": format!("unknown kind {other}") }),
    }
}

fn main() {
    colored_off();
    quiet_stderr();
    hvcommon::main_loop(run)
}

/// bolero's test engine reports each exhaustive run on stderr; the check pipeline merges stderr
/// into the JSON-lines result stream, so stderr is discarded (set HV_KEEP_STDERR to keep it)
fn quiet_stderr() {
    if std::env::var_os("HV_KEEP_STDERR").is_some() {
        return;
    }
    unsafe {
        let fd = libc::open(c"/dev/null".as_ptr(), libc::O_WRONLY);
        if fd >= 0 {
            libc::dup2(fd, 2);
            libc::close(fd);
        }
    }
}

fn colored_off() {
    // the decision log uses the `colored` crate; NO_COLOR keeps the text free of escape codes
    unsafe { std::env::set_var("NO_COLOR", "1") };
}
