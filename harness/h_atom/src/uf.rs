//! C06 for the union-find lattice: `Atomize::atomize` of `UnionFind<HashMap>` / `<BTreeMap>`
//! built from a parent map, the atoms merged back into Default and into an accumulator.
//! Partitions are observed through `same`: for each item 0..u the least item in its class.
use std::cell::Cell;
use std::collections::{BTreeMap, HashMap};

use hvcommon::{Value, json};
use lattices::cc_traits::{MapIter, MapMut};
use lattices::collections::SingletonMap;
use lattices::union_find::{UnionFind, UnionFindSingletonMap};
use lattices::{Atomize, IsBot, Merge};

type K = u16;

trait UfMap:
    'static
    + MapMut<K, Cell<K>, Key = K, Item = Cell<K>>
    + MapIter
    + Default
    + Clone
    + IntoIterator<Item = (K, Cell<K>)>
    + FromIterator<(K, Cell<K>)>
{
}
impl UfMap for HashMap<K, Cell<K>> {}
impl UfMap for BTreeMap<K, Cell<K>> {}

fn build<M: UfMap>(v: &Value) -> UnionFind<M> {
    UnionFind::new(
        v.as_array()
            .unwrap()
            .iter()
            .map(|kv| (kv[0].as_u64().unwrap() as K, Cell::new(kv[1].as_u64().unwrap() as K)))
            .collect::<M>(),
    )
}

fn classes<M: UfMap>(uf: &UnionFind<M>, u: K) -> Vec<K> {
    (0..u)
        .map(|x| (0..u).find(|y| uf.same(x, *y).into_reveal()).unwrap_or(x))
        .collect()
}

fn run_rep<M: UfMap>(case: &Value) -> Value {
    let u = case["u"].as_u64().unwrap() as K;
    let a: UnionFind<M> = build(&case["a"]);
    let acc: UnionFind<M> = build(&case["acc"]);
    let mut reformed = UnionFind::<M>::default();
    let mut acc_atoms = UnionFind::<M>::new(acc.as_reveal_ref().clone());
    let mut atoms = vec![];
    let mut atom_bot = vec![];
    let mut changed = vec![];
    let a_copy = UnionFind::<M>::new(a.as_reveal_ref().clone());
    for atom in a_copy.atomize() {
        let atom: UnionFindSingletonMap<K> = atom;
        let (k, p) = {
            let SingletonMap(k, p) = atom.as_reveal_ref();
            (*k, p.get())
        };
        atoms.push(json!([k, p]));
        atom_bot.push(atom.is_bot());
        let again = UnionFindSingletonMap::<K>::new(SingletonMap(k, Cell::new(p)));
        changed.push(reformed.merge(atom));
        acc_atoms.merge(again);
    }
    let mut acc_a = UnionFind::<M>::new(acc.as_reveal_ref().clone());
    acc_a.merge(UnionFind::<M>::new(a.as_reveal_ref().clone()));
    let bot = a.is_bot();
    // classes first: == compresses paths but never changes the partition
    let c_ref = classes(&reformed, u);
    let c_orig = classes(&a, u);
    let c_acc_atoms = classes(&acc_atoms, u);
    let c_acc_a = classes(&acc_a, u);
    json!({
        "atoms": atoms, "atom_bot": atom_bot, "bot": bot, "changed": changed,
        "reformed": c_ref, "orig": c_orig, "eq": a == reformed,
        "acc_atoms": c_acc_atoms, "acc_a": c_acc_a, "acc_eq": acc_atoms == acc_a,
    })
}

pub fn run(case: &Value) -> Value {
    match case["rep"].as_str().unwrap_or("") {
        "hash" => run_rep::<HashMap<K, Cell<K>>>(case),
        "btree" => run_rep::<BTreeMap<K, Cell<K>>>(case),
        r => json!({ "unknown_rep": r }),
    }
}
