//! Correspondence harness for C06 (atomization, lattice engine E1): runs `Atomize::atomize` of the
//! real `lattices` crate on JSON cases and prints the observation `aobs` of Lattice/Atom.v.
//!
//! Case kinds:
//!   {"k":"atom","ty":NAME,"a":V,"acc":V} -> atoms (in iteration order, each in the carrier's
//!        JSON form), their is_bot, a.is_bot(), Default, the atoms merged into Default (with each
//!        merge's changed flag), a == reformed, the atoms merged into acc, a merged into acc, ==
//!   {"k":"uf","rep":"hash"|"btree","u":U,"a":[[k,p]..],"acc":[[k,p]..]} -> see uf.rs
//!   {"k":"types"}                        -> the registered type names
//! Values (as h_lattices): unit = null; Set = sorted array; Map = sorted array of [k,v];
//! WithBot/WithTop = null | [v].  The Canon machinery is copied from harness/h_lattices.
use std::collections::{BTreeMap, BTreeSet, HashMap, HashSet};

mod uf;

use hvcommon::{Value, guarded, json};
use lattices::collections::{ArrayMap, ArraySet, OptionMap, OptionSet, SingletonMap, SingletonSet, VecMap};
use lattices::map_union::MapUnion;
use lattices::set_union::SetUnion;
use lattices::{Atomize, IsBot, Merge, WithBot, WithTop};

type K = u16;

pub trait Canon: Sized {
    fn name() -> String;
    fn to_json(&self) -> Value;
    fn from_json(v: &Value) -> Self;
}

fn num(v: &Value) -> u64 {
    v.as_u64().expect("number")
}

impl Canon for () {
    fn name() -> String {
        "Unit".into()
    }
    fn to_json(&self) -> Value {
        Value::Null
    }
    fn from_json(_: &Value) -> Self {}
}

// ---- set representations
pub trait SetRepr: Sized {
    fn rname() -> String;
    fn items(&self) -> Vec<K>;
    fn build(items: Vec<K>) -> Self;
}
impl SetRepr for HashSet<K> {
    fn rname() -> String {
        "Hash".into()
    }
    fn items(&self) -> Vec<K> {
        self.iter().copied().collect()
    }
    fn build(items: Vec<K>) -> Self {
        items.into_iter().collect()
    }
}
impl SetRepr for BTreeSet<K> {
    fn rname() -> String {
        "BTree".into()
    }
    fn items(&self) -> Vec<K> {
        self.iter().copied().collect()
    }
    fn build(items: Vec<K>) -> Self {
        items.into_iter().collect()
    }
}
impl SetRepr for SingletonSet<K> {
    fn rname() -> String {
        "Singleton".into()
    }
    fn items(&self) -> Vec<K> {
        vec![self.0]
    }
    fn build(items: Vec<K>) -> Self {
        assert_eq!(items.len(), 1);
        SingletonSet(items[0])
    }
}
impl SetRepr for OptionSet<K> {
    fn rname() -> String {
        "Option".into()
    }
    fn items(&self) -> Vec<K> {
        self.0.iter().copied().collect()
    }
    fn build(items: Vec<K>) -> Self {
        assert!(items.len() <= 1);
        OptionSet(items.first().copied())
    }
}
impl<const N: usize> SetRepr for ArraySet<K, N> {
    fn rname() -> String {
        format!("Array{}", N)
    }
    fn items(&self) -> Vec<K> {
        self.0.to_vec()
    }
    fn build(items: Vec<K>) -> Self {
        ArraySet(items.try_into().expect("array length"))
    }
}
impl<S: SetRepr> Canon for SetUnion<S> {
    fn name() -> String {
        format!("(Set {})", S::rname())
    }
    fn to_json(&self) -> Value {
        let mut v = self.as_reveal_ref().items();
        v.sort();
        json!(v)
    }
    fn from_json(v: &Value) -> Self {
        SetUnion::new(S::build(v.as_array().unwrap().iter().map(|x| num(x) as K).collect()))
    }
}

// ---- map representations
pub trait MapRepr<V>: Sized {
    fn rname() -> String;
    fn entries(&self) -> Vec<(K, &V)>;
    fn build(items: Vec<(K, V)>) -> Self;
}
impl<V> MapRepr<V> for HashMap<K, V> {
    fn rname() -> String {
        "Hash".into()
    }
    fn entries(&self) -> Vec<(K, &V)> {
        self.iter().map(|(k, v)| (*k, v)).collect()
    }
    fn build(items: Vec<(K, V)>) -> Self {
        items.into_iter().collect()
    }
}
impl<V> MapRepr<V> for BTreeMap<K, V> {
    fn rname() -> String {
        "BTree".into()
    }
    fn entries(&self) -> Vec<(K, &V)> {
        self.iter().map(|(k, v)| (*k, v)).collect()
    }
    fn build(items: Vec<(K, V)>) -> Self {
        items.into_iter().collect()
    }
}
impl<V> MapRepr<V> for VecMap<K, V> {
    fn rname() -> String {
        "Vec".into()
    }
    fn entries(&self) -> Vec<(K, &V)> {
        self.keys.iter().copied().zip(self.vals.iter()).collect()
    }
    fn build(items: Vec<(K, V)>) -> Self {
        let (k, v) = items.into_iter().unzip();
        VecMap::new(k, v)
    }
}
impl<V> MapRepr<V> for SingletonMap<K, V> {
    fn rname() -> String {
        "Singleton".into()
    }
    fn entries(&self) -> Vec<(K, &V)> {
        vec![(self.0, &self.1)]
    }
    fn build(items: Vec<(K, V)>) -> Self {
        assert_eq!(items.len(), 1);
        let (k, v) = items.into_iter().next().unwrap();
        SingletonMap(k, v)
    }
}
impl<V> MapRepr<V> for OptionMap<K, V> {
    fn rname() -> String {
        "Option".into()
    }
    fn entries(&self) -> Vec<(K, &V)> {
        self.0.iter().map(|(k, v)| (*k, v)).collect()
    }
    fn build(items: Vec<(K, V)>) -> Self {
        assert!(items.len() <= 1);
        OptionMap(items.into_iter().next())
    }
}
impl<V, const N: usize> MapRepr<V> for ArrayMap<K, V, N> {
    fn rname() -> String {
        format!("Array{}", N)
    }
    fn entries(&self) -> Vec<(K, &V)> {
        self.keys.iter().copied().zip(self.vals.iter()).collect()
    }
    fn build(items: Vec<(K, V)>) -> Self {
        let (k, v): (Vec<K>, Vec<V>) = items.into_iter().unzip();
        ArrayMap { keys: k.try_into().ok().expect("array length"), vals: v.try_into().ok().expect("array length") }
    }
}
pub struct MapOf<M, V>(std::marker::PhantomData<(M, V)>);
impl<M: MapRepr<V>, V: Canon> Canon for MapUnion<M>
where
    M: MapValue<Val = V>,
{
    fn name() -> String {
        format!("(Map {} {})", M::rname(), V::name())
    }
    fn to_json(&self) -> Value {
        let mut e = self.as_reveal_ref().entries();
        e.sort_by_key(|(k, _)| *k);
        Value::Array(e.into_iter().map(|(k, v)| json!([k, v.to_json()])).collect())
    }
    fn from_json(v: &Value) -> Self {
        MapUnion::new(M::build(
            v.as_array()
                .unwrap()
                .iter()
                .map(|kv| (num(&kv[0]) as K, V::from_json(&kv[1])))
                .collect(),
        ))
    }
}
/// ties a map representation to its value type (so `MapUnion<M>: Canon` is unambiguous)
pub trait MapValue {
    type Val;
}
impl<V> MapValue for HashMap<K, V> {
    type Val = V;
}
impl<V> MapValue for BTreeMap<K, V> {
    type Val = V;
}
impl<V> MapValue for VecMap<K, V> {
    type Val = V;
}
impl<V> MapValue for SingletonMap<K, V> {
    type Val = V;
}
impl<V> MapValue for OptionMap<K, V> {
    type Val = V;
}
impl<V, const N: usize> MapValue for ArrayMap<K, V, N> {
    type Val = V;
}

fn opt_to_json<T: Canon>(o: Option<&T>) -> Value {
    match o {
        None => Value::Null,
        Some(x) => json!([x.to_json()]),
    }
}
fn opt_from_json<T: Canon>(v: &Value) -> Option<T> {
    if v.is_null() { None } else { Some(T::from_json(&v[0])) }
}
impl<T: Canon> Canon for WithBot<T> {
    fn name() -> String {
        format!("(Bot {})", T::name())
    }
    fn to_json(&self) -> Value {
        opt_to_json(self.as_reveal_ref())
    }
    fn from_json(v: &Value) -> Self {
        WithBot::new(opt_from_json(v))
    }
}
impl<T: Canon> Canon for WithTop<T> {
    fn name() -> String {
        format!("(Top {})", T::name())
    }
    fn to_json(&self) -> Value {
        opt_to_json(self.as_reveal_ref())
    }
    fn from_json(v: &Value) -> Self {
        WithTop::new(opt_from_json(v))
    }
}
// ---------------------------------------------------------------------------------------
/// `check_atomize_each` of lattices/src/test.rs, with every intermediate result recorded
/// instead of asserted, plus the same re-merge into an arbitrary accumulator.
fn atom_case<T>(case: &Value) -> Value
where
    T: Canon + Clone + Atomize + Merge<T> + IsBot + Default + PartialEq,
    T::Atom: Canon + IsBot,
{
    let a = T::from_json(&case["a"]);
    let acc = T::from_json(&case["acc"]);
    let dflt = T::default();
    let mut reformed = T::default();
    let mut acc_atoms = acc.clone();
    let mut atoms = vec![];
    let mut atom_bot = vec![];
    let mut changed = vec![];
    for atom in a.clone().atomize() {
        atoms.push(atom.to_json());
        atom_bot.push(atom.is_bot());
        // Atom is not Clone in general: rebuild it from its canonical form for the second merge
        let again = <T::Atom as Canon>::from_json(atoms.last().unwrap());
        changed.push(reformed.merge(atom));
        acc_atoms.merge(again);
    }
    let mut acc_a = acc.clone();
    acc_a.merge(a.clone());
    json!({
        "atoms": atoms, "atom_bot": atom_bot, "bot": a.is_bot(), "dflt": dflt.to_json(),
        "reformed": reformed.to_json(), "changed": changed, "eq": a == reformed,
        "acc_atoms": acc_atoms.to_json(), "acc_a": acc_a.to_json(), "acc_eq": acc_atoms == acc_a,
    })
}

type Runner = fn(&Value) -> Value;
struct Registry {
    names: Vec<String>,
    atom: HashMap<String, Runner>,
}
impl Registry {
    fn add<T>(&mut self, rust: &str)
    where
        T: Canon + Clone + Atomize + Merge<T> + IsBot + Default + PartialEq,
        T::Atom: Canon + IsBot,
    {
        let n = format!("{}@{}", T::name(), rust);
        self.names.push(n.clone());
        self.atom.insert(n, atom_case::<T>);
    }
}
macro_rules! reg {
    ($r:expr; $($t:ty),* $(,)?) => { $( $r.add::<$t>(stringify!($t)); )* };
}

type SH = SetUnion<HashSet<K>>;
type SB = SetUnion<BTreeSet<K>>;
type MH<V> = MapUnion<HashMap<K, V>>;
type MB<V> = MapUnion<BTreeMap<K, V>>;

fn registry() -> Registry {
    let mut r = Registry { names: vec![], atom: HashMap::new() };
    reg!(r;
        (), SH, SB,
        MH<SH>, MB<SB>, MB<SH>, MH<()>,
        MH<MH<SH>>, MH<MB<SH>>, MB<MH<MB<SB>>>,
        WithBot<SH>, WithBot<MH<SH>>, WithBot<WithBot<SB>>, WithBot<()>,
        WithTop<SH>, WithTop<MH<SB>>, WithTop<WithTop<SH>>, WithTop<()>,
        WithTop<WithBot<SH>>, WithBot<WithTop<SH>>,
        MH<WithBot<SH>>, MH<WithTop<SH>>, MB<WithTop<WithBot<MH<SH>>>>,
        WithBot<MH<WithTop<SB>>>,
    );
    r
}

fn run(case: &Value) -> Value {
    thread_local! { static REG: Registry = registry(); }
    REG.with(|r| match case["k"].as_str().unwrap_or("") {
        "types" => json!(r.names),
        "uf" => guarded(|| uf::run(case)),
        "atom" => {
            let ty = case["ty"].as_str().unwrap();
            match r.atom.get(ty) {
                Some(f) => guarded(|| f(case)),
                None => json!({ "unknown_type": ty }),
            }
        }
        k => json!({ "unknown_kind": k }),
    })
}

fn main() {
    hvcommon::main_loop(run);
}
