//! Corpus of small Hydro flows for the E8 correspondence harness (properties C28-C30, C32, C33).
//! Every flow takes embedded inputs (u32 items / (u32,u32) pairs) and writes one embedded
//! output `out`.  The closures are mirrored one by one in /verif/tools/hydro.py (Gallina side).
//!
//! Observation plumbing (not part of the program under test): unordered streams are cast with
//! `assume_ordering` (identity in production) because `embedded_output` wants TotalOrder;
//! singletons / optionals / keyed singletons are observed through
//! `snapshot(&tick, ..).all_ticks()` (Batch and YieldConcat are identities in production), so
//! that the driver sees the value held after every tick.
#[cfg(stageleft_runtime)]
hydro_lang::setup!();

use hydro_lang::live_collections::stream::{NoOrder, TotalOrder};
use hydro_lang::location::Location;
use hydro_lang::prelude::*;

pub type P<'a> = Process<'a, ()>;
pub type S<'a, T> = Stream<T, P<'a>>;
pub type KV = (u32, u32);

// ------------------------------------------------------------------ top level, streams

pub fn f_map<'a>(a: S<'a, u32>) {
    a.map(q!(|x| x * 2 + 1)).embedded_output("out");
}

pub fn f_filter<'a>(a: S<'a, u32>) {
    a.filter(q!(|x| *x % 3 == 0)).embedded_output("out");
}

pub fn f_flat_map<'a>(a: S<'a, u32>) {
    a.flat_map_ordered(q!(|x| vec![x; (x % 3) as usize]))
        .embedded_output("out");
}

pub fn f_filter_map<'a>(a: S<'a, u32>) {
    a.filter_map(q!(|x| if x % 2 == 0 { Some(x / 2) } else { None }))
        .embedded_output("out");
}

pub fn f_enumerate<'a>(a: S<'a, u32>) {
    a.enumerate().embedded_output("out");
}

pub fn f_unique<'a>(a: S<'a, u32>) {
    a.unique().embedded_output("out");
}

pub fn f_union<'a>(a: S<'a, u32>, b: S<'a, u32>) {
    a.merge_unordered(b)
        .assume_ordering::<TotalOrder>(nondet!(/** observation only */))
        .embedded_output("out");
}

pub fn f_join<'a>(a: S<'a, KV>, b: S<'a, KV>) {
    a.join(b)
        .assume_ordering::<TotalOrder>(nondet!(/** observation only */))
        .embedded_output("out");
}

pub fn f_cross<'a>(a: S<'a, u32>, b: S<'a, u32>) {
    a.cross_product(b)
        .assume_ordering::<TotalOrder>(nondet!(/** observation only */))
        .embedded_output("out");
}

pub fn f_anti_join<'a>(a: S<'a, KV>) {
    let neg = a.location().source_iter(q!(vec![1u32, 3u32]));
    a.anti_join(neg).embedded_output("out");
}

// ------------------------------------------------------------------ top level, aggregates

pub fn f_fold<'a>(a: S<'a, u32>) {
    let tick = a.location().tick();
    a.fold(q!(|| 0u32), q!(|acc, x| *acc = (*acc * 2 + x) % 1009))
        .snapshot(&tick, nondet!(/** observation only */))
        .all_ticks()
        .embedded_output("out");
}

pub fn f_fold_comm<'a>(a: S<'a, u32>) {
    let tick = a.location().tick();
    a.weaken_ordering::<NoOrder>()
        .fold(
            q!(|| 0u32),
            q!(
                |acc, x| *acc += x,
                commutative = manual_proof!(/** addition */)
            ),
        )
        .snapshot(&tick, nondet!(/** observation only */))
        .all_ticks()
        .embedded_output("out");
}

pub fn f_count<'a>(a: S<'a, u32>) {
    let tick = a.location().tick();
    a.count()
        .snapshot(&tick, nondet!(/** observation only */))
        .all_ticks()
        .embedded_output("out");
}

pub fn f_max<'a>(a: S<'a, u32>) {
    let tick = a.location().tick();
    a.max()
        .snapshot(&tick, nondet!(/** observation only */))
        .all_ticks()
        .embedded_output("out");
}

pub fn f_min<'a>(a: S<'a, u32>) {
    let tick = a.location().tick();
    a.min()
        .snapshot(&tick, nondet!(/** observation only */))
        .all_ticks()
        .embedded_output("out");
}

pub fn f_last<'a>(a: S<'a, u32>) {
    let tick = a.location().tick();
    a.last()
        .snapshot(&tick, nondet!(/** observation only */))
        .all_ticks()
        .embedded_output("out");
}

pub fn f_reduce<'a>(a: S<'a, u32>) {
    let tick = a.location().tick();
    a.reduce(q!(|acc, x| *acc = (*acc * 3 + x) % 1009))
        .snapshot(&tick, nondet!(/** observation only */))
        .all_ticks()
        .embedded_output("out");
}

pub fn f_fold_keyed<'a>(a: S<'a, KV>) {
    let tick = a.location().tick();
    a.into_keyed()
        .fold(q!(|| 1u32), q!(|acc, v| *acc = (*acc * 2 + v) % 1009))
        .snapshot(&tick, nondet!(/** observation only */))
        .entries()
        .all_ticks()
        .assume_ordering::<TotalOrder>(nondet!(/** observation only */))
        .embedded_output("out");
}

pub fn f_reduce_keyed<'a>(a: S<'a, KV>) {
    let tick = a.location().tick();
    a.into_keyed()
        .reduce(q!(|acc, v| *acc = (*acc * 3 + v) % 1009))
        .snapshot(&tick, nondet!(/** observation only */))
        .entries()
        .all_ticks()
        .assume_ordering::<TotalOrder>(nondet!(/** observation only */))
        .embedded_output("out");
}

// ------------------------------------------------------------------ top level, compositions

pub fn f_map_filter_unique<'a>(a: S<'a, u32>) {
    a.map(q!(|x| x % 4))
        .filter(q!(|x| *x != 2))
        .unique()
        .embedded_output("out");
}

pub fn f_flat_map_enumerate<'a>(a: S<'a, u32>) {
    a.flat_map_ordered(q!(|x| vec![x; (x % 3) as usize]))
        .enumerate()
        .map(q!(|(i, x)| (x, i as u32)))
        .embedded_output("out");
}

pub fn f_join_fold<'a>(a: S<'a, KV>, b: S<'a, KV>) {
    let tick = a.location().tick();
    a.join(b)
        .map(q!(|(k, (v, w))| k + v * w))
        .fold(
            q!(|| 0u32),
            q!(
                |acc, x| *acc += x,
                commutative = manual_proof!(/** addition */)
            ),
        )
        .snapshot(&tick, nondet!(/** observation only */))
        .all_ticks()
        .embedded_output("out");
}

pub fn f_union_unique_count<'a>(a: S<'a, u32>, b: S<'a, u32>) {
    let tick = a.location().tick();
    a.merge_unordered(b.map(q!(|x| x + 1)))
        .unique()
        .count()
        .snapshot(&tick, nondet!(/** observation only */))
        .all_ticks()
        .embedded_output("out");
}

pub fn f_cross_filter<'a>(a: S<'a, u32>, b: S<'a, u32>) {
    a.cross_product(b.unique())
        .filter(q!(|(x, y)| x < y))
        .assume_ordering::<TotalOrder>(nondet!(/** observation only */))
        .embedded_output("out");
}

pub fn f_unique_join<'a>(a: S<'a, KV>, b: S<'a, KV>) {
    a.unique()
        .join(b.filter(q!(|(_, v)| *v % 2 == 1)))
        .map(q!(|(k, (v, w))| (k, v + w)))
        .assume_ordering::<TotalOrder>(nondet!(/** observation only */))
        .embedded_output("out");
}

pub fn f_count_map<'a>(a: S<'a, u32>) {
    let tick = a.location().tick();
    a.filter(q!(|x| *x % 2 == 1))
        .count()
        .map(q!(|c| (c as u32) * 10))
        .snapshot(&tick, nondet!(/** observation only */))
        .all_ticks()
        .embedded_output("out");
}

pub fn f_anti_join_unique<'a>(a: S<'a, KV>) {
    let neg = a.location().source_iter(q!(vec![0u32, 2u32]));
    a.anti_join(neg)
        .map(q!(|(k, v)| k * 10 + v))
        .unique()
        .embedded_output("out");
}

pub fn f_keyed_max<'a>(a: S<'a, KV>) {
    let tick = a.location().tick();
    a.map(q!(|(k, v)| (k % 2, v)))
        .into_keyed()
        .reduce(q!(|acc, v| {
            if v > *acc {
                *acc = v;
            }
        }))
        .snapshot(&tick, nondet!(/** observation only */))
        .entries()
        .all_ticks()
        .assume_ordering::<TotalOrder>(nondet!(/** observation only */))
        .embedded_output("out");
}

// ------------------------------------------------------------------ tick-scoped (C30)
// `batch(&tick, nondet)` is the non-deterministic split the driver controls explicitly.

pub type TS<'a, T> = Stream<T, Tick<P<'a>>, Bounded>;

fn b1<'a, T>(a: S<'a, T>) -> (Tick<P<'a>>, TS<'a, T>) {
    let tick = a.location().tick();
    let ba = a.batch(&tick, nondet!(/** the driver chooses the batches */));
    (tick, ba)
}

fn b2<'a, T, U>(a: S<'a, T>, b: S<'a, U>) -> (TS<'a, T>, TS<'a, U>) {
    let tick = a.location().tick();
    let ba = a.batch(&tick, nondet!(/** the driver chooses the batches */));
    let bb = b.batch(&tick, nondet!(/** the driver chooses the batches */));
    (ba, bb)
}

pub fn t_fold<'a>(a: S<'a, u32>) {
    b1(a).1
        .fold(q!(|| 0u32), q!(|acc, x| *acc = (*acc * 2 + x) % 1009))
        .all_ticks()
        .embedded_output("out");
}

pub fn t_reduce<'a>(a: S<'a, u32>) {
    b1(a).1
        .reduce(q!(|acc, x| *acc = (*acc * 3 + x) % 1009))
        .all_ticks()
        .embedded_output("out");
}

pub fn t_count<'a>(a: S<'a, u32>) {
    b1(a).1.count().all_ticks().embedded_output("out");
}

pub fn t_max<'a>(a: S<'a, u32>) {
    b1(a).1.max().all_ticks().embedded_output("out");
}

pub fn t_min<'a>(a: S<'a, u32>) {
    b1(a).1.min().all_ticks().embedded_output("out");
}

pub fn t_first<'a>(a: S<'a, u32>) {
    b1(a).1.first().all_ticks().embedded_output("out");
}

pub fn t_last<'a>(a: S<'a, u32>) {
    b1(a).1.last().all_ticks().embedded_output("out");
}

pub fn t_limit<'a>(a: S<'a, u32>) {
    b1(a).1.limit(q!(2)).all_ticks().embedded_output("out");
}

pub fn t_sort<'a>(a: S<'a, KV>) {
    b1(a).1.sort().all_ticks().embedded_output("out");
}

pub fn t_enumerate<'a>(a: S<'a, u32>) {
    b1(a).1.enumerate().all_ticks().embedded_output("out");
}

pub fn t_unique<'a>(a: S<'a, u32>) {
    b1(a).1.unique().all_ticks().embedded_output("out");
}

pub fn t_chain<'a>(a: S<'a, u32>, b: S<'a, u32>) {
    let (ba, bb) = b2(a, b);
    ba.chain(bb.map(q!(|x| x + 100)))
        .all_ticks()
        .embedded_output("out");
}

pub fn t_join<'a>(a: S<'a, KV>, b: S<'a, KV>) {
    let (ba, bb) = b2(a, b);
    ba.join(bb)
        .all_ticks()
        .assume_ordering::<TotalOrder>(nondet!(/** observation only */))
        .embedded_output("out");
}

pub fn t_cross<'a>(a: S<'a, u32>, b: S<'a, u32>) {
    let (ba, bb) = b2(a, b);
    ba.cross_product(bb)
        .all_ticks()
        .assume_ordering::<TotalOrder>(nondet!(/** observation only */))
        .embedded_output("out");
}

pub fn t_anti_join<'a>(a: S<'a, KV>, b: S<'a, u32>) {
    let (ba, bb) = b2(a, b);
    ba.anti_join(bb).all_ticks().embedded_output("out");
}

pub fn t_cross_singleton<'a>(a: S<'a, u32>, b: S<'a, u32>) {
    let (ba, bb) = b2(a, b);
    ba.cross_singleton(bb.count())
        .map(q!(|(x, c)| (x, c as u32)))
        .all_ticks()
        .embedded_output("out");
}

pub fn t_fold_keyed<'a>(a: S<'a, KV>) {
    b1(a).1
        .into_keyed()
        .fold(q!(|| 1u32), q!(|acc, v| *acc = (*acc * 2 + v) % 1009))
        .entries()
        .all_ticks()
        .assume_ordering::<TotalOrder>(nondet!(/** observation only */))
        .embedded_output("out");
}

pub fn t_reduce_keyed<'a>(a: S<'a, KV>) {
    b1(a).1
        .into_keyed()
        .reduce(q!(|acc, v| *acc = (*acc * 3 + v) % 1009))
        .entries()
        .all_ticks()
        .assume_ordering::<TotalOrder>(nondet!(/** observation only */))
        .embedded_output("out");
}

pub fn t_defer<'a>(a: S<'a, u32>) {
    b1(a).1.defer_tick().all_ticks().embedded_output("out");
}

pub fn t_defer_chain<'a>(a: S<'a, u32>, b: S<'a, u32>) {
    let (ba, bb) = b2(a, b);
    ba.map(q!(|x| x * 2))
        .chain(bb.defer_tick().defer_tick())
        .all_ticks()
        .embedded_output("out");
}

pub fn t_defer_count<'a>(a: S<'a, u32>) {
    b1(a).1
        .filter(q!(|x| *x != 0))
        .defer_tick()
        .count()
        .all_ticks()
        .embedded_output("out");
}

pub fn t_sort_enumerate_fold<'a>(a: S<'a, u32>) {
    b1(a).1
        .unique()
        .sort()
        .enumerate()
        .map(q!(|(i, x)| (i as u32 + 1) * x))
        .fold(q!(|| 0u32), q!(|acc, x| *acc += x))
        .all_ticks()
        .embedded_output("out");
}

/// a tick cycle: the running (deduplicated, sorted) set of everything seen so far, carried from
/// one tick to the next through `complete_next_tick`
pub fn t_cycle<'a>(a: S<'a, u32>) {
    let (tick, ba) = b1(a);
    let (carry_complete, carry) = tick.cycle::<TS<'a, u32>, _>();
    let all = carry.chain(ba).unique().sort();
    carry_complete.complete_next_tick(all.clone());
    all.all_ticks().embedded_output("out");
}

/// Former C29 finding witness (fixed in /repo by 62bf4bf2be4): the right (build) side is Bounded
/// but NoOrder.  `Stream::join` used to type the result with the LEFT ordering, so this flow
/// compiled with `embedded_output` (TotalOrder) and no `assume_ordering`.  Since the fix the result
/// is NoOrder (the correspondence asserts this on the JoinHalf node's metadata in the builder's IR
/// dump), and a TotalOrder view needs an explicit non-determinism guard.
pub fn t_join_half_unord<'a>(a: S<'a, KV>, b: S<'a, KV>) {
    let (ba, bb) = b2(a, b);
    ba.join(bb.weaken_ordering::<NoOrder>())
        .all_ticks()
        .assume_ordering::<TotalOrder>(nondet!(/** observation only */))
        .embedded_output("out");
}

// ------------------------------------------------------------------ trusted assumptions (C32)
// The inputs are cast to the weakest type each operator accepts (NoOrder and/or AtLeastOnce), so
// the operator goes through its `assume_ordering_trusted` / `assume_retries_trusted` call site;
// the driver then presents every admissible order / duplication of the batch.

use hydro_lang::live_collections::stream::AtLeastOnce;

pub fn u_max<'a>(a: S<'a, u32>) {
    b1(a).1
        .weaken_ordering::<NoOrder>()
        .weaken_retries::<AtLeastOnce>()
        .max()
        .all_ticks()
        .embedded_output("out");
}

pub fn u_min<'a>(a: S<'a, u32>) {
    b1(a).1
        .weaken_ordering::<NoOrder>()
        .weaken_retries::<AtLeastOnce>()
        .min()
        .all_ticks()
        .embedded_output("out");
}

pub fn u_count<'a>(a: S<'a, u32>) {
    b1(a).1
        .weaken_ordering::<NoOrder>()
        .count()
        .all_ticks()
        .embedded_output("out");
}

pub fn u_first<'a>(a: S<'a, u32>) {
    b1(a).1
        .weaken_retries::<AtLeastOnce>()
        .first()
        .all_ticks()
        .embedded_output("out");
}

pub fn u_last<'a>(a: S<'a, u32>) {
    b1(a).1
        .weaken_retries::<AtLeastOnce>()
        .last()
        .all_ticks()
        .embedded_output("out");
}

pub fn u_is_empty<'a>(a: S<'a, u32>) {
    b1(a).1
        .weaken_ordering::<NoOrder>()
        .is_empty()
        .all_ticks()
        .embedded_output("out");
}

pub fn u_value_counts<'a>(a: S<'a, KV>) {
    b1(a).1
        .into_keyed()
        .weaken_ordering::<NoOrder>()
        .value_counts()
        .entries()
        .all_ticks()
        .assume_ordering::<TotalOrder>(nondet!(/** observation only */))
        .embedded_output("out");
}

pub fn u_get_max_key<'a>(a: S<'a, KV>) {
    b1(a).1
        .into_keyed()
        .reduce(q!(|acc, v| *acc = (*acc * 3 + v) % 1009))
        .get_max_key()
        .all_ticks()
        .embedded_output("out");
}

// ------------------------------------------------------------------ monotone / bounded-value (C33)

pub fn m_value_counts<'a>(a: S<'a, KV>) {
    let tick = a.location().tick();
    a.into_keyed()
        .value_counts()
        .snapshot(&tick, nondet!(/** observation only */))
        .entries()
        .all_ticks()
        .assume_ordering::<TotalOrder>(nondet!(/** observation only */))
        .embedded_output("out");
}

/// a BoundedValue keyed singleton has no `snapshot`: its entries are a safe top-level stream
/// (every entry appears once, because its value can never change)
pub fn m_keyed_first<'a>(a: S<'a, KV>) {
    a.into_keyed()
        .first()
        .entries()
        .assume_ordering::<TotalOrder>(nondet!(/** observation only */))
        .embedded_output("out");
}

/// KeyedSingleton::into_singleton (trusted ordering site): the HashMap is returned as a sorted Vec
pub fn u_into_singleton<'a>(a: S<'a, KV>) {
    b1(a).1
        .into_keyed()
        .reduce(q!(|acc, v| *acc = (*acc * 3 + v) % 1009))
        .into_singleton()
        .map(q!(|m| {
            let mut v: Vec<(u32, u32)> = m.into_iter().collect();
            v.sort();
            v
        }))
        .all_ticks()
        .embedded_output("out");
}

/// Stream::repeat_with_keys (trusted ordering site on the keys of a keyed singleton)
pub fn u_repeat_with_keys<'a>(a: S<'a, KV>, b: S<'a, u32>) {
    let (ba, bb) = b2(a, b);
    let keys = ba
        .into_keyed()
        .reduce(q!(|acc, v| *acc = (*acc * 3 + v) % 1009));
    bb.repeat_with_keys(keys)
        .entries()
        .all_ticks()
        .assume_ordering::<TotalOrder>(nondet!(/** observation only */))
        .embedded_output("out");
}

// ------------------------------------------------------------------ round 2: generators at top
// level and deeper compositions.  These flows have no hand-written Gallina term: their IR term is
// translated from the builder's IR dump on every run (tools/hydro.py translate_flow).

pub fn f_limit<'a>(a: S<'a, u32>) {
    a.limit(q!(2)).embedded_output("out");
}

pub fn f_first<'a>(a: S<'a, u32>) {
    let tick = a.location().tick();
    a.first()
        .snapshot(&tick, nondet!(/** observation only */))
        .all_ticks()
        .embedded_output("out");
}

pub fn c_filter_map_unique_enumerate<'a>(a: S<'a, u32>) {
    a.filter(q!(|x| *x % 2 == 1))
        .map(q!(|x| x * 2 + 1))
        .unique()
        .enumerate()
        .embedded_output("out");
}

pub fn c_union_map_unique_count<'a>(a: S<'a, u32>, b: S<'a, u32>) {
    let tick = a.location().tick();
    a.merge_unordered(b)
        .map(q!(|x| x % 4))
        .unique()
        .count()
        .map(q!(|c| (c as u32) * 10))
        .snapshot(&tick, nondet!(/** observation only */))
        .all_ticks()
        .embedded_output("out");
}

pub fn c_filter_map_keyed_fold<'a>(a: S<'a, KV>) {
    let tick = a.location().tick();
    a.filter(q!(|(_, v)| *v % 2 == 1))
        .map(q!(|(k, v)| (k % 2, v)))
        .into_keyed()
        .fold(q!(|| 1u32), q!(|acc, v| *acc = (*acc * 2 + v) % 1009))
        .snapshot(&tick, nondet!(/** observation only */))
        .entries()
        .all_ticks()
        .assume_ordering::<TotalOrder>(nondet!(/** observation only */))
        .embedded_output("out");
}

pub fn c_anti_map_filter_enumerate<'a>(a: S<'a, KV>) {
    let neg = a.location().source_iter(q!(vec![0u32, 2u32]));
    a.anti_join(neg)
        .map(q!(|(k, v)| k * 10 + v))
        .filter(q!(|x| *x % 3 == 0))
        .enumerate()
        .embedded_output("out");
}

pub fn c_map_limit_enumerate<'a>(a: S<'a, u32>) {
    a.map(q!(|x| x * 2 + 1))
        .filter(q!(|x| *x % 3 == 0))
        .limit(q!(2))
        .enumerate()
        .embedded_output("out");
}

pub fn c_unique_join_map_unique<'a>(a: S<'a, KV>, b: S<'a, KV>) {
    a.unique()
        .join(b.unique())
        .map(q!(|(k, (v, w))| (k, v + w)))
        .unique()
        .assume_ordering::<TotalOrder>(nondet!(/** observation only */))
        .embedded_output("out");
}

pub fn c_filter_first<'a>(a: S<'a, u32>) {
    let tick = a.location().tick();
    a.filter(q!(|x| *x % 3 == 0))
        .map(q!(|x| x + 100))
        .first()
        .snapshot(&tick, nondet!(/** observation only */))
        .all_ticks()
        .embedded_output("out");
}

pub fn c_join_fold_map<'a>(a: S<'a, KV>, b: S<'a, KV>) {
    let tick = a.location().tick();
    a.filter(q!(|(_, v)| *v % 2 == 1))
        .join(b)
        .map(q!(|(k, (v, w))| k + v * w))
        .fold(
            q!(|| 0u32),
            q!(
                |acc, x| *acc += x,
                commutative = manual_proof!(/** addition */)
            ),
        )
        .map(q!(|x| x * 2 + 1))
        .snapshot(&tick, nondet!(/** observation only */))
        .all_ticks()
        .embedded_output("out");
}

/// a shared (Tee'd) stream used twice
pub fn c_tee_union<'a>(a: S<'a, u32>) {
    let m = a.map(q!(|x| x % 4));
    m.clone()
        .filter(q!(|x| *x != 2))
        .merge_unordered(m.map(q!(|x| x + 100)))
        .unique()
        .assume_ordering::<TotalOrder>(nondet!(/** observation only */))
        .embedded_output("out");
}

// ------------------------------------------------------------------ across_ticks (C30)
// stateful operators inside `across_ticks` keep their memory from one batch to the next

pub fn x_across_count<'a>(a: S<'a, u32>) {
    b1(a).1
        .across_ticks(|s| s.count())
        .all_ticks()
        .embedded_output("out");
}

pub fn x_across_fold<'a>(a: S<'a, u32>) {
    b1(a).1
        .filter(q!(|x| *x % 2 == 1))
        .across_ticks(|s| s.fold(q!(|| 0u32), q!(|acc, x| *acc = (*acc * 2 + x) % 1009)))
        .all_ticks()
        .embedded_output("out");
}

pub fn x_across_unique<'a>(a: S<'a, u32>) {
    b1(a).1
        .across_ticks(|s| s.unique())
        .all_ticks()
        .embedded_output("out");
}

// ------------------------------------------------------------------ round 3: ChainFirst, ReduceKeyedWatermark

/// Optional::or inside a tick (HydroNode::ChainFirst -> chain_first_n(1))
pub fn t_or<'a>(a: S<'a, u32>, b: S<'a, u32>) {
    let (ba, bb) = b2(a, b);
    ba.max().or(bb.min()).all_ticks().embedded_output("out");
}

/// KeyedStream::reduce_watermark inside a tick (HydroNode::ReduceKeyedWatermark)
pub fn t_reduce_watermark<'a>(a: S<'a, KV>, b: S<'a, u32>) {
    let (ba, bb) = b2(a, b);
    ba.into_keyed()
        .reduce_watermark(bb.max(), q!(|acc, v| *acc = (*acc * 3 + v) % 1009))
        .entries()
        .all_ticks()
        .assume_ordering::<TotalOrder>(nondet!(/** observation only */))
        .embedded_output("out");
}

// ------------------------------------------------------------------ round 4: top-level joins with a
// Bounded side (source_iter).  Bounded left x unbounded right is a HydroNode::Join (both sides at
// top level: join_multiset<'static,'static> -> multiset_delta); a Bounded right side makes
// Stream::join build a HydroNode::JoinHalf (join_multiset_half<'static,'tick>).

pub fn f_join_bl<'a>(a: S<'a, KV>) {
    let l = a.location().source_iter(q!(vec![(1u32, 10u32), (2u32, 20u32), (1u32, 30u32)]));
    l.join(a)
        .assume_ordering::<TotalOrder>(nondet!(/** observation only */))
        .embedded_output("out");
}

pub fn f_join_br<'a>(a: S<'a, KV>) {
    let r = a.location().source_iter(q!(vec![(1u32, 10u32), (2u32, 20u32), (1u32, 30u32)]));
    a.join(r).embedded_output("out");
}

pub fn f_join_bb<'a>(a: S<'a, KV>) {
    let l = a.location().source_iter(q!(vec![(1u32, 10u32), (2u32, 20u32), (1u32, 30u32)]));
    let r = a.location().source_iter(q!(vec![(1u32, 1u32), (3u32, 2u32), (1u32, 3u32)]));
    l.join(r)
        .map(q!(|(k, (v, w))| (k, v + w)))
        .join(a)
        .assume_ordering::<TotalOrder>(nondet!(/** observation only */))
        .embedded_output("out");
}

pub fn f_cross_bl<'a>(a: S<'a, u32>) {
    let l = a.location().source_iter(q!(vec![7u32, 8u32]));
    l.cross_product(a)
        .assume_ordering::<TotalOrder>(nondet!(/** observation only */))
        .embedded_output("out");
}

pub fn f_cross_br<'a>(a: S<'a, u32>) {
    let r = a.location().source_iter(q!(vec![7u32, 8u32]));
    a.cross_product(r).embedded_output("out");
}

// ------------------------------------------------------------------ round 5: stateful operators on
// Atomic-located streams (across_ticks / atomic()..end_atomic() / all_ticks_atomic()): emit_core picks
// the persistence lifetime from the location kind, and LocationId::Atomic counts as top level
// ('static), so position / order sensitive state must survive the tick boundary.

pub fn x_across_enumerate<'a>(a: S<'a, u32>) {
    b1(a).1
        .across_ticks(|s| s.enumerate())
        .all_ticks()
        .embedded_output("out");
}

pub fn x_across_reduce<'a>(a: S<'a, u32>) {
    b1(a).1
        .across_ticks(|s| s.reduce(q!(|acc, x| *acc = (*acc * 3 + x) % 1009)))
        .all_ticks()
        .embedded_output("out");
}

pub fn x_across_limit<'a>(a: S<'a, u32>) {
    b1(a).1
        .map(q!(|x| x * 2 + 1))
        .across_ticks(|s| s.limit(q!(2)))
        .all_ticks()
        .embedded_output("out");
}

pub fn x_across_fold_keyed<'a>(a: S<'a, KV>) {
    b1(a).1
        .across_ticks(|s| {
            s.into_keyed()
                .fold(q!(|| 1u32), q!(|acc, v| *acc = (*acc * 2 + v) % 1009))
        })
        .entries()
        .all_ticks()
        .assume_ordering::<TotalOrder>(nondet!(/** observation only */))
        .embedded_output("out");
}

pub fn x_across_reduce_keyed<'a>(a: S<'a, KV>) {
    b1(a).1
        .across_ticks(|s| s.into_keyed().reduce(q!(|acc, v| *acc = (*acc * 3 + v) % 1009)))
        .entries()
        .all_ticks()
        .assume_ordering::<TotalOrder>(nondet!(/** observation only */))
        .embedded_output("out");
}

pub fn x_across_enumerate_unique<'a>(a: S<'a, u32>) {
    b1(a).1
        .across_ticks(|s| s.unique().enumerate().map(q!(|(i, x)| (x, i as u32))))
        .all_ticks()
        .embedded_output("out");
}

/// a top-level stream taken through an atomic region
pub fn x_atomic_enumerate<'a>(a: S<'a, u32>) {
    a.filter(q!(|x| *x % 2 == 1))
        .atomic()
        .enumerate()
        .end_atomic()
        .embedded_output("out");
}

/// batches re-assembled into an Atomic stream with all_ticks_atomic
pub fn x_all_ticks_atomic_enumerate<'a>(a: S<'a, u32>) {
    b1(a).1
        .all_ticks_atomic()
        .unique()
        .enumerate()
        .end_atomic()
        .embedded_output("out");
}

// ------------------------------------------------------------------ round 6: remaining pure-dataflow nodes
// Difference (filter_not_in), CrossProduct (cross_product_nested_loop), SingletonSource
// (tick.singleton / optional_first_tick), PartitionShared / PartitionSide (partition).

pub fn t_difference<'a>(a: S<'a, u32>, b: S<'a, u32>) {
    let (ba, bb) = b2(a, b);
    ba.filter_not_in(bb).all_ticks().embedded_output("out");
}

// NOTE: `a.filter_not_in(source_iter(..))` on an UNBOUNDED `a` cannot be built: Stream::filter_not_in
// records `Bounded` in the node metadata whatever B is, and Stream::new's debug assertion
// (collection_kind of the node == collection_kind of the type) panics (finding, see
// /verif/fixes/C28_filter_not_in_metadata.diff).  The top-level Difference node is therefore
// exercised on a Bounded positive side.
pub fn f_difference_b<'a>(a: S<'a, u32>) {
    let pos = a.location().source_iter(q!(vec![1u32, 2u32, 3u32, 2u32]));
    let neg = a.location().source_iter(q!(vec![1u32, 3u32]));
    pos.filter_not_in(neg)
        .cross_product(a)
        .assume_ordering::<TotalOrder>(nondet!(/** observation only */))
        .embedded_output("out");
}

pub fn t_cross_nested<'a>(a: S<'a, u32>, b: S<'a, u32>) {
    let (ba, bb) = b2(a, b);
    ba.cross_product_nested_loop(bb)
        .all_ticks()
        .embedded_output("out");
}

pub fn t_singleton_const<'a>(a: S<'a, u32>) {
    let (tick, ba) = b1(a);
    ba.cross_singleton(tick.singleton(q!(5u32)))
        .all_ticks()
        .embedded_output("out");
}

pub fn t_first_tick<'a>(a: S<'a, u32>) {
    let (tick, ba) = b1(a);
    tick.optional_first_tick(q!(9u32))
        .into_stream()
        .chain(ba)
        .all_ticks()
        .embedded_output("out");
}

pub fn f_partition<'a>(a: S<'a, u32>) {
    let (odd, even) = a.partition(q!(|x| *x % 2 == 1));
    odd.map(q!(|x| x * 2 + 1))
        .merge_unordered(even.map(q!(|x| x + 100)))
        .assume_ordering::<TotalOrder>(nondet!(/** observation only */))
        .embedded_output("out");
}

// NOTE: using only ONE side of `partition` (`let (odd, _even) = a.partition(..); odd...`) does not
// build: "`partition` must have at least 2 output(s), actually has 1" (DFIR flat graph
// diagnostics, hydro_lang/src/compile/built.rs:62) -- a well-typed safe program that the code
// generator rejects (reported for C41).

// ------------------------------------------------------------------ round 7: network links (two locations)

pub struct NSender {}
pub struct NReceiver {}
pub struct NSrc {}

/// one-to-one ordered link: sender program (map, unique) -> TCP bincode -> receiver program (enumerate)
pub fn n_o2o<'a>(receiver: &Process<'a, NReceiver>, a: Stream<u32, Process<'a, NSender>>) {
    a.map(q!(|x| x * 2 + 1))
        .unique()
        .send(receiver, TCP.fail_stop().bincode().name("link"))
        .enumerate()
        .embedded_output("out");
}

/// many-to-one: every cluster member sends its (mapped) stream; the receiver folds per sender
pub fn n_m2o<'a>(receiver: &Process<'a, NReceiver>, a: Stream<u32, Cluster<'a, NSrc>>) {
    let tick = receiver.tick();
    a.map(q!(|x| x * 2 + 1))
        .send(receiver, TCP.fail_stop().bincode().name("mlink"))
        .fold(q!(|| 1u32), q!(|acc, v| *acc = (*acc * 2 + v) % 1009))
        .snapshot(&tick, nondet!(/** observation only */))
        .entries()
        .all_ticks()
        .map(q!(|(m, v)| (m.get_raw_id(), v)))
        .assume_ordering::<TotalOrder>(nondet!(/** observation only */))
        .embedded_output("out");
}

// ------------------------------------------------------------------ round 8 (C33): map / map_with_key with a
// closure that is NOT order preserving, over keyed singletons of each bound.  The type (and the
// recorded collection_kind) must erase the monotone-value promise (B::EraseMonotonic).

fn snap_entries<'a, K: Clone, V: Clone, B: hydro_lang::live_collections::keyed_singleton::KeyedSingletonBound<ValueBound = Unbounded>>(
    ks: KeyedSingleton<K, V, P<'a>, B>,
    tick: &Tick<P<'a>>,
) -> Stream<(K, V), P<'a>, Unbounded, NoOrder> {
    ks.snapshot(tick, nondet!(/** observation only */))
        .entries()
        .all_ticks()
}

pub fn m_vc_map<'a>(a: S<'a, KV>) {
    let tick = a.location().tick();
    let ks = a
        .into_keyed()
        .value_counts()
        .map(q!(|c| 100 - 10 * ((c % 10) as u32)));
    snap_entries(ks, &tick)
        .assume_ordering::<TotalOrder>(nondet!(/** observation only */))
        .embedded_output("out");
}

pub fn m_vc_map_with_key<'a>(a: S<'a, KV>) {
    let tick = a.location().tick();
    let ks = a
        .into_keyed()
        .value_counts()
        .map_with_key(q!(|(k, c)| k + 100 - 10 * ((c % 10) as u32)));
    snap_entries(ks, &tick)
        .assume_ordering::<TotalOrder>(nondet!(/** observation only */))
        .embedded_output("out");
}

pub fn m_fold_mono_map_with_key<'a>(a: S<'a, KV>) {
    let tick = a.location().tick();
    let ks = a
        .into_keyed()
        .fold(
            q!(|| 0u32),
            q!(
                |acc, v| *acc += v,
                monotone = manual_proof!(/** adding an unsigned value */)
            ),
        )
        .map_with_key(q!(|(k, s)| k + 100 - 10 * (s % 10)));
    snap_entries(ks, &tick)
        .assume_ordering::<TotalOrder>(nondet!(/** observation only */))
        .embedded_output("out");
}

pub fn m_fold_mono<'a>(a: S<'a, KV>) {
    let tick = a.location().tick();
    let ks = a.into_keyed().fold(
        q!(|| 0u32),
        q!(
            |acc, v| *acc += v,
            monotone = manual_proof!(/** adding an unsigned value */)
        ),
    );
    snap_entries(ks, &tick)
        .assume_ordering::<TotalOrder>(nondet!(/** observation only */))
        .embedded_output("out");
}

pub fn m_mk_map_with_key<'a>(a: S<'a, KV>) {
    let tick = a.location().tick();
    let ks = a
        .into_keyed()
        .fold(q!(|| 1u32), q!(|acc, v| *acc = (*acc * 2 + v) % 1009))
        .map_with_key(q!(|(k, s)| k + 100 - 10 * (s % 10)));
    snap_entries(ks, &tick)
        .assume_ordering::<TotalOrder>(nondet!(/** observation only */))
        .embedded_output("out");
}

pub fn m_count_map<'a>(a: S<'a, u32>) {
    let tick = a.location().tick();
    a.count()
        .map(q!(|c| 100 - 10 * ((c % 10) as u32)))
        .snapshot(&tick, nondet!(/** observation only */))
        .all_ticks()
        .embedded_output("out");
}
