//! Correspondence harness for C40 (Raft): drives the real `hydro_test::cluster::raft::raft_step`.
//!
//! Case kinds
//!  * `{"k":"step","state":S,"input":I}` : one call; result `{"post":S,"out":O}` or `{"panic":..}`
//!  * `{"k":"cluster","n":N,"sched":[D..]}` : a whole cluster run.  The network (one FIFO queue per
//!    ordered pair of members) is simulated here, every choice is taken from the decision list
//!    `sched`; result `{"trace":[{"m":..,"input":I,"post":S,"out":O} | {"m":..,"input":I,"panic":..} |
//!    {"crash":m}]}`.  A member whose step panicked is treated as crashed (fail-stop).
use std::collections::{HashMap, HashSet};

use hvcommon::{Value, guarded, json};
use hydro_lang::location::MemberId;
use hydro_test::cluster::raft::{
    AppendEntriesReply, AppendEntriesRequest, LogEntry, RaftRpc, RaftServerState, RaftState,
    RaftStepInput, RaftStepOutput, Replica, RequestVoteDto, RequestVoteResponseDto, raft_step,
};

type St = RaftServerState<u64, Replica>;
type Rpc = RaftRpc<u64, Replica>;
type Mid = MemberId<Replica>;

fn mid(v: &Value) -> Mid {
    MemberId::from_raw_id(v.as_u64().unwrap() as u32)
}
fn us(v: &Value) -> usize {
    v.as_u64().unwrap() as usize
}
fn opt_mid(v: &Value) -> Option<Mid> {
    if v.is_null() { None } else { Some(mid(v)) }
}
fn j_mid(m: &Mid) -> Value {
    json!(m.get_raw_id())
}
fn j_opt_mid(m: &Option<Mid>) -> Value {
    match m {
        None => Value::Null,
        Some(m) => j_mid(m),
    }
}

fn entry(v: &Value) -> LogEntry<u64> {
    LogEntry { message: v[0].as_u64().unwrap(), term_received: us(&v[1]), index: us(&v[2]) }
}
fn j_entry(e: &LogEntry<u64>) -> Value {
    json!([e.message, e.term_received, e.index])
}

fn rpc(v: &Value) -> Rpc {
    match v["t"].as_str().unwrap() {
        "RV" => RaftRpc::RequestVote(RequestVoteDto {
            term: us(&v["term"]),
            last_log_index: us(&v["lli"]),
            last_log_term: us(&v["llt"]),
        }),
        "RVR" => RaftRpc::RequestVoteResponse(RequestVoteResponseDto { term: us(&v["term"]) }),
        "AE" => RaftRpc::AppendEntries(AppendEntriesRequest {
            term: us(&v["term"]),
            leader: mid(&v["leader"]),
            prev_log_index: us(&v["pli"]),
            prev_log_term: us(&v["plt"]),
            entries: v["entries"].as_array().unwrap().iter().map(entry).collect(),
            leader_commit: us(&v["lc"]),
        }),
        "AER" => RaftRpc::AppendEntriesReply(AppendEntriesReply {
            term: us(&v["term"]),
            success: v["succ"].as_bool().unwrap(),
            match_index: us(&v["mi"]),
        }),
        other => panic!("bad rpc tag {other}"),
    }
}
fn j_rpc(r: &Rpc) -> Value {
    match r {
        RaftRpc::RequestVote(d) => {
            json!({"t":"RV","term":d.term,"lli":d.last_log_index,"llt":d.last_log_term})
        }
        RaftRpc::RequestVoteResponse(d) => json!({"t":"RVR","term":d.term}),
        RaftRpc::AppendEntries(a) => json!({"t":"AE","term":a.term,"leader":j_mid(&a.leader),
            "pli":a.prev_log_index,"plt":a.prev_log_term,
            "entries":a.entries.iter().map(j_entry).collect::<Vec<_>>(),"lc":a.leader_commit}),
        RaftRpc::AppendEntriesReply(a) => {
            json!({"t":"AER","term":a.term,"succ":a.success,"mi":a.match_index})
        }
    }
}

fn state(v: &Value) -> St {
    let map = |x: &Value| -> HashMap<Mid, usize> {
        x.as_array().unwrap().iter().map(|kv| (mid(&kv[0]), us(&kv[1]))).collect()
    };
    RaftServerState {
        term: us(&v["term"]),
        voted_for: opt_mid(&v["voted_for"]),
        role: match us(&v["role"]) {
            0 => RaftState::Follower,
            1 => RaftState::Candidate,
            _ => RaftState::Leader,
        },
        votes: v["votes"].as_array().unwrap().iter().map(mid).collect::<HashSet<_>>(),
        heartbeat_seen: v["hb_seen"].as_bool().unwrap(),
        known_leader: opt_mid(&v["known_leader"]),
        log: v["log"].as_array().unwrap().iter().map(entry).collect(),
        commit_index: us(&v["commit"]),
        emitted_index: us(&v["emitted"]),
        next_index: map(&v["next"]),
        match_index: map(&v["match"]),
    }
}
fn j_state(s: &St) -> Value {
    let mut votes: Vec<u32> = s.votes.iter().map(|m| m.get_raw_id()).collect();
    votes.sort();
    let map = |m: &HashMap<Mid, usize>| -> Value {
        let mut kv: Vec<(u32, usize)> = m.iter().map(|(k, v)| (k.get_raw_id(), *v)).collect();
        kv.sort();
        json!(kv.iter().map(|(k, v)| json!([k, v])).collect::<Vec<_>>())
    };
    json!({
        "term": s.term,
        "voted_for": j_opt_mid(&s.voted_for),
        "role": match s.role { RaftState::Follower => 0, RaftState::Candidate => 1, RaftState::Leader => 2 },
        "votes": votes,
        "hb_seen": s.heartbeat_seen,
        "known_leader": j_opt_mid(&s.known_leader),
        "log": s.log.iter().map(j_entry).collect::<Vec<_>>(),
        "commit": s.commit_index,
        "emitted": s.emitted_index,
        "next": map(&s.next_index),
        "match": map(&s.match_index),
    })
}

struct In {
    me: u32,
    others: Vec<u32>,
    cluster_size: usize,
    el: bool,
    hb: bool,
    reqs: Vec<u64>,
    msgs: Vec<(u32, Value)>,
}
impl In {
    fn parse(v: &Value) -> In {
        In {
            me: us(&v["me"]) as u32,
            others: v["others"].as_array().unwrap().iter().map(|x| us(x) as u32).collect(),
            cluster_size: us(&v["cluster_size"]),
            el: v["el"].as_bool().unwrap(),
            hb: v["hb"].as_bool().unwrap(),
            reqs: v["reqs"].as_array().unwrap().iter().map(|x| x.as_u64().unwrap()).collect(),
            msgs: v["msgs"].as_array().unwrap().iter().map(|p| (us(&p[0]) as u32, p[1].clone())).collect(),
        }
    }
    fn json(&self) -> Value {
        json!({"me":self.me,"others":self.others,"cluster_size":self.cluster_size,"el":self.el,"hb":self.hb,
            "reqs":self.reqs,"msgs":self.msgs.iter().map(|(f,r)| json!([f,r])).collect::<Vec<_>>()})
    }
    fn real(&self) -> RaftStepInput<u64, Replica> {
        RaftStepInput {
            me: MemberId::from_raw_id(self.me),
            other_members: self.others.iter().map(|m| MemberId::from_raw_id(*m)).collect(),
            cluster_size: self.cluster_size,
            election_timer_fired: self.el,
            heartbeat_timer_fired: self.hb,
            requests: self.reqs.clone(),
            messages: self.msgs.iter().map(|(f, r)| (MemberId::from_raw_id(*f), rpc(r))).collect(),
        }
    }
}

fn j_out(o: &RaftStepOutput<u64, Replica>) -> Value {
    json!({
        "outbound": o.outbound.iter().map(|(m, r)| json!([j_mid(m), j_rpc(r)])).collect::<Vec<_>>(),
        "committed": o.committed.iter().map(j_entry).collect::<Vec<_>>(),
        "redirected": o.redirected.iter().map(|(x, l)| json!([x, j_opt_mid(l)])).collect::<Vec<_>>(),
        "view": match &o.view_transition { None => Value::Null, Some(v) => json!([v.term, j_opt_mid(&v.leader)]) },
    })
}

/// one guarded call; on success returns (post, out-json, raw outbound)
fn call(st: &mut St, inp: &In) -> Result<(Value, Vec<(u32, Value)>), String> {
    let mut outb = Vec::new();
    let mut work = st.clone();
    let r = guarded(|| {
        let o = raft_step(&mut work, inp.real());
        for (m, r) in &o.outbound {
            outb.push((m.get_raw_id(), j_rpc(r)));
        }
        j_out(&o)
    });
    if let Some(p) = r.get("panic") {
        return Err(p.as_str().unwrap_or("").to_owned());
    }
    *st = work;
    Ok((r, outb))
}

fn run_step(case: &Value) -> Value {
    let mut st = state(&case["state"]);
    let inp = In::parse(&case["input"]);
    match call(&mut st, &inp) {
        Ok((out, _)) => json!({"post": j_state(&st), "out": out}),
        Err(p) => json!({"panic": p}),
    }
}

fn run_cluster(case: &Value) -> Value {
    let n = us(&case["n"]);
    let csize = case.get("cluster_size").map(us).unwrap_or(n);
    let mut states: Vec<St> = (0..n).map(|_| RaftServerState::new()).collect();
    let mut alive = vec![true; n];
    // queue[from][to]
    let mut queue: Vec<Vec<Vec<Value>>> = vec![vec![Vec::new(); n]; n];
    let mut trace = Vec::new();
    for d in case["sched"].as_array().unwrap() {
        if let Some(c) = d.get("crash") {
            let m = us(c) % n;
            alive[m] = false;
            trace.push(json!({"crash": m}));
            continue;
        }
        let m = us(&d["m"]) % n;
        if !alive[m] {
            continue;
        }
        let mut msgs: Vec<(u32, Value)> = Vec::new();
        if d["deliver"].is_string() {
            // "all": everything pending for m, sender by sender, FIFO
            for f in 0..n {
                for r in queue[f][m].drain(..) {
                    msgs.push((f as u32, r));
                }
            }
        } else {
            for x in d["deliver"].as_array().unwrap() {
                let f = us(&x["f"]) % n;
                let q = &mut queue[f][m];
                if q.is_empty() {
                    continue;
                }
                let i = us(&x["i"]) % q.len();
                let r = if x["keep"].as_bool().unwrap_or(false) { q[i].clone() } else { q.remove(i) };
                msgs.push((f as u32, r));
            }
        }
        let inp = In {
            me: m as u32,
            others: (0..n as u32).filter(|x| *x as usize != m).collect(),
            cluster_size: csize,
            el: d["el"].as_bool().unwrap_or(false),
            hb: d["hb"].as_bool().unwrap_or(false),
            reqs: d["reqs"].as_array().map(|a| a.iter().map(|x| x.as_u64().unwrap()).collect()).unwrap_or_default(),
            msgs,
        };
        match call(&mut states[m], &inp) {
            Ok((out, outb)) => {
                for (to, r) in outb {
                    if (to as usize) < n {
                        queue[m][to as usize].push(r);
                    }
                }
                trace.push(json!({"m": m, "input": inp.json(), "post": j_state(&states[m]), "out": out}));
            }
            Err(p) => {
                alive[m] = false;
                trace.push(json!({"m": m, "input": inp.json(), "panic": p}));
            }
        }
    }
    json!({"trace": trace})
}

fn run(case: &Value) -> Value {
    match case["k"].as_str().unwrap_or("") {
        "step" => run_step(case),
        "cluster" => run_cluster(case),
        _ => json!({"bad_case": "unknown kind"}),
    }
}

fn main() {
    hvcommon::main_loop(run)
}
