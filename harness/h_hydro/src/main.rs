//! E8 correspondence harness: drives corpus flows (compiled once through the production
//! embedded builder, see build.rs) tick by tick on the case's explicit partition of the inputs.
//!
//! case   {"flow": name, "ticks": [ {"a": [...], "b": [...]}, ... ]}
//! result {"ticks": [ {"out": [...], ...}, ... ]}
//! case   {"k": "syntax"} -> {"syntax": {flow: surface syntax of the emitted DFIR graph}}
//! case   {"k": "ir", "flow": name} -> {"ir": serde dump of the HydroRoot list the builder produced}
//! case   {"k": "syntax", "flow": name} -> {"syntax": surface syntax of that flow's DFIR graph}
use std::cell::RefCell;
use std::collections::VecDeque;
use std::pin::Pin;
use std::rc::Rc;
use std::task::{Context, Poll};

use hvcommon::{Value, json};

mod generated {
    include!(concat!(env!("OUT_DIR"), "/mods.rs"));
}
include!(concat!(env!("OUT_DIR"), "/syntax.rs"));

/// An input stream the driver refills between ticks: yields what is queued, then `Pending`
/// (never ends), so one `run_tick_sync` consumes exactly the batch pushed for that tick.
struct QS<T>(Rc<RefCell<VecDeque<T>>>);
impl<T> dfir_rs::futures::Stream for QS<T> {
    type Item = T;
    fn poll_next(self: Pin<&mut Self>, _cx: &mut Context<'_>) -> Poll<Option<T>> {
        match self.0.borrow_mut().pop_front() {
            Some(x) => Poll::Ready(Some(x)),
            None => Poll::Pending,
        }
    }
}

trait FromJ: Sized {
    fn from_j(v: &Value) -> Self;
}
impl FromJ for u32 {
    fn from_j(v: &Value) -> Self {
        v.as_u64().expect("u32 item") as u32
    }
}
impl<A: FromJ, B: FromJ> FromJ for (A, B) {
    fn from_j(v: &Value) -> Self {
        let a = v.as_array().expect("pair");
        (A::from_j(&a[0]), B::from_j(&a[1]))
    }
}
trait ToJ {
    fn to_j(&self) -> Value;
}
impl ToJ for u32 {
    fn to_j(&self) -> Value {
        json!(*self)
    }
}
impl ToJ for usize {
    fn to_j(&self) -> Value {
        json!(*self)
    }
}
impl ToJ for bool {
    fn to_j(&self) -> Value {
        json!(*self)
    }
}
impl ToJ for () {
    fn to_j(&self) -> Value {
        json!([])
    }
}
impl<A: ToJ, B: ToJ> ToJ for (A, B) {
    fn to_j(&self) -> Value {
        json!([self.0.to_j(), self.1.to_j()])
    }
}
impl<A: ToJ> ToJ for Vec<A> {
    fn to_j(&self) -> Value {
        Value::Array(self.iter().map(|x| x.to_j()).collect())
    }
}
impl<A: ToJ> ToJ for Option<A> {
    fn to_j(&self) -> Value {
        match self {
            None => Value::Null,
            Some(x) => json!([x.to_j()]),
        }
    }
}

macro_rules! flows {
    ($( $name:ident ( $( $i:ident : $it:ty ),* ) -> ( $( $o:ident : $ot:ty ),* ) ; )*) => {
        $(
        #[allow(non_snake_case, unused_variables, unused_mut)]
        fn $name(ticks: &[Value]) -> Value {
            paste_mod!($name, ticks, ( $( $i : $it ),* ), ( $( $o : $ot ),* ))
        }
        )*
        fn dispatch(flow: &str, ticks: &[Value]) -> Value {
            match flow {
                $( stringify!($name) => $name(ticks), )*
                _ => json!({"bad_case": format!("unknown flow {flow}")}),
            }
        }
        static FLOWS: &[&str] = &[ $( stringify!($name) ),* ];
    };
}

macro_rules! paste_mod {
    ($name:ident, $ticks:ident, ( $( $i:ident : $it:ty ),* ), ( $( $o:ident : $ot:ty ),* )) => {{
        $( let $i: Rc<RefCell<VecDeque<$it>>> = Rc::new(RefCell::new(VecDeque::new())); )*
        $( let $o: Rc<RefCell<Vec<Value>>> = Rc::new(RefCell::new(Vec::new())); )*
        let mut outputs = generated::$name::$name::EmbeddedOutputs {
            $( $o: { let $o = $o.clone(); move |x: $ot| $o.borrow_mut().push(x.to_j()) } ),*
        };
        let mut df = generated::$name::$name( $( QS($i.clone()), )* &mut outputs);
        let mut res: Vec<Value> = Vec::new();
        for t in $ticks {
            $(
                if let Some(items) = t.get(stringify!($i)).and_then(|x| x.as_array()) {
                    for it in items {
                        $i.borrow_mut().push_back(<$it as FromJ>::from_j(it));
                    }
                }
            )*
            df.run_tick_sync();
            let mut m = serde_json::Map::new();
            $( m.insert(stringify!($o).to_owned(), Value::Array(std::mem::take(&mut *$o.borrow_mut()))); )*
            res.push(Value::Object(m));
        }
        drop(df);
        json!({"ticks": res})
    }};
}

include!("../flows_table.rs");

// ---------------------------------------------------------------- network links (two locations)
use dfir_rs::bytes::{Bytes, BytesMut};

fn dec_u32(b: &[u8]) -> u32 {
    // bincode (fixed-width little endian) of a u32
    u32::from_le_bytes([b[0], b[1], b[2], b[3]])
}

/// case {"flow":"n_o2o","ticks":[{"a":[..]},..] (sender ticks),"deliver":[k0,k1,..]}: all sender ticks
/// run first (messages kept in order), then receiver tick i gets the next k_i messages (FIFO link
/// with arbitrary delay and re-batching).  result: per sender tick the decoded messages it sent,
/// per receiver tick the outputs.
fn n_o2o(case: &Value) -> Value {
    let ticks = case["ticks"].as_array().expect("ticks");
    let sent: Rc<RefCell<Vec<Bytes>>> = Rc::new(RefCell::new(Vec::new()));
    let a: Rc<RefCell<VecDeque<u32>>> = Rc::new(RefCell::new(VecDeque::new()));
    let mut sent_ticks: Vec<Value> = Vec::new();
    {
        let mut net_out = generated::n_o2o::n_o2o_sender::EmbeddedNetworkOut {
            link: { let sent = sent.clone(); move |b: Bytes| sent.borrow_mut().push(b) },
        };
        let mut df = generated::n_o2o::n_o2o_sender(QS(a.clone()), &mut net_out);
        let mut seen = 0usize;
        for t in ticks {
            if let Some(items) = t.get("a").and_then(|x| x.as_array()) {
                for it in items { a.borrow_mut().push_back(u32::from_j(it)); }
            }
            df.run_tick_sync();
            let all = sent.borrow();
            sent_ticks.push(Value::Array(all[seen..].iter().map(|b| json!(dec_u32(b))).collect()));
            seen = all.len();
        }
    }
    let q: Rc<RefCell<VecDeque<Result<BytesMut, std::io::Error>>>> = Rc::new(RefCell::new(VecDeque::new()));
    let out: Rc<RefCell<Vec<Value>>> = Rc::new(RefCell::new(Vec::new()));
    let mut outputs = generated::n_o2o::n_o2o_receiver::EmbeddedOutputs {
        out: { let out = out.clone(); move |x: (usize, u32)| out.borrow_mut().push(x.to_j()) },
    };
    let net_in = generated::n_o2o::n_o2o_receiver::EmbeddedNetworkIn { link: QS(q.clone()) };
    let mut df = generated::n_o2o::n_o2o_receiver(&mut outputs, net_in);
    let mut msgs: VecDeque<Bytes> = sent.borrow().iter().cloned().collect();
    let mut res: Vec<Value> = Vec::new();
    for k in case["deliver"].as_array().expect("deliver") {
        for _ in 0..k.as_u64().unwrap_or(0) {
            if let Some(b) = msgs.pop_front() { q.borrow_mut().push_back(Ok(BytesMut::from(b.as_ref()))); }
        }
        df.run_tick_sync();
        let mut m = serde_json::Map::new();
        m.insert("out".to_owned(), Value::Array(std::mem::take(&mut *out.borrow_mut())));
        res.push(Value::Object(m));
    }
    drop(df);
    json!({"sent_ticks": sent_ticks, "undelivered": msgs.len(), "ticks": res})
}

/// case {"flow":"n_m2o","members":[[..],[..]] (input of member i, one sender tick each),
/// "deliver":[[m,m,..],..]}: receiver tick i gets, in this order, the next message of each listed
/// member (per-sender FIFO, arbitrary cross-sender interleaving).
fn n_m2o(case: &Value) -> Value {
    use hydro_lang::location::member_id::TaglessMemberId;
    let members = case["members"].as_array().expect("members");
    let mut queues: Vec<VecDeque<Bytes>> = Vec::new();
    let mut sent_members: Vec<Value> = Vec::new();
    for (i, items) in members.iter().enumerate() {
        let id = TaglessMemberId::from_raw_id(i as u32);
        let sent: Rc<RefCell<Vec<Bytes>>> = Rc::new(RefCell::new(Vec::new()));
        let a: Rc<RefCell<VecDeque<u32>>> = Rc::new(RefCell::new(VecDeque::new()));
        {
            let mut net_out = generated::n_m2o::n_m2o_sender::EmbeddedNetworkOut {
                mlink: { let sent = sent.clone(); move |b: Bytes| sent.borrow_mut().push(b) },
            };
            let mut df = generated::n_m2o::n_m2o_sender(&id, QS(a.clone()), &mut net_out);
            // the member's input cut into two sender ticks (first half / second half)
            let items = items.as_array().expect("member items");
            let h = items.len() / 2;
            for part in [&items[..h], &items[h..]] {
                for it in part { a.borrow_mut().push_back(u32::from_j(it)); }
                df.run_tick_sync();
            }
        }
        sent_members.push(Value::Array(sent.borrow().iter().map(|b| json!(dec_u32(b))).collect()));
        queues.push(sent.borrow().iter().cloned().collect());
    }
    let q: Rc<RefCell<VecDeque<Result<(TaglessMemberId, BytesMut), std::io::Error>>>> =
        Rc::new(RefCell::new(VecDeque::new()));
    let out: Rc<RefCell<Vec<Value>>> = Rc::new(RefCell::new(Vec::new()));
    let mut outputs = generated::n_m2o::n_m2o_receiver::EmbeddedOutputs {
        out: { let out = out.clone(); move |x: (u32, u32)| out.borrow_mut().push(x.to_j()) },
    };
    let net_in = generated::n_m2o::n_m2o_receiver::EmbeddedNetworkIn { mlink: QS(q.clone()) };
    let mut df = generated::n_m2o::n_m2o_receiver(&mut outputs, net_in);
    let mut res: Vec<Value> = Vec::new();
    for tick in case["deliver"].as_array().expect("deliver") {
        for m in tick.as_array().expect("deliver tick") {
            let i = m.as_u64().unwrap() as usize;
            if let Some(b) = queues[i].pop_front() {
                q.borrow_mut().push_back(Ok((TaglessMemberId::from_raw_id(i as u32), BytesMut::from(b.as_ref()))));
            }
        }
        df.run_tick_sync();
        let mut mm = serde_json::Map::new();
        mm.insert("out".to_owned(), Value::Array(std::mem::take(&mut *out.borrow_mut())));
        res.push(Value::Object(mm));
    }
    drop(df);
    json!({"sent_members": sent_members, "ticks": res})
}

fn run(case: &Value) -> Value {
    if case.get("k").and_then(|k| k.as_str()) == Some("ir") {
        let f = case.get("flow").and_then(|f| f.as_str()).unwrap_or("");
        return match IRJSON.iter().find(|(n, _)| *n == f) {
            Some((_, s)) => json!({"ir": serde_json::from_str::<Value>(s).unwrap_or(Value::Null)}),
            None => json!({"bad_case": format!("unknown flow {f}")}),
        };
    }
    if case.get("k").and_then(|k| k.as_str()) == Some("syntax") {
        if let Some(f) = case.get("flow").and_then(|f| f.as_str()) {
            return match SYNTAX.iter().find(|(n, _)| *n == f) {
                Some((_, s)) => json!({"syntax": *s}),
                None => json!({"bad_case": format!("unknown flow {f}")}),
            };
        }
        let mut m = serde_json::Map::new();
        for (n, s) in SYNTAX {
            m.insert((*n).to_owned(), json!(*s));
        }
        return json!({"syntax": m, "flows": FLOWS});
    }
    let flow = case["flow"].as_str().expect("flow");
    if flow == "n_o2o" {
        return n_o2o(case);
    }
    if flow == "n_m2o" {
        return n_m2o(case);
    }
    let ticks = case["ticks"].as_array().expect("ticks");
    dispatch(flow, ticks)
}

fn main() {
    hvcommon::main_loop(run)
}
