// The single table of corpus flows: name(inputs in alphabetical order) -> (outputs in alphabetical order).
// Included by build.rs (code generation through the production embedded builder) and by
// src/main.rs (the tick-by-tick driver).
flows! {
    f_map(a: u32) -> (out: u32);
    f_filter(a: u32) -> (out: u32);
    f_flat_map(a: u32) -> (out: u32);
    f_filter_map(a: u32) -> (out: u32);
    f_enumerate(a: u32) -> (out: (usize, u32));
    f_unique(a: u32) -> (out: u32);
    f_union(a: u32, b: u32) -> (out: u32);
    f_join(a: (u32, u32), b: (u32, u32)) -> (out: (u32, (u32, u32)));
    f_cross(a: u32, b: u32) -> (out: (u32, u32));
    f_anti_join(a: (u32, u32)) -> (out: (u32, u32));
    f_fold(a: u32) -> (out: u32);
    f_fold_comm(a: u32) -> (out: u32);
    f_count(a: u32) -> (out: usize);
    f_max(a: u32) -> (out: u32);
    f_min(a: u32) -> (out: u32);
    f_last(a: u32) -> (out: u32);
    f_reduce(a: u32) -> (out: u32);
    f_fold_keyed(a: (u32, u32)) -> (out: (u32, u32));
    f_reduce_keyed(a: (u32, u32)) -> (out: (u32, u32));
    f_map_filter_unique(a: u32) -> (out: u32);
    f_flat_map_enumerate(a: u32) -> (out: (u32, u32));
    f_join_fold(a: (u32, u32), b: (u32, u32)) -> (out: u32);
    f_union_unique_count(a: u32, b: u32) -> (out: usize);
    f_cross_filter(a: u32, b: u32) -> (out: (u32, u32));
    f_unique_join(a: (u32, u32), b: (u32, u32)) -> (out: (u32, u32));
    f_count_map(a: u32) -> (out: u32);
    f_anti_join_unique(a: (u32, u32)) -> (out: u32);
    f_keyed_max(a: (u32, u32)) -> (out: (u32, u32));
    t_fold(a: u32) -> (out: u32);
    t_reduce(a: u32) -> (out: u32);
    t_count(a: u32) -> (out: usize);
    t_max(a: u32) -> (out: u32);
    t_min(a: u32) -> (out: u32);
    t_first(a: u32) -> (out: u32);
    t_last(a: u32) -> (out: u32);
    t_limit(a: u32) -> (out: u32);
    t_sort(a: (u32, u32)) -> (out: (u32, u32));
    t_enumerate(a: u32) -> (out: (usize, u32));
    t_unique(a: u32) -> (out: u32);
    t_chain(a: u32, b: u32) -> (out: u32);
    t_join(a: (u32, u32), b: (u32, u32)) -> (out: (u32, (u32, u32)));
    t_cross(a: u32, b: u32) -> (out: (u32, u32));
    t_anti_join(a: (u32, u32), b: u32) -> (out: (u32, u32));
    t_cross_singleton(a: u32, b: u32) -> (out: (u32, u32));
    t_fold_keyed(a: (u32, u32)) -> (out: (u32, u32));
    t_reduce_keyed(a: (u32, u32)) -> (out: (u32, u32));
    t_defer(a: u32) -> (out: u32);
    t_defer_chain(a: u32, b: u32) -> (out: u32);
    t_defer_count(a: u32) -> (out: usize);
    t_sort_enumerate_fold(a: u32) -> (out: u32);
    t_cycle(a: u32) -> (out: u32);
    t_join_half_unord(a: (u32, u32), b: (u32, u32)) -> (out: (u32, (u32, u32)));
}
