//! Generates, for every corpus flow, plain DFIR code through the production builder
//! (`FlowBuilder` -> `with_process` -> `generate_embedded`) plus the surface syntax of the
//! emitted DFIR graph (used by the emission-table correspondence).
use hydro_lang::compile::builder::FlowBuilder;
use hydro_lang::compile::embedded::EmbeddedDeploy;
use hydro_lang::location::Location;

fn main() {
    println!("cargo::rerun-if-changed=build.rs");
    println!("cargo::rerun-if-changed=flows_table.rs");
    let out_dir = std::env::var("OUT_DIR").unwrap();
    let mut syntax: Vec<(String, String)> = Vec::new();
    let mut irs: Vec<(String, String)> = Vec::new();
    let mut mods = String::new();

    macro_rules! flows {
        ($( $name:ident ( $( $i:ident : $it:ty ),* ) -> ( $( $o:ident : $ot:ty ),* ) ; )*) => {{
            $(
            {
                let mut flow = FlowBuilder::new();
                let process = flow.process::<()>();
                h_hydro_flows::$name( $( process.embedded_input::<$it>(stringify!($i)) ),* );
                let mut deploy: hydro_lang::compile::deploy::DeployFlow<'_, EmbeddedDeploy> =
                    flow.with_process(&process, stringify!($name));
                let s = deploy
                    .preview_compile()
                    .dfir_for(&process)
                    .unwrap_or_else(|e| panic!("partition error in {}: {}", stringify!($name), e.diagnostic))
                    .surface_syntax_string();
                syntax.push((stringify!($name).to_owned(), s));
                let ir = hydro_lang::compile::ir::serialize_dedup_shared(|| {
                    serde_json::to_string(deploy.ir()).expect("ir json")
                });
                irs.push((stringify!($name).to_owned(), ir));
                let code = deploy.generate_embedded("h_hydro_flows");
                std::fs::write(
                    format!("{out_dir}/{}.rs", stringify!($name)),
                    prettyplease::unparse(&code),
                )
                .unwrap();
                mods.push_str(&format!(
                    "#[allow(unused_imports, unused_qualifications, non_snake_case, clippy::all)]\npub mod {n} {{ include!(concat!(env!(\"OUT_DIR\"), \"/{n}.rs\")); }}\n",
                    n = stringify!($name)
                ));
            }
            )*
        }};
    }
    include!("flows_table.rs");

    // ---- two-location flows (network links): one function per location
    {
        let mut flow = FlowBuilder::new();
        let sender = flow.process::<h_hydro_flows::NSender>();
        let receiver = flow.process::<h_hydro_flows::NReceiver>();
        h_hydro_flows::n_o2o(&receiver, sender.embedded_input::<u32>("a"));
        let deploy: hydro_lang::compile::deploy::DeployFlow<'_, EmbeddedDeploy> = flow
            .with_process(&sender, "n_o2o_sender")
            .with_process(&receiver, "n_o2o_receiver");
        let ir = hydro_lang::compile::ir::serialize_dedup_shared(|| {
            serde_json::to_string(deploy.ir()).expect("ir json")
        });
        irs.push(("n_o2o".to_owned(), ir));
        let code = deploy.generate_embedded("h_hydro_flows");
        std::fs::write(format!("{out_dir}/n_o2o.rs"), prettyplease::unparse(&code)).unwrap();
        mods.push_str("#[allow(unused_imports, unused_qualifications, non_snake_case, clippy::all)]\npub mod n_o2o { include!(concat!(env!(\"OUT_DIR\"), \"/n_o2o.rs\")); }\n");
    }
    {
        let mut flow = FlowBuilder::new();
        let senders = flow.cluster::<h_hydro_flows::NSrc>();
        let receiver = flow.process::<h_hydro_flows::NReceiver>();
        h_hydro_flows::n_m2o(&receiver, senders.embedded_input::<u32>("a"));
        let deploy: hydro_lang::compile::deploy::DeployFlow<'_, EmbeddedDeploy> = flow
            .with_cluster(&senders, "n_m2o_sender")
            .with_process(&receiver, "n_m2o_receiver");
        let ir = hydro_lang::compile::ir::serialize_dedup_shared(|| {
            serde_json::to_string(deploy.ir()).expect("ir json")
        });
        irs.push(("n_m2o".to_owned(), ir));
        let code = deploy.generate_embedded("h_hydro_flows");
        std::fs::write(format!("{out_dir}/n_m2o.rs"), prettyplease::unparse(&code)).unwrap();
        mods.push_str("#[allow(unused_imports, unused_qualifications, non_snake_case, clippy::all)]\npub mod n_m2o { include!(concat!(env!(\"OUT_DIR\"), \"/n_m2o.rs\")); }\n");
    }

    std::fs::write(format!("{out_dir}/mods.rs"), mods).unwrap();
    let mut tbl = String::from("pub static SYNTAX: &[(&str, &str)] = &[\n");
    for (n, s) in &syntax {
        tbl.push_str(&format!("    ({:?}, {:?}),\n", n, s));
    }
    tbl.push_str("];\n");
    tbl.push_str("pub static IRJSON: &[(&str, &str)] = &[\n");
    for (n, s) in &irs {
        tbl.push_str(&format!("    ({:?}, {:?}),\n", n, s));
    }
    tbl.push_str("];\n");
    std::fs::write(format!("{out_dir}/syntax.rs"), tbl).unwrap();
}
