//! Correspondence harness for engine "Push" (properties C12 and C14).
//!
//! Drives the real `dfir_pipes::push` combinators (and, in `sinks.rs`, the `sinktools`
//! adaptors) with the item sequence of a JSON case, against scripted downstreams implemented
//! here (the repository's `TestPush` is `pub(crate)` and test-only).  Every downstream logs the
//! full history of calls it sees together with its scripted answers; the driver logs what the
//! combinator returned at each step.  Nothing is generated here: the case file is the input.
use std::cell::RefCell;
use std::collections::VecDeque;
use std::marker::PhantomData;
use std::pin::Pin;
use std::rc::Rc;

use dfir_pipes::Yes;
use dfir_pipes::push::{self, Push, PushStep};
use hvcommon::{Value, json};

mod sinks;

pub type Log = Rc<RefCell<Vec<Value>>>;

pub fn new_log() -> Log {
    Rc::new(RefCell::new(Vec::new()))
}

pub trait Enc {
    fn enc(&self) -> Value;
}
impl Enc for u64 {
    fn enc(&self) -> Value {
        json!(*self)
    }
}
impl Enc for (u64, u64) {
    fn enc(&self) -> Value {
        json!([self.0, self.1])
    }
}

pub fn bools(v: &Value) -> VecDeque<bool> {
    v.as_array()
        .map(|a| a.iter().map(|b| b.as_bool().unwrap_or(b.as_u64() == Some(1))).collect())
        .unwrap_or_default()
}

/// Scripted, call-logging downstream `Push`.  Answers `Done` once a script is exhausted.
pub struct Rec<T> {
    rs: VecDeque<bool>,
    fs: VecDeque<bool>,
    log: Log,
    _p: PhantomData<fn(T)>,
}

impl<T> Rec<T> {
    pub fn new(script: Option<&Value>, log: &Log) -> Self {
        let (rs, fs) = match script {
            Some(s) => (bools(&s[0]), bools(&s[1])),
            None => (VecDeque::new(), VecDeque::new()),
        };
        Rec { rs, fs, log: log.clone(), _p: PhantomData }
    }
}

fn step(b: bool) -> PushStep<Yes> {
    if b { PushStep::Done } else { PushStep::Pending(Yes) }
}

impl<T: Enc> Push<T, ()> for Rec<T> {
    type Ctx<'ctx> = ();
    type CanPend = Yes;

    fn poll_ready(self: Pin<&mut Self>, _ctx: &mut ()) -> PushStep<Yes> {
        let this = self.get_mut();
        let b = this.rs.pop_front().unwrap_or(true);
        this.log.borrow_mut().push(json!(["r", b as u8]));
        step(b)
    }

    fn start_send(self: Pin<&mut Self>, item: T, _meta: ()) {
        let this = self.get_mut();
        this.log.borrow_mut().push(json!(["s", item.enc()]));
    }

    fn poll_finalize(self: Pin<&mut Self>, _ctx: &mut ()) -> PushStep<Yes> {
        let this = self.get_mut();
        let b = this.fs.pop_front().unwrap_or(true);
        this.log.borrow_mut().push(json!(["f", b as u8]));
        step(b)
    }

    fn size_hint(self: Pin<&mut Self>, _hint: (usize, Option<usize>)) {}
}

/// The caller protocol: per item poll_ready until Done, then start_send; finally poll_finalize
/// until Done.  One unit of fuel per poll.  Returns (outcome, trace).
macro_rules! drive {
    ($p:expr, $items:expr, $fuel:expr, $ctx:expr) => {{
        let mut p = std::pin::pin!($p);
        let mut fuel: u64 = $fuel;
        let mut tr = String::new();
        let mut out = "fin";
        'outer: {
            for item in $items {
                loop {
                    if fuel == 0 {
                        out = "fuel";
                        break 'outer;
                    }
                    fuel -= 1;
                    match p.as_mut().poll_ready($ctx) {
                        PushStep::Done => {
                            tr.push('R');
                            break;
                        }
                        PushStep::Pending(_) => tr.push('r'),
                    }
                }
                p.as_mut().start_send(item, ());
                tr.push('S');
            }
            loop {
                if fuel == 0 {
                    out = "fuel";
                    break 'outer;
                }
                fuel -= 1;
                match p.as_mut().poll_finalize($ctx) {
                    PushStep::Done => {
                        tr.push('F');
                        break;
                    }
                    PushStep::Pending(_) => tr.push('f'),
                }
            }
        }
        (out, tr)
    }};
}

// ------------------------------------------------------------------ closure vocabulary

#[derive(Clone, Copy)]
pub enum F {
    Id,
    Add(u64),
    Mul(u64),
}
impl F {
    pub fn parse(v: &Value) -> F {
        match v[0].as_str() {
            Some("add") => F::Add(v[1].as_u64().unwrap()),
            Some("mul") => F::Mul(v[1].as_u64().unwrap()),
            _ => F::Id,
        }
    }
    pub fn ap(self, x: u64) -> u64 {
        match self {
            F::Id => x,
            F::Add(k) => x + k,
            F::Mul(k) => x * k,
        }
    }
}

#[derive(Clone, Copy)]
pub enum Q {
    True,
    False,
    ModEq(u64, u64),
    Lt(u64),
}
impl Q {
    pub fn parse(v: &Value) -> Q {
        match v[0].as_str() {
            Some("false") => Q::False,
            Some("mod") => Q::ModEq(v[1].as_u64().unwrap(), v[2].as_u64().unwrap()),
            Some("lt") => Q::Lt(v[1].as_u64().unwrap()),
            _ => Q::True,
        }
    }
    pub fn ap(self, x: u64) -> bool {
        match self {
            Q::True => true,
            Q::False => false,
            // Coq's N.modulo x 0 = x
            Q::ModEq(m, r) => (if m == 0 { x } else { x % m }) == r,
            Q::Lt(k) => x < k,
        }
    }
}

#[derive(Clone, Copy)]
pub enum G {
    Rep(u64),
    Range(u64),
    Two,
}
impl G {
    pub fn parse(v: &Value) -> G {
        match v[0].as_str() {
            Some("rep") => G::Rep(v[1].as_u64().unwrap()),
            Some("range") => G::Range(v[1].as_u64().unwrap()),
            _ => G::Two,
        }
    }
    pub fn ap(self, x: u64) -> Vec<u64> {
        let md = |m: u64| if m == 0 { x } else { x % m };
        match self {
            G::Rep(m) => (0..md(m)).map(|_| x).collect(),
            G::Range(m) => (0..md(m)).map(|i| x + i).collect(),
            G::Two => vec![x, x + 10],
        }
    }
}

#[derive(Clone, Copy)]
pub enum O {
    Add,
    Max,
    Min,
}
impl O {
    pub fn parse(v: &Value) -> O {
        match v.as_str() {
            Some("max") => O::Max,
            Some("min") => O::Min,
            _ => O::Add,
        }
    }
    pub fn ap(self, a: u64, x: u64) -> u64 {
        match self {
            O::Add => a + x,
            O::Max => a.max(x),
            O::Min => a.min(x),
        }
    }
}

/// A scripted future: answers Pending `pends` times, then Ready(v).
pub struct Fv {
    v: u64,
    pends: u64,
}
impl std::future::Future for Fv {
    type Output = u64;
    fn poll(self: Pin<&mut Self>, _cx: &mut std::task::Context<'_>) -> std::task::Poll<u64> {
        let this = self.get_mut();
        if this.pends > 0 {
            this.pends -= 1;
            std::task::Poll::Pending
        } else {
            std::task::Poll::Ready(this.v)
        }
    }
}

/// The future-readiness oracle for ResolveFutures: a FIFO queue that polls its head future.
#[derive(Default)]
pub struct ScriptQueue(VecDeque<Fv>);
impl Extend<Fv> for ScriptQueue {
    fn extend<I: IntoIterator<Item = Fv>>(&mut self, iter: I) {
        self.0.extend(iter);
    }
}
impl futures::Stream for ScriptQueue {
    type Item = u64;
    fn poll_next(self: Pin<&mut Self>, cx: &mut std::task::Context<'_>) -> std::task::Poll<Option<u64>> {
        let this = self.get_mut();
        match this.0.front_mut() {
            None => std::task::Poll::Ready(None),
            Some(f) => match Pin::new(f).poll(cx) {
                std::task::Poll::Ready(v) => {
                    this.0.pop_front();
                    std::task::Poll::Ready(Some(v))
                }
                std::task::Poll::Pending => std::task::Poll::Pending,
            },
        }
    }
}
impl futures::stream::FusedStream for ScriptQueue {
    fn is_terminated(&self) -> bool {
        false
    }
}

pub fn items_of(case: &Value) -> Vec<Vec<u64>> {
    case["items"]
        .as_array()
        .map(|a| {
            a.iter()
                .map(|i| i.as_array().map(|l| l.iter().map(|x| x.as_u64().unwrap()).collect()).unwrap_or_default())
                .collect()
        })
        .unwrap_or_default()
}

pub fn nth(i: &[u64], k: usize) -> u64 {
    i.get(k).copied().unwrap_or(0)
}

pub fn finish(out: &str, tr: String, logs: &[Log]) -> Value {
    json!({
        "out": out,
        "trace": tr,
        "logs": logs.iter().map(|l| Value::Array(l.borrow().clone())).collect::<Vec<_>>(),
    })
}

/// Fixes the Meta parameter of a push that is generic in it (ForEach), forwarding every call.
struct UnitMeta<P>(P);
impl<P: Push<u64, ()> + Unpin> Push<u64, ()> for UnitMeta<P> {
    type Ctx<'ctx> = P::Ctx<'ctx>;
    type CanPend = P::CanPend;
    fn poll_ready(self: Pin<&mut Self>, ctx: &mut Self::Ctx<'_>) -> PushStep<Self::CanPend> {
        Pin::new(&mut self.get_mut().0).poll_ready(ctx)
    }
    fn start_send(self: Pin<&mut Self>, item: u64, meta: ()) {
        Pin::new(&mut self.get_mut().0).start_send(item, meta)
    }
    fn poll_finalize(self: Pin<&mut Self>, ctx: &mut Self::Ctx<'_>) -> PushStep<Self::CanPend> {
        Pin::new(&mut self.get_mut().0).poll_finalize(ctx)
    }
    fn size_hint(self: Pin<&mut Self>, hint: (usize, Option<usize>)) {
        Pin::new(&mut self.get_mut().0).size_hint(hint)
    }
}

fn run_push(case: &Value) -> Value {
    let comb = case["comb"].as_str().unwrap_or("");
    let fuel = case["fuel"].as_u64().unwrap_or(1000);
    let items = items_of(case);
    let downs = case["downs"].as_array().cloned().unwrap_or_default();
    let nd = match comb {
        "fanout" | "unzip" | "fanout_fold_keyed" | "pipe_flatmap_fanout" | "pipe_filter_fanout_fold" => 2,
        "demux" => downs.len(),
        _ => 1,
    };
    let logs: Vec<Log> = (0..nd).map(|_| new_log()).collect();
    let rec = |i: usize| Rec::<u64>::new(downs.get(i), &logs[i]);
    let ns = || items.iter().map(|i| nth(i, 0)).collect::<Vec<u64>>();
    let (out, tr) = match comb {
        "map" => {
            let f = F::parse(&case["f"]);
            drive!(push::map(move |x: u64| f.ap(x), rec(0)), ns(), fuel, &mut ())
        }
        "filter" => {
            let q = Q::parse(&case["q"]);
            drive!(push::filter(move |x: &u64| q.ap(*x), rec(0)), ns(), fuel, &mut ())
        }
        "filter_map" => {
            let q = Q::parse(&case["q"]);
            let f = F::parse(&case["f"]);
            drive!(
                push::filter_map(move |x: u64| if q.ap(x) { Some(f.ap(x)) } else { None }, rec(0)),
                ns(),
                fuel,
                &mut ()
            )
        }
        "inspect" => {
            let seen = new_log();
            let seen2 = seen.clone();
            let r = drive!(
                push::inspect(move |x: &u64| seen2.borrow_mut().push(json!(["s", *x])), rec(0)),
                ns(),
                fuel,
                &mut ()
            );
            return finish(r.0, r.1, &[logs[0].clone(), seen]);
        }
        "flat_map" => {
            let g = G::parse(&case["g"]);
            drive!(push::flat_map(move |x: u64| g.ap(x), rec(0)), ns(), fuel, &mut ())
        }
        "flatten" => {
            drive!(push::flatten::<Vec<u64>, (), _>(rec(0)), items.clone(), fuel, &mut ())
        }
        "fanout" => {
            drive!(push::fanout(rec(0), rec(1)), ns(), fuel, &mut ())
        }
        "unzip" => {
            let ps = items.iter().map(|i| (nth(i, 0), nth(i, 1))).collect::<Vec<_>>();
            drive!(push::unzip(rec(0), rec(1)), ps, fuel, &mut ())
        }
        "demux" => {
            let ps = items.iter().map(|i| (nth(i, 0) as usize, nth(i, 1))).collect::<Vec<_>>();
            match nd {
                0 => return json!({ "bad_case": "demux needs at least one downstream" }),
                1 => drive!(push::demux_var(variadics::var_expr!(rec(0))), ps, fuel, &mut ()),
                2 => drive!(push::demux_var(variadics::var_expr!(rec(0), rec(1))), ps, fuel, &mut ()),
                3 => drive!(push::demux_var(variadics::var_expr!(rec(0), rec(1), rec(2))), ps, fuel, &mut ()),
                _ => drive!(
                    push::demux_var(variadics::var_expr!(rec(0), rec(1), rec(2), rec(3))),
                    ps,
                    fuel,
                    &mut ()
                ),
            }
        }
        "fold" => {
            let o = O::parse(&case["o"]);
            let init = case["init"].as_u64().unwrap_or(0);
            drive!(push::fold(init, move |acc: &mut u64, x: u64| *acc = o.ap(*acc, x), rec(0)), ns(), fuel, &mut ())
        }
        "reduce" => {
            let o = O::parse(&case["o"]);
            let init = case["init"].as_u64();
            drive!(push::reduce(init, move |acc: &mut u64, x: u64| *acc = o.ap(*acc, x), rec(0)), ns(), fuel, &mut ())
        }
        "sort_acc" => {
            drive!(push::accumulate(push::SortState::<u64>::new(), rec(0)), ns(), fuel, &mut ())
        }
        "sort" => {
            drive!(push::sort::<u64, _>(rec(0)), ns(), fuel, &mut ())
        }
        "persist" => {
            let mut buf: Vec<u64> =
                case["pre"].as_array().map(|a| a.iter().map(|x| x.as_u64().unwrap()).collect()).unwrap_or_default();
            let replay = case["replay"].as_bool().unwrap_or(false);
            let r = drive!(push::persist_state(&mut buf, replay, rec(0)), ns(), fuel, &mut ());
            let bl = new_log();
            for x in &buf {
                bl.borrow_mut().push(json!(["s", *x]));
            }
            return finish(r.0, r.1, &[logs[0].clone(), bl]);
        }
        "for_each" => {
            let seen = new_log();
            let seen2 = seen.clone();
            let r = drive!(UnitMeta(push::for_each(move |x: u64| seen2.borrow_mut().push(json!(["s", x])))), ns(), fuel, &mut ());
            return finish(r.0, r.1, &[seen]);
        }
        "fold_keyed" | "reduce_keyed" => {
            let o = O::parse(&case["o"]);
            let init = case["init"].as_u64().unwrap_or(0);
            let ps = items.iter().map(|i| (nth(i, 0), nth(i, 1))).collect::<Vec<_>>();
            let mut map = std::collections::HashMap::<u64, u64>::new();
            let next = push::map(|(k, v): (u64, u64)| k * 100000 + v, rec(0));
            if comb == "fold_keyed" {
                let fk = push::FoldKeyed::new(&mut map, move || init, move |acc: &mut u64, v: u64| *acc = o.ap(*acc, v), next);
                drive!(fk, ps, fuel, &mut ())
            } else {
                let rk = push::ReduceKeyed::new(&mut map, move |acc: &mut u64, v: u64| *acc = o.ap(*acc, v), next);
                drive!(rk, ps, fuel, &mut ())
            }
        }
        "resolve" => {
            let waker = if case["waker"].as_bool().unwrap_or(false) { Some(std::task::Waker::noop().clone()) } else { None };
            let fs = items.iter().map(|i| Fv { v: nth(i, 0), pends: nth(i, 1) }).collect::<Vec<_>>();
            let mut queue = ScriptQueue::default();
            let mut cx = std::task::Context::from_waker(std::task::Waker::noop());
            let r = drive!(push::resolve_futures_state(&mut queue, waker, rec(0)), fs, fuel, &mut cx);
            let ql = new_log();
            for f in &queue.0 {
                ql.borrow_mut().push(json!(["s", f.v]));
            }
            return finish(r.0, r.1, &[logs[0].clone(), ql]);
        }
        // pipelines (composition): flat_map -> fanout(rec0, rec1)
        "pipe_flatmap_fanout" => {
            let g = G::parse(&case["g"]);
            drive!(push::flat_map(move |x: u64| g.ap(x), push::fanout(rec(0), rec(1))), ns(), fuel, &mut ())
        }
        // map -> flat_map -> filter -> rec0
        "pipe_map_flatmap_filter" => {
            let f = F::parse(&case["f"]);
            let g = G::parse(&case["g"]);
            let q = Q::parse(&case["q"]);
            drive!(
                push::map(move |x: u64| f.ap(x), push::flat_map(move |x: u64| g.ap(x), push::filter(move |x: &u64| q.ap(*x), rec(0)))),
                ns(),
                fuel,
                &mut ()
            )
        }
        // filter -> fanout(map -> rec0, fold -> rec1)
        "pipe_filter_fanout_fold" => {
            let f = F::parse(&case["f"]);
            let q = Q::parse(&case["q"]);
            let o = O::parse(&case["o"]);
            let init = case["init"].as_u64().unwrap_or(0);
            drive!(
                push::filter(
                    move |x: &u64| q.ap(*x),
                    push::fanout(
                        push::map(move |x: u64| f.ap(x), rec(0)),
                        push::fold(init, move |acc: &mut u64, x: u64| *acc = o.ap(*acc, x), rec(1))
                    )
                ),
                ns(),
                fuel,
                &mut ()
            )
        }
        // consequence probe (no Coq model): resolve_futures(subgraph waker) -> fold -> downstream 0
        "resolve_fold" => {
            let waker = if case["waker"].as_bool().unwrap_or(true) { Some(std::task::Waker::noop().clone()) } else { None };
            let fs = items.iter().map(|i| Fv { v: nth(i, 0), pends: nth(i, 1) }).collect::<Vec<_>>();
            let mut queue = ScriptQueue::default();
            let mut cx = std::task::Context::from_waker(std::task::Waker::noop());
            let fold = push::fold(0u64, |acc: &mut u64, x: u64| *acc += x, rec(0));
            drive!(push::resolve_futures_state(&mut queue, waker, fold), fs, fuel, &mut cx)
        }
        // consequence probe for finding multi-downstream/poll_finalize-after-Done (no Coq model):
        // fanout(fold_keyed(.., downstream 0), downstream 1); items are (key, value) pairs
        "fanout_fold_keyed" => {
            let mut map = std::collections::HashMap::<u64, u64>::new();
            let ps = items.iter().map(|i| (nth(i, 0), nth(i, 1))).collect::<Vec<_>>();
            let r0 = Rec::<(u64, u64)>::new(downs.first(), &logs[0]);
            let r1 = Rec::<(u64, u64)>::new(downs.get(1), &logs[1]);
            let fk = push::FoldKeyed::new(&mut map, || 0u64, |acc: &mut u64, v: u64| *acc += v, r0);
            drive!(push::fanout(fk, r1), ps, fuel, &mut ())
        }
        other => return json!({ "bad_case": format!("unknown combinator {other}") }),
    };
    finish(out, tr, &logs)
}

fn run(case: &Value) -> Value {
    match case["k"].as_str() {
        Some("sink") => sinks::run_sink(case),
        _ => run_push(case),
    }
}

fn main() {
    hvcommon::main_loop(run)
}
