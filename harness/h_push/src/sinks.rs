//! sinktools adaptors (property C14) -- filled in after C12.
use hvcommon::{Value, json};

pub fn run_sink(_case: &Value) -> Value {
    json!({ "bad_case": "sink cases not implemented yet" })
}
