//! sinktools adaptors (property C14): scripted, call-logging `futures::Sink` downstreams with
//! error injection, a scripted initializer future for `LazySink`, and the driver loop
//! (poll_ready until Ready / start_send per item, then poll_flush, then poll_close; stop at the
//! first error) using a no-op waker.
use std::cell::{Cell, RefCell};
use std::collections::VecDeque;
use std::future::Future;
use std::pin::Pin;
use std::rc::Rc;
use std::task::{Context, Poll, Waker};

use futures::Sink;
use hvcommon::{Value, json};

use crate::{F, G, Log, Q, bools, items_of, new_log, nth};

/// 0 = Ready(Ok), 1 = Pending, 2 = Ready(Err)
fn resv(v: &Value) -> VecDeque<u8> {
    v.as_array().map(|a| a.iter().map(|x| x.as_u64().unwrap_or(0) as u8).collect()).unwrap_or_default()
}

pub struct RecSink {
    rs: VecDeque<u8>,
    ss: VecDeque<bool>,
    fs: VecDeque<u8>,
    cs: VecDeque<u8>,
    log: Log,
}

impl RecSink {
    fn new(script: Option<&Value>, log: &Log) -> Self {
        match script {
            Some(s) => RecSink { rs: resv(&s[0]), ss: bools(&s[1]), fs: resv(&s[2]), cs: resv(&s[3]), log: log.clone() },
            None => RecSink { rs: VecDeque::new(), ss: VecDeque::new(), fs: VecDeque::new(), cs: VecDeque::new(), log: log.clone() },
        }
    }
    fn answer(&mut self, tag: &str, r: u8) -> Poll<Result<(), u8>> {
        self.log.borrow_mut().push(json!([tag, r]));
        match r {
            0 => Poll::Ready(Ok(())),
            1 => Poll::Pending,
            _ => Poll::Ready(Err(7)),
        }
    }
}

impl Sink<u64> for RecSink {
    type Error = u8;
    fn poll_ready(self: Pin<&mut Self>, _cx: &mut Context<'_>) -> Poll<Result<(), u8>> {
        let this = self.get_mut();
        let r = this.rs.pop_front().unwrap_or(0);
        this.answer("r", r)
    }
    fn start_send(self: Pin<&mut Self>, item: u64) -> Result<(), u8> {
        let this = self.get_mut();
        let ok = this.ss.pop_front().unwrap_or(true);
        this.log.borrow_mut().push(json!(["s", item, ok as u8]));
        if ok { Ok(()) } else { Err(7) }
    }
    fn poll_flush(self: Pin<&mut Self>, _cx: &mut Context<'_>) -> Poll<Result<(), u8>> {
        let this = self.get_mut();
        let r = this.fs.pop_front().unwrap_or(0);
        this.answer("f", r)
    }
    fn poll_close(self: Pin<&mut Self>, _cx: &mut Context<'_>) -> Poll<Result<(), u8>> {
        let this = self.get_mut();
        let r = this.cs.pop_front().unwrap_or(0);
        this.answer("c", r)
    }
}

/// Initializer future of a lazy sink: Pending `pends` times, then Ok(sink) or Err.
struct InitFut {
    pends: u64,
    result: Option<Result<RecSink, u8>>,
}
impl Future for InitFut {
    type Output = Result<RecSink, u8>;
    fn poll(self: Pin<&mut Self>, _cx: &mut Context<'_>) -> Poll<Self::Output> {
        let this = self.get_mut();
        if this.pends > 0 {
            this.pends -= 1;
            return Poll::Pending;
        }
        Poll::Ready(this.result.take().expect("initializer future polled after completion"))
    }
}

macro_rules! sdrive {
    ($p:expr, $items:expr, $fuel:expr) => {{
        let mut p = std::pin::pin!($p);
        let mut cx = Context::from_waker(Waker::noop());
        let mut fuel: u64 = $fuel;
        let mut tr: Vec<Value> = Vec::new();
        let mut out = "fin";
        'outer: {
            for item in $items {
                loop {
                    if fuel == 0 {
                        out = "fuel";
                        break 'outer;
                    }
                    fuel -= 1;
                    match p.as_mut().poll_ready(&mut cx) {
                        Poll::Ready(Ok(())) => {
                            tr.push(json!(["r", 0]));
                            break;
                        }
                        Poll::Pending => tr.push(json!(["r", 1])),
                        Poll::Ready(Err(_)) => {
                            tr.push(json!(["r", 2]));
                            out = "fail";
                            break 'outer;
                        }
                    }
                }
                match p.as_mut().start_send(item) {
                    Ok(()) => tr.push(json!(["s", 1])),
                    Err(_) => {
                        tr.push(json!(["s", 0]));
                        out = "fail";
                        break 'outer;
                    }
                }
            }
            loop {
                if fuel == 0 {
                    out = "fuel";
                    break 'outer;
                }
                fuel -= 1;
                match p.as_mut().poll_flush(&mut cx) {
                    Poll::Ready(Ok(())) => {
                        tr.push(json!(["f", 0]));
                        break;
                    }
                    Poll::Pending => tr.push(json!(["f", 1])),
                    Poll::Ready(Err(_)) => {
                        tr.push(json!(["f", 2]));
                        out = "fail";
                        break 'outer;
                    }
                }
            }
            loop {
                if fuel == 0 {
                    out = "fuel";
                    break 'outer;
                }
                fuel -= 1;
                match p.as_mut().poll_close(&mut cx) {
                    Poll::Ready(Ok(())) => {
                        tr.push(json!(["c", 0]));
                        break;
                    }
                    Poll::Pending => tr.push(json!(["c", 1])),
                    Poll::Ready(Err(_)) => {
                        tr.push(json!(["c", 2]));
                        out = "fail";
                        break 'outer;
                    }
                }
            }
        }
        (out, tr)
    }};
}

pub fn run_sink(case: &Value) -> Value {
    let comb = case["comb"].as_str().unwrap_or("");
    let fuel = case["fuel"].as_u64().unwrap_or(1000);
    let items = items_of(case);
    let downs = case["downs"].as_array().cloned().unwrap_or_default();
    let nd = if comb == "unzip" { 2 } else { 1 };
    let logs: Vec<Log> = (0..nd).map(|_| new_log()).collect();
    let rec = |i: usize| RecSink::new(downs.get(i), &logs[i]);
    let ns = || items.iter().map(|i| nth(i, 0)).collect::<Vec<u64>>();
    let inits = Rc::new(Cell::new(0u64));
    let (out, tr) = match comb {
        "map" => {
            let f = F::parse(&case["f"]);
            sdrive!(sinktools::map(move |x: u64| f.ap(x), rec(0)), ns(), fuel)
        }
        "filter" => {
            let q = Q::parse(&case["q"]);
            sdrive!(sinktools::filter(move |x: &u64| q.ap(*x), rec(0)), ns(), fuel)
        }
        "filter_map" => {
            let q = Q::parse(&case["q"]);
            let f = F::parse(&case["f"]);
            sdrive!(
                sinktools::filter_map(move |x: u64| if q.ap(x) { Some(f.ap(x)) } else { None }, rec(0)),
                ns(),
                fuel
            )
        }
        "flat_map" => {
            let g = G::parse(&case["g"]);
            sdrive!(sinktools::flat_map(move |x: u64| g.ap(x), rec(0)), ns(), fuel)
        }
        "flatten" => {
            sdrive!(sinktools::flatten::<Vec<u64>, _>(rec(0)), items.clone(), fuel)
        }
        "unzip" => {
            let ps = items.iter().map(|i| (nth(i, 0), nth(i, 1))).collect::<Vec<_>>();
            sdrive!(sinktools::unzip(rec(0), rec(1)), ps, fuel)
        }
        "lazy" => {
            let pends = case["init_pends"].as_u64().unwrap_or(0);
            let ok = case["init_ok"].as_bool().unwrap_or(true);
            let inner = RefCell::new(Some(rec(0)));
            let inits2 = inits.clone();
            let lazy = sinktools::lazy::LazySink::new(move || {
                inits2.set(inits2.get() + 1);
                let sink = inner.borrow_mut().take().expect("initializer called twice");
                InitFut { pends, result: Some(if ok { Ok(sink) } else { Err(9) }) }
            });
            sdrive!(lazy, ns(), fuel)
        }
        "for_each" => {
            let l2 = logs[0].clone();
            sdrive!(sinktools::for_each(move |x: u64| l2.borrow_mut().push(json!(["s", x, 1]))), ns(), fuel)
        }
        "try_for_each" => {
            let q = Q::parse(&case["q"]);
            let l2 = logs[0].clone();
            sdrive!(
                sinktools::try_for_each(move |x: u64| -> Result<(), u8> {
                    let ok = !q.ap(x);
                    l2.borrow_mut().push(json!(["s", x, ok as u8]));
                    if ok { Ok(()) } else { Err(7) }
                }),
                ns(),
                fuel
            )
        }
        "send_iter" => {
            let mut fut = std::pin::pin!(sinktools::send_iter(ns().into_iter(), rec(0)));
            let mut cx = Context::from_waker(Waker::noop());
            let mut left = fuel;
            let mut tr: Vec<Value> = Vec::new();
            let mut out = "fuel";
            while left > 0 {
                left -= 1;
                match fut.as_mut().poll(&mut cx) {
                    Poll::Ready(Ok(())) => {
                        tr.push(json!(["r", 0]));
                        out = "fin";
                        break;
                    }
                    Poll::Ready(Err(_)) => {
                        tr.push(json!(["r", 2]));
                        out = "fail";
                        break;
                    }
                    Poll::Pending => tr.push(json!(["r", 1])),
                }
            }
            (out, tr)
        }
        other => return json!({ "bad_case": format!("unknown sink adaptor {other}") }),
    };
    json!({
        "out": out,
        "trace": tr,
        "logs": logs.iter().map(|l| Value::Array(l.borrow().clone())).collect::<Vec<_>>(),
        "inits": inits.get(),
    })
}
