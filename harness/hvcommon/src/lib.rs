//! Shared driver for the correspondence harnesses: reads one JSON case per line from the file
//! given as first argument, runs it on a worker thread (panics caught, hangs bounded by a
//! watchdog) and prints exactly one JSON result line per case.
use std::io::{BufRead, Write};
use std::panic::{AssertUnwindSafe, catch_unwind};
use std::sync::mpsc;
use std::time::Duration;

pub use serde_json::{Value, json};

pub fn panic_message(e: Box<dyn std::any::Any + Send>) -> String {
    let s = if let Some(s) = e.downcast_ref::<&str>() {
        (*s).to_owned()
    } else if let Some(s) = e.downcast_ref::<String>() {
        s.clone()
    } else {
        "<non-string panic>".to_owned()
    };
    s.lines().next().unwrap_or("").to_owned()
}

/// Run `f`, mapping a panic to `{"panic": first line}`.
pub fn guarded<F: FnOnce() -> Value>(f: F) -> Value {
    match catch_unwind(AssertUnwindSafe(f)) {
        Ok(v) => v,
        Err(e) => json!({ "panic": panic_message(e) }),
    }
}

pub fn main_loop(run: fn(&Value) -> Value) {
    std::panic::set_hook(Box::new(|_| {}));
    let path = std::env::args().nth(1).expect("usage: <harness> <cases.jsonl>");
    let timeout_ms: u64 = std::env::var("HV_CASE_TIMEOUT_MS")
        .ok()
        .and_then(|s| s.parse().ok())
        .unwrap_or(10_000);
    let file = std::io::BufReader::new(std::fs::File::open(&path).expect("open case file"));
    let cases: Vec<String> = file.lines().map(|l| l.unwrap()).filter(|l| !l.trim().is_empty()).collect();
    let stdout = std::io::stdout();
    let mut out = std::io::BufWriter::new(stdout.lock());
    let mut idx = 0usize;
    while idx < cases.len() {
        // a fresh worker for the remaining cases (a hung worker is abandoned)
        let (tx, rx) = mpsc::channel::<(usize, Value)>();
        let rest: Vec<(usize, String)> = cases[idx..].iter().cloned().enumerate().map(|(i, c)| (i + idx, c)).collect();
        std::thread::Builder::new()
            .stack_size(64 << 20)
            .spawn(move || {
                for (i, line) in rest {
                    let res = match serde_json::from_str::<Value>(&line) {
                        Ok(case) => guarded(|| run(&case)),
                        Err(e) => json!({ "bad_case": e.to_string() }),
                    };
                    if tx.send((i, res)).is_err() {
                        return;
                    }
                }
            })
            .unwrap();
        loop {
            if idx >= cases.len() {
                break;
            }
            match rx.recv_timeout(Duration::from_millis(timeout_ms)) {
                Ok((i, v)) => {
                    assert_eq!(i, idx);
                    writeln!(out, "{}", v).unwrap();
                    idx += 1;
                }
                Err(mpsc::RecvTimeoutError::Timeout) => {
                    writeln!(out, "{}", json!({ "hang": true })).unwrap();
                    idx += 1;
                    break; // abandon this worker
                }
                Err(mpsc::RecvTimeoutError::Disconnected) => {
                    writeln!(out, "{}", json!({ "panic": "worker died" })).unwrap();
                    idx += 1;
                    break;
                }
            }
        }
    }
    out.flush().unwrap();
}
