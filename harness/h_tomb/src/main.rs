//! C05 correspondence harness: histories and merge trees of tombstone-lattice replica states on
//! the three tombstone backends (HashSet<u64>, RoaringTombstoneSet, FstTombstoneSet<String>).
//!
//! case: {"kind":"set"|"mapmax"|"mapset", "states":[[live, tomb], ...], "tree": <idx | [l, r]>}
//!   live = [item..] (set) | [[key, value]..] (maps; value = u8 for mapmax, [u8..] for mapset)
//! states[0] is the receiving replica, the others are merged into it in order (history);
//! the tree is evaluated bottom-up by merging the right subtree's value into the left one's.
//! result: {"hash"|"roaring"|"fst": {"steps":[{"live","tomb","ch","bot","cmp","eq"}..], "tree":[live,tomb]}}
//! (cmp / eq only on the hash backend: the other tombstone sets lack the collection traits).
//! maps additionally: "hash_bt" = hash-map receiver absorbing b-tree-map deltas (steps only).
use std::cmp::Ordering;
use std::collections::{HashMap, HashSet};
use std::hash::Hash;

use hvcommon::{Value, json};
use lattices::map_union_with_tombstones::MapUnionWithTombstones;
use lattices::set_union::SetUnionHashSet;
use lattices::set_union_with_tombstones::SetUnionWithTombstones;
use lattices::tombstone::{FstTombstoneSet, RoaringTombstoneSet, TombstoneSet};
use lattices::{IsBot, LatticeFrom, Max, Merge};

// ------------------------------------------------------------------ item encodings
/// fixed injective N -> backend item
trait Key: Clone + Eq + Hash {
    fn enc(n: u64) -> Self;
    fn dec(&self) -> u64;
}


impl Key for u64 {
    fn enc(n: u64) -> u64 {
        n
    }
    fn dec(&self) -> u64 {
        *self
    }
}

/// u64 spread over several RoaringTreemap partitions (high 32 bits differ) -- roaring backend

fn spread(n: u64) -> u64 {
    ((n % 3) << 33) | n
}
fn unspread(x: u64) -> u64 {
    x & 0xffff_ffff
}

const NAMES: [&str; 6] = ["zeta", "alpha", "mu", "beta", "omega", "gamma"];

impl Key for String {
    fn enc(n: u64) -> String {
        // not order preserving (FST keeps keys sorted), injective because n is part of the name
        format!("{}-{}", NAMES[(n % 6) as usize], n)
    }
    fn dec(&self) -> u64 {
        self.rsplit('-').next().unwrap().parse().unwrap()
    }
}

fn cmp_json(c: Option<Ordering>) -> Value {
    match c {
        None => Value::Null,
        Some(Ordering::Less) => json!("Lt"),
        Some(Ordering::Equal) => json!("Eq"),
        Some(Ordering::Greater) => json!("Gt"),
    }
}

fn u64s(v: &Value) -> Vec<u64> {
    v.as_array().unwrap().iter().map(|x| x.as_u64().unwrap()).collect()
}

// ------------------------------------------------------------------ a backend under test
/// one lattice type under test, built from / revealed to the JSON form of the model's state
trait Backend: Clone {
    fn build(state: &Value) -> Self;
    fn reveal(&self) -> (Value, Value);
    fn merge_in(&mut self, other: Self) -> bool;
    fn bot(&self) -> bool;
    fn cmp_eq(&self, other: &Self) -> Option<(Option<Ordering>, bool)>;
}

fn eval_tree<B: Backend>(states: &[B], tree: &Value) -> B {
    if let Some(i) = tree.as_u64() {
        states[i as usize].clone()
    } else {
        let a = tree.as_array().unwrap();
        let mut l = eval_tree(states, &a[0]);
        let r = eval_tree(states, &a[1]);
        l.merge_in(r);
        l
    }
}

fn run_backend<B: Backend>(case: &Value) -> Value {
    let states: Vec<B> = case["states"].as_array().unwrap().iter().map(B::build).collect();
    let mut acc = states[0].clone();
    let mut steps = Vec::new();
    for o in &states[1..] {
        let ce = acc.cmp_eq(o);
        let ch = acc.merge_in(o.clone());
        let (live, tomb) = acc.reveal();
        let mut st = json!({"live": live, "tomb": tomb, "ch": ch, "bot": acc.bot()});
        if let Some((c, e)) = ce {
            st["cmp"] = cmp_json(c);
            st["eq"] = json!(e);
            st["has_cmp"] = json!(true);
        }
        steps.push(st);
    }
    let t = eval_tree(&states, &case["tree"]);
    let (live, tomb) = t.reveal();
    json!({"steps": steps, "tree": [live, tomb]})
}

// ------------------------------------------------------------------ sets
#[derive(Clone)]
struct SetB<K, T, const CMP: bool>(SetUnionWithTombstones<HashSet<K>, T>);

macro_rules! set_backend {
    ($k:ty, $t:ty, $enc:expr, $dec:expr, $cmp:tt) => {
        impl Backend for SetB<$k, $t, { $cmp }> {
            fn build(state: &Value) -> Self {
                let live: HashSet<$k> = u64s(&state[0]).into_iter().map($enc).collect();
                let tomb: $t = u64s(&state[1]).into_iter().map($enc).collect();
                SetB(SetUnionWithTombstones::new(live, tomb))
            }
            fn reveal(&self) -> (Value, Value) {
                let (s, t) = self.0.clone().into_reveal();
                let mut s: Vec<u64> = s.into_iter().map($dec).collect();
                let mut t: Vec<u64> = t.into_iter().map($dec).collect();
                s.sort();
                t.sort();
                (json!(s), json!(t))
            }
            fn merge_in(&mut self, other: Self) -> bool {
                self.0.merge(other.0)
            }
            fn bot(&self) -> bool {
                self.0.is_bot()
            }
            fn cmp_eq(&self, other: &Self) -> Option<(Option<Ordering>, bool)> {
                set_cmp_eq(self, other)
            }
        }
    };
}

trait MaybeCmp: Sized {
    fn mc(a: &Self, b: &Self) -> Option<(Option<Ordering>, bool)>;
}
fn set_cmp_eq<X: MaybeCmp>(a: &X, b: &X) -> Option<(Option<Ordering>, bool)> {
    X::mc(a, b)
}
impl MaybeCmp for SetB<u64, HashSet<u64>, true> {
    fn mc(a: &Self, b: &Self) -> Option<(Option<Ordering>, bool)> {
        Some((a.0.partial_cmp(&b.0), a.0 == b.0))
    }
}
impl MaybeCmp for SetB<u64, RoaringTombstoneSet, false> {
    fn mc(_: &Self, _: &Self) -> Option<(Option<Ordering>, bool)> {
        None
    }
}
impl MaybeCmp for SetB<String, FstTombstoneSet<String>, false> {
    fn mc(_: &Self, _: &Self) -> Option<(Option<Ordering>, bool)> {
        None
    }
}

set_backend!(u64, HashSet<u64>, <u64 as Key>::enc, |x: u64| x.dec(), true);
set_backend!(u64, RoaringTombstoneSet, spread, unspread, false);
set_backend!(String, FstTombstoneSet<String>, <String as Key>::enc, |x: String| x.dec(), false);

// ------------------------------------------------------------------ maps
trait Val: Clone {
    fn from_json(v: &Value) -> Self;
    fn to_json(&self) -> Value;
}
impl Val for Max<u8> {
    fn from_json(v: &Value) -> Self {
        Max::new(v.as_u64().unwrap() as u8)
    }
    fn to_json(&self) -> Value {
        json!(*self.as_reveal_ref())
    }
}
impl Val for SetUnionHashSet<u8> {
    fn from_json(v: &Value) -> Self {
        SetUnionHashSet::new(u64s(v).into_iter().map(|x| x as u8).collect())
    }
    fn to_json(&self) -> Value {
        let mut s: Vec<u8> = self.as_reveal_ref().iter().copied().collect();
        s.sort();
        json!(s)
    }
}

#[derive(Clone)]
struct MapB<K, W, T, const CMP: bool>(MapUnionWithTombstones<HashMap<K, W>, T>);

macro_rules! map_backend {
    ($k:ty, $t:ty, $enc:expr, $dec:expr, $cmp:tt) => {
        impl<W> Backend for MapB<$k, W, $t, { $cmp }>
        where
            W: Val + Merge<W> + LatticeFrom<W> + IsBot + PartialOrd + PartialEq,
        {
            fn build(state: &Value) -> Self {
                let live: HashMap<$k, W> = state[0]
                    .as_array()
                    .unwrap()
                    .iter()
                    .map(|kv| ($enc(kv[0].as_u64().unwrap()), W::from_json(&kv[1])))
                    .collect();
                let tomb: $t = u64s(&state[1]).into_iter().map($enc).collect();
                MapB(MapUnionWithTombstones::new(live, tomb))
            }
            fn reveal(&self) -> (Value, Value) {
                let (s, t) = self.0.clone().into_reveal();
                let mut s: Vec<(u64, Value)> = s.into_iter().map(|(k, v)| ($dec(k), v.to_json())).collect();
                let mut t: Vec<u64> = t.into_iter().map($dec).collect();
                s.sort_by_key(|kv| kv.0);
                t.sort();
                (json!(s), json!(t))
            }
            fn merge_in(&mut self, other: Self) -> bool {
                self.0.merge(other.0)
            }
            fn bot(&self) -> bool {
                self.0.is_bot()
            }
            fn cmp_eq(&self, other: &Self) -> Option<(Option<Ordering>, bool)> {
                map_cmp_eq!($cmp, self, other)
            }
        }
    };
}

macro_rules! map_cmp_eq {
    (true, $a:expr, $b:expr) => {
        Some(($a.0.partial_cmp(&$b.0), $a.0 == $b.0))
    };
    (false, $a:expr, $b:expr) => {{
        let _ = (&$a, &$b);
        None
    }};
}

map_backend!(u64, HashSet<u64>, <u64 as Key>::enc, |x: u64| x.dec(), true);
map_backend!(u64, RoaringTombstoneSet, spread, unspread, false);
map_backend!(String, FstTombstoneSet<String>, <String as Key>::enc, |x: String| x.dec(), false);

/// hash-map receiver, b-tree-map deltas: the delta's keys are visited in ascending order, so the
/// result (in particular the changed flag) does not depend on hash iteration order
fn run_map_bt<W>(case: &Value) -> Value
where
    W: Val + Merge<W> + LatticeFrom<W> + IsBot + PartialOrd + PartialEq,
{
    type Recv<W> = MapUnionWithTombstones<HashMap<u64, W>, HashSet<u64>>;
    type Delta<W> = MapUnionWithTombstones<std::collections::BTreeMap<u64, W>, HashSet<u64>>;
    let states = case["states"].as_array().unwrap();
    let entries = |st: &Value| -> Vec<(u64, W)> {
        st[0].as_array().unwrap().iter().map(|kv| (kv[0].as_u64().unwrap(), W::from_json(&kv[1]))).collect()
    };
    let mut acc: Recv<W> = MapUnionWithTombstones::new(
        entries(&states[0]).into_iter().collect(),
        u64s(&states[0][1]).into_iter().collect(),
    );
    let mut steps = Vec::new();
    for st in &states[1..] {
        let delta: Delta<W> =
            MapUnionWithTombstones::new(entries(st).into_iter().collect(), u64s(&st[1]).into_iter().collect());
        let ch = acc.merge(delta);
        let (m, t) = acc.clone().into_reveal();
        let mut m: Vec<(u64, Value)> = m.into_iter().map(|(k, v)| (k, v.to_json())).collect();
        let mut t: Vec<u64> = t.into_iter().collect();
        m.sort_by_key(|kv| kv.0);
        t.sort();
        steps.push(json!({"live": m, "tomb": t, "ch": ch, "bot": acc.is_bot()}));
    }
    json!({ "steps": steps })
}

// keep the TombstoneSet trait import honest: the merges above go through it
#[allow(dead_code)]
fn _uses_trait<K, T: TombstoneSet<K>>(_: &T) {}

fn run(case: &Value) -> Value {
    match case["kind"].as_str().unwrap() {
        "set" => json!({
            "hash": run_backend::<SetB<u64, HashSet<u64>, true>>(case),
            "roaring": run_backend::<SetB<u64, RoaringTombstoneSet, false>>(case),
            "fst": run_backend::<SetB<String, FstTombstoneSet<String>, false>>(case),
        }),
        "mapmax" => json!({
            "hash": run_backend::<MapB<u64, Max<u8>, HashSet<u64>, true>>(case),
            "roaring": run_backend::<MapB<u64, Max<u8>, RoaringTombstoneSet, false>>(case),
            "fst": run_backend::<MapB<String, Max<u8>, FstTombstoneSet<String>, false>>(case),
            "hash_bt": run_map_bt::<Max<u8>>(case),
        }),
        "mapset" => json!({
            "hash": run_backend::<MapB<u64, SetUnionHashSet<u8>, HashSet<u64>, true>>(case),
            "roaring": run_backend::<MapB<u64, SetUnionHashSet<u8>, RoaringTombstoneSet, false>>(case),
            "fst": run_backend::<MapB<String, SetUnionHashSet<u8>, FstTombstoneSet<String>, false>>(case),
            "hash_bt": run_map_bt::<SetUnionHashSet<u8>>(case),
        }),
        k => json!({"bad_kind": k}),
    }
}

fn main() {
    hvcommon::main_loop(run)
}
