//! Correspondence harness for the partitioner engine (C18, C19, C20, C42).
//!
//! Every case builds a flat `DfirGraph` from DFIR *surface syntax text* through the real parser and
//! `FlatGraphBuilder`, runs the real passes (`merge_modules`, `eliminate_extra_unions_tees`,
//! `partition_graph`, `as_code`, serde_json) and dumps the graphs in a canonical form:
//! slot indices of the slotmap keys are the node/edge/loop/subgraph ids, and every list is in the
//! iteration order the real code itself observes (`node_ids()`, `edges()`, `loops()`, ...).
use std::collections::BTreeMap;

use dfir_lang::diagnostic::{Diagnostics, Level};
use dfir_lang::graph::ops::{DelayType, OPERATORS, PortListSpec};
use dfir_lang::graph::{
    DfirGraph, FlatGraphBuilder, FlatGraphBuilderOutput, GraphEdgeId, GraphNode, GraphNodeId,
    HandoffKind, PortIndexValue, WriteConfig, build_dfir_code, eliminate_extra_unions_tees,
    partition_graph,
};
use dfir_lang::parse::{DfirCode, IndexInt};
use hvcommon::{Value, json};
use quote::ToTokens;
use slotmap::Key;

fn kidx<K: Key>(k: K) -> u64 {
    k.data().as_ffi() & 0xffff_ffff
}
fn kver<K: Key>(k: K) -> u64 {
    k.data().as_ffi() >> 32
}

fn port_json(p: &PortIndexValue) -> Value {
    match p {
        PortIndexValue::Elided(_) => Value::Null,
        PortIndexValue::Int(i) => json!({ "i": i.value }),
        PortIndexValue::Path(p) => json!({ "p": p.to_token_stream().to_string() }),
    }
}

fn delay_json(d: Option<DelayType>) -> Value {
    match d {
        None => Value::Null,
        Some(d) => json!(format!("{:?}", d)),
    }
}

/// Canonical dump of a flat or partitioned graph.
fn dump_graph(g: &DfirGraph) -> Value {
    let colors = g.node_color_map();
    let mut nodes = Vec::new();
    for (nid, node) in g.nodes() {
        let (k, hk, mb_input) = match node {
            GraphNode::Operator(_) => ("op", Value::Null, Value::Null),
            GraphNode::Handoff { kind, .. } => (
                "hoff",
                json!(match kind {
                    HandoffKind::Vec => "Vec",
                    HandoffKind::Singleton => "Singleton",
                    HandoffKind::Optional => "Optional",
                }),
                Value::Null,
            ),
            GraphNode::ModuleBoundary { input, .. } => ("mb", Value::Null, json!(*input)),
        };
        let refs: Vec<Value> = g
            .node_handoff_references(nid)
            .iter()
            .map(|r| json!({ "t": r.node_id.map(kidx), "m": r.is_mut, "g": r.access_group }))
            .collect();
        let args = match node {
            GraphNode::Operator(op) => json!(op.to_token_stream().to_string()),
            _ => Value::Null,
        };
        nodes.push(json!({
            "id": kidx(nid), "ver": kver(nid), "k": k, "hk": hk, "mb_input": mb_input,
            "name": node.to_name_string(), "pretty": node.to_pretty_string(), "tokens": args,
            "has_inst": g.node_op_inst(nid).is_some(),
            "loop": g.node_loop(nid).map(kidx),
            "refs": refs,
            "sg": g.node_subgraph(nid).map(kidx),
            "color": colors.get(nid).map(|c| format!("{:?}", c)),
            "delay": delay_json(g.handoff_delay_type(nid)),
            "varname": g.node_varname(nid).map(|v| v.0.to_string()),
            "preds": g.node_predecessors(nid).map(|(e, n)| json!([kidx(e), kidx(n)])).collect::<Vec<_>>(),
            "succs": g.node_successors(nid).map(|(e, n)| json!([kidx(e), kidx(n)])).collect::<Vec<_>>(),
        }));
    }
    let mut edges = Vec::new();
    for (eid, (src, dst)) in g.edges() {
        let (sp, dp) = g.edge_ports(eid);
        let dd = g
            .node_op_inst(dst)
            .and_then(|inst| (inst.op_constraints.input_delaytype_fn)(dp));
        edges.push(json!({
            "id": kidx(eid), "ver": kver(eid), "src": kidx(src), "dst": kidx(dst),
            "sp": port_json(sp), "dp": port_json(dp), "dd": delay_json(dd),
        }));
    }
    let loops: Vec<Value> = g
        .loops()
        .map(|(lid, ns)| {
            json!({ "id": kidx(lid), "parent": g.loop_parent(lid).map(kidx),
                    "nodes": ns.iter().map(|&n| kidx(n)).collect::<Vec<_>>(),
                    "children": g.loop_children(lid).iter().map(|&l| kidx(l)).collect::<Vec<_>>() })
        })
        .collect();
    let subgraphs: Vec<Value> = g
        .subgraphs()
        .map(|(sid, ns)| json!({ "id": kidx(sid), "nodes": ns.iter().map(|&n| kidx(n)).collect::<Vec<_>>() }))
        .collect();
    json!({
        "nodes": nodes, "edges": edges, "loops": loops, "subgraphs": subgraphs,
        "root_loops": g.root_loops().iter().map(|&l| kidx(l)).collect::<Vec<_>>(),
        "toposort": g.subgraph_toposort().iter().map(|&s| kidx(s)).collect::<Vec<_>>(),
    })
}

fn diag_msgs(d: &Diagnostics) -> Vec<Value> {
    d.iter()
        .map(|x| json!({ "level": format!("{:?}", x.level), "msg": x.message.to_string() }))
        .collect()
}

fn root() -> proc_macro2::TokenStream {
    quote::quote! { dfir_rs }
}

/// The operator catalogue, as observed through the public `OPERATORS` table.
fn optable() -> Value {
    let sample_ports: Vec<(String, PortIndexValue)> = {
        let mut v = vec![("elided".to_owned(), PortIndexValue::Elided(None))];
        for i in 0..8isize {
            v.push((
                format!("{}", i),
                PortIndexValue::Int(IndexInt { value: i, span: proc_macro2::Span::call_site() }),
            ));
        }
        for name in ["pos", "neg", "input", "signal", "items", "zzz"] {
            v.push((name.to_owned(), PortIndexValue::Path(syn::parse_str(name).unwrap())));
        }
        v
    };
    let ops: Vec<Value> = OPERATORS
        .iter()
        .map(|op| {
            let range = |r: &'static dyn dfir_lang::graph::ops::RangeTrait<usize>| -> Value {
                let lo = (0..=64usize).find(|n| r.contains(n));
                let hi_unbounded = r.contains(&100_000usize);
                let hi = (0..=64usize).rev().find(|n| r.contains(n));
                let contiguous = match (lo, hi) {
                    (Some(lo), Some(hi)) => (lo..=hi).all(|n| r.contains(&n)),
                    _ => true,
                };
                json!({ "lo": lo, "hi": if hi_unbounded { Value::Null } else { json!(hi) },
                        "unbounded": hi_unbounded, "contiguous": contiguous })
            };
            let ports = |f: Option<fn() -> PortListSpec>| -> Value {
                match f {
                    None => Value::Null,
                    Some(f) => match f() {
                        PortListSpec::Variadic => json!("variadic"),
                        PortListSpec::Fixed(ps) => json!(
                            ps.iter().map(|p| p.to_token_stream().to_string()).collect::<Vec<_>>()
                        ),
                    },
                }
            };
            let delays: Vec<Value> = sample_ports
                .iter()
                .map(|(n, p)| json!([n, delay_json((op.input_delaytype_fn)(p))]))
                .collect();
            json!({
                "name": op.name,
                "hard_inn": range(op.hard_range_inn), "soft_inn": range(op.soft_range_inn),
                "hard_out": range(op.hard_range_out), "soft_out": range(op.soft_range_out),
                "num_args": op.num_args,
                "persistence_args": range(op.persistence_args), "type_args": range(op.type_args),
                "is_external_input": op.is_external_input,
                "flo_type": op.flo_type.map(|f| format!("{:?}", f)),
                "ports_inn": ports(op.ports_inn), "ports_out": ports(op.ports_out),
                "delays": delays,
            })
        })
        .collect();
    json!({ "ops": ops })
}

/// Replica of the front half of `build_dfir_code`, keeping the intermediate graphs.
/// Returns Err(result json) on parse/build errors.
fn build_flat(src: &str, elim: bool) -> Result<(DfirGraph, Diagnostics), Value> {
    let code: DfirCode = match syn::parse_str(src) {
        Ok(c) => c,
        Err(e) => return Err(json!({ "parse_err": e.to_string() })),
    };
    let FlatGraphBuilderOutput { mut flat_graph, uses: _, mut diagnostics } =
        match FlatGraphBuilder::from_dfir(code).build() {
            Ok(o) => o,
            Err(d) => return Err(json!({ "build_err": diag_msgs(&d) })),
        };
    if elim {
        if let Err(d) = flat_graph.merge_modules() {
            return Err(json!({ "build_err": [{"level": "Error", "msg": d.message.to_string()}] }));
        }
        eliminate_extra_unions_tees(&mut flat_graph);
        for (_e, (src, dst)) in flat_graph.edges() {
            if matches!(flat_graph.node(src), GraphNode::Handoff { .. })
                && matches!(flat_graph.node(dst), GraphNode::Handoff { .. })
            {
                diagnostics.push(dfir_lang::diagnostic::Diagnostic::spanned(
                    proc_macro2::Span::call_site(),
                    Level::Error,
                    "Adjacent handoff/singleton operators are not allowed. Remove one or insert an operator between them.",
                ));
            }
        }
        if diagnostics.has_error() {
            return Err(json!({ "build_err": diag_msgs(&diagnostics) }));
        }
    }
    Ok((flat_graph, diagnostics))
}

fn compile(case: &Value) -> Value {
    let src = case["src"].as_str().unwrap_or("");
    let elim = case["elim"].as_bool().unwrap_or(true);
    let (flat, _diags) = match build_flat(src, elim) {
        Ok(x) => x,
        Err(v) => return v,
    };
    let flat_dump = dump_graph(&flat);
    let part = hvcommon::guarded(|| match partition_graph(flat) {
        Ok(p) => {
            let dump = dump_graph(&p);
            let js = serde_json::to_string(&p).unwrap();
            let mut diagnostics = Diagnostics::new();
            let code = match p.as_code(&root(), true, quote::quote! {}, &mut diagnostics) {
                Ok(ts) => json!({ "ok": ts.to_string() }),
                Err(d) => json!({ "err": diag_msgs(&d) }),
            };
            json!({ "ok": dump, "json_len": js.len(), "code": code })
        }
        Err(e) => json!({ "err": e.diagnostic.message.to_string(), "flat_back": dump_graph(&e.flat_graph) }),
    });
    json!({ "flat": flat_dump, "part": part })
}

/// C42: the complete pipeline (`build_dfir_code`) several times; all renderings of the result.
fn c42_once(src: &str) -> Value {
    let code: DfirCode = match syn::parse_str(src) {
        Ok(c) => c,
        Err(e) => return json!({ "parse_err": e.to_string() }),
    };
    hvcommon::guarded(|| match build_dfir_code(code, &root()) {
        Ok(out) => {
            let g = &out.partitioned_graph;
            json!({
                "json": serde_json::to_string(g).unwrap(),
                "code": out.code.to_string(),
                "mermaid": g.to_mermaid(&WriteConfig::default()),
                "dot": g.to_dot(&WriteConfig::default()),
                "surface": g.surface_syntax_string(),
                "diags": diag_msgs(&out.diagnostics),
            })
        }
        Err(d) => json!({ "err": diag_msgs(&d) }),
    })
}

fn c42(case: &Value) -> Value {
    let src = case["src"].as_str().unwrap_or("");
    let reps = case["reps"].as_u64().unwrap_or(4) as usize;
    let first = c42_once(src);
    let mut same = true;
    let mut diff_keys: Vec<String> = Vec::new();
    for _ in 1..reps {
        // fresh std RandomState keys for every HashMap/HashSet created in this repetition;
        // also perturb the allocator state so that addresses differ between repetitions
        let _junk: Vec<Vec<u8>> = (0..17).map(|i| vec![0u8; 1 + i * 37]).collect();
        let other = c42_once(src);
        if other != first {
            same = false;
            if let (Some(a), Some(b)) = (first.as_object(), other.as_object()) {
                for (k, v) in a {
                    if b.get(k) != Some(v) && !diff_keys.contains(k) {
                        diff_keys.push(k.clone());
                    }
                }
            }
        }
        std::mem::forget(_junk);
    }
    json!({ "first": first, "same": same, "reps": reps, "diff_keys": diff_keys })
}

/// Generated identifiers embed source locations (`op_1v1__map__loc_nopath_1_0_1_17`), which serde
/// does not keep (spans are `#[serde(skip)]`): drop the `__loc_...` tail of every identifier.
fn strip_loc(s: &str) -> String {
    let mut out = String::with_capacity(s.len());
    let mut rest = s;
    while let Some(i) = rest.find("__loc_") {
        out.push_str(&rest[..i]);
        let tail = &rest[i..];
        let end = tail
            .char_indices()
            .find(|(_, c)| !(c.is_ascii_alphanumeric() || *c == '_'))
            .map(|(j, _)| j)
            .unwrap_or(tail.len());
        rest = &tail[end..];
    }
    out.push_str(rest);
    out
}

/// C20: rewrites before/after, and the serde round trip.
fn rewrite(case: &Value) -> Value {
    let src = case["src"].as_str().unwrap_or("");
    let (mut g, _d) = match build_flat(src, false) {
        Ok(x) => x,
        Err(v) => return v,
    };
    let before = dump_graph(&g);
    // Module boundaries: each group of edge positions (in `edges()` order of the flat graph)
    // is routed through one fresh ModuleBoundary node, port i for the i-th edge of the group.
    let mut mb_log = Vec::new();
    if let Some(groups) = case["mb"].as_array() {
        let edge_list: Vec<(GraphEdgeId, (GraphNodeId, GraphNodeId))> = g.edges().collect();
        let mut used = std::collections::BTreeSet::new();
        for (gi, grp) in groups.iter().enumerate() {
            let idxs: Vec<usize> = grp["edges"].as_array().map(|a| a.iter().filter_map(|x| x.as_u64()).map(|x| x as usize).collect()).unwrap_or_default();
            let named = grp["named"].as_bool().unwrap_or(false);
            let input = grp["input"].as_bool().unwrap_or(gi % 2 == 0);
            let idxs: Vec<usize> = idxs.into_iter().filter(|i| *i < edge_list.len() && used.insert(*i)).collect();
            if idxs.is_empty() {
                continue;
            }
            let mb = g.insert_node(
                GraphNode::ModuleBoundary { input, import_expr: proc_macro2::Span::call_site() },
                None,
                None,
            );
            for (pi, &ei) in idxs.iter().enumerate() {
                let (eid, (s, d)) = edge_list[ei];
                let (sp, dp) = { let (a, b) = g.edge_ports(eid); (a.clone(), b.clone()) };
                g.remove_edge(eid);
                let mk = || -> PortIndexValue {
                    if named {
                        PortIndexValue::Path(syn::parse_str(&format!("p{}", pi)).unwrap())
                    } else if idxs.len() == 1 {
                        PortIndexValue::Elided(None)
                    } else {
                        PortIndexValue::Int(IndexInt { value: pi as isize, span: proc_macro2::Span::call_site() })
                    }
                };
                g.insert_edge(s, sp, mb, mk());
                g.insert_edge(mb, mk(), d, dp);
                mb_log.push(json!([kidx(mb), ei]));
            }
        }
    }
    let with_mb = dump_graph(&g);
    let mm = hvcommon::guarded(|| match g.merge_modules() {
        Ok(()) => json!("ok"),
        Err(d) => json!({ "err": d.message.to_string() }),
    });
    let after_mm = dump_graph(&g);
    // explicit remove_intermediate_node calls (any 1-in 1-out node named by the case)
    let mut rm_log = Vec::new();
    if let Some(rms) = case["rm"].as_array() {
        for r in rms {
            let Some(want) = r.as_u64() else { continue };
            let Some(nid) = g.node_ids().find(|&n| kidx(n) == want) else { continue };
            // like `find_unary_ops` (since cf4f5db4389): never a node whose only edge is a self loop
            if g.node_degree_in(nid) == 1
                && g.node_degree_out(nid) == 1
                && g.node_predecessor_nodes(nid).next() != Some(nid)
            {
                let prev = dump_graph(&g);
                let res = std::panic::catch_unwind(std::panic::AssertUnwindSafe(|| g.remove_intermediate_node(nid)));
                if let Err(e) = res {
                    // the graph is in an unknown state after a panic inside the rewrite: stop here
                    return json!({
                        "before": before, "with_mb": with_mb, "mb_log": mb_log, "merge": mm, "after_mm": after_mm,
                        "rm_log": rm_log, "rm_panic": { "node": want, "msg": hvcommon::panic_message(e), "graph": prev },
                    });
                }
                rm_log.push(json!({ "node": want, "after": dump_graph(&g) }));
            }
        }
    }
    let before_elim = dump_graph(&g);
    let res = std::panic::catch_unwind(std::panic::AssertUnwindSafe(|| eliminate_extra_unions_tees(&mut g)));
    if let Err(e) = res {
        return json!({
            "before": before, "with_mb": with_mb, "mb_log": mb_log, "merge": mm, "after_mm": after_mm,
            "rm_log": rm_log, "before_elim": before_elim,
            "elim_panic": { "msg": hvcommon::panic_message(e), "graph": before_elim },
        });
    }
    let after_elim = dump_graph(&g);
    // partition + serde round trip, as the runtime does for its meta graph
    let rt = hvcommon::guarded(|| match partition_graph(g) {
        Err(e) => json!({ "part_err": e.diagnostic.message.to_string() }),
        Ok(p) => {
            let s1 = serde_json::to_string(&p).unwrap();
            let mut q: DfirGraph = match serde_json::from_str(&s1) {
                Ok(q) => q,
                Err(e) => return json!({ "load_err": e.to_string() }),
            };
            let s2 = serde_json::to_string(&q).unwrap();
            let bare = dump_graph(&q);
            let mut d = Diagnostics::new();
            q.insert_node_op_insts_all(&mut d);
            let loaded = dump_graph(&q);
            let s3 = serde_json::to_string(&q).unwrap();
            let mut d1 = Diagnostics::new();
            let mut d2 = Diagnostics::new();
            let c1 = p.as_code(&root(), true, quote::quote! {}, &mut d1).map(|t| t.to_string()).ok();
            let c2 = q.as_code(&root(), true, quote::quote! {}, &mut d2).map(|t| t.to_string()).ok();
            json!({
                "orig": dump_graph(&p), "bare": bare, "loaded": loaded,
                "json_same": s1 == s2, "json_same_after_insts": s1 == s3, "json_len": s1.len(),
                "insts_diags": diag_msgs(&d),
                "code_same": c1 == c2, "code_some": c1.is_some(),
                "code_same_noloc": c1.as_deref().map(strip_loc) == c2.as_deref().map(strip_loc),
                "mermaid_same": p.to_mermaid(&WriteConfig::default()) == q.to_mermaid(&WriteConfig::default()),
                "surface_same": p.surface_syntax_string() == q.surface_syntax_string(),
                "json_keys": serde_json::from_str::<BTreeMap<String, Value>>(&s1).map(|m| m.keys().cloned().collect::<Vec<_>>()).unwrap_or_default(),
            })
        }
    });
    json!({
        "before": before, "with_mb": with_mb, "mb_log": mb_log, "merge": mm, "after_mm": after_mm,
        "rm_log": rm_log, "before_elim": before_elim, "after_elim": after_elim, "roundtrip": rt,
    })
}

fn run(case: &Value) -> Value {
    match case["k"].as_str().unwrap_or("") {
        "optable" => optable(),
        "compile" => compile(case),
        "c42" => c42(case),
        "rewrite" => rewrite(case),
        other => json!({ "bad_case": format!("unknown kind {}", other) }),
    }
}

fn main() {
    hvcommon::main_loop(run)
}
