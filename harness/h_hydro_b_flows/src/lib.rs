//! Corpus of small Hydro flows for the HydroB correspondence harness (properties C41, C31, C34).
//! Every flow takes embedded inputs (u32 items / (u32,u32) pairs) on one process and writes
//! embedded outputs.  The `c41_*` flows exercise the Hydro -> DFIR emitter (tees feeding both
//! tick and top-level state, tick cycles, forward references, joins/folds at both levels);
//! the `c31_*` flows are slice programs; the `c34_*` flows are atomic write/ack/read programs.
#[cfg(stageleft_runtime)]
hydro_lang::setup!();

use hydro_lang::live_collections::stream::NoOrder;
use hydro_lang::location::Location;
use hydro_lang::prelude::*;

pub type P<'a> = Process<'a, ()>;

// ------------------------------------------------------------------------------------ C41

/// plain top-level pipeline
pub fn c41_map_filter<'a>(a: Stream<u32, P<'a>>) {
    a.map(q!(|x| x + 1))
        .filter(q!(|x| x % 2 == 0))
        .embedded_output("out");
}

/// a tee feeding a top-level fold (static state) and a tick-level fold (per-tick state)
pub fn c41_tee_top_and_tick<'a>(a: Stream<u32, P<'a>>) {
    let tick = a.location().tick();
    let b = a.clone();
    a.fold(q!(|| 0u32), q!(|acc, x| *acc += x))
        .snapshot(&tick, nondet!(/** test */))
        .all_ticks()
        .embedded_output("total");
    b.batch(&tick, nondet!(/** test */))
        .fold(q!(|| 0u32), q!(|acc, x| *acc += x))
        .all_ticks()
        .embedded_output("per_tick");
}

/// a tick cycle: running sum carried to the next tick through `Tick::cycle`
pub fn c41_tick_cycle<'a>(a: Stream<u32, P<'a>>) {
    let tick = a.location().tick();
    let (complete, prev) = tick.cycle::<Stream<u32, _, _>, _>();
    let cur = a
        .batch(&tick, nondet!(/** test */))
        .chain(prev)
        .fold(q!(|| 0u32), q!(|acc, x| *acc += x))
        .into_stream();
    complete.complete_next_tick(cur.clone());
    cur.all_ticks().embedded_output("out");
}

/// a forward reference completed later, no cycle
pub fn c41_forward_ref_acyclic<'a>(a: Stream<u32, P<'a>>) {
    let p = a.location().clone();
    let (complete, fwd) = p.forward_ref::<Stream<u32, _, _>>();
    fwd.map(q!(|x| x * 2)).embedded_output("out");
    complete.complete(a.map(q!(|x| x + 1)));
}

/// a forward reference at top level whose completion depends on it only through a tick cycle
pub fn c41_forward_ref_via_defer<'a>(a: Stream<u32, P<'a>>) {
    let p = a.location().clone();
    let tick = p.tick();
    let (complete, fwd) = p.forward_ref::<Stream<u32, _, _>>();
    let delayed = fwd
        .batch(&tick, nondet!(/** test */))
        .defer_tick()
        .all_ticks();
    let merged = a.merge_unordered(delayed.filter(q!(|x| *x < 100)).map(q!(|x| x + 10)));
    merged.clone().assume_ordering::<hydro_lang::live_collections::stream::TotalOrder>(nondet!(/** test */)).embedded_output("out");
    complete.complete(merged.assume_ordering(nondet!(/** test */)));
}

/// a forward reference completed with a collection that depends on it *synchronously*
/// (type-checks; documented as a panic of `forward_ref`)
pub fn c41_forward_ref_sync_cycle<'a>(a: Stream<u32, P<'a>>) {
    let p = a.location().clone();
    let (complete, fwd) = p.forward_ref::<Stream<u32, _, _, NoOrder>>();
    let merged = a.merge_unordered(fwd.filter(q!(|x| *x < 100)).map(q!(|x| x + 10)));
    merged
        .clone()
        .assume_ordering::<hydro_lang::live_collections::stream::TotalOrder>(nondet!(/** test */))
        .embedded_output("out");
    complete.complete(merged);
}

/// the same synchronous dependency inside a tick
pub fn c41_forward_ref_sync_cycle_tick<'a>(a: Stream<u32, P<'a>>) {
    let tick = a.location().tick();
    let (complete, fwd) = tick.forward_ref::<Stream<u32, _, _>>();
    let cur = a.batch(&tick, nondet!(/** test */)).chain(fwd.map(q!(|x| x + 1)).filter(q!(|x| *x < 5)));
    cur.clone().all_ticks().embedded_output("out");
    complete.complete(cur);
}

/// join at top level (static state on both sides, multiset_delta) of a teed stream with itself
pub fn c41_join_top<'a>(a: Stream<(u32, u32), P<'a>>, b: Stream<(u32, u32), P<'a>>) {
    let a2 = a.clone();
    a.join(b)
        .map(q!(|(k, (x, y))| (k, x + y)))
        .assume_ordering::<hydro_lang::live_collections::stream::TotalOrder>(nondet!(/** test */))
        .embedded_output("joined");
    a2.map(q!(|(k, _)| k)).embedded_output("keys");
}

/// join inside a tick, one side carried over ticks by a tick cycle
pub fn c41_join_tick_cycle<'a>(a: Stream<(u32, u32), P<'a>>, b: Stream<(u32, u32), P<'a>>) {
    let tick = a.location().tick();
    let (complete, prev) = tick.cycle::<Stream<(u32, u32), _, _>, _>();
    let left = a.batch(&tick, nondet!(/** test */)).chain(prev);
    complete.complete_next_tick(left.clone());
    left.join(b.batch(&tick, nondet!(/** test */)))
        .all_ticks()
        .assume_ordering::<hydro_lang::live_collections::stream::TotalOrder>(nondet!(/** test */))
        .embedded_output("out");
}

/// cross_singleton of a batch with the snapshot of a top-level fold of a tee of the same input
pub fn c41_cross_singleton_snapshot<'a>(a: Stream<u32, P<'a>>) {
    let tick = a.location().tick();
    let count = a.clone().count();
    a.batch(&tick, nondet!(/** test */))
        .cross_singleton(count.snapshot(&tick, nondet!(/** test */)))
        .all_ticks()
        .embedded_output("out");
}

/// two ticks on one process fed by one tee; results merged at top level
pub fn c41_two_ticks<'a>(a: Stream<u32, P<'a>>) {
    let p = a.location().clone();
    let t1 = p.tick();
    let t2 = p.tick();
    let s1 = a
        .clone()
        .batch(&t1, nondet!(/** test */))
        .fold(q!(|| 0u32), q!(|acc, x| *acc += x))
        .into_stream()
        .all_ticks();
    let s2 = a
        .batch(&t2, nondet!(/** test */))
        .map(q!(|x| x * 2))
        .all_ticks();
    s1.merge_unordered(s2)
        .assume_ordering::<hydro_lang::live_collections::stream::TotalOrder>(nondet!(/** test */))
        .embedded_output("out");
}

/// keyed fold at top level (unbounded) and in a tick
pub fn c41_keyed_fold<'a>(a: Stream<(u32, u32), P<'a>>) {
    let tick = a.location().tick();
    let b = a.clone();
    a.into_keyed()
        .fold(q!(|| 0u32), q!(|acc, x| *acc += x))
        .snapshot(&tick, nondet!(/** test */))
        .entries()
        .all_ticks()
        .assume_ordering::<hydro_lang::live_collections::stream::TotalOrder>(nondet!(/** test */))
        .embedded_output("total");
    b.batch(&tick, nondet!(/** test */))
        .into_keyed()
        .fold(q!(|| 0u32), q!(|acc, x| *acc += x))
        .entries()
        .all_ticks()
        .assume_ordering::<hydro_lang::live_collections::stream::TotalOrder>(nondet!(/** test */))
        .embedded_output("per_tick");
}

/// reduce / unique / enumerate / sort at both levels
pub fn c41_misc_ops<'a>(a: Stream<u32, P<'a>>) {
    let tick = a.location().tick();
    let b = a.clone();
    a.unique().enumerate().map(q!(|(i, x)| (i as u32) + x)).embedded_output("top");
    b.batch(&tick, nondet!(/** test */))
        .unique()
        .sort()
        .enumerate()
        .map(q!(|(i, x)| (i as u32) + x))
        .reduce(q!(|acc, x| *acc = (*acc).max(x)))
        .into_stream()
        .all_ticks()
        .embedded_output("tick");
}

/// difference / anti_join in a tick against a tick-cycled "seen" set
pub fn c41_difference_seen<'a>(a: Stream<u32, P<'a>>) {
    let tick = a.location().tick();
    let (complete, seen) = tick.cycle::<Stream<u32, _, _>, _>();
    let batch = a.batch(&tick, nondet!(/** test */));
    let fresh = batch.filter_not_in(seen.clone());
    complete.complete_next_tick(seen.chain(fresh.clone()));
    fresh.all_ticks().embedded_output("out");
}

/// atomic region: fold inside the atomic region, acknowledgements released by end_atomic,
/// reads through an atomic snapshot
pub fn c41_atomic<'a>(w: Stream<u32, P<'a>>, r: Stream<u32, P<'a>>) {
    let tick = w.location().tick();
    let aw = w.atomic();
    let cur_state = aw.clone().fold(q!(|| 0u32), q!(|acc, x| *acc += x));
    aw.end_atomic().embedded_output("ack");
    let _ = &tick;
    let out = sliced! {
        let reads = use(r, nondet!(/** test */));
        let snap = use::atomic(cur_state, nondet!(/** test */));
        reads.cross_singleton(snap)
    };
    out.embedded_output("read");
}

/// sliced! with a state hook (tick cycle generated by the macro)
pub fn c41_sliced_state<'a>(a: Stream<u32, P<'a>>) {
    let out = sliced! {
        let batch = use(a, nondet!(/** test */));
        let mut total = use::state(|l| l.singleton(q!(0u32)));
        total = batch.fold(q!(|| 0u32), q!(|acc, x| *acc += x)).zip(total).map(q!(|(a, b)| a + b));
        total.clone().into_stream()
    };
    out.embedded_output("out");
}

/// scan at top level, persisted singleton crossed with a stream
pub fn c41_scan_top<'a>(a: Stream<u32, P<'a>>) {
    a.scan(q!(|| 0u32), q!(|acc, x| { *acc += x; Some(*acc) })).embedded_output("out");
}

/// top-level bounded source chained into an unbounded input, folded at top level
pub fn c41_bounded_source_chain<'a>(a: Stream<u32, P<'a>>) {
    let p = a.location().clone();
    let init = p.source_iter(q!([1u32, 2, 3]));
    init.clone().fold(q!(|| 0u32), q!(|acc, x| *acc += x)).into_stream().embedded_output("init_sum");
    init.chain(a).embedded_output("out");
}

/// keyed fold of a *bounded top-level* keyed stream (type-checks)
pub fn c41_top_bounded_keyed_fold<'a>(a: Stream<u32, P<'a>>) {
    let p = a.location().clone();
    a.embedded_output("echo");
    p.source_iter(q!([(1u32, 2u32), (1, 3)]))
        .into_keyed()
        .fold(q!(|| 0u32), q!(|acc, x| *acc += x))
        .entries()
        .assume_ordering::<hydro_lang::live_collections::stream::TotalOrder>(nondet!(/** test */))
        .embedded_output("out");
}

/// two forward references, the first completed with a stream that depends synchronously on
/// the second (acyclic: needs a non-constant ranking of the cycle ids)
pub fn c41_forward_ref_chain<'a>(a: Stream<u32, P<'a>>) {
    let p = a.location().clone();
    let (c1, f1) = p.forward_ref::<Stream<u32, _, _>>();
    let (c2, f2) = p.forward_ref::<Stream<u32, _, _>>();
    f1.map(q!(|x| x + 100)).embedded_output("out");
    c1.complete(f2.map(q!(|x| x * 3)));
    c2.complete(a.filter(q!(|x| *x != 7)));
}

/// cross product at top level and inside a tick of a teed stream
pub fn c41_cross_product<'a>(a: Stream<u32, P<'a>>, b: Stream<u32, P<'a>>) {
    let tick = a.location().tick();
    let a2 = a.clone();
    let b2 = b.clone();
    a.cross_product(b)
        .assume_ordering::<hydro_lang::live_collections::stream::TotalOrder>(nondet!(/** test */))
        .embedded_output("top");
    a2.batch(&tick, nondet!(/** test */))
        .cross_product(b2.batch(&tick, nondet!(/** test */)))
        .all_ticks()
        .embedded_output("tick");
}

/// a tee of a tee, flat_map and inspect, max/first as optionals at both levels
pub fn c41_nested_tee<'a>(a: Stream<u32, P<'a>>) {
    let tick = a.location().tick();
    let t1 = a.flat_map_ordered(q!(|x| [x, x + 1])).inspect(q!(|_x| {}));
    let t2 = t1.clone().map(q!(|x| x * 2));
    let t3 = t2.clone();
    t1.embedded_output("o1");
    t2.batch(&tick, nondet!(/** test */)).max().into_stream().all_ticks().embedded_output("o2");
    t3.max().snapshot(&tick, nondet!(/** test */)).into_stream().all_ticks().embedded_output("o3");
}

/// anti-join of a batch against a keyed stream carried over ticks, and a keyed reduce
pub fn c41_anti_join<'a>(a: Stream<(u32, u32), P<'a>>, b: Stream<u32, P<'a>>) {
    let tick = a.location().tick();
    let (complete, blocked) = tick.cycle::<Stream<u32, _, _>, _>();
    let blocked_now = blocked.chain(b.batch(&tick, nondet!(/** test */)));
    complete.complete_next_tick(blocked_now.clone());
    a.batch(&tick, nondet!(/** test */))
        .anti_join(blocked_now)
        .into_keyed()
        .reduce(q!(|acc, x| *acc += x))
        .entries()
        .all_ticks()
        .assume_ordering::<hydro_lang::live_collections::stream::TotalOrder>(nondet!(/** test */))
        .embedded_output("out");
}

/// an optional with a default, zipped singletons, filter_if_some gating a batch
pub fn c41_optional_gate<'a>(a: Stream<u32, P<'a>>, g: Stream<u32, P<'a>>) {
    let tick = a.location().tick();
    let gate = g.batch(&tick, nondet!(/** test */)).first();
    let batch = a.batch(&tick, nondet!(/** test */));
    let n = batch.clone().count();
    batch
        .filter_if_some(gate.clone())
        .cross_singleton(n.zip(gate.unwrap_or(tick.singleton(q!(0u32)))))
        .all_ticks()
        .embedded_output("out");
}

/// scan and enumerate inside a tick, results persisted at top level through a fold of all ticks
pub fn c41_tick_scan_top_fold<'a>(a: Stream<u32, P<'a>>) {
    let tick = a.location().tick();
    let per_tick = a
        .batch(&tick, nondet!(/** test */))
        .scan(q!(|| 0u32), q!(|acc, x| { *acc += x; Some(*acc) }))
        .enumerate()
        .all_ticks();
    let p2 = per_tick.clone();
    per_tick.map(q!(|(i, x)| (i as u32, x))).embedded_output("items");
    p2.fold(q!(|| 0u32), q!(|acc, (_, x)| *acc += x))
        .snapshot(&tick, nondet!(/** test */))
        .into_stream()
        .all_ticks()
        .embedded_output("total");
}

/// a shared batch whose previous-tick contents are looked at by two consumers
pub fn c41_tee_two_defers<'a>(a: Stream<u32, P<'a>>) {
    let tick = a.location().tick();
    let batch = a.batch(&tick, nondet!(/** test */));
    let prev1 = batch.clone().defer_tick();
    let prev2 = batch.clone().defer_tick().map(q!(|x| x + 1));
    let cnt = batch.count();
    prev1.chain(prev2).cross_singleton(cnt).all_ticks().embedded_output("out");
}

/// the second process of the network flows
pub struct P2 {}

/// send to a second process, which transforms and outputs
pub fn c41_net_echo<'a>(p2: &Process<'a, P2>, a: Stream<u32, P<'a>>) {
    a.map(q!(|x| x + 1))
        .send(p2, TCP.fail_stop().bincode().name("fwd"))
        .map(q!(|x| x * 2))
        .embedded_output("remote_out");
}

/// there and back again, with a tee on the remote side feeding remote state
pub fn c41_net_round_trip<'a>(p2: &Process<'a, P2>, a: Stream<u32, P<'a>>) {
    let p1 = a.location().clone();
    let remote = a.send(p2, TCP.fail_stop().bincode().name("there"));
    let r2 = remote.clone();
    r2.map(q!(|x| x + 100)).embedded_output("remote_seen");
    remote
        .filter(q!(|x| *x % 2 == 0))
        .send(&p1, TCP.fail_stop().bincode().name("back"))
        .embedded_output("out");
}

/// a forward reference whose cycle goes through the network (allowed: asynchronous)
pub fn c41_net_forward_ref_cycle<'a>(p2: &Process<'a, P2>, a: Stream<u32, P<'a>>) {
    let p1 = a.location().clone();
    let (complete, fwd) = p1.forward_ref::<Stream<u32, _, _, NoOrder>>();
    let merged = a.merge_unordered(fwd);
    merged
        .clone()
        .assume_ordering::<hydro_lang::live_collections::stream::TotalOrder>(nondet!(/** test */))
        .embedded_output("out");
    let back = merged
        .filter(q!(|x| *x < 50))
        .send(p2, TCP.fail_stop().bincode().name("there"))
        .map(q!(|x| x + 7))
        .send(&p1, TCP.fail_stop().bincode().name("back"));
    complete.complete(back);
}

/// a bounded top-level singleton captured by reference in a map closure of another stream
pub fn c41_ref_top<'a>(a: Stream<u32, P<'a>>) {
    let p = a.location().clone();
    let base = p.source_iter(q!([1u32, 2, 3])).fold(q!(|| 0u32), q!(|acc, x| *acc += x));
    let base_ref = base.by_ref();
    a.embedded_output("echo");
    p.source_iter(q!([10u32, 20])).map(q!(|x| x + *base_ref)).embedded_output("out");
}

/// a tick-level singleton (count of the batch) captured by two closures of the same tick, and
/// also consumed as a value
pub fn c41_ref_tick_two_uses<'a>(a: Stream<u32, P<'a>>) {
    let tick = a.location().tick();
    let batch = a.batch(&tick, nondet!(/** test */));
    let n = batch.clone().fold(q!(|| 0u32), q!(|acc, _x| *acc += 1));
    let n_ref = n.by_ref();
    let big = batch.clone().filter(q!(|x| *x > *n_ref));
    let scaled = batch.map(q!(|x| x * *n_ref));
    big.chain(scaled).cross_singleton(n).all_ticks().embedded_output("out");
}

/// a mutable capture followed by a shared capture of the same singleton (access groups)
pub fn c41_ref_mut_then_ref<'a>(a: Stream<u32, P<'a>>) {
    let tick = a.location().tick();
    let batch = a.batch(&tick, nondet!(/** test */));
    let acc = tick.singleton(q!(0u32));
    let acc_mut = acc.by_mut();
    let bumped = batch.clone().map(q!(|x| { *acc_mut += x; x }));
    let acc_ref = acc.by_ref();
    let seen = batch.map(q!(|x| x + *acc_ref));
    bumped.chain(seen).all_ticks().embedded_output("out");
}

/// the value consumer of a referenced singleton is emitted BEFORE the operator that borrows it
/// (outputs registered in that order): the partitioner must still order borrower before consumer
pub fn c41_ref_borrower_after_consumer<'a>(a: Stream<u32, P<'a>>) {
    let tick = a.location().tick();
    let batch = a.batch(&tick, nondet!(/** test */));
    let n = batch.clone().fold(q!(|| 0u32), q!(|acc, _x| *acc += 1));
    let n_ref = n.by_ref();
    let borrower = batch.clone().map(q!(|x| x + *n_ref));
    let consumer = batch.cross_singleton(n);
    consumer.all_ticks().embedded_output("first");
    borrower.all_ticks().embedded_output("second");
}

/// `filter_not_in` on an UNBOUNDED positive side (found by engine Hydro): the builder records
/// `Bounded` in the Difference node's metadata whatever the boundedness of `self` is
pub fn c41_filter_not_in_unbounded<'a>(a: Stream<u32, P<'a>>) {
    let p = a.location().clone();
    let neg = p.source_iter(q!([1u32, 3]));
    a.filter_not_in(neg).embedded_output("out");
}

/// only one side of `partition` is used (found by engine Hydro)
pub fn c41_partition_one_side<'a>(a: Stream<u32, P<'a>>) {
    let (odd, _even) = a.partition(q!(|x| *x % 2 == 1));
    odd.map(q!(|x| x * 2)).embedded_output("out");
}

/// both sides of `partition` used (control)
pub fn c41_partition_both_sides<'a>(a: Stream<u32, P<'a>>) {
    let (odd, even) = a.partition(q!(|x| *x % 2 == 1));
    odd.map(q!(|x| x * 2)).embedded_output("odd");
    even.embedded_output("even");
}

// ------------------------------------------------------------------------------------ stages
// typed building blocks for the generated compositions (src/generated.rs, written by
// tools/hydrob.py from VERIF_SEED): every stage maps an unbounded totally ordered u32 stream of
// a process to another one, using the given tick

pub type S<'a> = Stream<u32, P<'a>>;
pub type T<'a> = Tick<P<'a>>;
type TO = hydro_lang::live_collections::stream::TotalOrder;

pub fn st_map<'a>(s: S<'a>, _t: &T<'a>) -> S<'a> {
    s.map(q!(|x| x.wrapping_mul(3) % 17))
}
pub fn st_filter<'a>(s: S<'a>, _t: &T<'a>) -> S<'a> {
    s.filter(q!(|x| *x % 3 != 0))
}
pub fn st_scan<'a>(s: S<'a>, _t: &T<'a>) -> S<'a> {
    s.scan(q!(|| 0u32), q!(|acc, x| { *acc = (*acc + x) % 101; Some(*acc) }))
}
pub fn st_tick_sum<'a>(s: S<'a>, t: &T<'a>) -> S<'a> {
    s.batch(t, nondet!(/** generated */)).fold(q!(|| 0u32), q!(|acc, x| *acc += x)).into_stream().all_ticks()
}
pub fn st_tick_running<'a>(s: S<'a>, t: &T<'a>) -> S<'a> {
    let (complete, prev) = t.cycle::<Stream<u32, _, _>, _>();
    let cur = s.batch(t, nondet!(/** generated */)).chain(prev).fold(q!(|| 0u32), q!(|acc, x| *acc = (*acc + x) % 1009)).into_stream();
    complete.complete_next_tick(cur.clone());
    cur.all_ticks()
}
pub fn st_prev_tick<'a>(s: S<'a>, t: &T<'a>) -> S<'a> {
    s.batch(t, nondet!(/** generated */)).defer_tick().all_ticks()
}
pub fn st_two_defers<'a>(s: S<'a>, t: &T<'a>) -> S<'a> {
    let b = s.batch(t, nondet!(/** generated */));
    let p1 = b.clone().defer_tick();
    let p2 = b.clone().defer_tick().map(q!(|x| x + 1));
    b.chain(p1).chain(p2).all_ticks()
}
pub fn st_top_fold_snapshot<'a>(s: S<'a>, t: &T<'a>) -> S<'a> {
    let total = s.clone().fold(q!(|| 0u32), q!(|acc, x| *acc = (*acc + x) % 1009));
    s.batch(t, nondet!(/** generated */))
        .cross_singleton(total.snapshot(t, nondet!(/** generated */)))
        .map(q!(|(x, tot)| (x + tot) % 1009))
        .all_ticks()
}
pub fn st_tick_unique_sort<'a>(s: S<'a>, t: &T<'a>) -> S<'a> {
    s.batch(t, nondet!(/** generated */)).unique().sort().all_ticks()
}
pub fn st_self_join<'a>(s: S<'a>, t: &T<'a>) -> S<'a> {
    let b = s.batch(t, nondet!(/** generated */));
    let keyed = b.clone().map(q!(|x| (x % 4, x)));
    b.map(q!(|x| (x % 4, x)))
        .join(keyed)
        .map(q!(|(_, (x, y))| (x + y) % 97))
        .all_ticks()
        .assume_ordering::<TO>(nondet!(/** generated */))
}
pub fn st_seen_filter<'a>(s: S<'a>, t: &T<'a>) -> S<'a> {
    let (complete, seen) = t.cycle::<Stream<u32, _, _>, _>();
    let fresh = s.batch(t, nondet!(/** generated */)).unique().filter_not_in(seen.clone());
    complete.complete_next_tick(seen.chain(fresh.clone()));
    fresh.all_ticks()
}
pub fn st_fanout_merge<'a>(s: S<'a>, _t: &T<'a>) -> S<'a> {
    let a = s.clone().map(q!(|x| x + 1));
    let b = s.filter(q!(|x| *x % 2 == 0));
    a.merge_unordered(b).assume_ordering::<TO>(nondet!(/** generated */))
}
pub fn st_forward_ref_defer<'a>(s: S<'a>, t: &T<'a>) -> S<'a> {
    let p = s.location().clone();
    let (complete, fwd) = p.forward_ref::<Stream<u32, _, _>>();
    let delayed = fwd.batch(t, nondet!(/** generated */)).defer_tick().filter(q!(|x| *x < 50)).map(q!(|x| x + 10)).all_ticks();
    let merged = s.merge_unordered(delayed).assume_ordering::<TO>(nondet!(/** generated */));
    complete.complete(merged.clone());
    merged
}

pub mod generated;
pub use generated::*;

// ------------------------------------------------------------------------------------ C31

/// the batch every slice observes, as one Vec per slice
pub fn c31_batch<'a>(a: Stream<u32, P<'a>>) {
    let out = sliced! {
        let b = use::batch(a, nondet!(/** recorded */));
        b.collect_vec().into_stream()
    };
    out.embedded_output("out");
}

/// a batch hook and a snapshot hook (of the running count of the same input) in one slice
pub fn c31_snapshot<'a>(a: Stream<u32, P<'a>>) {
    let cnt = a.clone().count();
    let out = sliced! {
        let b = use::batch(a, nondet!(/** recorded */));
        let s = use::snapshot(cnt, nondet!(/** recorded */));
        b.count().zip(s).into_stream()
    };
    out.embedded_output("out");
}

/// a state hook: (value read, value written) per slice
pub fn c31_state<'a>(a: Stream<u32, P<'a>>) {
    let out = sliced! {
        let b = use::batch(a, nondet!(/** recorded */));
        let mut total = use::state(|l| l.singleton(q!(0u32)));
        let read = total.clone();
        total = b.fold(q!(|| 0u32), q!(|acc, x| *acc += x)).zip(total).map(q!(|(a, b)| a + b));
        read.zip(total.clone()).into_stream()
    };
    out.embedded_output("out");
}

/// two batch hooks of one slice
pub fn c31_two<'a>(a: Stream<u32, P<'a>>, b: Stream<u32, P<'a>>) {
    let out = sliced! {
        let x = use::batch(a, nondet!(/** recorded */));
        let y = use::batch(b, nondet!(/** recorded */));
        x.collect_vec().zip(y.collect_vec()).into_stream()
    };
    out.embedded_output("out");
}

// bounded top-level collections sliced together with an unbounded trigger `a`, so that the slice
// runs in several ticks: a bounded STREAM-like collection must be handed to exactly one batch,
// a bounded SINGLETON-like collection is seen (unchanged) by every slice

pub fn c31_bk_stream<'a>(a: Stream<u32, P<'a>>) {
    let p = a.location().clone();
    let bounded = p.source_iter(q!([1u32, 2, 3]));
    let out = sliced! {
        let trig = use::batch(a, nondet!(/** recorded */));
        let b = use::batch(bounded, nondet!(/** recorded */));
        b.collect_vec().zip(trig.count()).into_stream()
    };
    out.embedded_output("out");
}

pub fn c31_bk_keyed<'a>(a: Stream<u32, P<'a>>) {
    let p = a.location().clone();
    let bounded = p.source_iter(q!([(1u32, 10u32), (1, 20), (2, 30)])).into_keyed();
    let out = sliced! {
        let trig = use::batch(a, nondet!(/** recorded */));
        let kv = use::batch(bounded, nondet!(/** recorded */));
        kv.entries()
            .assume_ordering::<hydro_lang::live_collections::stream::TotalOrder>(nondet!(/** recorded as produced */))
            .collect_vec()
            .zip(trig.count())
            .into_stream()
    };
    out.embedded_output("out");
}

pub fn c31_bk_singleton<'a>(a: Stream<u32, P<'a>>) {
    let p = a.location().clone();
    let bounded = p.source_iter(q!([1u32, 2, 3])).fold(q!(|| 0u32), q!(|acc, x| *acc += x));
    let out = sliced! {
        let trig = use::batch(a, nondet!(/** recorded */));
        let s = use::snapshot(bounded, nondet!(/** recorded */));
        s.zip(trig.count()).into_stream()
    };
    out.embedded_output("out");
}

pub fn c31_bk_optional<'a>(a: Stream<u32, P<'a>>) {
    let p = a.location().clone();
    let bounded = p.source_iter(q!([4u32, 9, 2])).max();
    let out = sliced! {
        let trig = use::batch(a, nondet!(/** recorded */));
        let o = use::snapshot(bounded, nondet!(/** recorded */));
        o.into_stream().collect_vec().zip(trig.count()).into_stream()
    };
    out.embedded_output("out");
}

// ------------------------------------------------------------------------------------ C34

/// keyed counter (shape of hydro_test::tutorials::keyed_counter): increments are counted inside
/// an atomic region and acknowledged at its end; reads join an atomic snapshot of the counts
pub fn c34_counter<'a>(r: Stream<u32, P<'a>>, w: Stream<u32, P<'a>>) {
    let aw = w.atomic();
    let counts = aw.clone().map(q!(|k| (k, ()))).into_keyed().value_counts();
    aw.end_atomic().embedded_output("ack");
    let reads = r.map(q!(|k| (k, ()))).into_keyed();
    let looked_up = sliced! {
        let rb = use::batch(reads, nondet!(/** batch boundaries are not observed */));
        let snap = use::atomic(counts, nondet!(/** atomic snapshot */));
        rb.join_keyed_singleton(snap)
    };
    looked_up
        .entries()
        .map(q!(|(k, (_, c))| (k, c)))
        .assume_ordering::<hydro_lang::live_collections::stream::TotalOrder>(nondet!(/** recorded per tick, compared as a multiset */))
        .embedded_output("read");
}

/// unkeyed variant: the region's state is a Singleton (sum of all writes), reads take an atomic
/// snapshot of it through `use::atomic` and are answered (read, sum)
pub fn c34_sum<'a>(r: Stream<u32, P<'a>>, w: Stream<u32, P<'a>>) {
    let aw = w.atomic();
    let total = aw.clone().fold(q!(|| 0u32), q!(|acc, x| *acc += x));
    aw.end_atomic().embedded_output("ack");
    let out = sliced! {
        let rb = use::batch(r, nondet!(/** batch boundaries are not observed */));
        let snap = use::atomic(total, nondet!(/** atomic snapshot */));
        rb.cross_singleton(snap)
    };
    out.embedded_output("read");
}

/// slice forms inside the region: the writes are read with `use::atomic` on the atomic STREAM
/// (batch_atomic), transformed in the slice and handed back with `yield_atomic`; the state is
/// folded from the yielded stream, acknowledgements are released after it, reads as in c34_sum
pub fn c34_yield_atomic<'a>(r: Stream<u32, P<'a>>, w: Stream<u32, P<'a>>) {
    use hydro_lang::live_collections::sliced::yield_atomic;
    let aw = w.atomic();
    let processed = sliced! {
        let b = use::atomic(aw, nondet!(/** the region's own tick */));
        yield_atomic(b.map(q!(|x| x * 2)))
    };
    let total = processed.clone().fold(q!(|| 0u32), q!(|acc, x| *acc += x));
    processed.end_atomic().embedded_output("ack");
    let out = sliced! {
        let rb = use::batch(r, nondet!(/** batch boundaries are not observed */));
        let snap = use::atomic(total, nondet!(/** atomic snapshot */));
        rb.cross_singleton(snap)
    };
    out.embedded_output("read");
}
