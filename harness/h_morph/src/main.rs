//! Correspondence harness for C07 (shipped lattice bimorphisms, lattice engine E1): runs
//! `LatticeBimorphism::call` of CartesianProductBimorphism / KeyedBimorphism / PairBimorphism of
//! the real `lattices` crate on JSON cases and prints the observation `bobs` of Lattice/Morph.v
//! (what `check_lattice_bimorphism` asserts, recorded instead of asserted).
//!
//! Case kinds:
//!   {"k":"bim","sh":NAME,"a":V,"da":V,"b":V,"db":V}
//!   {"k":"ght","shape":S,"bim":"join"|"cart","a":ROWS,"da":ROWS,"b":ROWS,"db":ROWS} (see ght.rs)
//!   {"k":"ght_shapes"}
//!   {"k":"types"}  -> registered names "<shape>|<code of A>|<code of B>@<rust>"
//! Input values as in h_lattices.  Output sets of tuples (x, y) are printed as sorted arrays of
//! the Cantor code tri(x+y)+y of each tuple (Morph.penc).  Canon machinery copied from
//! harness/h_lattices.
use std::collections::{BTreeMap, BTreeSet, HashMap, HashSet};

mod ght;

use hvcommon::{Value, guarded, json};
use lattices::collections::{ArrayMap, ArraySet, OptionMap, OptionSet, SingletonMap, SingletonSet, VecMap};
use lattices::map_union::{KeyedBimorphism, MapUnion};
use lattices::set_union::{CartesianProductBimorphism, SetUnion};
use lattices::{
    Conflict, DomPair, LatticeBimorphism, Max, Merge, Min, Pair, PairBimorphism, VecUnion, WithBot, WithTop,
};

type K = u16;

pub trait Canon: Sized {
    fn name() -> String;
    fn to_json(&self) -> Value;
    fn from_json(v: &Value) -> Self;
}

fn num(v: &Value) -> u64 {
    v.as_u64().expect("number")
}

macro_rules! scalar {
    ($t:ty, $n:expr, $conv:expr, $back:expr) => {
        impl Canon for Max<$t> {
            fn name() -> String {
                format!("(Max {})", $n)
            }
            fn to_json(&self) -> Value {
                json!($back(*self.as_reveal_ref()))
            }
            fn from_json(v: &Value) -> Self {
                Max::new($conv(num(v)))
            }
        }
        impl Canon for Min<$t> {
            fn name() -> String {
                format!("(Min {})", $n)
            }
            fn to_json(&self) -> Value {
                json!($back(*self.as_reveal_ref()))
            }
            fn from_json(v: &Value) -> Self {
                Min::new($conv(num(v)))
            }
        }
    };
}
scalar!(u8, "u8", |n| n as u8, |x| x as u64);
scalar!(u64, "unb", |n| n, |x: u64| x);
scalar!(bool, "bool", |n| n != 0, |x| x as u64);

impl Canon for () {
    fn name() -> String {
        "Unit".into()
    }
    fn to_json(&self) -> Value {
        Value::Null
    }
    fn from_json(_: &Value) -> Self {}
}

// ---- set representations
pub trait SetRepr: Sized {
    fn rname() -> String;
    fn items(&self) -> Vec<K>;
    fn build(items: Vec<K>) -> Self;
}
impl SetRepr for HashSet<K> {
    fn rname() -> String {
        "Hash".into()
    }
    fn items(&self) -> Vec<K> {
        self.iter().copied().collect()
    }
    fn build(items: Vec<K>) -> Self {
        items.into_iter().collect()
    }
}
impl SetRepr for BTreeSet<K> {
    fn rname() -> String {
        "BTree".into()
    }
    fn items(&self) -> Vec<K> {
        self.iter().copied().collect()
    }
    fn build(items: Vec<K>) -> Self {
        items.into_iter().collect()
    }
}
impl SetRepr for SingletonSet<K> {
    fn rname() -> String {
        "Singleton".into()
    }
    fn items(&self) -> Vec<K> {
        vec![self.0]
    }
    fn build(items: Vec<K>) -> Self {
        assert_eq!(items.len(), 1);
        SingletonSet(items[0])
    }
}
impl SetRepr for OptionSet<K> {
    fn rname() -> String {
        "Option".into()
    }
    fn items(&self) -> Vec<K> {
        self.0.iter().copied().collect()
    }
    fn build(items: Vec<K>) -> Self {
        assert!(items.len() <= 1);
        OptionSet(items.first().copied())
    }
}
impl<const N: usize> SetRepr for ArraySet<K, N> {
    fn rname() -> String {
        format!("Array{}", N)
    }
    fn items(&self) -> Vec<K> {
        self.0.to_vec()
    }
    fn build(items: Vec<K>) -> Self {
        ArraySet(items.try_into().expect("array length"))
    }
}
impl<S: SetRepr> Canon for SetUnion<S> {
    fn name() -> String {
        format!("(Set {})", S::rname())
    }
    fn to_json(&self) -> Value {
        let mut v = self.as_reveal_ref().items();
        v.sort();
        json!(v)
    }
    fn from_json(v: &Value) -> Self {
        SetUnion::new(S::build(v.as_array().unwrap().iter().map(|x| num(x) as K).collect()))
    }
}

// ---- map representations
pub trait MapRepr<V>: Sized {
    fn rname() -> String;
    fn entries(&self) -> Vec<(K, &V)>;
    fn build(items: Vec<(K, V)>) -> Self;
}
impl<V> MapRepr<V> for HashMap<K, V> {
    fn rname() -> String {
        "Hash".into()
    }
    fn entries(&self) -> Vec<(K, &V)> {
        self.iter().map(|(k, v)| (*k, v)).collect()
    }
    fn build(items: Vec<(K, V)>) -> Self {
        items.into_iter().collect()
    }
}
impl<V> MapRepr<V> for BTreeMap<K, V> {
    fn rname() -> String {
        "BTree".into()
    }
    fn entries(&self) -> Vec<(K, &V)> {
        self.iter().map(|(k, v)| (*k, v)).collect()
    }
    fn build(items: Vec<(K, V)>) -> Self {
        items.into_iter().collect()
    }
}
impl<V> MapRepr<V> for VecMap<K, V> {
    fn rname() -> String {
        "Vec".into()
    }
    fn entries(&self) -> Vec<(K, &V)> {
        self.keys.iter().copied().zip(self.vals.iter()).collect()
    }
    fn build(items: Vec<(K, V)>) -> Self {
        let (k, v) = items.into_iter().unzip();
        VecMap::new(k, v)
    }
}
impl<V> MapRepr<V> for SingletonMap<K, V> {
    fn rname() -> String {
        "Singleton".into()
    }
    fn entries(&self) -> Vec<(K, &V)> {
        vec![(self.0, &self.1)]
    }
    fn build(items: Vec<(K, V)>) -> Self {
        assert_eq!(items.len(), 1);
        let (k, v) = items.into_iter().next().unwrap();
        SingletonMap(k, v)
    }
}
impl<V> MapRepr<V> for OptionMap<K, V> {
    fn rname() -> String {
        "Option".into()
    }
    fn entries(&self) -> Vec<(K, &V)> {
        self.0.iter().map(|(k, v)| (*k, v)).collect()
    }
    fn build(items: Vec<(K, V)>) -> Self {
        assert!(items.len() <= 1);
        OptionMap(items.into_iter().next())
    }
}
impl<V, const N: usize> MapRepr<V> for ArrayMap<K, V, N> {
    fn rname() -> String {
        format!("Array{}", N)
    }
    fn entries(&self) -> Vec<(K, &V)> {
        self.keys.iter().copied().zip(self.vals.iter()).collect()
    }
    fn build(items: Vec<(K, V)>) -> Self {
        let (k, v): (Vec<K>, Vec<V>) = items.into_iter().unzip();
        ArrayMap { keys: k.try_into().ok().expect("array length"), vals: v.try_into().ok().expect("array length") }
    }
}
pub struct MapOf<M, V>(std::marker::PhantomData<(M, V)>);
impl<M: MapRepr<V>, V: Canon> Canon for MapUnion<M>
where
    M: MapValue<Val = V>,
{
    fn name() -> String {
        format!("(Map {} {})", M::rname(), V::name())
    }
    fn to_json(&self) -> Value {
        let mut e = self.as_reveal_ref().entries();
        e.sort_by_key(|(k, _)| *k);
        Value::Array(e.into_iter().map(|(k, v)| json!([k, v.to_json()])).collect())
    }
    fn from_json(v: &Value) -> Self {
        MapUnion::new(M::build(
            v.as_array()
                .unwrap()
                .iter()
                .map(|kv| (num(&kv[0]) as K, V::from_json(&kv[1])))
                .collect(),
        ))
    }
}
/// ties a map representation to its value type (so `MapUnion<M>: Canon` is unambiguous)
pub trait MapValue {
    type Val;
}
impl<V> MapValue for HashMap<K, V> {
    type Val = V;
}
impl<V> MapValue for BTreeMap<K, V> {
    type Val = V;
}
impl<V> MapValue for VecMap<K, V> {
    type Val = V;
}
impl<V> MapValue for SingletonMap<K, V> {
    type Val = V;
}
impl<V> MapValue for OptionMap<K, V> {
    type Val = V;
}
impl<V, const N: usize> MapValue for ArrayMap<K, V, N> {
    type Val = V;
}

fn opt_to_json<T: Canon>(o: Option<&T>) -> Value {
    match o {
        None => Value::Null,
        Some(x) => json!([x.to_json()]),
    }
}
fn opt_from_json<T: Canon>(v: &Value) -> Option<T> {
    if v.is_null() { None } else { Some(T::from_json(&v[0])) }
}
impl<T: Canon> Canon for WithBot<T> {
    fn name() -> String {
        format!("(Bot {})", T::name())
    }
    fn to_json(&self) -> Value {
        opt_to_json(self.as_reveal_ref())
    }
    fn from_json(v: &Value) -> Self {
        WithBot::new(opt_from_json(v))
    }
}
impl<T: Canon> Canon for WithTop<T> {
    fn name() -> String {
        format!("(Top {})", T::name())
    }
    fn to_json(&self) -> Value {
        opt_to_json(self.as_reveal_ref())
    }
    fn from_json(v: &Value) -> Self {
        WithTop::new(opt_from_json(v))
    }
}
impl Canon for Conflict<K> {
    fn name() -> String {
        "Conflict".into()
    }
    fn to_json(&self) -> Value {
        match self.as_reveal_ref() {
            None => Value::Null,
            Some(x) => json!([x]),
        }
    }
    fn from_json(v: &Value) -> Self {
        Conflict::new(if v.is_null() { None } else { Some(num(&v[0]) as K) })
    }
}
impl<A: Canon, B: Canon> Canon for Pair<A, B> {
    fn name() -> String {
        format!("(Pair {} {})", A::name(), B::name())
    }
    fn to_json(&self) -> Value {
        json!([self.a.to_json(), self.b.to_json()])
    }
    fn from_json(v: &Value) -> Self {
        Pair::new(A::from_json(&v[0]), B::from_json(&v[1]))
    }
}
impl<A: Canon, B: Canon> Canon for DomPair<A, B> {
    fn name() -> String {
        format!("(Dom {} {})", A::name(), B::name())
    }
    fn to_json(&self) -> Value {
        let (k, v) = self.as_reveal_ref();
        json!([k.to_json(), v.to_json()])
    }
    fn from_json(v: &Value) -> Self {
        DomPair::new(A::from_json(&v[0]), B::from_json(&v[1]))
    }
}
impl<T: Canon> Canon for VecUnion<T> {
    fn name() -> String {
        format!("(Vec {})", T::name())
    }
    fn to_json(&self) -> Value {
        Value::Array(self.as_reveal_ref().iter().map(Canon::to_json).collect())
    }
    fn from_json(v: &Value) -> Self {
        VecUnion::new(v.as_array().unwrap().iter().map(T::from_json).collect())
    }
}

// ---- outputs
pub trait Out {
    fn oj(&self) -> Value;
}
fn penc(x: K, y: K) -> u64 {
    let (x, y) = (x as u64, y as u64);
    let s = x + y;
    s * (s + 1) / 2 + y
}
fn enc_set<'a>(it: impl Iterator<Item = &'a (K, K)>) -> Value {
    let mut v: Vec<u64> = it.map(|(x, y)| penc(*x, *y)).collect();
    v.sort();
    json!(v)
}
impl Out for SetUnion<HashSet<(K, K)>> {
    fn oj(&self) -> Value {
        enc_set(self.as_reveal_ref().iter())
    }
}
impl Out for SetUnion<BTreeSet<(K, K)>> {
    fn oj(&self) -> Value {
        enc_set(self.as_reveal_ref().iter())
    }
}
fn map_oj<'a, O: Out + 'a>(it: impl Iterator<Item = (&'a K, &'a O)>) -> Value {
    let mut e: Vec<(K, &O)> = it.map(|(k, v)| (*k, v)).collect();
    e.sort_by_key(|(k, _)| *k);
    Value::Array(e.into_iter().map(|(k, v)| json!([k, v.oj()])).collect())
}
impl<O: Out> Out for MapUnion<HashMap<K, O>> {
    fn oj(&self) -> Value {
        map_oj(self.as_reveal_ref().iter())
    }
}
impl<O: Out> Out for MapUnion<BTreeMap<K, O>> {
    fn oj(&self) -> Value {
        map_oj(self.as_reveal_ref().iter())
    }
}
impl<A: Canon, B: Canon> Out for Pair<A, B> {
    fn oj(&self) -> Value {
        json!([self.a.to_json(), self.b.to_json()])
    }
}

// ---------------------------------------------------------------------------------------
/// `check_lattice_bimorphism` of lattices/src/test.rs on one (a, da, b, db), results recorded.
fn bim<A, B, F>(mut f: F, case: &Value) -> Value
where
    F: LatticeBimorphism<A, B>,
    A: Canon + Clone + Merge<A>,
    B: Canon + Clone + Merge<B>,
    F::Output: Out + Clone + Merge<F::Output> + PartialEq,
{
    let a = A::from_json(&case["a"]);
    let da = A::from_json(&case["da"]);
    let b = B::from_json(&case["b"]);
    let db = B::from_json(&case["db"]);
    let ab = f.call(a.clone(), b.clone());
    let dab = f.call(da.clone(), b.clone());
    let adb = f.call(a.clone(), db.clone());
    let l = f.call(Merge::merge_owned(a.clone(), da.clone()), b.clone());
    let ml = Merge::merge_owned(ab.clone(), dab.clone());
    let r = f.call(a.clone(), Merge::merge_owned(b.clone(), db.clone()));
    let mr = Merge::merge_owned(ab.clone(), adb.clone());
    json!({
        "ab": ab.oj(), "dab": dab.oj(), "adb": adb.oj(),
        "l": l.oj(), "ml": ml.oj(), "r": r.oj(), "mr": mr.oj(),
        "eq_l": l == ml, "eq_r": r == mr,
    })
}

/// the same with the deltas in another representation of the same lattice (the usual way deltas
/// arrive: a singleton / array / vec / option backed collection merged into a hash or btree one)
fn bim4<A, DA, B, DB, F, O>(mut f: F, case: &Value) -> Value
where
    F: LatticeBimorphism<A, B, Output = O> + LatticeBimorphism<DA, B, Output = O> + LatticeBimorphism<A, DB, Output = O>,
    A: Canon + Clone + Merge<DA>,
    DA: Canon + Clone,
    B: Canon + Clone + Merge<DB>,
    DB: Canon + Clone,
    O: Out + Clone + Merge<O> + PartialEq,
{
    let a = A::from_json(&case["a"]);
    let da = DA::from_json(&case["da"]);
    let b = B::from_json(&case["b"]);
    let db = DB::from_json(&case["db"]);
    let ab: O = f.call(a.clone(), b.clone());
    let dab: O = f.call(da.clone(), b.clone());
    let adb: O = f.call(a.clone(), db.clone());
    let mut am = a.clone();
    am.merge(da.clone());
    let mut bm = b.clone();
    bm.merge(db.clone());
    let l: O = f.call(am, b.clone());
    let ml = Merge::merge_owned(ab.clone(), dab.clone());
    let r: O = f.call(a.clone(), bm);
    let mr = Merge::merge_owned(ab.clone(), adb.clone());
    json!({
        "ab": ab.oj(), "dab": dab.oj(), "adb": adb.oj(),
        "l": l.oj(), "ml": ml.oj(), "r": r.oj(), "mr": mr.oj(),
        "eq_l": l == ml, "eq_r": r == mr,
    })
}

type Runner = Box<dyn Fn(&Value) -> Value>;
struct Registry {
    names: Vec<String>,
    run: HashMap<String, Runner>,
}
impl Registry {
    fn add<A, B, F>(&mut self, shape: &str, rust: &str, mk: fn() -> F)
    where
        F: LatticeBimorphism<A, B> + 'static,
        A: Canon + Clone + Merge<A> + 'static,
        B: Canon + Clone + Merge<B> + 'static,
        F::Output: Out + Clone + Merge<F::Output> + PartialEq,
    {
        let n = format!("{}|{}|{}@{}", shape, A::name(), B::name(), rust);
        self.names.push(n.clone());
        self.run.insert(n, Box::new(move |case| bim::<A, B, F>(mk(), case)));
    }
}

impl Registry {
    fn add4<A, DA, B, DB, F, O>(&mut self, shape: &str, rust: &str, mk: fn() -> F)
    where
        F: LatticeBimorphism<A, B, Output = O> + LatticeBimorphism<DA, B, Output = O> + LatticeBimorphism<A, DB, Output = O> + 'static,
        A: Canon + Clone + Merge<DA> + 'static,
        DA: Canon + Clone + 'static,
        B: Canon + Clone + Merge<DB> + 'static,
        DB: Canon + Clone + 'static,
        O: Out + Clone + Merge<O> + PartialEq + 'static,
    {
        let n = format!("{}|{}|{}|{}|{}@{}", shape, A::name(), B::name(), DA::name(), DB::name(), rust);
        self.names.push(n.clone());
        self.run.insert(n, Box::new(move |case| bim4::<A, DA, B, DB, F, O>(mk(), case)));
    }
}

type SH = SetUnion<HashSet<K>>;
type SB = SetUnion<BTreeSet<K>>;
type MH<V> = MapUnion<HashMap<K, V>>;
type MB<V> = MapUnion<BTreeMap<K, V>>;
type PH = HashSet<(K, K)>;
type PB = BTreeSet<(K, K)>;
type CH = CartesianProductBimorphism<PH>;
type CB = CartesianProductBimorphism<PB>;
type KH<F> = KeyedBimorphism<HashMap<K, <F as OutOf>::O>, F>;
type KB<F> = KeyedBimorphism<BTreeMap<K, <F as OutOf>::O>, F>;

/// the output lattice of a bimorphism value type, fixed per constructor so that the Keyed
/// towers can name their MapOut
pub trait OutOf {
    type O;
}
impl OutOf for CH {
    type O = SetUnion<PH>;
}
impl OutOf for CB {
    type O = SetUnion<PB>;
}
impl<F: OutOf> OutOf for KeyedBimorphism<HashMap<K, F::O>, F> {
    type O = MapUnion<HashMap<K, F::O>>;
}
impl<F: OutOf> OutOf for KeyedBimorphism<BTreeMap<K, F::O>, F> {
    type O = MapUnion<BTreeMap<K, F::O>>;
}
/// PairBimorphism's output depends on the inputs: one marker per instance
pub struct PairOf<A, B>(std::marker::PhantomData<(A, B)>);
impl<A, B> LatticeBimorphism<A, B> for PairOf<A, B> {
    type Output = Pair<A, B>;
    fn call(&mut self, a: A, b: B) -> Pair<A, B> {
        // delegates to the crate's PairBimorphism
        LatticeBimorphism::call(&mut PairBimorphism, a, b)
    }
}
impl<A, B> OutOf for PairOf<A, B> {
    type O = Pair<A, B>;
}
fn pair_of<A, B>() -> PairOf<A, B> {
    PairOf(std::marker::PhantomData)
}

fn registry() -> Registry {
    let mut r = Registry { names: vec![], run: HashMap::new() };
    // CartesianProductBimorphism
    r.add::<SH, SH, CH>("Cart", "Cartesian<HashSet>(SH,SH)", CH::default);
    r.add::<SB, SB, CB>("Cart", "Cartesian<BTreeSet>(SB,SB)", CB::default);
    r.add::<SH, SB, CH>("Cart", "Cartesian<HashSet>(SH,SB)", CH::default);
    r.add::<SB, SH, CB>("Cart", "Cartesian<BTreeSet>(SB,SH)", CB::default);
    // KeyedBimorphism<_, Cartesian>
    r.add::<MH<SH>, MH<SH>, KH<CH>>("(Keyed Cart)", "Keyed<HashMap,Cartesian<HashSet>>(MH<SH>,MH<SH>)", || KeyedBimorphism::new(CH::default()));
    r.add::<MB<SB>, MB<SB>, KB<CB>>("(Keyed Cart)", "Keyed<BTreeMap,Cartesian<BTreeSet>>(MB<SB>,MB<SB>)", || KeyedBimorphism::new(CB::default()));
    r.add::<MH<SB>, MB<SH>, KH<CH>>("(Keyed Cart)", "Keyed<HashMap,Cartesian<HashSet>>(MH<SB>,MB<SH>)", || KeyedBimorphism::new(CH::default()));
    // KeyedBimorphism<_, KeyedBimorphism<_, Cartesian>>
    r.add::<MH<MH<SH>>, MH<MH<SH>>, KH<KH<CH>>>("(Keyed (Keyed Cart))", "Keyed<HashMap,Keyed<HashMap,Cartesian<HashSet>>>(MH<MH<SH>>,MH<MH<SH>>)", || KeyedBimorphism::new(KeyedBimorphism::new(CH::default())));
    r.add::<MB<MH<SB>>, MH<MB<SB>>, KB<KH<CB>>>("(Keyed (Keyed Cart))", "Keyed<BTreeMap,Keyed<HashMap,Cartesian<BTreeSet>>>(MB<MH<SB>>,MH<MB<SB>>)", || KeyedBimorphism::new(KeyedBimorphism::new(CB::default())));
    r.add::<MH<MB<MH<SH>>>, MB<MH<MH<SH>>>, KH<KB<KH<CH>>>>("(Keyed (Keyed (Keyed Cart)))", "Keyed<HashMap,Keyed<BTreeMap,Keyed<HashMap,Cartesian<HashSet>>>>", || KeyedBimorphism::new(KeyedBimorphism::new(KeyedBimorphism::new(CH::default()))));
    // deltas in singleton / array / vec / option backed representations
    r.add4::<SH, SetUnion<SingletonSet<K>>, SB, SetUnion<ArraySet<K, 2>>, CH, SetUnion<PH>>(
        "Cart", "Cartesian<HashSet>(SH+Singleton,SB+Array2)", CH::default);
    r.add4::<SB, SetUnion<OptionSet<K>>, SH, SetUnion<SingletonSet<K>>, CB, SetUnion<PB>>(
        "Cart", "Cartesian<BTreeSet>(SB+Option,SH+Singleton)", CB::default);
    r.add4::<MH<SH>, MapUnion<SingletonMap<K, SH>>, MH<SH>, MapUnion<VecMap<K, SH>>, KH<CH>, MapUnion<HashMap<K, SetUnion<PH>>>>(
        "(Keyed Cart)", "Keyed<HashMap,Cartesian<HashSet>>(MH<SH>+SingletonMap,MH<SH>+VecMap)", || KeyedBimorphism::new(CH::default()));
    r.add4::<MB<SB>, MapUnion<ArrayMap<K, SB, 2>>, MB<SB>, MapUnion<OptionMap<K, SB>>, KB<CB>, MapUnion<BTreeMap<K, SetUnion<PB>>>>(
        "(Keyed Cart)", "Keyed<BTreeMap,Cartesian<BTreeSet>>(MB<SB>+ArrayMap2,MB<SB>+OptionMap)", || KeyedBimorphism::new(CB::default()));
    r.add4::<MH<MH<SH>>, MapUnion<SingletonMap<K, MapUnion<SingletonMap<K, SH>>>>, MH<MH<SH>>, MapUnion<VecMap<K, MH<SH>>>, KH<KH<CH>>, MapUnion<HashMap<K, MapUnion<HashMap<K, SetUnion<PH>>>>>>(
        "(Keyed (Keyed Cart))", "Keyed<HashMap,Keyed<HashMap,Cartesian>>(MH<MH<SH>>+Singleton<Singleton>,MH<MH<SH>>+VecMap)", || KeyedBimorphism::new(KeyedBimorphism::new(CH::default())));
    // PairBimorphism
    r.add::<SH, SB, PairOf<SH, SB>>("Pair", "Pair(SH,SB)", pair_of);
    r.add::<MH<SH>, WithBot<SH>, PairOf<MH<SH>, WithBot<SH>>>("Pair", "Pair(MH<SH>,WithBot<SH>)", pair_of);
    r.add::<Max<u8>, WithTop<SH>, PairOf<Max<u8>, WithTop<SH>>>("Pair", "Pair(Max<u8>,WithTop<SH>)", pair_of);
    r.add::<Pair<SH, Min<u8>>, MB<Max<u8>>, PairOf<Pair<SH, Min<u8>>, MB<Max<u8>>>>("Pair", "Pair(Pair<SH,Min<u8>>,MB<Max<u8>>)", pair_of);
    // KeyedBimorphism<_, PairBimorphism> (expressible from the public API; not used by the repo)
    r.add::<MH<SH>, MH<SH>, KH<PairOf<SH, SH>>>("(Keyed Pair)", "Keyed<HashMap,Pair>(MH<SH>,MH<SH>)", || KeyedBimorphism::new(pair_of()));
    r.add::<MB<WithBot<SH>>, MB<Max<u8>>, KB<PairOf<WithBot<SH>, Max<u8>>>>("(Keyed Pair)", "Keyed<BTreeMap,Pair>(MB<WithBot<SH>>,MB<Max<u8>>)", || KeyedBimorphism::new(pair_of()));
    r.add::<MH<MH<SH>>, MH<MH<SB>>, KH<KH<PairOf<SH, SB>>>>("(Keyed (Keyed Pair))", "Keyed<HashMap,Keyed<HashMap,Pair>>(MH<MH<SH>>,MH<MH<SB>>)", || KeyedBimorphism::new(KeyedBimorphism::new(pair_of())));
    r
}

fn run(case: &Value) -> Value {
    thread_local! { static REG: Registry = registry(); }
    REG.with(|r| match case["k"].as_str().unwrap_or("") {
        "types" => json!(r.names),
        "ght_shapes" => ght::shapes(),
        "ght" => guarded(|| ght::run(case)),
        "bim" => {
            let sh = case["sh"].as_str().unwrap();
            match r.run.get(sh) {
                Some(f) => guarded(|| f(case)),
                None => json!({ "unknown_shape": sh }),
            }
        }
        k => json!({ "unknown_kind": k }),
    })
}

fn main() {
    hvcommon::main_loop(run);
}
