//! C07 on the GHT bimorphisms of lattices/src/ght/lattice.rs: for tries a, da, b, db of one
//! GhtType! shape (built by inserting the given rows into Default), `check_lattice_bimorphism`'s
//! two assertions recorded instead of asserted, through the real
//!   join: <(T, T) as DeepJoinLatticeBimorphism<_>>::DeepJoinLatticeBimorphism
//!         (= GhtNodeKeyedBimorphism nested per key column over GhtValTypeProductBimorphism;
//!          for the key-less shape k0v2 it is GhtValTypeProductBimorphism itself)
//!   cart: GhtCartesianProductBimorphism into a trie with NKO key columns.
//! Output tries are printed as sorted row lists; == is the crate's PartialEq on the tries.
//! Shapes and row patterns follow harness/h_coll/src/ght.rs.
use hvcommon::{Value, json};
use lattices::ght::GeneralizedHashTrieNode;
use lattices::ght::lattice::{DeepJoinLatticeBimorphism, GhtCartesianProductBimorphism};
use lattices::{GhtType, LatticeBimorphism, Merge};
use variadics::variadic_collections::VariadicHashSetStd;
use variadics::{var_args, var_expr, var_type};

pub type Row = Vec<u32>;

fn sorted(mut rows: Vec<Row>) -> Vec<Row> {
    rows.sort();
    rows
}

trait GB: Sized {
    fn run(kind: &str, a: &[Row], da: &[Row], b: &[Row], db: &[Row]) -> Value;
}

macro_rules! rows_of {
    ($t:expr; $($v:ident),+) => {
        sorted($t.recursive_iter().map(|var_args!($($v),+)| vec![$(*$v),+]).collect())
    };
}

macro_rules! observe {
    ($bim:ident, $a:ident, $da:ident, $b:ident, $db:ident, $am:ident, $bm:ident; $($v:ident),+) => {{
        let ab = $bim.call(&$a, &$b);
        let dab = $bim.call(&$da, &$b);
        let adb = $bim.call(&$a, &$db);
        let l = $bim.call(&$am, &$b);
        let mut ml = $bim.call(&$a, &$b);
        Merge::merge(&mut ml, $bim.call(&$da, &$b));
        let r = $bim.call(&$a, &$bm);
        let mut mr = $bim.call(&$a, &$b);
        Merge::merge(&mut mr, $bim.call(&$a, &$db));
        json!({
            "ab": rows_of!(ab; $($v),+), "dab": rows_of!(dab; $($v),+), "adb": rows_of!(adb; $($v),+),
            "l": rows_of!(l; $($v),+), "ml": rows_of!(ml; $($v),+),
            "r": rows_of!(r; $($v),+), "mr": rows_of!(mr; $($v),+),
            "eq_l": l == ml, "eq_r": r == mr,
        })
    }};
}

macro_rules! impl_gb {
    ($ty:ty; $($i:tt),+; join $jty:ty, ($($jv:ident),+); cart $cty:ty, ($($cv:ident),+)) => {
        impl GB for $ty {
            fn run(kind: &str, a: &[Row], da: &[Row], b: &[Row], db: &[Row]) -> Value {
                let build = |rows: &[Row]| {
                    let mut t = <$ty>::default();
                    for r in rows {
                        GeneralizedHashTrieNode::insert(&mut t, var_expr!($(r[$i]),+));
                    }
                    t
                };
                let (a, da, b, db) = (build(a), build(da), build(b), build(db));
                let am = Merge::merge_owned(a.clone(), da.clone());
                let bm = Merge::merge_owned(b.clone(), db.clone());
                match kind {
                    "join" => {
                        type Bim = <($ty, $ty) as DeepJoinLatticeBimorphism<VariadicHashSetStd<$jty>>>::DeepJoinLatticeBimorphism;
                        let mut bim = <Bim as Default>::default();
                        observe!(bim, a, da, b, db, am, bm; $($jv),+)
                    }
                    "cart" => {
                        let mut bim = GhtCartesianProductBimorphism::<$cty>::default();
                        observe!(bim, a, da, b, db, am, bm; $($cv),+)
                    }
                    k => json!({ "unknown_bim": k }),
                }
            }
        }
    };
}

type K1V1 = GhtType!(u32 => u32: VariadicHashSetStd);
type K2V1 = GhtType!(u32, u32 => u32: VariadicHashSetStd);
type K2V0 = GhtType!(u32, u32 => (): VariadicHashSetStd);
type K1V2 = GhtType!(u32 => u32, u32: VariadicHashSetStd);
type K3V1 = GhtType!(u32, u32, u32 => u32: VariadicHashSetStd);
type K0V2 = GhtType!(() => u32, u32: VariadicHashSetStd);

type C4 = GhtType!(u32, u32 => u32, u32: VariadicHashSetStd);
type C6 = GhtType!(u32, u32, u32 => u32, u32, u32: VariadicHashSetStd);
type C8 = GhtType!(u32, u32, u32, u32 => u32, u32, u32, u32: VariadicHashSetStd);

impl_gb!(K1V1; 0, 1; join var_type!(u32, u32, u32), (a, b, c); cart C4, (a, b, c, d));
impl_gb!(K2V1; 0, 1, 2; join var_type!(u32, u32, u32, u32), (a, b, c, d); cart C6, (a, b, c, d, e, f));
impl_gb!(K2V0; 0, 1; join var_type!(u32, u32), (a, b); cart C4, (a, b, c, d));
impl_gb!(K1V2; 0, 1, 2; join var_type!(u32, u32, u32, u32, u32), (a, b, c, d, e); cart C6, (a, b, c, d, e, f));
impl_gb!(K3V1; 0, 1, 2, 3; join var_type!(u32, u32, u32, u32, u32), (a, b, c, d, e); cart C8, (a, b, c, d, e, f, g, h));
impl_gb!(K0V2; 0, 1; join var_type!(u32, u32, u32, u32), (a, b, c, d); cart C4, (a, b, c, d));

pub fn shapes() -> Value {
    json!([
        {"shape": "k1v1", "nk": 1, "arity": 2, "nko": 2},
        {"shape": "k2v1", "nk": 2, "arity": 3, "nko": 3},
        {"shape": "k2v0", "nk": 2, "arity": 2, "nko": 2},
        {"shape": "k1v2", "nk": 1, "arity": 3, "nko": 3},
        {"shape": "k3v1", "nk": 3, "arity": 4, "nko": 4},
        {"shape": "k0v2", "nk": 0, "arity": 2, "nko": 2},
    ])
}

fn rows(v: &Value) -> Vec<Row> {
    v.as_array()
        .unwrap()
        .iter()
        .map(|r| r.as_array().unwrap().iter().map(|x| x.as_u64().unwrap() as u32).collect())
        .collect()
}

pub fn run(case: &Value) -> Value {
    let kind = case["bim"].as_str().unwrap_or("");
    let (a, da, b, db) = (rows(&case["a"]), rows(&case["da"]), rows(&case["b"]), rows(&case["db"]));
    match case["shape"].as_str().unwrap_or("") {
        "k1v1" => K1V1::run(kind, &a, &da, &b, &db),
        "k2v1" => K2V1::run(kind, &a, &da, &b, &db),
        "k2v0" => K2V0::run(kind, &a, &da, &b, &db),
        "k1v2" => K1V2::run(kind, &a, &da, &b, &db),
        "k3v1" => K3V1::run(kind, &a, &da, &b, &db),
        "k0v2" => K0V2::run(kind, &a, &da, &b, &db),
        s => json!({ "unknown_shape": s }),
    }
}
