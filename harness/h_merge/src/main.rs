//! Correspondence harness for C15: drives the real `MergeSource` over `TaggedSource`s over
//! scripted streams (Rdy/Pend/End per poll) and reports every Poll value returned by the merged
//! stream together with the cursor / number of remaining sources after each poll.
//! Built through the `#[cfg(hydro_verif)]` constructors (the fields are private).
use std::pin::Pin;
use std::sync::{Arc, Mutex};
use std::task::{Context, Poll, Waker};

use futures::Stream;
use hvcommon::{Value, json};
use hydro_deploy_integration::{MergeSource, TaggedSource};

/// One step per poll: ["r", a] = Ready(Some(Ok(a))), ["p"] = Pending, ["e"] = Ready(None).
/// After the script: Ready(None).  Every poll is logged (source id) to detect polls after the end.
struct Script {
    id: u32,
    steps: Vec<Value>,
    pos: usize,
    log: Arc<Mutex<Vec<u32>>>,
}
impl Stream for Script {
    type Item = Result<u32, std::io::Error>;
    fn poll_next(self: Pin<&mut Self>, _cx: &mut Context<'_>) -> Poll<Option<Self::Item>> {
        let me = self.get_mut();
        me.log.lock().unwrap().push(me.id);
        let st = me.steps.get(me.pos).cloned();
        me.pos += 1;
        match st {
            None => Poll::Ready(None),
            Some(v) => match v[0].as_str().unwrap() {
                "r" => Poll::Ready(Some(Ok(v[1].as_u64().unwrap() as u32))),
                "p" => Poll::Pending,
                _ => Poll::Ready(None),
            },
        }
    }
}

fn run(case: &Value) -> Value {
    let log = Arc::new(Mutex::new(Vec::new()));
    let mut sources: Vec<Pin<Box<TaggedSource<u32, Script>>>> = Vec::new();
    for s in case["srcs"].as_array().unwrap() {
        let id = s["tag"].as_u64().unwrap() as u32;
        let script = Script { id, steps: s["script"].as_array().unwrap().clone(), pos: 0, log: log.clone() };
        sources.push(Box::pin(TaggedSource::verif_new(id, Box::pin(script))));
    }
    let mut merged = MergeSource::verif_new(sources);
    let mut cx = Context::from_waker(Waker::noop());
    let mut obs = Vec::new();
    for _ in 0..case["polls"].as_u64().unwrap() {
        let r = match Pin::new(&mut merged).poll_next(&mut cx) {
            Poll::Ready(Some(Ok((t, a)))) => json!(["rdy", t, a]),
            Poll::Ready(Some(Err(_))) => json!(["err"]),
            Poll::Ready(None) => json!(["none"]),
            Poll::Pending => json!(["pend"]),
        };
        let (c, n) = merged.verif_cursor();
        let polled = std::mem::take(&mut *log.lock().unwrap());
        obs.push(json!({"r": r, "cur": c, "len": n, "polled": polled}));
    }
    json!({ "obs": obs })
}

fn main() {
    hvcommon::main_loop(run)
}
