//! Correspondence harness for C35: the real bincode (through `hydro_lang::runtime_support::bincode`,
//! the path the generated networking closures use), the real `MemberId` tagless conversions and the
//! real `sinktools::demux_map`.
//!
//! Case kinds
//!  * `{"k":"val","ty":T,"v":V,"mbytes":[..]}`: dynamic value of type code T through the serde data model.
//!    Result: `{"bytes":[..], "rt":V', "from_model":V''}` = real serialize, real deserialize of it,
//!    real deserialize of the model's bytes (`mbytes`).
//!  * `{"k":"dec","ty":T,"bytes":[..]}`: real deserialize of arbitrary bytes: `{"v":V}` or `{"err":true}`.
//!  * `{"k":"raft","rpc":R}`: the derive-generated impls of `RaftRpc<u64, Replica>` (real payload type
//!    of the Raft example): `{"bytes":[..],"rt":R'}`.
//!  * `{"k":"view","term":n,"leader":null|id}`: `LeaderView<Replica>`; `{"k":"entry","e":[s,t,i]}`: `LogEntry<String>`.
//!  * `{"k":"member","raw":n}`: `MemberId::from_raw_id(n).into_tagless()` / `from_tagless` round trip + bytes.
//!  * `{"k":"demux","keys":[..],"items":[[key,x]..]}`: real `sinktools::demux_map`: `{"queues":[[key,[x..]]..]}` or panic.
//!  * `{"k":"wire","ty":T,"sender":s,"members":[..],"items":[[dest,V]..]}`: the send closure
//!    `(id.into_tagless(), bincode::serialize(&data))`, the real demux_map keyed by raw id, and the receive
//!    closure `(MemberId::from_tagless(sender), bincode::deserialize(&b))`: `{"recv":[[member,[[sender,V]..]]..]}`.
use std::cell::RefCell;
use std::collections::HashMap;
use std::pin::Pin;
use std::rc::Rc;

use hvcommon::{Value, json};
use hydro_lang::location::{MemberId, TaglessMemberId};
// `hydro_lang::runtime_support::bincode` is a re-export of this same crate (bincode 1.3.3 in /repo/Cargo.lock)
use bincode::Options;
use hydro_test::cluster::raft::{
    AppendEntriesReply, AppendEntriesRequest, LeaderView, LogEntry, RaftRpc, Replica, RequestVoteDto,
    RequestVoteResponseDto,
};
use serde::de::{DeserializeSeed, EnumAccess, SeqAccess, VariantAccess, Visitor};
use serde::ser::{SerializeSeq, SerializeTuple, SerializeTupleVariant};
use serde::{Deserialize, Deserializer, Serialize, Serializer};
use sinktools::Sink;

#[derive(Clone, Debug, PartialEq)]
enum Ty {
    U8,
    U16,
    U32,
    U64,
    I64,
    Bool,
    Str,
    Opt(Box<Ty>),
    Vec(Box<Ty>),
    Tup(Vec<Ty>),
    Enum(Vec<Ty>),
}

#[derive(Clone, Debug, PartialEq)]
enum Val {
    U(u64),
    I(i64),
    B(bool),
    S(String),
    None,
    Some(Box<Val>),
    Vec(Vec<Val>),
    Tup(Vec<Val>),
    Enum(u32, Box<Val>),
}

static NAMES: [&str; 8] = ["V0", "V1", "V2", "V3", "V4", "V5", "V6", "V7"];

fn ty(v: &Value) -> Ty {
    if let Some(s) = v.as_str() {
        return match s {
            "U8" => Ty::U8,
            "U16" => Ty::U16,
            "U32" => Ty::U32,
            "U64" => Ty::U64,
            "I64" => Ty::I64,
            "Bool" => Ty::Bool,
            "Str" => Ty::Str,
            _ => panic!("bad type {s}"),
        };
    }
    let o = v.as_object().unwrap();
    if let Some(t) = o.get("Opt") {
        Ty::Opt(Box::new(ty(t)))
    } else if let Some(t) = o.get("Vec") {
        Ty::Vec(Box::new(ty(t)))
    } else if let Some(t) = o.get("Tup") {
        Ty::Tup(t.as_array().unwrap().iter().map(ty).collect())
    } else {
        Ty::Enum(o["Enum"].as_array().unwrap().iter().map(ty).collect())
    }
}

fn val(t: &Ty, v: &Value) -> Val {
    match t {
        Ty::U8 | Ty::U16 | Ty::U32 | Ty::U64 => Val::U(v.as_u64().unwrap()),
        Ty::I64 => Val::I(v.as_i64().unwrap()),
        Ty::Bool => Val::B(v.as_bool().unwrap()),
        Ty::Str => Val::S(v.as_str().unwrap().to_owned()),
        Ty::Opt(t) => {
            let a = v.as_array().unwrap();
            if a.is_empty() { Val::None } else { Val::Some(Box::new(val(t, &a[0]))) }
        }
        Ty::Vec(t) => Val::Vec(v.as_array().unwrap().iter().map(|x| val(t, x)).collect()),
        Ty::Tup(ts) => Val::Tup(ts.iter().zip(v.as_array().unwrap()).map(|(t, x)| val(t, x)).collect()),
        Ty::Enum(ts) => {
            let k = v["tag"].as_u64().unwrap() as usize;
            Val::Enum(k as u32, Box::new(val(&ts[k], &v["v"])))
        }
    }
}

fn j_val(v: &Val) -> Value {
    match v {
        Val::U(n) => json!(n),
        Val::I(n) => json!(n),
        Val::B(b) => json!(b),
        Val::S(s) => json!(s),
        Val::None => json!([]),
        Val::Some(x) => json!([j_val(x)]),
        Val::Vec(xs) | Val::Tup(xs) => json!(xs.iter().map(j_val).collect::<Vec<_>>()),
        Val::Enum(k, x) => json!({"tag": k, "v": j_val(x)}),
    }
}

struct Typed<'a>(&'a Ty, &'a Val);

impl Serialize for Typed<'_> {
    fn serialize<S: Serializer>(&self, s: S) -> Result<S::Ok, S::Error> {
        match (self.0, self.1) {
            (Ty::U8, Val::U(n)) => s.serialize_u8(*n as u8),
            (Ty::U16, Val::U(n)) => s.serialize_u16(*n as u16),
            (Ty::U32, Val::U(n)) => s.serialize_u32(*n as u32),
            (Ty::U64, Val::U(n)) => s.serialize_u64(*n),
            (Ty::I64, Val::I(n)) => s.serialize_i64(*n),
            (Ty::Bool, Val::B(b)) => s.serialize_bool(*b),
            (Ty::Str, Val::S(x)) => s.serialize_str(x),
            (Ty::Opt(_), Val::None) => s.serialize_none(),
            (Ty::Opt(t), Val::Some(x)) => s.serialize_some(&Typed(t, x)),
            (Ty::Vec(t), Val::Vec(xs)) => {
                let mut seq = s.serialize_seq(Some(xs.len()))?;
                for x in xs {
                    seq.serialize_element(&Typed(t, x))?;
                }
                seq.end()
            }
            (Ty::Tup(ts), Val::Tup(xs)) => {
                let mut tup = s.serialize_tuple(ts.len())?;
                for (t, x) in ts.iter().zip(xs) {
                    tup.serialize_element(&Typed(t, x))?;
                }
                tup.end()
            }
            (Ty::Enum(ts), Val::Enum(k, x)) => {
                let t = &ts[*k as usize];
                let name = NAMES[*k as usize];
                match (t, &**x) {
                    (Ty::Tup(fs), Val::Tup(_)) if fs.is_empty() => s.serialize_unit_variant("E", *k, name),
                    (Ty::Tup(fs), Val::Tup(xs)) if fs.len() >= 2 => {
                        let mut tv = s.serialize_tuple_variant("E", *k, name, fs.len())?;
                        for (f, x) in fs.iter().zip(xs) {
                            tv.serialize_field(&Typed(f, x))?;
                        }
                        tv.end()
                    }
                    _ => s.serialize_newtype_variant("E", *k, name, &Typed(t, x)),
                }
            }
            _ => Err(serde::ser::Error::custom("ill-typed value")),
        }
    }
}

struct Seed<'a>(&'a Ty);
struct OptV<'a>(&'a Ty);
struct SeqV<'a>(&'a Ty);
struct TupV<'a>(&'a [Ty]);
struct EnumV<'a>(&'a [Ty]);

impl<'de> DeserializeSeed<'de> for Seed<'_> {
    type Value = Val;
    fn deserialize<D: Deserializer<'de>>(self, d: D) -> Result<Val, D::Error> {
        match self.0 {
            Ty::U8 => u8::deserialize(d).map(|x| Val::U(x as u64)),
            Ty::U16 => u16::deserialize(d).map(|x| Val::U(x as u64)),
            Ty::U32 => u32::deserialize(d).map(|x| Val::U(x as u64)),
            Ty::U64 => u64::deserialize(d).map(Val::U),
            Ty::I64 => i64::deserialize(d).map(Val::I),
            Ty::Bool => bool::deserialize(d).map(Val::B),
            Ty::Str => String::deserialize(d).map(Val::S),
            Ty::Opt(t) => d.deserialize_option(OptV(t)),
            Ty::Vec(t) => d.deserialize_seq(SeqV(t)),
            Ty::Tup(ts) => d.deserialize_tuple(ts.len(), TupV(ts)),
            Ty::Enum(ts) => d.deserialize_enum("E", &NAMES[..ts.len()], EnumV(ts)),
        }
    }
}

impl<'de> Visitor<'de> for OptV<'_> {
    type Value = Val;
    fn expecting(&self, f: &mut std::fmt::Formatter) -> std::fmt::Result {
        f.write_str("option")
    }
    fn visit_none<E>(self) -> Result<Val, E> {
        Ok(Val::None)
    }
    fn visit_some<D: Deserializer<'de>>(self, d: D) -> Result<Val, D::Error> {
        Seed(self.0).deserialize(d).map(|v| Val::Some(Box::new(v)))
    }
}

impl<'de> Visitor<'de> for SeqV<'_> {
    type Value = Val;
    fn expecting(&self, f: &mut std::fmt::Formatter) -> std::fmt::Result {
        f.write_str("seq")
    }
    fn visit_seq<A: SeqAccess<'de>>(self, mut a: A) -> Result<Val, A::Error> {
        let mut out = Vec::new();
        while let Some(v) = a.next_element_seed(Seed(self.0))? {
            out.push(v);
        }
        Ok(Val::Vec(out))
    }
}

impl<'de> Visitor<'de> for TupV<'_> {
    type Value = Val;
    fn expecting(&self, f: &mut std::fmt::Formatter) -> std::fmt::Result {
        f.write_str("tuple")
    }
    fn visit_seq<A: SeqAccess<'de>>(self, mut a: A) -> Result<Val, A::Error> {
        let mut out = Vec::new();
        for (i, t) in self.0.iter().enumerate() {
            match a.next_element_seed(Seed(t))? {
                Some(v) => out.push(v),
                None => return Err(serde::de::Error::invalid_length(i, &"tuple")),
            }
        }
        Ok(Val::Tup(out))
    }
}

impl<'de> Visitor<'de> for EnumV<'_> {
    type Value = Val;
    fn expecting(&self, f: &mut std::fmt::Formatter) -> std::fmt::Result {
        f.write_str("enum")
    }
    fn visit_enum<A: EnumAccess<'de>>(self, a: A) -> Result<Val, A::Error> {
        // what the derive-generated `__Field` visitor does: variant index, range-checked
        let (k, variant): (u32, _) = a.variant()?;
        let Some(t) = self.0.get(k as usize) else {
            return Err(serde::de::Error::custom("variant index out of range"));
        };
        let v = match t {
            Ty::Tup(fs) if fs.is_empty() => {
                variant.unit_variant()?;
                Val::Tup(vec![])
            }
            Ty::Tup(fs) if fs.len() >= 2 => variant.tuple_variant(fs.len(), TupV(fs))?,
            _ => variant.newtype_variant_seed(Seed(t))?,
        };
        Ok(Val::Enum(k, Box::new(v)))
    }
}

fn bytes_of(v: &Value) -> Vec<u8> {
    v.as_array().unwrap().iter().map(|x| x.as_u64().unwrap() as u8).collect()
}

/// what `bincode::deserialize::<T>(&b)` does, for a type known only at run time
fn de_dyn(t: &Ty, b: &[u8]) -> Result<Val, String> {
    bincode::DefaultOptions::new()
        .with_fixint_encoding()
        .allow_trailing_bytes()
        .deserialize_seed(Seed(t), b)
        .map_err(|e| e.to_string())
}

fn j_res(r: Result<Val, String>) -> Value {
    match r {
        Ok(v) => json!({"v": j_val(&v)}),
        Err(_) => json!({"err": true}),
    }
}

fn us(v: &Value) -> usize {
    v.as_u64().unwrap() as usize
}
fn entry(v: &Value) -> LogEntry<u64> {
    LogEntry { message: v[0].as_u64().unwrap(), term_received: us(&v[1]), index: us(&v[2]) }
}
fn rpc(v: &Value) -> RaftRpc<u64, Replica> {
    match v["t"].as_str().unwrap() {
        "RV" => RaftRpc::RequestVote(RequestVoteDto {
            term: us(&v["term"]),
            last_log_index: us(&v["lli"]),
            last_log_term: us(&v["llt"]),
        }),
        "RVR" => RaftRpc::RequestVoteResponse(RequestVoteResponseDto { term: us(&v["term"]) }),
        "AE" => RaftRpc::AppendEntries(AppendEntriesRequest {
            term: us(&v["term"]),
            leader: MemberId::from_raw_id(us(&v["leader"]) as u32),
            prev_log_index: us(&v["pli"]),
            prev_log_term: us(&v["plt"]),
            entries: v["entries"].as_array().unwrap().iter().map(entry).collect(),
            leader_commit: us(&v["lc"]),
        }),
        _ => RaftRpc::AppendEntriesReply(AppendEntriesReply {
            term: us(&v["term"]),
            success: v["succ"].as_bool().unwrap(),
            match_index: us(&v["mi"]),
        }),
    }
}
fn j_rpc(r: &RaftRpc<u64, Replica>) -> Value {
    match r {
        RaftRpc::RequestVote(d) => json!({"t":"RV","term":d.term,"lli":d.last_log_index,"llt":d.last_log_term}),
        RaftRpc::RequestVoteResponse(d) => json!({"t":"RVR","term":d.term}),
        RaftRpc::AppendEntries(a) => json!({"t":"AE","term":a.term,"leader":a.leader.get_raw_id(),
            "pli":a.prev_log_index,"plt":a.prev_log_term,
            "entries":a.entries.iter().map(|e| json!([e.message,e.term_received,e.index])).collect::<Vec<_>>(),
            "lc":a.leader_commit}),
        RaftRpc::AppendEntriesReply(a) => json!({"t":"AER","term":a.term,"succ":a.success,"mi":a.match_index}),
    }
}

type Queue<T> = Rc<RefCell<Vec<T>>>;

/// the real sinktools::demux_map over collecting sinks
fn demux<T: 'static>(keys: &[u32], items: Vec<(u32, T)>) -> Vec<(u32, Queue<T>)> {
    let mut queues = Vec::new();
    let mut sinks = HashMap::new();
    for k in keys {
        let q: Queue<T> = Rc::new(RefCell::new(Vec::new()));
        queues.push((*k, q.clone()));
        sinks.insert(*k, sinktools::for_each::ForEach::new(move |x: T| q.borrow_mut().push(x)));
    }
    let mut dm = sinktools::demux_map(sinks);
    let waker = futures::task::noop_waker();
    let mut cx = std::task::Context::from_waker(&waker);
    for it in items {
        let r = Pin::new(&mut dm).poll_ready(&mut cx);
        assert!(r.is_ready());
        Pin::new(&mut dm).start_send(it).unwrap();
    }
    let r = Pin::new(&mut dm).poll_flush(&mut cx);
    assert!(r.is_ready());
    queues
}

/// scripted member sink: one-slot mailbox; `poll_ready` answers the next script entry (Ready once the
/// script is exhausted), a Ready answer means the receiver took the mailbox content; `start_send`
/// into an occupied mailbox overwrites (loses) the old message
struct MemberState {
    script: std::collections::VecDeque<bool>,
    slot: Option<u64>,
    got: Vec<u64>,
    lost: u64,
    answers: Vec<bool>,
}
struct ScriptSink(Rc<RefCell<MemberState>>);
impl Sink<u64> for ScriptSink {
    type Error = std::convert::Infallible;
    fn poll_ready(self: Pin<&mut Self>, _cx: &mut std::task::Context<'_>) -> std::task::Poll<Result<(), Self::Error>> {
        let mut m = self.0.borrow_mut();
        let a = m.script.pop_front().unwrap_or(true);
        m.answers.push(a);
        if a {
            if let Some(x) = m.slot.take() {
                m.got.push(x);
            }
            std::task::Poll::Ready(Ok(()))
        } else {
            std::task::Poll::Pending
        }
    }
    fn start_send(self: Pin<&mut Self>, item: u64) -> Result<(), Self::Error> {
        let mut m = self.0.borrow_mut();
        if m.slot.is_some() {
            m.lost += 1;
        }
        m.slot = Some(item);
        Ok(())
    }
    fn poll_flush(self: Pin<&mut Self>, _cx: &mut std::task::Context<'_>) -> std::task::Poll<Result<(), Self::Error>> {
        let mut m = self.0.borrow_mut();
        if let Some(x) = m.slot.take() {
            m.got.push(x);
        }
        std::task::Poll::Ready(Ok(()))
    }
    fn poll_close(self: Pin<&mut Self>, cx: &mut std::task::Context<'_>) -> std::task::Poll<Result<(), Self::Error>> {
        self.poll_flush(cx)
    }
}

/// {"k":"bp","init":[[key,[bool..]],..],"items":[[key,x],..],"fuel":n}: the real demux_map over scripted
/// member sinks, driven by a sender that follows the Sink contract (poll_ready until Ready, then start_send)
fn run_bp(case: &Value) -> Value {
    let fuel = case["fuel"].as_u64().unwrap_or(40);
    let mut states = Vec::new();
    let mut sinks = HashMap::new();
    for ks in case["init"].as_array().unwrap() {
        let k = us(&ks[0]) as u32;
        let st = Rc::new(RefCell::new(MemberState {
            script: ks[1].as_array().unwrap().iter().map(|b| b.as_bool().unwrap()).collect(),
            slot: None,
            got: Vec::new(),
            lost: 0,
            answers: Vec::new(),
        }));
        states.push((k, st.clone()));
        sinks.insert(k, ScriptSink(st));
    }
    let mut dm = sinktools::demux_map(sinks);
    let waker = futures::task::noop_waker();
    let mut cx = std::task::Context::from_waker(&waker);
    let mut polls = Vec::new();
    for p in case["items"].as_array().unwrap() {
        let mut ready = false;
        for _ in 0..fuel {
            let r = Pin::new(&mut dm).poll_ready(&mut cx).is_ready();
            polls.push(r);
            if r {
                ready = true;
                break;
            }
        }
        if !ready {
            return json!({"stuck": true});
        }
        Pin::new(&mut dm).start_send((us(&p[0]) as u32, p[1].as_u64().unwrap())).unwrap();
    }
    let r = Pin::new(&mut dm).poll_flush(&mut cx);
    assert!(r.is_ready());
    json!({
        "members": states.iter().map(|(k, st)| { let m = st.borrow(); json!([k, m.got, m.lost]) }).collect::<Vec<_>>(),
        "answers": states.iter().map(|(k, st)| json!([k, st.borrow().answers])).collect::<Vec<_>>(),
        "polls": polls,
    })
}

fn run(case: &Value) -> Value {
    match case["k"].as_str().unwrap_or("") {
        "val" => {
            let t = ty(&case["ty"]);
            let v = val(&t, &case["v"]);
            let bytes = bincode::serialize(&Typed(&t, &v)).unwrap();
            let rt = de_dyn(&t, &bytes);
            let fm = de_dyn(&t, &bytes_of(&case["mbytes"]));
            // trailing bytes are allowed by bincode::deserialize
            let mut more = bytes.clone();
            more.extend_from_slice(&[7, 7, 7]);
            let tr = de_dyn(&t, &more);
            json!({"bytes": bytes, "rt": j_res(rt), "from_model": j_res(fm), "trailing": j_res(tr)})
        }
        "dec" => {
            let t = ty(&case["ty"]);
            j_res(de_dyn(&t, &bytes_of(&case["bytes"])))
        }
        "raft" => {
            let r = rpc(&case["rpc"]);
            let bytes = bincode::serialize(&r).unwrap();
            let back: RaftRpc<u64, Replica> = bincode::deserialize(&bytes).unwrap();
            json!({"bytes": bytes, "rt": j_rpc(&back)})
        }
        "view" => {
            let v: LeaderView<Replica> = LeaderView {
                term: us(&case["term"]),
                leader: if case["leader"].is_null() { None } else { Some(MemberId::from_raw_id(us(&case["leader"]) as u32)) },
            };
            let bytes = bincode::serialize(&v).unwrap();
            let back: LeaderView<Replica> = bincode::deserialize(&bytes).unwrap();
            json!({"bytes": bytes, "rt_ok": back == v})
        }
        "entry" => {
            let e = LogEntry { message: case["e"][0].as_str().unwrap().to_owned(), term_received: us(&case["e"][1]), index: us(&case["e"][2]) };
            let bytes = bincode::serialize(&e).unwrap();
            let back: LogEntry<String> = bincode::deserialize(&bytes).unwrap();
            json!({"bytes": bytes, "rt_ok": back == e})
        }
        "member" => {
            let raw = us(&case["raw"]) as u32;
            let m: MemberId<Replica> = MemberId::from_raw_id(raw);
            let t: TaglessMemberId = m.clone().into_tagless();
            let back: MemberId<Replica> = MemberId::from_tagless(t.clone());
            let bytes = bincode::serialize(&m).unwrap();
            let tbytes = bincode::serialize(&t).unwrap();
            let de: MemberId<Replica> = bincode::deserialize(&bytes).unwrap();
            json!({"same": back == m, "raw_back": back.get_raw_id(), "tagless_raw": t.get_raw_id(),
                   "tagless_again": back.into_tagless() == t, "bytes": bytes, "tbytes": tbytes, "de_raw": de.get_raw_id()})
        }
        "bp" => run_bp(case),
        "demux" => {
            let keys: Vec<u32> = case["keys"].as_array().unwrap().iter().map(|x| us(x) as u32).collect();
            let items: Vec<(u32, u64)> =
                case["items"].as_array().unwrap().iter().map(|p| (us(&p[0]) as u32, p[1].as_u64().unwrap())).collect();
            let qs = demux(&keys, items);
            json!({"queues": qs.iter().map(|(k, q)| json!([k, *q.borrow()])).collect::<Vec<_>>()})
        }
        "wire" => {
            let t = ty(&case["ty"]);
            let sender: MemberId<Replica> = MemberId::from_raw_id(us(&case["sender"]) as u32);
            let members: Vec<u32> = case["members"].as_array().unwrap().iter().map(|x| us(x) as u32).collect();
            // send closure: |(id, data)| (id.into_tagless(), bincode::serialize(&data).unwrap().into())
            let mut wire: Vec<(u32, Vec<u8>)> = Vec::new();
            for p in case["items"].as_array().unwrap() {
                let id: MemberId<Replica> = MemberId::from_raw_id(us(&p[0]) as u32);
                let data = val(&t, &p[1]);
                let (tid, b): (TaglessMemberId, Vec<u8>) = (id.into_tagless(), bincode::serialize(&Typed(&t, &data)).unwrap());
                wire.push((tid.get_raw_id(), b));
            }
            let qs = demux(&members, wire);
            // the channel to each member delivers (sender's tagless id, bytes); receive closure:
            // |res| { let (id, b) = res.unwrap(); (MemberId::from_tagless(id), bincode::deserialize(&b).unwrap()) }
            let mut recv = Vec::new();
            for (k, q) in qs {
                let mut got = Vec::new();
                for b in q.borrow().iter() {
                    let id: TaglessMemberId = sender.clone().into_tagless();
                    let (from, v): (MemberId<Replica>, Val) = (MemberId::from_tagless(id), de_dyn(&t, b).unwrap());
                    got.push(json!([from.get_raw_id(), j_val(&v)]));
                }
                recv.push(json!([k, got]));
            }
            json!({"recv": recv})
        }
        _ => json!({"bad_case": "unknown kind"}),
    }
}

fn main() {
    hvcommon::main_loop(run)
}
