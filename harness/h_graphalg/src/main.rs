//! Correspondence harness for C17 (engine GraphAlg): calls the real
//! `dfir_lang::graph::graph_algorithms::{topo_sort, validate_topo_sort, SubgraphMerge}` and
//! `dfir_lang::union_find::UnionFind` on the graphs / operation sequences of the JSON case.
//!
//! Node `n` of a case is the `n`-th key inserted into a `SlotMap` (so key order = numeric order,
//! which is what `SecondaryMap::keys()`, `sort_unstable` and `BTreeSet` observe); `topo_sort`
//! and `validate_topo_sort` are generic and are called on plain `u32` ids.
use std::collections::HashMap;

use dfir_lang::graph::graph_algorithms::{SubgraphMerge, topo_sort, validate_topo_sort};
use dfir_lang::union_find::UnionFind;
use hvcommon::{Value, json};
use slotmap::{DefaultKey, SlotMap};

fn u32s(v: &Value) -> Vec<u32> {
    v.as_array().unwrap().iter().map(|x| x.as_u64().unwrap() as u32).collect()
}

fn adj(v: &Value) -> HashMap<u32, Vec<u32>> {
    let mut m = HashMap::new();
    for e in v.as_array().unwrap() {
        // first entry wins, as in the model's association-list lookup
        m.entry(e[0].as_u64().unwrap() as u32).or_insert_with(|| u32s(&e[1]));
    }
    m
}

fn pairs(v: &Value) -> Vec<(u32, u32)> {
    v.as_array()
        .unwrap()
        .iter()
        .map(|p| (p[0].as_u64().unwrap() as u32, p[1].as_u64().unwrap() as u32))
        .collect()
}

struct Keys {
    keys: Vec<DefaultKey>,
    back: HashMap<DefaultKey, u32>,
}
impl Keys {
    fn new(n: u32) -> Self {
        let mut sm = SlotMap::<DefaultKey, ()>::new();
        let keys: Vec<_> = (0..n).map(|_| sm.insert(())).collect();
        let back = keys.iter().enumerate().map(|(i, &k)| (k, i as u32)).collect();
        Keys { keys, back }
    }
    fn k(&self, n: u32) -> DefaultKey {
        self.keys[n as usize]
    }
    fn n(&self, k: DefaultKey) -> u32 {
        self.back[&k]
    }
}

fn run_topo(case: &Value) -> Value {
    let nodes = u32s(&case["nodes"]);
    let a = adj(&case["adj"]);
    let r = topo_sort(nodes.iter().copied(), |n| a.get(&n).cloned().unwrap_or_default());
    match r {
        Ok(o) => json!({ "ok": o }),
        Err(c) => json!({ "err": c }),
    }
}

fn run_validate(case: &Value) -> Value {
    let order = u32s(&case["order"]);
    let a = adj(&case["adj"]);
    match validate_topo_sort(order.iter().copied(), |n| a.get(&n).cloned().unwrap_or_default()) {
        Ok(()) => json!({ "v": "ok" }),
        Err((p, s)) => json!({ "v": "err", "p": p, "s": s }),
    }
}

fn run_uf(case: &Value) -> Value {
    let ops = case["ops"].as_array().unwrap();
    let max = ops
        .iter()
        .flat_map(|o| o.as_array().unwrap()[1..].iter().map(|x| x.as_u64().unwrap() as u32))
        .max()
        .unwrap_or(0);
    let ks = Keys::new(max + 1);
    let mut uf = UnionFind::<DefaultKey>::new();
    let mut outs = Vec::new();
    for o in ops {
        let a = ks.k(o[1].as_u64().unwrap() as u32);
        match o[0].as_str().unwrap() {
            "u" => outs.push(ks.n(uf.union(a, ks.k(o[2].as_u64().unwrap() as u32)))),
            "f" => outs.push(ks.n(uf.find(a))),
            "s" => outs.push(uf.same_set(a, ks.k(o[2].as_u64().unwrap() as u32)) as u32),
            other => panic!("bad uf op {other}"),
        }
    }
    json!({ "outs": outs })
}

fn snapshot(sm: &mut SubgraphMerge<DefaultKey>, ks: &Keys, sorted_keys: &[u32]) -> Value {
    let sgs: Vec<Vec<u32>> = sm.subgraphs().map(|g| g.iter().map(|&k| ks.n(k)).collect()).collect();
    let reps: Vec<u32> = sorted_keys.iter().map(|&n| ks.n(sm.find(ks.k(n)))).collect();
    json!({ "sgs": sgs, "reps": reps })
}

fn run_sm(case: &Value) -> Value {
    let keys = u32s(&case["keys"]);
    let a = adj(&case["adj"]);
    let enemies = pairs(&case["enemies"]);
    let merges = pairs(&case["merges"]);
    let max = keys
        .iter()
        .copied()
        .chain(a.iter().flat_map(|(k, v)| std::iter::once(*k).chain(v.iter().copied())))
        .chain(enemies.iter().flat_map(|&(x, y)| [x, y]))
        .chain(merges.iter().flat_map(|&(x, y)| [x, y]))
        .max()
        .unwrap_or(0);
    let ks = Keys::new(max + 1);
    let mut sorted_keys = keys.clone();
    sorted_keys.sort_unstable();
    sorted_keys.dedup();
    let new = SubgraphMerge::new(
        keys.iter().map(|&n| ks.k(n)),
        |k| a.get(&ks.n(k)).cloned().unwrap_or_default().into_iter().map(|n| ks.k(n)).collect::<Vec<_>>(),
        enemies.iter().map(|&(x, y)| (ks.k(x), ks.k(y))),
    );
    let mut sm = match new {
        Err(c) => return json!({ "cycle": c.iter().map(|&k| ks.n(k)).collect::<Vec<_>>() }),
        Ok(sm) => sm,
    };
    let s0 = snapshot(&mut sm, &ks, &sorted_keys);
    let mut steps = Vec::new();
    for &(x, y) in &merges {
        let r = sm.try_merge(ks.k(x), ks.k(y));
        let sn = snapshot(&mut sm, &ks, &sorted_keys);
        steps.push(json!({ "r": r, "sgs": sn["sgs"], "reps": sn["reps"] }));
    }
    json!({ "s0": s0, "steps": steps })
}

fn run(case: &Value) -> Value {
    match case["k"].as_str().unwrap_or("") {
        "topo" => run_topo(case),
        "validate" => run_validate(case),
        "uf" => run_uf(case),
        "sm" => run_sm(case),
        other => json!({ "bad_case": format!("unknown kind {other}") }),
    }
}

fn main() {
    hvcommon::main_loop(run)
}
