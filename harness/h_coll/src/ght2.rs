//! C08 (extended): tries with every leaf storage (hash set / counted hash set / column multiset),
//! plus the operations that can leave `forced` leaves and empty children behind:
//! ColtForestNode::force_drain (root-leaf shape) and get_mut(&k) + drain() on a child leaf.
use std::cmp::Ordering;

use hvcommon::{Value, guarded, json};
use lattices::ght::colt::ColtForestNode;
use lattices::ght::{GeneralizedHashTrieNode, GhtGet};
use lattices::{GhtType, IsBot};
use variadics::{var_args, var_expr};

pub type Row = Vec<u32>;

trait Trie2: Clone + Default {
    fn insert(&mut self, r: &[u32]) -> bool;
    fn merge_node(&mut self, o: Self) -> bool;
    fn contains(&self, r: &[u32]) -> bool;
    fn iter(&self) -> Vec<Row>;
    fn cmp(&self, o: &Self) -> Value;
    fn eq(&self, o: &Self) -> Value;
    fn is_bot(&self) -> Value;
    fn force_drain(&mut self) -> Value;
    fn child_drain(&mut self, k: u32) -> Value;
}

fn sorted(mut rows: Vec<Row>) -> Vec<Row> {
    rows.sort();
    rows
}

fn cmp_json(c: Option<Ordering>) -> Value {
    json!({"cmp": match c {
        None => "None",
        Some(Ordering::Less) => "Lt",
        Some(Ordering::Equal) => "Eq",
        Some(Ordering::Greater) => "Gt",
    }})
}

macro_rules! impl_trie2 {
    ($ty:ty; $($i:tt $v:ident),+; cmp |$ca:ident, $cb:ident| $cbody:expr; eq |$ea:ident, $eb:ident| $ebody:expr;
     bot |$bt:ident| $bbody:expr; force_drain |$dt:ident| $dbody:expr) => {
        impl Trie2 for $ty {
            fn insert(&mut self, r: &[u32]) -> bool {
                GeneralizedHashTrieNode::insert(self, var_expr!($(r[$i]),+))
            }
            fn merge_node(&mut self, o: Self) -> bool { GeneralizedHashTrieNode::merge_node(self, o) }
            fn contains(&self, r: &[u32]) -> bool {
                GeneralizedHashTrieNode::contains(self, var_expr!($(&r[$i]),+))
            }
            fn iter(&self) -> Vec<Row> {
                self.recursive_iter().map(|var_args!($($v),+)| vec![$(*$v),+]).collect()
            }
            fn cmp(&self, o: &Self) -> Value { let $ca = self; let $cb = o; $cbody }
            fn eq(&self, o: &Self) -> Value { let $ea = self; let $eb = o; $ebody }
            fn is_bot(&self) -> Value { let $bt = self; $bbody }
            fn force_drain(&mut self) -> Value { let $dt = self; $dbody }
            fn child_drain(&mut self, k: u32) -> Value {
                match GhtGet::get_mut(self, &k) {
                    None => json!({"optrows": null}),
                    Some(c) => match c.drain() {
                        None => json!("inner"),
                        Some(it) => {
                            let rows: Vec<Row> = it.map(|var_args!($($v),+)| vec![$($v),+]).collect();
                            json!({"optrows": sorted(rows)})
                        }
                    },
                }
            }
        }
    };
}

macro_rules! fd_leaf2 {
    ($t:ident) => {
        match ColtForestNode::force_drain($t) {
            None => json!({"optrows": null}),
            Some(f) => json!({"optrows": sorted(f.recursive_iter().map(|var_args!(a, b)| vec![*a, *b]).collect())}),
        }
    };
}

type SK1V1 = GhtType!(u32 => u32: VariadicHashSetStd);
type SK2V1 = GhtType!(u32, u32 => u32: VariadicHashSetStd);
type SK0V2 = GhtType!(() => u32, u32: VariadicHashSetStd);
type CK1V1 = GhtType!(u32 => u32: VariadicCountedHashSetStd);
type CK2V1 = GhtType!(u32, u32 => u32: VariadicCountedHashSetStd);
type CK0V2 = GhtType!(() => u32, u32: VariadicCountedHashSetStd);
type MK1V1 = GhtType!(u32 => u32: VariadicColumnMultiset);
type MK2V1 = GhtType!(u32, u32 => u32: VariadicColumnMultiset);
type MK0V2 = GhtType!(() => u32, u32: VariadicColumnMultiset);

// hash set: PartialOrd and PartialEq everywhere
impl_trie2!(SK1V1; 0 a, 1 b; cmp |x, y| cmp_json(x.partial_cmp(y)); eq |x, y| json!({"b": x == y});
            bot |x| json!({"b": IsBot::is_bot(x)}); force_drain |_t| json!({"optrows": null}));
impl_trie2!(SK2V1; 0 a, 1 b, 2 c; cmp |x, y| cmp_json(x.partial_cmp(y)); eq |x, y| json!({"b": x == y});
            bot |x| json!({"b": IsBot::is_bot(x)}); force_drain |_t| json!({"optrows": null}));
impl_trie2!(SK0V2; 0 a, 1 b; cmp |x, y| cmp_json(x.partial_cmp(y)); eq |x, y| json!({"b": x == y});
            bot |x| json!({"b": IsBot::is_bot(x)}); force_drain |t| fd_leaf2!(t));
// counted hash set: no PartialOrd (not a VariadicSet); PartialEq on the bare leaf only
impl_trie2!(CK1V1; 0 a, 1 b; cmp |_x, _y| json!("unsupported"); eq |_x, _y| json!("unsupported");
            bot |_x| json!("unsupported"); force_drain |_t| json!({"optrows": null}));
impl_trie2!(CK2V1; 0 a, 1 b, 2 c; cmp |_x, _y| json!("unsupported"); eq |_x, _y| json!("unsupported");
            bot |_x| json!("unsupported"); force_drain |_t| json!({"optrows": null}));
impl_trie2!(CK0V2; 0 a, 1 b; cmp |_x, _y| json!("unsupported"); eq |x, y| json!({"b": x == y});
            bot |_x| json!("unsupported"); force_drain |t| fd_leaf2!(t));
// column multiset: neither
impl_trie2!(MK1V1; 0 a, 1 b; cmp |_x, _y| json!("unsupported"); eq |_x, _y| json!("unsupported");
            bot |_x| json!("unsupported"); force_drain |_t| json!({"optrows": null}));
impl_trie2!(MK2V1; 0 a, 1 b, 2 c; cmp |_x, _y| json!("unsupported"); eq |_x, _y| json!("unsupported");
            bot |_x| json!("unsupported"); force_drain |_t| json!({"optrows": null}));
impl_trie2!(MK0V2; 0 a, 1 b; cmp |_x, _y| json!("unsupported"); eq |_x, _y| json!("unsupported");
            bot |_x| json!("unsupported"); force_drain |t| fd_leaf2!(t));

fn row_of(v: &Value) -> Row {
    v.as_array().unwrap().iter().map(|x| x.as_u64().unwrap() as u32).collect()
}

fn history<T: Trie2>(ops: &[Value]) -> Value {
    let mut regs = [T::default(), T::default()];
    let mut out = Vec::with_capacity(ops.len());
    for op in ops {
        let name = op[0].as_str().unwrap();
        let w = op[1].as_u64().unwrap() as usize;
        let a = match name {
            "ins" => json!({"b": regs[w].insert(&row_of(&op[2]))}),
            "merge" => {
                let o = regs[1 - w].clone();
                json!({"b": regs[w].merge_node(o)})
            }
            "contains" => json!({"b": regs[w].contains(&row_of(&op[2]))}),
            "iter" => json!({"rows": sorted(regs[w].iter())}),
            "cmp" => guarded(|| regs[w].cmp(&regs[1 - w])),
            "eq" => guarded(|| regs[w].eq(&regs[1 - w])),
            "is_bot" => regs[w].is_bot(),
            "force_drain" => regs[w].force_drain(),
            "child_drain" => regs[w].child_drain(op[2].as_u64().unwrap() as u32),
            _ => json!({"bad_op": name}),
        };
        out.push(a);
    }
    json!({ "ans": out })
}

pub fn run(case: &Value) -> Value {
    let ops = case["ops"].as_array().unwrap();
    let key = format!("{}/{}", case["storage"].as_str().unwrap_or(""), case["shape"].as_str().unwrap_or(""));
    match key.as_str() {
        "set/k1v1" => history::<SK1V1>(ops),
        "set/k2v1" => history::<SK2V1>(ops),
        "set/k0v2" => history::<SK0V2>(ops),
        "counted/k1v1" => history::<CK1V1>(ops),
        "counted/k2v1" => history::<CK2V1>(ops),
        "counted/k0v2" => history::<CK0V2>(ops),
        "column/k1v1" => history::<MK1V1>(ops),
        "column/k2v1" => history::<MK2V1>(ops),
        "column/k0v2" => history::<MK0V2>(ops),
        _ => json!({"bad_case": "storage/shape"}),
    }
}
