//! C08 (extended): COLT forests (ColtType!, column multiset storage) and ColtGet::get.
//! Ops: insert into the first (leaf) trie; get along a key path (each get's result is the
//! receiver of the next), observing the rows of every element of the result forest; all rows.
use hvcommon::{Value, json};
use lattices::ColtType;
use lattices::ght::GeneralizedHashTrieNode;
use lattices::ght::colt::ColtGet;
use variadics::{VariadicExt, var_args, var_expr};

pub type Row = Vec<u32>;

fn sorted(mut rows: Vec<Row>) -> Vec<Row> {
    rows.sort();
    rows
}

macro_rules! rows2 {
    ($t:expr) => { sorted($t.recursive_iter().map(|var_args!(a, b)| vec![*a, *b]).collect()) };
}
macro_rules! rows3 {
    ($t:expr) => { sorted($t.recursive_iter().map(|var_args!(a, b, c)| vec![*a, *b, *c]).collect()) };
}

macro_rules! rows4 {
    ($t:expr) => { sorted($t.recursive_iter().map(|var_args!(a, b, c, d)| vec![*a, *b, *c, *d]).collect()) };
}

type F2 = ColtType!(u32, u32);
type F4 = ColtType!(u32, u32, u32, u32);
type F3 = ColtType!(u32, u32, u32);

fn run2(ops: &[Value]) -> Value {
    let mut f = F2::default();
    let mut out = Vec::new();
    for op in ops {
        let a = match op[0].as_str().unwrap() {
            "ins" => {
                let r: Vec<u32> = op[1].as_array().unwrap().iter().map(|x| x.as_u64().unwrap() as u32).collect();
                f.0.insert(var_expr!(r[0], r[1]));
                json!("unit")
            }
            "get" => {
                let p: Vec<u32> = op[1].as_array().unwrap().iter().map(|x| x.as_u64().unwrap() as u32).collect();
                match p.len() {
                    0 => json!({"forest": [rows2!(f.0), rows2!(f.1.0), rows2!(f.1.1.0)]}),
                    1 => {
                        let var_args!(r0, r1) = ColtGet::get(f.as_mut_var(), &p[0]);
                        json!({"forest": [rows2!(r0), rows2!(r1)]})
                    }
                    _ => {
                        let g1 = ColtGet::get(f.as_mut_var(), &p[0]);
                        let var_args!(r0) = ColtGet::get(g1, &p[1]);
                        json!({"forest": [rows2!(r0)]})
                    }
                }
            }
            "all" => json!({"forest": [rows2!(f.0), rows2!(f.1.0), rows2!(f.1.1.0)]}),
            _ => json!({"bad_op": true}),
        };
        out.push(a);
    }
    json!({ "ans": out })
}

fn run3(ops: &[Value]) -> Value {
    let mut f = F3::default();
    let mut out = Vec::new();
    for op in ops {
        let a = match op[0].as_str().unwrap() {
            "ins" => {
                let r: Vec<u32> = op[1].as_array().unwrap().iter().map(|x| x.as_u64().unwrap() as u32).collect();
                f.0.insert(var_expr!(r[0], r[1], r[2]));
                json!("unit")
            }
            "get" => {
                let p: Vec<u32> = op[1].as_array().unwrap().iter().map(|x| x.as_u64().unwrap() as u32).collect();
                match p.len() {
                    0 => json!({"forest": [rows3!(f.0), rows3!(f.1.0), rows3!(f.1.1.0), rows3!(f.1.1.1.0)]}),
                    1 => {
                        let var_args!(r0, r1, r2) = ColtGet::get(f.as_mut_var(), &p[0]);
                        json!({"forest": [rows3!(r0), rows3!(r1), rows3!(r2)]})
                    }
                    2 => {
                        let g1 = ColtGet::get(f.as_mut_var(), &p[0]);
                        let var_args!(r0, r1) = ColtGet::get(g1, &p[1]);
                        json!({"forest": [rows3!(r0), rows3!(r1)]})
                    }
                    _ => {
                        let g1 = ColtGet::get(f.as_mut_var(), &p[0]);
                        let g2 = ColtGet::get(g1, &p[1]);
                        let var_args!(r0) = ColtGet::get(g2, &p[2]);
                        json!({"forest": [rows3!(r0)]})
                    }
                }
            }
            "all" => json!({"forest": [rows3!(f.0), rows3!(f.1.0), rows3!(f.1.1.0), rows3!(f.1.1.1.0)]}),
            _ => json!({"bad_op": true}),
        };
        out.push(a);
    }
    json!({ "ans": out })
}

fn run4(ops: &[Value]) -> Value {
    let mut f = F4::default();
    let mut out = Vec::new();
    for op in ops {
        let a = match op[0].as_str().unwrap() {
            "ins" => {
                let r: Vec<u32> = op[1].as_array().unwrap().iter().map(|x| x.as_u64().unwrap() as u32).collect();
                f.0.insert(var_expr!(r[0], r[1], r[2], r[3]));
                json!("unit")
            }
            "get" => {
                let p: Vec<u32> = op[1].as_array().unwrap().iter().map(|x| x.as_u64().unwrap() as u32).collect();
                match p.len() {
                    0 => json!({"forest": [rows4!(f.0), rows4!(f.1.0), rows4!(f.1.1.0), rows4!(f.1.1.1.0), rows4!(f.1.1.1.1.0)]}),
                    1 => {
                        let var_args!(r0, r1, r2, r3) = ColtGet::get(f.as_mut_var(), &p[0]);
                        json!({"forest": [rows4!(r0), rows4!(r1), rows4!(r2), rows4!(r3)]})
                    }
                    2 => {
                        let g1 = ColtGet::get(f.as_mut_var(), &p[0]);
                        let var_args!(r0, r1, r2) = ColtGet::get(g1, &p[1]);
                        json!({"forest": [rows4!(r0), rows4!(r1), rows4!(r2)]})
                    }
                    3 => {
                        let g1 = ColtGet::get(f.as_mut_var(), &p[0]);
                        let g2 = ColtGet::get(g1, &p[1]);
                        let var_args!(r0, r1) = ColtGet::get(g2, &p[2]);
                        json!({"forest": [rows4!(r0), rows4!(r1)]})
                    }
                    _ => {
                        let g1 = ColtGet::get(f.as_mut_var(), &p[0]);
                        let g2 = ColtGet::get(g1, &p[1]);
                        let g3 = ColtGet::get(g2, &p[2]);
                        let var_args!(r0) = ColtGet::get(g3, &p[3]);
                        json!({"forest": [rows4!(r0)]})
                    }
                }
            }
            "all" => json!({"forest": [rows4!(f.0), rows4!(f.1.0), rows4!(f.1.1.0), rows4!(f.1.1.1.0), rows4!(f.1.1.1.1.0)]}),
            _ => json!({"bad_op": true}),
        };
        out.push(a);
    }
    json!({ "ans": out })
}

pub fn run(case: &Value) -> Value {
    let ops = case["ops"].as_array().unwrap();
    match case["arity"].as_u64().unwrap_or(0) {
        2 => run2(ops),
        3 => run3(ops),
        4 => run4(ops),
        _ => json!({"bad_case": "arity"}),
    }
}
