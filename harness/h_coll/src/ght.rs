//! C08: operation histories on real generalized hash tries (several GhtType! shapes, set storage).
//! Two registers of the same trie type; every op prints its observation; a panic inside an op
//! (partial_cmp reaching unreachable!()) is that op's observation.
use std::cmp::Ordering;

use hvcommon::{Value, guarded, json};
use lattices::ght::colt::ColtForestNode;
use lattices::ght::lattice::{DeepJoinLatticeBimorphism, GhtCartesianProductBimorphism};
use lattices::ght::{GeneralizedHashTrieNode, GhtGet, GhtPrefixIter};
use lattices::{GhtType, IsBot, LatticeBimorphism, Merge};
use variadics::variadic_collections::VariadicHashSetStd;
use variadics::{var_args, var_expr, var_type};

pub type Row = Vec<u32>;

trait Trie: Clone + Default {
    fn insert(&mut self, r: &[u32]) -> bool;
    fn merge_node(&mut self, o: Self) -> bool;
    fn lmerge(&mut self, o: Self) -> bool;
    fn contains(&self, r: &[u32]) -> bool;
    fn iter(&self) -> Vec<Row>;
    fn prefix(&self, p: &[u32]) -> Value;
    fn leaf(&self, r: &[u32]) -> Value;
    fn cmp(&self, o: &Self) -> Option<Ordering>;
    fn eq(&self, o: &Self) -> bool;
    fn height(&self) -> usize;
    fn is_bot(&self) -> bool;
    /// DeepJoinLatticeBimorphism of self with o (same schema): rows of the output trie
    fn join(&self, o: &Self) -> Vec<Row>;
    /// GhtCartesianProductBimorphism at the roots, collected into a trie with NKO key columns
    fn cart(&self, o: &Self) -> Vec<Row>;
    const NKO: usize;
    /// ColtForestNode::force on a clone: rows of the forced trie (Some) or None (inner nodes)
    fn force(&self) -> Value;
    /// ColtForestNode::force_drain (mutating): rows of the forced trie or None
    fn force_drain(&mut self) -> Value;
    /// GhtGet::get_mut(&k) then GeneralizedHashTrieNode::drain() on that child (public API):
    /// null if there is no such child, "inner" if the child is not a leaf, else the drained rows
    fn child_drain(&mut self, k: u32) -> Value;
}

fn sorted(mut rows: Vec<Row>) -> Vec<Row> {
    rows.sort();
    rows
}

macro_rules! u32ref {
    ($x:ident) => { &u32 };
}

macro_rules! impl_trie {
    ($ty:ty; $($i:tt $v:ident),+; $( $plen:literal => ($($pi:tt),*) ),* ;
     join $jty:ty, ($($jv:ident),+); cart $cty:ty, $nko:literal, ($($cv:ident),+) ) => {
        impl_trie!($ty; $($i $v),+; $( $plen => ($($pi),*) ),* ;
                   join $jty, ($($jv),+); cart $cty, $nko, ($($cv),+); force |_t| json!("unsupported");
                   force_drain |_t| json!("unsupported"));
    };
    ($ty:ty; $($i:tt $v:ident),+; $( $plen:literal => ($($pi:tt),*) ),* ;
     join $jty:ty, ($($jv:ident),+); cart $cty:ty, $nko:literal, ($($cv:ident),+);
     force |$ft:ident| $fbody:expr; force_drain |$dt:ident| $dbody:expr ) => {
        impl Trie for $ty {
            fn insert(&mut self, r: &[u32]) -> bool {
                GeneralizedHashTrieNode::insert(self, var_expr!($(r[$i]),+))
            }
            fn merge_node(&mut self, o: Self) -> bool { GeneralizedHashTrieNode::merge_node(self, o) }
            fn lmerge(&mut self, o: Self) -> bool { Merge::merge(self, o) }
            fn contains(&self, r: &[u32]) -> bool {
                GeneralizedHashTrieNode::contains(self, var_expr!($(&r[$i]),+))
            }
            fn iter(&self) -> Vec<Row> {
                self.recursive_iter().map(|var_args!($($v),+)| vec![$(*$v),+]).collect()
            }
            fn prefix(&self, p: &[u32]) -> Value {
                // the leaf impl of GhtPrefixIter demands `KeyPrefixRef: 'static`: leak the (tiny) key
                let p: &'static [u32] = Box::leak(p.to_vec().into_boxed_slice());
                fn conv(var_args!($($v),+): var_type!($(u32ref!($v)),+)) -> Row { vec![$(*$v),+] }
                match p.len() {
                    $( $plen => json!({"rows": sorted(
                        GhtPrefixIter::prefix_iter(self, var_expr!($(&p[$pi]),*)).map(conv).collect())}), )*
                    _ => json!("unsupported"),
                }
            }
            fn leaf(&self, r: &[u32]) -> Value {
                match self.find_containing_leaf(var_expr!($(&r[$i]),+)) {
                    None => json!({"optrows": null}),
                    Some(l) => json!({"optrows": sorted(
                        l.recursive_iter().map(|var_args!($($v),+)| vec![$(*$v),+]).collect())}),
                }
            }
            fn cmp(&self, o: &Self) -> Option<Ordering> { self.partial_cmp(o) }
            fn eq(&self, o: &Self) -> bool { self == o }
            fn height(&self) -> usize { GeneralizedHashTrieNode::height(self) }
            fn is_bot(&self) -> bool { IsBot::is_bot(self) }
            fn join(&self, o: &Self) -> Vec<Row> {
                type Bim = <($ty, $ty) as DeepJoinLatticeBimorphism<VariadicHashSetStd<$jty>>>::DeepJoinLatticeBimorphism;
                let mut bim = <Bim as Default>::default();
                let out = bim.call(self, o);
                out.recursive_iter().map(|var_args!($($jv),+)| vec![$(*$jv),+]).collect()
            }
            fn cart(&self, o: &Self) -> Vec<Row> {
                let mut bim = GhtCartesianProductBimorphism::<$cty>::default();
                let out: $cty = bim.call(self, o);
                out.recursive_iter().map(|var_args!($($cv),+)| vec![$(*$cv),+]).collect()
            }
            const NKO: usize = $nko;
            fn force(&self) -> Value {
                let $ft = self;
                $fbody
            }
            fn force_drain(&mut self) -> Value {
                let $dt = self;
                $dbody
            }
            fn child_drain(&mut self, k: u32) -> Value {
                match GhtGet::get_mut(self, &k) {
                    None => json!({"optrows": null}),
                    Some(c) => match c.drain() {
                        None => json!("inner"),
                        Some(it) => {
                            let rows: Vec<Row> = it.map(|var_args!($($v),+)| vec![$($v),+]).collect();
                            json!({"optrows": sorted(rows)})
                        }
                    },
                }
            }
        }
    };
}

type K1V1 = GhtType!(u32 => u32: VariadicHashSetStd);
type K2V1 = GhtType!(u32, u32 => u32: VariadicHashSetStd);
type K2V0 = GhtType!(u32, u32 => (): VariadicHashSetStd);
type K1V2 = GhtType!(u32 => u32, u32: VariadicHashSetStd);
type K3V1 = GhtType!(u32, u32, u32 => u32: VariadicHashSetStd);
type K0V2 = GhtType!(() => u32, u32: VariadicHashSetStd);

type C4 = GhtType!(u32, u32 => u32, u32: VariadicHashSetStd);
type C6 = GhtType!(u32, u32, u32 => u32, u32, u32: VariadicHashSetStd);
type C8 = GhtType!(u32, u32, u32, u32 => u32, u32, u32, u32: VariadicHashSetStd);

impl_trie!(K1V1; 0 a, 1 b; 0 => (), 1 => (0), 2 => (0, 1);
           join var_type!(u32, u32, u32), (a, b, c); cart C4, 2, (a, b, c, d));
impl_trie!(K2V1; 0 a, 1 b, 2 c; 0 => (), 1 => (0), 2 => (0, 1), 3 => (0, 1, 2);
           join var_type!(u32, u32, u32, u32), (a, b, c, d); cart C6, 3, (a, b, c, d, e, f));
impl_trie!(K2V0; 0 a, 1 b; 0 => (), 1 => (0), 2 => (0, 1);
           join var_type!(u32, u32), (a, b); cart C4, 2, (a, b, c, d));
impl_trie!(K1V2; 0 a, 1 b, 2 c; 0 => (), 1 => (0), 2 => (0, 1), 3 => (0, 1, 2);
           join var_type!(u32, u32, u32, u32, u32), (a, b, c, d, e); cart C6, 3, (a, b, c, d, e, f));
impl_trie!(K3V1; 0 a, 1 b, 2 c, 3 d; 0 => (), 1 => (0), 2 => (0, 1), 3 => (0, 1, 2), 4 => (0, 1, 2, 3);
           join var_type!(u32, u32, u32, u32, u32), (a, b, c, d, e); cart C8, 4, (a, b, c, d, e, f, g, h));
impl_trie!(K0V2; 0 a, 1 b; 0 => (), 1 => (0), 2 => (0, 1);
           join var_type!(u32, u32, u32, u32), (a, b, c, d); cart C4, 2, (a, b, c, d);
           force |t| match ColtForestNode::force(t.clone()) {
               None => json!({"optrows": null}),
               Some(f) => json!({"optrows": sorted(f.recursive_iter().map(|var_args!(a, b)| vec![*a, *b]).collect()),
                                 "forced_height": GeneralizedHashTrieNode::height(&f)}),
           };
           force_drain |t| match ColtForestNode::force_drain(t) {
               None => json!({"optrows": null}),
               Some(f) => json!({"optrows": sorted(f.recursive_iter().map(|var_args!(a, b)| vec![*a, *b]).collect()),
                                 "forced_height": GeneralizedHashTrieNode::height(&f)}),
           });

pub fn shapes() -> Value {
    json!([
        {"shape": "k1v1", "nk": 1, "arity": 2, "nko": K1V1::NKO},
        {"shape": "k2v1", "nk": 2, "arity": 3, "nko": K2V1::NKO},
        {"shape": "k2v0", "nk": 2, "arity": 2, "nko": K2V0::NKO},
        {"shape": "k1v2", "nk": 1, "arity": 3, "nko": K1V2::NKO},
        {"shape": "k3v1", "nk": 3, "arity": 4, "nko": K3V1::NKO},
        {"shape": "k0v2", "nk": 0, "arity": 2, "nko": K0V2::NKO},
    ])
}

fn row_of(v: &Value) -> Row {
    v.as_array().unwrap().iter().map(|x| x.as_u64().unwrap() as u32).collect()
}

fn cmp_json(c: Option<Ordering>) -> Value {
    json!({"cmp": match c {
        None => "None",
        Some(Ordering::Less) => "Lt",
        Some(Ordering::Equal) => "Eq",
        Some(Ordering::Greater) => "Gt",
    }})
}

fn history<T: Trie>(ops: &[Value]) -> Value {
    let mut regs = [T::default(), T::default()];
    let mut out = Vec::with_capacity(ops.len());
    for op in ops {
        let name = op[0].as_str().unwrap();
        let w = op[1].as_u64().unwrap() as usize;
        let a = match name {
            "ins" => json!({"b": regs[w].insert(&row_of(&op[2]))}),
            "merge" => {
                let o = regs[1 - w].clone();
                json!({"b": regs[w].merge_node(o)})
            }
            "lmerge" => {
                let o = regs[1 - w].clone();
                json!({"b": regs[w].lmerge(o)})
            }
            "contains" => json!({"b": regs[w].contains(&row_of(&op[2]))}),
            "iter" => json!({"rows": sorted(regs[w].iter())}),
            "prefix" => regs[w].prefix(&row_of(&op[2])),
            "leaf" => regs[w].leaf(&row_of(&op[2])),
            // partial_cmp takes shared references: a panic leaves both tries intact
            "cmp" => guarded(|| cmp_json(regs[w].cmp(&regs[1 - w]))),
            "eq" => guarded(|| json!({"b": regs[w].eq(&regs[1 - w])})),
            "join" => json!({"rows": sorted(regs[w].join(&regs[1 - w]))}),
            "cart" => json!({"rows": sorted(regs[w].cart(&regs[1 - w]))}),
            "force" => regs[w].force(),
            "force_drain" => regs[w].force_drain(),
            "child_drain" => regs[w].child_drain(op[2].as_u64().unwrap() as u32),
            "height" => json!({"n": regs[w].height()}),
            "is_bot" => json!({"b": regs[w].is_bot()}),
            _ => json!({"bad_op": name}),
        };
        out.push(a);
    }
    json!({ "ans": out })
}

pub fn run(case: &Value) -> Value {
    let ops = case["ops"].as_array().unwrap();
    match case["shape"].as_str().unwrap_or("") {
        "k1v1" => history::<K1V1>(ops),
        "k2v1" => history::<K2V1>(ops),
        "k2v0" => history::<K2V0>(ops),
        "k1v2" => history::<K1V2>(ops),
        "k3v1" => history::<K3V1>(ops),
        "k0v2" => history::<K0V2>(ops),
        _ => json!({"bad_case": "shape"}),
    }
}
