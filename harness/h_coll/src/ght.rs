use hvcommon::{Value, json};
pub fn run(_case: &Value) -> Value { json!({"bad_case": "ght not built yet"}) }
pub fn shapes() -> Value { json!([]) }
