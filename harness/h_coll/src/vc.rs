//! C10: operation histories on the real variadic collections.
//! Two registers (0/1) of the same collection type; every op prints its observation.
use std::hash::{BuildHasherDefault, DefaultHasher};

use hvcommon::{Value, json};
use variadics::variadic_collections::{
    VariadicCollection, VariadicColumnMultiset, VariadicCountedHashSet, VariadicHashSet,
};
use variadics::{var_args, var_expr, var_type};

/// deterministic hasher (SipHash-1-3 with zero keys): runs are reproducible
type H = BuildHasherDefault<DefaultHasher>;

pub type Row = Vec<u32>;

trait Coll: Clone {
    fn new() -> Self;
    fn insert(&mut self, r: &[u32]) -> bool;
    fn extend(&mut self, rs: &[Row]);
    fn drain(&mut self) -> Vec<Row>;
    fn contains(&self, r: &[u32]) -> bool;
    fn get(&self, r: &[u32]) -> Value;
    fn len(&self) -> usize;
    fn is_empty(&self) -> bool;
    fn iter(&self) -> Vec<Row>;
    fn into_iter(self) -> Vec<Row>;
    fn eq(&self, other: &Self) -> Value;
}

macro_rules! common_ops {
    ($($i:tt $v:ident),+) => {
        fn insert(&mut self, r: &[u32]) -> bool {
            VariadicCollection::insert(self, var_expr!($(r[$i]),+))
        }
        fn extend(&mut self, rs: &[Row]) {
            // a Vec's IntoIter has an exact size_hint, as the callers in lattices/ght have
            let batch: Vec<_> = rs.iter().map(|r| var_expr!($(r[$i]),+)).collect();
            Extend::extend(self, batch);
        }
        fn drain(&mut self) -> Vec<Row> {
            VariadicCollection::drain(self).map(|var_args!($($v),+)| vec![$($v),+]).collect()
        }
        fn contains(&self, r: &[u32]) -> bool {
            VariadicCollection::contains(self, var_expr!($(&r[$i]),+))
        }
        fn len(&self) -> usize { VariadicCollection::len(self) }
        fn is_empty(&self) -> bool { VariadicCollection::is_empty(self) }
        fn iter(&self) -> Vec<Row> {
            VariadicCollection::iter(self).map(|var_args!($($v),+)| vec![$(*$v),+]).collect()
        }
        fn into_iter(self) -> Vec<Row> {
            IntoIterator::into_iter(self).map(|var_args!($($v),+)| vec![$($v),+]).collect()
        }
    };
}

macro_rules! impl_colls {
    ($ty:ty; $($i:tt $v:ident),+) => {
        impl Coll for VariadicHashSet<$ty, H> {
            fn new() -> Self { Self::default() }
            common_ops!($($i $v),+);
            fn get(&self, r: &[u32]) -> Value {
                match VariadicHashSet::get(self, var_expr!($(&r[$i]),+)) {
                    None => json!({"optrow": null}),
                    Some(var_args!($($v),+)) => json!({"optrow": [$(*$v),+]}),
                }
            }
            fn eq(&self, other: &Self) -> Value { json!({"b": self == other}) }
        }
        impl Coll for VariadicCountedHashSet<$ty, H> {
            fn new() -> Self { Self::default() }
            common_ops!($($i $v),+);
            fn get(&self, r: &[u32]) -> Value {
                match VariadicCountedHashSet::get(self, var_expr!($(&r[$i]),+)) {
                    None => json!({"optent": null}),
                    Some((var_args!($($v),+), c)) => json!({"optent": [[$(*$v),+], *c]}),
                }
            }
            fn eq(&self, other: &Self) -> Value { json!({"b": self == other}) }
        }
        impl Coll for VariadicColumnMultiset<$ty> {
            fn new() -> Self { Self::default() }
            common_ops!($($i $v),+);
            fn get(&self, _r: &[u32]) -> Value { json!("unsupported") }
            fn eq(&self, _other: &Self) -> Value { json!("unsupported") }
        }
    };
}

impl_colls!(var_type!(u32, u32); 0 a, 1 b);
impl_colls!(var_type!(u32, u32, u32); 0 a, 1 b, 2 c);
impl_colls!(var_type!(u32, u32, u32, u32); 0 a, 1 b, 2 c, 3 d);

fn row_of(v: &Value) -> Row {
    v.as_array().unwrap().iter().map(|x| x.as_u64().unwrap() as u32).collect()
}

fn sorted(mut rows: Vec<Row>) -> Value {
    rows.sort();
    json!({ "rows": rows })
}

fn history<C: Coll>(ops: &[Value]) -> Value {
    let mut regs = [C::new(), C::new()];
    let mut out = Vec::with_capacity(ops.len());
    for op in ops {
        let name = op[0].as_str().unwrap();
        let w = op[1].as_u64().unwrap() as usize;
        let a = match name {
            "ins" => json!({"b": regs[w].insert(&row_of(&op[2]))}),
            "ext" => {
                let rs: Vec<Row> = op[2].as_array().unwrap().iter().map(row_of).collect();
                regs[w].extend(&rs);
                json!("unit")
            }
            "drain" => sorted(regs[w].drain()),
            "contains" => json!({"b": regs[w].contains(&row_of(&op[2]))}),
            "get" => regs[w].get(&row_of(&op[2])),
            "len" => json!({"n": regs[w].len()}),
            "is_empty" => json!({"b": regs[w].is_empty()}),
            "iter" => sorted(regs[w].iter()),
            "into_iter" => sorted(regs[w].clone().into_iter()),
            "eq" => regs[w].eq(&regs[1 - w]),
            _ => json!({"bad_op": name}),
        };
        out.push(a);
    }
    json!({ "ans": out })
}

pub fn run(case: &Value) -> Value {
    let ops = case["ops"].as_array().unwrap();
    let kind = case["kind"].as_str().unwrap();
    let arity = case["arity"].as_u64().unwrap();
    macro_rules! by_kind {
        ($ty:ty) => {
            match kind {
                "set" => history::<VariadicHashSet<$ty, H>>(ops),
                "counted" => history::<VariadicCountedHashSet<$ty, H>>(ops),
                "column" => history::<VariadicColumnMultiset<$ty>>(ops),
                _ => json!({"bad_case": "kind"}),
            }
        };
    }
    match arity {
        2 => by_kind!(var_type!(u32, u32)),
        3 => by_kind!(var_type!(u32, u32, u32)),
        4 => by_kind!(var_type!(u32, u32, u32, u32)),
        _ => json!({"bad_case": "arity"}),
    }
}
