//! C10: the variadic tuple-list operations of variadics/src/lib.rs on u32 variadics of arity 1-4:
//! extend, reverse, LEN, Split at every prefix length, SplitBySuffix at every suffix length,
//! HomogenousVariadic get / into_iter, into_option, PartialEqVariadic, and VecVariadic
//! push / zip_vecs / get / drain.
use hvcommon::{Value, guarded, json};
use variadics::{
    HomogenousVariadic, PartialEqVariadic, Split, SplitBySuffix, VariadicExt, VecVariadic, var_type,
};

trait ToVec {
    fn to_vec(&self) -> Vec<u32>;
}
impl ToVec for () {
    fn to_vec(&self) -> Vec<u32> { vec![] }
}
impl<R: ToVec> ToVec for (u32, R) {
    fn to_vec(&self) -> Vec<u32> {
        let mut v = vec![self.0];
        v.extend(self.1.to_vec());
        v
    }
}
impl<R: ToVec> ToVec for (&u32, R) {
    fn to_vec(&self) -> Vec<u32> {
        let mut v = vec![*self.0];
        v.extend(self.1.to_vec());
        v
    }
}
trait ToOptVec {
    fn to_opt_vec(&self) -> Vec<Option<u32>>;
}
impl ToOptVec for () {
    fn to_opt_vec(&self) -> Vec<Option<u32>> { vec![] }
}
impl<R: ToOptVec> ToOptVec for (Option<u32>, R) {
    fn to_opt_vec(&self) -> Vec<Option<u32>> {
        let mut v = vec![self.0];
        v.extend(self.1.to_opt_vec());
        v
    }
}
trait FromSlice {
    fn from_slice(s: &[u32]) -> Self;
}
impl FromSlice for () {
    fn from_slice(_s: &[u32]) -> Self {}
}
impl<R: FromSlice> FromSlice for (u32, R) {
    fn from_slice(s: &[u32]) -> Self { (s[0], R::from_slice(&s[1..])) }
}

type V0 = var_type!();
type V1 = var_type!(u32);
type V2 = var_type!(u32, u32);
type V3 = var_type!(u32, u32, u32);
type V4 = var_type!(u32, u32, u32, u32);

fn split_at<T, P>(t: T) -> Value
where
    T: Split<P>,
    P: VariadicExt + ToVec,
    T::Suffix: ToVec,
{
    let (p, s) = t.split();
    json!([p.to_vec(), s.to_vec()])
}
fn split_suffix<T, S>(t: T) -> Value
where
    T: SplitBySuffix<S>,
    S: VariadicExt + ToVec,
    T::Prefix: ToVec,
{
    let (p, s) = t.split_by_suffix();
    json!([p.to_vec(), s.to_vec()])
}

fn rows_json<I: Iterator<Item = Vec<u32>>>(it: I) -> Value {
    json!(it.collect::<Vec<_>>())
}

macro_rules! ops_for {
    ($ty:ty, $n:literal, [$($k:literal => $pty:ty),*], $case:expr) => {{
        let case: &Value = $case;
        let r: Vec<u32> = case["row"].as_array().unwrap().iter().map(|x| x.as_u64().unwrap() as u32).collect();
        let r2: Vec<u32> = case["row2"].as_array().unwrap().iter().map(|x| x.as_u64().unwrap() as u32).collect();
        let rows: Vec<Vec<u32>> = case["rows"].as_array().unwrap().iter()
            .map(|r| r.as_array().unwrap().iter().map(|x| x.as_u64().unwrap() as u32).collect()).collect();
        let idx = case["idx"].as_u64().unwrap() as usize;
        let lo = case["lo"].as_u64().unwrap() as usize;
        let hi = case["hi"].as_u64().unwrap() as usize;
        let t = <$ty as FromSlice>::from_slice(&r);
        let t2 = <$ty as FromSlice>::from_slice(&r2);
        let splits: Vec<Value> = vec![$( { let _ = $k; split_at::<$ty, $pty>(t) } ),*];
        let suffix_splits: Vec<Value> = vec![$( { let _ = $k; split_suffix::<$ty, $pty>(t) } ),*];
        let hget: Vec<Option<u32>> = (0..=$n).map(|i| HomogenousVariadic::<u32>::get(&t, i).copied()).collect();
        // column store: into_singleton_vec for the first row, push for the others (as the
        // column multiset does), or the Default (empty Vecs) if there are no rows
        let mut cols: <$ty as VariadicExt>::IntoVec = Default::default();
        for (i, row) in rows.iter().enumerate() {
            let rt = <$ty as FromSlice>::from_slice(row);
            if i == 0 { cols = rt.into_singleton_vec(); } else { cols.push(rt); }
        }
        let zip = rows_json(cols.zip_vecs().map(|x| x.to_vec()));
        let vget = VecVariadic::get(&mut cols, idx).map(|x| x.to_vec());
        let mut cols2 = cols.clone();
        let drained = guarded(|| {
            let d: Vec<Vec<u32>> = cols2.drain(lo..hi).map(|x| x.to_vec()).collect();
            json!(d)
        });
        let drained = if drained.get("panic").is_some() { Value::Null }
                      else { json!([drained, rows_json(cols2.zip_vecs().map(|x| x.to_vec()))]) };
        json!({
            "reverse": t.reverse().to_vec(),
            "reverse_ref": <$ty as VariadicExt>::reverse_ref(t.as_ref_var()).to_vec(),
            "extend": t.extend(t2).to_vec(),
            "len": VariadicExt::len(&t),
            "LEN": <$ty as VariadicExt>::LEN,
            "splits": splits,
            "suffix_splits": suffix_splits,
            "hget": hget,
            "into_iter": HomogenousVariadic::<u32>::into_iter(t).collect::<Vec<u32>>(),
            "into_option": t.into_option().to_opt_vec(),
            "eq": PartialEqVariadic::eq(&t, &t2),
            "eq_ref": <$ty as PartialEqVariadic>::eq_ref(t.as_ref_var(), t2.as_ref_var()),
            "as_ref": t.as_ref_var().to_vec(),
            "vec_zip": zip,
            "into_zip": rows_json(cols.clone().into_zip().map(|x| x.to_vec())),
            "vec_get": vget,
            "vec_drained": drained,
        })
    }};
}

pub fn run(case: &Value) -> Value {
    match case["row"].as_array().map(|a| a.len()).unwrap_or(0) {
        1 => ops_for!(V1, 1, [0 => V0, 1 => V1], case),
        2 => ops_for!(V2, 2, [0 => V0, 1 => V1, 2 => V2], case),
        3 => ops_for!(V3, 3, [0 => V0, 1 => V1, 2 => V2, 3 => V3], case),
        4 => ops_for!(V4, 4, [0 => V0, 1 => V1, 2 => V2, 3 => V3, 4 => V4], case),
        _ => json!({"bad_case": "arity"}),
    }
}
