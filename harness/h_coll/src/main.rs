//! Correspondence harness of engine E2 `Coll`:
//!   "k":"vc"  -- histories on VariadicHashSet / VariadicCountedHashSet / VariadicColumnMultiset (C10)
//!   "k":"ght" -- histories on generalized hash tries (C08)
use hvcommon::{Value, json};

mod colt;
mod ght;
mod ght2;
mod var;
mod vc;

fn run(case: &Value) -> Value {
    match case["k"].as_str() {
        Some("vc") => vc::run(case),
        Some("ght") => ght::run(case),
        Some("ght2") => ght2::run(case),
        Some("colt") => colt::run(case),
        Some("var") => var::run(case),
        Some("shapes") => ght::shapes(),
        _ => json!({ "bad_case": "unknown k" }),
    }
}

fn main() {
    hvcommon::main_loop(run)
}
