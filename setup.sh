#!/bin/sh
# Build everything the checks need from files on disk (offline): the Coq development and
# every harness crate.  Checks rebuild what changed afterwards.
set -e
cd "$(dirname "$0")"
export CARGO_NET_OFFLINE=true
./tools/mkcoqproject.sh
timeout 3600 make -C coq -j16 || echo "setup: Coq build incomplete (individual checks will report)"
python3 - <<'PY'
import os, sys
sys.path.insert(0, os.getcwd())
from tools import vlib
import json
import glob
groups = {}
for g in sorted(glob.glob("harness/*/GROUP")) + sorted(glob.glob("harness/*/*/GROUP")):
    groups[os.path.relpath(os.path.dirname(g), "harness")] = open(g).read().strip()
for crate, group in groups.items():
    ok, d, log = vlib.cargo_build(crate, group)
    print("setup: harness", crate, "ok" if ok else "FAILED")
    if not ok:
        print(log[-2000:])
PY
# warm the caches that are filled at run time (compiled simulations of harness/h_sim/e2e)
if [ -f tools/warm_e2e.py ]; then
    timeout 3000 python3 tools/warm_e2e.py || echo "setup: e2e warm-up incomplete (C37/C38 will compile on first use)"
fi
