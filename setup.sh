#!/bin/sh
# Build everything the checks need from files on disk (offline): the Coq development and
# every harness crate.  Checks rebuild what changed afterwards.
set -e
cd "$(dirname "$0")"
export CARGO_NET_OFFLINE=true
./tools/mkcoqproject.sh
timeout 3600 make -C coq -j16 || echo "setup: Coq build incomplete (individual checks will report)"
python3 - <<'PY'
import os, sys
sys.path.insert(0, os.getcwd())
from tools import vlib
import json
import glob
groups = {}
for g in sorted(glob.glob("harness/*/GROUP")):
    groups[os.path.basename(os.path.dirname(g))] = open(g).read().strip()
for crate, group in groups.items():
    ok, d, log = vlib.cargo_build(crate, group)
    print("setup: harness", crate, "ok" if ok else "FAILED")
    if not ok:
        print(log[-2000:])
PY
