#!/usr/bin/env python3
"""Warm the end-to-end simulation cache (called by setup.sh): build harness/h_sim/e2e and run
it once on one tiny case per program, so that the four trybuild dylibs the simulator compiles
at run time exist under /verif/.cache/target-hydro-e2e before any quick check needs them.
Writes no evidence; prints one status line; exit 0 iff every program ran."""
import json
import os
import sys
import time

ROOT = os.path.dirname(os.path.dirname(os.path.abspath(__file__)))
sys.path.insert(0, ROOT)
from tools import sim, vlib  # noqa: E402

CASES = [{"k": "exh", "prog": "batch_total", "a": [1], "b": []},
         {"k": "exh", "prog": "batch_noorder", "a": [1], "b": []},
         {"k": "exh", "prog": "two_ticks", "a": [1], "b": [2]},
         {"k": "exh", "prog": "two_hooks", "a": [1], "b": [2]},
         {"k": "exh", "prog": "atomic_keyed", "a": [7, 5], "b": []}]


def main():
    t0 = time.time()
    ok, bindir, log = vlib.cargo_build("h_sim/e2e", "hydro-e2e", timeout=3000)
    if not ok:
        print("warm_e2e: FAILED harness build (%.0fs): %s" % (time.time() - t0, log.strip().split("\n")[-1][:200]))
        return 1
    ctx = vlib.Ctx("warm_e2e", "quick", 0)
    env = sim.e2e_env()
    env["HV_CASE_TIMEOUT_MS"] = "2700000"
    res = vlib.run_harness(ctx, os.path.join(bindir, "h_sim_e2e"), CASES, env=env, name="warm", timeout=2900)
    done = [c["prog"] for c, r in zip(CASES, res) if "executions" in r]
    failed = [(c["prog"], json.dumps(r)[:160]) for c, r in zip(CASES, res) if "executions" not in r]
    if failed:
        print("warm_e2e: INCOMPLETE %d/%d programs compiled (%.0fs): %s" % (len(done), len(CASES), time.time() - t0, failed))
        return 1
    print("warm_e2e: OK %d programs compiled and run (%.0fs)" % (len(done), time.time() - t0))
    return 0


if __name__ == "__main__":
    sys.exit(main())
