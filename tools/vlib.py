"""Shared machinery of /verif/vcheck (see DESIGN.md section 2).

A property plug-in (props/Cxx.py) builds a `Spec` and calls `standard_check(ctx, spec)`.
The pipeline: hygiene -> model build -> proof build + Print Assumptions allow-list ->
harness build against /repo's working tree -> implementation run -> model run inside Coq
(vm_compute, sharded over coqc processes) -> verdict -> failing-input search -> evidence.
"""
import concurrent.futures
import hashlib
import json
import os
import re
import shutil
import subprocess
import sys
import time

ROOT = os.path.dirname(os.path.dirname(os.path.abspath(__file__)))
COQ = os.path.join(ROOT, "coq")
WORK = os.path.join(ROOT, "work")
CACHE = os.path.join(ROOT, ".cache")
REPO = os.environ.get("HV_REPO", "/repo")
NCPU = os.cpu_count() or 4

# ---------------------------------------------------------------------------- PRNG


class Rng:
    """SplitMix64; every random choice of a run derives from one state (VERIF_SEED)."""

    def __init__(self, seed):
        self.s = (seed * 0x9E3779B97F4A7C15 + 0x1234567) & 0xFFFFFFFFFFFFFFFF

    def next(self):
        self.s = (self.s + 0x9E3779B97F4A7C15) & 0xFFFFFFFFFFFFFFFF
        z = self.s
        z = ((z ^ (z >> 30)) * 0xBF58476D1CE4E5B9) & 0xFFFFFFFFFFFFFFFF
        z = ((z ^ (z >> 27)) * 0x94D049BB133111EB) & 0xFFFFFFFFFFFFFFFF
        return z ^ (z >> 31)

    def below(self, n):
        return self.next() % n if n > 0 else 0

    def range(self, lo, hi):
        """inclusive"""
        return lo + self.below(hi - lo + 1)

    def chance(self, num, den):
        return self.below(den) < num

    def choice(self, xs):
        return xs[self.below(len(xs))]

    def shuffle(self, xs):
        xs = list(xs)
        for i in range(len(xs) - 1, 0, -1):
            j = self.below(i + 1)
            xs[i], xs[j] = xs[j], xs[i]
        return xs

    def sample(self, xs, k):
        return self.shuffle(xs)[:k]

    def fork(self):
        return Rng(self.next())


# ---------------------------------------------------------------------------- context


class Ctx:
    def __init__(self, prop, tier, seed, replay=None):
        self.prop = prop
        self.tier = tier
        self.seed = seed
        self.replay = replay
        self.t0 = time.time()
        self.rng = Rng(seed)
        self.violations = []  # (replay_path, suffix)
        self.known = []  # KNOWN-FINDING lines
        self.notes = []
        self.workdir = os.path.join(WORK, prop)
        os.makedirs(self.workdir, exist_ok=True)
        os.makedirs(os.path.join(WORK, "replays"), exist_ok=True)

    def log(self, *a):
        print("[%s %6.1fs]" % (self.prop, time.time() - self.t0), *a, flush=True)

    def thorough(self):
        return self.tier == "thorough"


def run(cmd, timeout=None, cwd=None, env=None, inp=None):
    e = dict(os.environ)
    if env:
        e.update(env)
    try:
        p = subprocess.run(cmd, cwd=cwd, env=e, input=inp, stdout=subprocess.PIPE,
                           stderr=subprocess.STDOUT, timeout=timeout, text=True, errors="replace")
        return p.returncode, p.stdout
    except subprocess.TimeoutExpired as ex:
        out = ex.stdout or ""
        if isinstance(out, bytes):
            out = out.decode("utf8", "replace")
        return 124, out + "\n[timeout after %ss]" % timeout


# ---------------------------------------------------------------------------- hygiene

_BAD = re.compile(r"\b(Admitted|admit|Axiom|Axioms|Parameter|Parameters|Conjecture|Conjectures|"
                  r"Admit Obligations|bypass_check|Unset Guard Checking|Unset Positivity Checking|"
                  r"Unset Universe Checking|type-in-type|impredicative-set|give_up)\b")
_SECVAR = re.compile(r"^\s*(Variable|Variables|Hypothesis|Hypotheses|Context)\b")
_SEC = re.compile(r"^\s*(Section|Module Type)\s+(\w+)")
_END = re.compile(r"^\s*End\s+(\w+)")


def strip_comments(src):
    out, depth, i, n = [], 0, 0, len(src)
    instr = False
    while i < n:
        c = src[i]
        if depth == 0 and c == '"':
            instr = not instr
            out.append(c)
            i += 1
            continue
        if not instr and src.startswith("(*", i):
            depth += 1
            i += 2
            continue
        if not instr and depth > 0 and src.startswith("*)", i):
            depth -= 1
            i += 2
            continue
        if depth == 0:
            out.append(c)
        elif c == "\n":
            out.append("\n")
        i += 1
    return "".join(out)


def hygiene(files=None):
    """forbidden vernacular anywhere in the development (outside comments)."""
    problems = []
    if files is None:
        files = []
        for d, _, fs in os.walk(os.path.join(COQ, "theories")):
            files += [os.path.join(d, f) for f in fs if f.endswith(".v")]
    # the scan of one file depends on its content only: results are memoised by content hash
    # (a cache miss or an unreadable cache just means the file is scanned again)
    cache_path = os.path.join(WORK, "hygiene_cache.json")
    try:
        cache = json.load(open(cache_path))
    except Exception:
        cache = {}
    new_cache = {}
    for f in sorted(files):
        raw = open(f, errors="replace").read()
        rel = os.path.relpath(f, ROOT)
        key = rel + ":" + hashlib.sha1(raw.encode("utf-8", "replace")).hexdigest()
        if key in cache:
            new_cache[key] = cache[key]
            problems += cache[key]
            continue
        mine = []
        src = strip_comments(raw)
        depth = 0
        for ln, line in enumerate(src.split("\n"), 1):
            m = _BAD.search(line)
            if m:
                mine.append("%s:%d: forbidden `%s`" % (rel, ln, m.group(1)))
            if _SEC.match(line):
                depth += 1
            elif _END.match(line) and depth > 0:
                depth -= 1
            elif _SECVAR.match(line) and depth == 0:
                mine.append("%s:%d: Variable/Hypothesis outside a section" % (rel, ln))
        new_cache[key] = mine
        problems += mine
    try:
        tmp = cache_path + ".%d" % os.getpid()
        json.dump(new_cache, open(tmp, "w"))
        os.replace(tmp, cache_path)
    except Exception:
        pass
    cp = open(os.path.join(COQ, "_CoqProject")).read()
    for flag in ("-type-in-type", "-impredicative-set", "-vos", "-vok"):
        if flag in cp:
            problems.append("_CoqProject: forbidden flag " + flag)
    return problems


# ---------------------------------------------------------------------------- Coq builds


def coq_prepare():
    rc, out = run([os.path.join(ROOT, "tools", "mkcoqproject.sh")], timeout=120)
    if rc != 0:
        raise RuntimeError("mkcoqproject failed:\n" + out)


def coq_make(targets, timeout=1800, jobs=None):
    """make the given .vo targets (paths relative to coq/), full .vo builds only."""
    coq_prepare()
    jobs = jobs or NCPU
    rc, out = run(["make", "-j%d" % jobs] + list(targets), cwd=COQ, timeout=timeout)
    return rc == 0, out


def parse_assumptions(out):
    """Map theorem name -> list of axiom names, from `Print Assumptions` output that the
    Props files print as `(*PA name*)` markers via idtac-free convention:
    we rely on the file printing, before each Print Assumptions, a line `PA:<name>`
    produced by `Goal True. idtac "PA:<name>". Abort.` -- simpler: Props files use the
    command sequence `Print Assumptions X.` and Coq echoes nothing about X, so the plug-in
    lists the theorem names in order and we split the output on result blocks."""
    blocks = []
    cur = None
    for line in out.split("\n"):
        if line.startswith("Closed under the global context"):
            blocks.append([])
            cur = None
        elif line.startswith("Axioms:"):
            cur = []
            blocks.append(cur)
        elif cur is not None:
            m = re.match(r"^([A-Za-z_][\w.']*)\s*(:|$)", line)
            if m:
                cur.append(m.group(1))
            elif line.strip() == "" or not line.startswith(" "):
                if line.strip() and not line.startswith(" "):
                    cur = None
    return blocks


def coq_props(ctx, props_vo, theorems, allowed_axioms=(), timeout=1800):
    """(Re)build Props/Cxx.vo -- always recompiled so that Print Assumptions output is
    captured -- and check every theorem's assumptions against the allow-list.
    Returns dict(ok, obligations, discharged, failures:[str], log)."""
    res = dict(ok=False, obligations=len(theorems), discharged=0, failures=[], log="")
    vo = os.path.join(COQ, props_vo)
    vfile = vo[:-1]  # .v
    if not os.path.exists(vfile):
        res["failures"].append("missing " + props_vo[:-1])
        return res
    src = strip_comments(open(vfile).read())
    for th in theorems:
        if not re.search(r"\b(Theorem|Lemma|Corollary)\s+%s\b" % re.escape(th), src):
            res["failures"].append("theorem %s not stated in %s" % (th, props_vo[:-1]))
        if not re.search(r"Print Assumptions\s+%s\s*\." % re.escape(th), src):
            res["failures"].append("no `Print Assumptions %s` in %s" % (th, props_vo[:-1]))
    if res["failures"]:
        return res
    order = re.findall(r"Print Assumptions\s+([\w.']+)\s*\.", src)
    for f in (vo, vo + "k", vo + "s"):
        if os.path.exists(f):
            os.remove(f)
    ok, out = coq_make([props_vo], timeout=timeout)
    res["log"] = out
    if not ok:
        tail = "\n".join(out.strip().split("\n")[-25:])
        res["failures"].append("proof build failed for %s:\n%s" % (props_vo, tail))
        return res
    blocks = parse_assumptions(out)
    if len(blocks) != len(order):
        res["failures"].append("could not match Print Assumptions output (%d blocks, %d commands)"
                               % (len(blocks), len(order)))
        return res
    assum = dict(zip(order, blocks))
    res["assumptions"] = assum
    for th in theorems:
        extra = [a for a in assum.get(th, []) if a not in allowed_axioms]
        if extra:
            res["failures"].append("theorem %s depends on axioms outside the allow-list: %s" % (th, extra))
        else:
            res["discharged"] += 1
    res["ok"] = not res["failures"]
    return res


def coq_eval(ctx, imports, items, wrap="bad", shards=None, timeout=900, scope="N_scope",
             extra_defs=""):
    """Evaluate a list of Gallina terms of type N (verdict codes) with vm_compute, sharded
    over parallel coqc processes.  Returns list of ints (one per item).
    `wrap` must be a function `list N -> list (N*N)` returning (index, nonzero value)."""
    n = len(items)
    if n == 0:
        return []
    # shards of bounded size (a coqc run grows super-linearly with the file), run NCPU at a time
    shards = shards or max(min(NCPU, max(1, n // 40)), (n + 399) // 400)
    size = (n + shards - 1) // shards
    d = os.path.join(ctx.workdir, "eval")
    shutil.rmtree(d, ignore_errors=True)
    os.makedirs(d)
    jobs = []
    for j in range(shards):
        chunk = items[j * size:(j + 1) * size]
        if not chunk:
            continue
        path = os.path.join(d, "cases_%d.v" % j)
        with open(path, "w") as f:
            f.write(imports + "\n")
            if scope:
                f.write("Open Scope %s.\n" % scope)
            f.write(extra_defs + "\n")
            for i, it in enumerate(chunk):
                f.write("Definition v%d : N := %s.\n" % (i, it))
            f.write("Definition vs : list N := [%s].\n" % "; ".join("v%d" % i for i in range(len(chunk))))
            f.write("Eval vm_compute in (%s vs).\n" % wrap)
        jobs.append((j, path, len(chunk)))

    def one(job):
        j, path, cnt = job
        rc, out = run(["coqc", "-noglob", "-Q", os.path.join(COQ, "theories"), "HV",
                       "-w", "-notation-overridden", path], timeout=timeout, cwd=d)
        return j, rc, out, cnt

    verd = [0] * n
    with concurrent.futures.ThreadPoolExecutor(max_workers=NCPU) as ex:
        for j, rc, out, cnt in ex.map(one, jobs):
            if rc != 0:
                raise RuntimeError("coqc failed on %s/cases_%d.v:\n%s" % (d, j, out[-3000:]))
            m = re.search(r"=\s*(\[.*?\])\s*:\s*list", out, re.S)
            if not m:
                raise RuntimeError("cannot parse coqc output for shard %d:\n%s" % (j, out[-2000:]))
            for a, b in re.findall(r"\(\s*(\d+)\s*,\s*(\d+)\s*\)", m.group(1)):
                verd[j * size + int(a)] = int(b)
    return verd


def coq_eval_terms(ctx, imports, terms, timeout=600, scope="N_scope"):
    """Evaluate arbitrary terms, return raw printed outputs (for diagnostics in replay files)."""
    d = os.path.join(ctx.workdir, "eval_diag")
    os.makedirs(d, exist_ok=True)
    outs = []
    for i, t in enumerate(terms):
        path = os.path.join(d, "diag_%d.v" % i)
        with open(path, "w") as f:
            f.write(imports + "\n")
            if scope:
                f.write("Open Scope %s.\n" % scope)
            f.write("Set Printing Width 200.\nEval vm_compute in (%s).\n" % t)
        rc, out = run(["coqc", "-noglob", "-Q", os.path.join(COQ, "theories"), "HV",
                       "-w", "-notation-overridden", path], timeout=timeout, cwd=d)
        outs.append(out.strip())
    return outs


# ---------------------------------------------------------------------------- cargo / harness

HOOK_CFG = "--cfg hydro_verif"


def cargo_env(group):
    return {
        "CARGO_NET_OFFLINE": "true",
        "CARGO_TARGET_DIR": os.path.join(CACHE, "target-" + group),
        "RUSTFLAGS": HOOK_CFG,
        "CARGO_TERM_COLOR": "never",
    }


def cargo_build(crate, group, timeout=3600, bins=None):
    """Build harness crate /verif/harness/<crate> against /repo's current working tree.
    Returns (ok, path_to_binary_dir, log)."""
    cdir = os.path.join(ROOT, "harness", crate)
    if REPO != "/repo":
        # checking an alternative checkout (seeded-change experiments): build a copy of the
        # harness (and of the sibling crates it refers to by relative path) whose path
        # dependencies point at that checkout, into a separate target directory
        # one private copy per vcheck process (concurrent HV_REPO runs must not collide)
        alt = os.path.join(WORK, "harness_alt_%d" % os.getpid())
        import atexit
        atexit.register(shutil.rmtree, alt, True)
        top = crate.split("/")[0]  # nested crates (h_sim/e2e) live inside a top-level harness dir
        shutil.rmtree(os.path.join(alt, top), ignore_errors=True)
        for c in os.listdir(os.path.join(ROOT, "harness")):
            src = os.path.join(ROOT, "harness", c)
            dst = os.path.join(alt, c)
            if c == top or not os.path.exists(dst):
                shutil.rmtree(dst, ignore_errors=True)
                shutil.copytree(src, dst, ignore=shutil.ignore_patterns("target", "Cargo.lock"))
                for d, _, fs in os.walk(dst):
                    for f in fs:
                        if f.endswith((".toml", ".rs")):
                            p = os.path.join(d, f)
                            s = open(p, errors="replace").read()
                            if "/repo" in s:
                                open(p, "w").write(s.replace('"/repo/', '"%s/' % REPO).replace("'/repo/", "'%s/" % REPO))
        cdir = os.path.join(alt, crate)
        group = group + "-alt"
    lock = os.path.join(cdir, "Cargo.lock")
    if not os.path.exists(lock):
        shutil.copy(os.path.join(REPO, "Cargo.lock"), lock)
    tc = os.path.join(cdir, "rust-toolchain.toml")
    if not os.path.exists(tc):
        shutil.copy(os.path.join(REPO, "rust-toolchain.toml"), tc)
    rc, out = run(["cargo", "build", "--offline"], cwd=cdir, env=cargo_env(group), timeout=timeout)
    if rc != 0 and "Cargo.lock" in out and ("needs to be updated" in out or "failed to select" in out):
        shutil.copy(os.path.join(REPO, "Cargo.lock"), lock)
        rc, out = run(["cargo", "build", "--offline"], cwd=cdir, env=cargo_env(group), timeout=timeout)
    return rc == 0, os.path.join(CACHE, "target-" + group, "debug"), out


def run_harness(ctx, binary, cases, timeout=1800, env=None, shards=1, name="cases"):
    """Feed cases (list of JSON-able) to the harness; returns list of parsed result objects."""
    if not cases:
        return []
    size = (len(cases) + shards - 1) // shards
    parts = [cases[i:i + size] for i in range(0, len(cases), size)]

    def one(args):
        k, part = args
        path = os.path.join(ctx.workdir, "%s_%d.jsonl" % (name, k))
        with open(path, "w") as f:
            for c in part:
                f.write(json.dumps(c, separators=(",", ":")) + "\n")
        rc, out = run([binary, path], timeout=timeout, env=env)
        lines = [l for l in out.split("\n") if l.strip()]
        res = []
        for l in lines:
            try:
                res.append(json.loads(l))
            except Exception:
                res.append({"garbled": l[:200]})
        if len(res) != len(part):
            # the process died (abort, stack overflow, ...): mark the first missing case
            res = res[:len(part)]
            while len(res) < len(part):
                res.append({"crash": "harness exited rc=%s after %d results" % (rc, len(lines))})
        return res

    with concurrent.futures.ThreadPoolExecutor(max_workers=shards) as ex:
        results = []
        for r in ex.map(one, list(enumerate(parts))):
            results += r
    return results


# ---------------------------------------------------------------------------- Gallina printing


def g_bool(b):
    return "true" if b else "false"


def g_list(xs):
    return "[" + "; ".join(xs) + "]"


def g_opt(x):
    return "None" if x is None else "(Some %s)" % x


def g_cmp(c):
    return {None: "None", "Lt": "(Some Lt)", "Eq": "(Some Eq)", "Gt": "(Some Gt)"}[c]


def g_N(n):
    return "%d" % n


def g_string(s):
    return '"' + s.replace('"', '""') + '"'


# ---------------------------------------------------------------------------- known findings


def load_known(prop):
    import glob
    paths = [os.path.join(ROOT, "known_findings.txt")] + sorted(glob.glob(os.path.join(ROOT, "known_findings.d", "*.txt")))
    out = []
    for path in paths:
        if not os.path.exists(path):
            continue
        for line in open(path):
            line = line.strip()
            m = re.match(r"^finding:\s+property=(\S+)\s+key=(\S+)\s+(.*)$", line)
            if m and m.group(1) == prop:
                out.append((m.group(2), m.group(3)))
    return out


# ---------------------------------------------------------------------------- evidence & verdict


def write_replay(ctx, payload):
    h = hashlib.sha1(json.dumps(payload, sort_keys=True, default=str).encode()).hexdigest()[:10]
    path = os.path.join(WORK, "replays", "%s_%s.json" % (ctx.prop, h))
    with open(path, "w") as f:
        json.dump(payload, f, indent=1, default=str)
    return path


def case_hash(c):
    return hashlib.sha1(json.dumps(c, sort_keys=True).encode()).hexdigest()


def finish(ctx, level, coverage, assumptions, extra=None):
    """Write evidence/<id>.json, print verdict lines, exit.
    A plug-in that decides one property with several engines sets ctx.defer = True for all
    but the last standard_check: the coverage is then carried over (counts summed, lists
    concatenated, the rest kept under "part_<n>") instead of being written."""
    carry = getattr(ctx, "carry", None)
    if carry:
        for k, v in carry.items():
            if isinstance(v, bool) or k not in coverage:
                coverage.setdefault(k, v)
            elif isinstance(v, (int, float)) and isinstance(coverage[k], (int, float)):
                coverage[k] = coverage[k] + v
            elif isinstance(v, list) and isinstance(coverage[k], list):
                coverage[k] = v + coverage[k]
            elif isinstance(v, dict) and isinstance(coverage[k], dict):
                merged = dict(v)
                merged.update(coverage[k])
                coverage[k] = merged
            elif isinstance(v, str) and isinstance(coverage[k], str) and v != coverage[k]:
                coverage[k] = v + " || " + coverage[k]
    if getattr(ctx, "defer", False):
        ctx.carry = coverage
        ctx.carry_assumptions = list(getattr(ctx, "carry_assumptions", [])) + list(assumptions)
        return
    assumptions = list(getattr(ctx, "carry_assumptions", [])) + list(assumptions)
    ev = {
        "property_id": ctx.prop,
        "tier": ctx.tier if ctx.tier in ("quick", "thorough") else "quick",
        "seed": ctx.seed,
        "level": level,
        "coverage": coverage,
        "assumptions": assumptions,
        "wall_s": round(time.time() - ctx.t0, 2),
        "violations": len(ctx.violations),
    }
    if extra:
        ev.update(extra)
    os.makedirs(os.path.join(ROOT, "evidence"), exist_ok=True)
    tmp = os.path.join(ROOT, "evidence", ctx.prop + ".json.tmp")
    with open(tmp, "w") as f:
        json.dump(ev, f, indent=1, default=str)
    os.replace(tmp, os.path.join(ROOT, "evidence", ctx.prop + ".json"))
    for k in ctx.known:
        print("KNOWN-FINDING: property=%s %s" % (ctx.prop, k))
    for path, suffix in ctx.violations:
        print("VIOLATION property=%s replay=%s%s" % (ctx.prop, path, (" " + suffix) if suffix else ""))
    if ctx.violations:
        sys.exit(1)
    print("OK property=%s tier=%s seed=%d wall=%.1fs" % (ctx.prop, ctx.tier, ctx.seed, time.time() - ctx.t0))
    sys.exit(0)


# ---------------------------------------------------------------------------- the standard check


class Spec:
    """What a property plug-in provides to `standard_check`.

    Required attributes / methods:
      model_vo      : list of .vo targets (relative to coq/) the correspondence needs
      props_vo      : 'theories/Props/Cxx.vo'
      theorems      : names of the theorems in Props/Cxx.v (each followed by Print Assumptions)
      allowed_axioms: axiom names allowed under Print Assumptions
      crate, group, binary : harness crate dir, cargo target group, binary name
      imports       : Coq `From HV Require Import ...` line(s) for case files
      gen(rng, tier, n_hint) -> list of cases (JSON-able dicts); corpus cases first
      to_coq(case, result) -> Gallina term of type N: bit0 = impl differs from model,
                              bit1 = property fails on the implementation's outputs;
                              may return an int directly (decided in Python, e.g. on panic)
      nontrivial(case, result) -> bool
      finding_key(case, result) -> str|None  (stable key of a known-finding class)
      shrink(case) -> iterable of smaller candidate cases (may be empty)
      describe(case, result) -> JSON-able sample for the evidence file
      level, trusted_base, assumptions, rule, design_ref
    """
    allowed_axioms = ()
    shrink_rounds = 12
    search_budget_s = 120
    level = "proof"
    harness_env = None
    harness_shards = 1
    case_timeout = 1800

    def shrink(self, case):
        return []

    def finding_key(self, case, result):
        return None

    def nontrivial(self, case, result):
        return True

    def describe(self, case, result):
        return {"case": case, "impl": result}

    def n_cases(self, tier):
        return 400 if tier == "quick" else 6000


def evaluate(ctx, spec, binary, cases):
    results = run_harness(ctx, binary, cases, env=spec.harness_env, shards=spec.harness_shards,
                          timeout=spec.case_timeout)
    terms, fixed = [], {}
    for i, (c, r) in enumerate(zip(cases, results)):
        t = spec.to_coq(c, r)
        if isinstance(t, int):
            fixed[i] = t
            terms.append("0")
        else:
            terms.append(t)
    verd = coq_eval(ctx, spec.imports, terms)
    for i, v in fixed.items():
        verd[i] = v
    return results, verd


def shrink_case(ctx, spec, binary, case, bit):
    """greedy one-step shrinking with batched evaluation; keeps `verdict & bit` set."""
    cur = case
    for _ in range(spec.shrink_rounds):
        cands = list(spec.shrink(cur))[:200]
        if not cands:
            break
        try:
            res, verd = evaluate(ctx, spec, binary, cands)
        except Exception as e:  # a candidate the model cannot parse: stop shrinking
            ctx.log("shrink stopped:", str(e)[:200])
            break
        nxt = None
        for c, v in zip(cands, verd):
            if v & bit:
                nxt = c
                break
        if nxt is None:
            break
        cur = nxt
    res, verd = evaluate(ctx, spec, binary, [cur])
    return cur, res[0], verd[0]


def standard_check(ctx, spec):
    proof_fail = []
    # 1. hygiene
    hp = hygiene()
    if hp:
        proof_fail += ["hygiene: " + p for p in hp]
    # 2. model build (framework error if it fails: the model must always run)
    ok, out = coq_make(spec.model_vo)
    if not ok:
        print(out[-4000:])
        print("FRAMEWORK-ERROR: model does not build")
        sys.exit(2)
    # 3. proof build + assumptions
    ctx.log("building proofs", spec.props_vo)
    pr = coq_props(ctx, spec.props_vo, spec.theorems, spec.allowed_axioms)
    if not pr["ok"]:
        proof_fail += pr["failures"]
        for f in pr["failures"]:
            ctx.log("PROOF-FAILURE:", f)
    # 3b. thorough tier: independent re-check of the compiled proofs with coqchk
    coqchk_report = None
    if ctx.tier == "thorough" and pr["ok"] and not getattr(spec, "skip_coqchk", False):
        mod = "HV." + spec.props_vo[len("theories/"):-3].replace("/", ".")
        rc, out = run(["coqchk", "-o", "-silent", "-Q", "theories", "HV", mod], cwd=COQ, timeout=3000)
        axioms = []
        m = re.search(r"\* Axioms:(.*?)\n\s*\n\* ", out, re.S)
        if m:
            axioms = [l.strip() for l in m.group(1).split("\n") if l.strip() and l.strip() != "<none>"]
        coqchk_report = {"rc": rc, "module": mod, "axioms": axioms}
        allowed = set(spec.allowed_axioms) | set(getattr(spec, "coqchk_allowed", ()))
        bad = [a for a in axioms if a.split(".")[-1] not in allowed and a not in allowed]
        if rc != 0:
            proof_fail.append("coqchk failed on %s:\n%s" % (mod, out[-1500:]))
        elif bad:
            proof_fail.append("coqchk reports axioms outside the allow-list: %s" % bad)
        ctx.coqchk_report = coqchk_report
    # 4. harness
    ctx.log("building harness", spec.crate)
    ok, bindir, blog = cargo_build(spec.crate, spec.group)
    binary = os.path.join(bindir, spec.binary)
    spec.bin = binary
    cases, results, verd = [], [], []
    corr_fail = []
    if not ok:
        ctx.log("harness build failed:\n" + blog[-3000:])
        corr_fail.append("harness crate %s no longer builds against /repo" % spec.crate)
    else:
        if ctx.replay:
            payload = json.load(open(ctx.replay))
            cases = payload["cases"] if "cases" in payload else [payload["case"]]
        else:
            cases = spec.gen(ctx.rng, ctx.tier, spec.n_cases(ctx.tier))
        ctx.log("running %d cases" % len(cases))
        results, verd = evaluate(ctx, spec, binary, cases)
    # 5. verdicts
    known = load_known(ctx.prop)
    seen_keys = set()
    reported = 0
    prop_bad = [i for i, v in enumerate(verd) if v & 2]
    corr_bad = [i for i, v in enumerate(verd) if (v & 1) and not (v & 2)]
    for i in prop_bad:
        key = spec.finding_key(cases[i], results[i])
        if key is not None and any(k == key for k, _ in known):
            if key not in seen_keys:
                seen_keys.add(key)
                ctx.known.append("%s (%s)" % ([t for k, t in known if k == key][0], key))
            continue
        if reported >= 3:
            continue
        small, sres, sv = shrink_case(ctx, spec, binary, cases[i], 2)
        key2 = spec.finding_key(small, sres)
        if key2 is not None and any(k == key2 for k, _ in known):
            if key2 not in seen_keys:
                seen_keys.add(key2)
                ctx.known.append("%s (%s)" % ([t for k, t in known if k == key2][0], key2))
            continue
        path = write_replay(ctx, {"property": ctx.prop, "kind": "property-fails-on-implementation",
                                  "case": small, "impl": sres, "verdict": sv, "original_case": cases[i],
                                  "finding_key": key2})
        ctx.violations.append((path, ""))
        reported += 1
    if not ctx.violations and (corr_bad or corr_fail or proof_fail):
        # something no longer checks: search for a concrete failing input
        found = None
        if ok and not ctx.replay:
            t_end = time.time() + spec.search_budget_s
            rounds = 0
            while time.time() < t_end and found is None and rounds < 6:
                rounds += 1
                extra = spec.gen(ctx.rng.fork(), "thorough", spec.n_cases("quick") * 4)
                eres, everd = evaluate(ctx, spec, binary, extra)
                for c, r, v in zip(extra, eres, everd):
                    if v & 2:
                        key = spec.finding_key(c, r)
                        if key is not None and any(k == key for k, _ in known):
                            continue
                        found = (c, r, v)
                        break
        if found:
            small, sres, sv = shrink_case(ctx, spec, binary, found[0], 2)
            path = write_replay(ctx, {"property": ctx.prop, "kind": "property-fails-on-implementation",
                                      "case": small, "impl": sres, "verdict": sv,
                                      "found_by": "search after broken proof/correspondence",
                                      "broken": (proof_fail + corr_fail)[:5]})
            ctx.violations.append((path, ""))
        else:
            payload = {"property": ctx.prop, "kind": "no-failing-input-found",
                       "proof_failures": proof_fail, "correspondence_failures": corr_fail}
            if corr_bad:
                i = corr_bad[0]
                small, sres, sv = shrink_case(ctx, spec, binary, cases[i], 1)
                payload["correspondence"] = {"engine": spec.crate, "case": small, "impl": sres,
                                             "note": "implementation output differs from the Coq model on this case; "
                                                     "the property's executable form still holds on the implementation's outputs"}
                payload["case"] = small
                payload["disagreeing_cases"] = len(corr_bad)
            path = write_replay(ctx, payload)
            ctx.violations.append((path, "no-failing-input-found"))
    # 6. evidence
    nontriv = set()
    for c, r in zip(cases, results):
        if spec.nontrivial(c, r):
            nontriv.add(case_hash(c))
    samples = [spec.describe(c, r) for c, r in list(zip(cases, results))[:3]]
    coverage = {
        "obligations": pr["obligations"],
        "discharged": pr["discharged"],
        "checker_cmd": "make -C coq %s (coqc 8.16.1, full .vo) + Print Assumptions allow-list" % spec.props_vo,
        "trusted_base": spec.trusted_base,
        "theorems": spec.theorems,
        "assumptions_reported": pr.get("assumptions", {}),
        "evaluations": len(cases),
        "distinct_nontrivial": len(nontriv),
        "traces_validated_against_impl": len([v for v in verd if v == 0]),
        "rule": spec.rule,
        "samples": samples,
        "correspondence_disagreements": len(corr_bad),
        "property_failures_on_impl": len(prop_bad),
        "known_findings_rederived": sorted(seen_keys),
        "proof_failures": proof_fail,
    }
    if getattr(ctx, "coqchk_report", None):
        coverage["coqchk"] = ctx.coqchk_report
    if hasattr(spec, "distribution"):
        coverage["distribution"] = spec.distribution(cases, results)
    # level "other" needs coverage.explanation; plug-ins may add any further keys
    if getattr(spec, "explanation", None):
        coverage["explanation"] = spec.explanation
    extra = getattr(spec, "coverage_extra", None)
    if callable(extra):
        extra = extra(cases, results)
    if extra:
        coverage.update(extra)
    finish(ctx, spec.level, coverage, spec.assumptions)
