"""Union-find lattice (engine E1, the union-find part of C04): case generation, the independent
closure oracle, Gallina printing, shrinking.  Meant to be merged into props/C04.py:

    from tools import uf
    cases   = uf.gen_cases(rng, tier, n)        # JSON cases for harness/h_uf (binary h_uf, group light)
    term    = uf.to_coq(case, result)           # Gallina term of type N (bit0 model, bit1 oracle) or int
    smaller = uf.shrink(case)                   # iterable of smaller cases
    sample  = uf.describe(case, result)
    uf.THEOREMS, uf.PROPS_VO, uf.MODEL_VO, uf.IMPORTS, uf.CRATE/GROUP/BINARY, uf.HARNESS_ENV
    uf.nontrivial(case, result), uf.distribution(cases, results)

case = {"rep": "hash"|"btree", "init": None | [[key, parent]..], "ops": [op..]}
  op = ["union", a, b] | ["same", a, b] | ["bot"] | ["merge", orep, [op..]] | ["cmp", orep, [op..]]
"init" (a raw, possibly malformed parent map) only occurs in the few malformed cases (pure cycles:
must terminate; rho shape: the implementation hangs, the model runs out of fuel)."""
import glob
import json
import os

from tools.vlib import ROOT

THEOREMS = ["C04_uf_reachable_inv", "C04_uf_same_closure", "C04_uf_history_same_answer",
            "C04_uf_find_terminates", "C04_uf_same_compression_indep", "C04_uf_merge_is_join",
            "C04_uf_find_rho_diverges_refuted", "C04_uf_pure_cycle_partial",
            "C04_uf_laws", "C04_uf_wf_is_forest", "C04_uf_order_is_refinement",
            "C04_uf_pure_cycle", "C04_uf_pure_cycle_same"]
PROPS_VO = "theories/Props/C04uf.vo"
MODEL_VO = ["theories/Lattice/UF.vo"]
IMPORTS = "From HV Require Import Lattice.UF."
CRATE, GROUP, BINARY = "h_uf", "light", "h_uf"
# a rho-shaped case spins until the per-case watchdog fires; keep that short
HARNESS_ENV = {"HV_CASE_TIMEOUT_MS": "3000"}

ITEMS = list(range(8))
OREPS = ["hash", "btree", "vec"]


# ------------------------------------------------------------------ the independent closure oracle
class Closure:
    """partition of the items as explicit classes (no parent pointers, no compression)"""

    def __init__(self):
        self.cls = {}

    def classof(self, x):
        return self.cls.get(x, frozenset([x]))

    def same(self, a, b):
        return a == b or b in self.classof(a)

    def union(self, a, b):
        if self.same(a, b):
            return False
        c = self.classof(a) | self.classof(b)
        for x in c:
            self.cls[x] = c
        return True

    def classes(self):
        return set(c for c in self.cls.values() if len(c) > 1)

    def refines(self, other):
        """every class of self lies inside a class of other"""
        return all(any(c <= d for d in other.classes()) for c in self.classes())


def oracle_run(ops, cl=None, out=None):
    """expected answers of a history by the closure oracle (reachable histories only)"""
    cl = cl or Closure()
    out = [] if out is None else out
    for op in ops:
        k = op[0]
        if k == "union":
            out.append(int(cl.union(op[1], op[2])))
        elif k == "same":
            out.append(int(cl.same(op[1], op[2])))
        elif k == "bot":
            out.append(int(not cl.classes()))
        elif k == "merge":
            o = Closure()
            oracle_run(op[2], o, out)
            changed = not o.refines(cl)
            for c in o.classes():
                c = sorted(c)
                for x in c[1:]:
                    cl.union(c[0], x)
            out.append(int(changed))
        elif k == "cmp":
            o = Closure()
            oracle_run(op[2], o, out)
            le, ge = cl.refines(o), o.refines(cl)
            code = 1 if (le and ge) else 0 if le else 2 if ge else 3
            out.append(2 * code + int(le and ge))
        else:
            raise ValueError(op)
    return out


# ------------------------------------------------------------------ generation
def gen_ops(rng, n, depth, items):
    ops = []
    for _ in range(n):
        r = rng.below(20)
        if r < 8:
            ops.append(["union", rng.choice(items), rng.choice(items)])
        elif r < 14:
            ops.append(["same", rng.choice(items), rng.choice(items)])
        elif r < 15:
            ops.append(["bot"])
        elif depth > 0 and r < 18:
            ops.append(["merge", rng.choice(OREPS), gen_ops(rng, rng.range(0, 5), depth - 1, items)])
        elif depth > 0:
            ops.append(["cmp", rng.choice(["hash", "btree"]), gen_ops(rng, rng.range(0, 5), depth - 1, items)])
        else:
            ops.append(["same", rng.choice(items), rng.choice(items)])
    return ops


def gen_case(rng, tier):
    items = ITEMS[:rng.range(3, 8)]
    n = rng.range(1, 30 if tier == "thorough" else 16)
    return {"rep": rng.choice(["hash", "btree"]), "init": None, "ops": gen_ops(rng, n, 2, items)}


def malformed_cases():
    """pure cycles (the repo's test_malformed + one more) and one rho-shaped map"""
    return [
        {"rep": "btree", "init": [[1, 2], [2, 3], [3, 1]], "ops": [["same", 1, 2], ["same", 3, 2], ["same", 1, 7]]},
        {"rep": "btree", "init": [[1, 2], [2, 3], [3, 4], [4, 1]], "ops": [["same", 1, 2], ["same", 3, 1]]},
        {"rep": "hash", "init": [[5, 4], [4, 3], [3, 2], [2, 1], [1, 5]], "ops": [["same", 3, 5], ["union", 6, 2], ["same", 6, 4]]},
        {"rep": "btree", "init": [[1, 2], [2, 3], [3, 2]], "ops": [["same", 1, 2]]},
    ]


def corpus_cases():
    out = []
    for p in sorted(glob.glob(os.path.join(ROOT, "corpus", "C04", "uf_*.json"))):
        d = json.load(open(p))
        out += d["cases"] if "cases" in d else [d["case"] if "case" in d else d]
    return out


def gen_cases(rng, tier, n):
    cases = corpus_cases() + malformed_cases()
    while len(cases) < n:
        cases.append(gen_case(rng, tier))
    return cases


# ------------------------------------------------------------------ Gallina printing
def g_raw(entries):
    return "[" + "; ".join("(%d, %d)" % (k, p) for k, p in entries) + "]"


def g_hist(ops, base="HNil"):
    h = base
    for op in ops:
        k = op[0]
        if k == "union":
            h = "(HUnion %s %d %d)" % (h, op[1], op[2])
        elif k == "same":
            h = "(HSame %s %d %d)" % (h, op[1], op[2])
        elif k == "bot":
            h = "(HBot %s)" % h
        elif k == "merge":
            h = "(HMerge %s %s)" % (h, g_hist(op[2]))
        elif k == "cmp":
            h = "(HCmp %s %s)" % (h, g_hist(op[2]))
        else:
            raise ValueError(op)
    return h


def to_coq(case, res):
    base = "HNil" if case.get("init") is None else "(HRaw %s)" % g_raw(case["init"])
    h = g_hist(case["ops"], base)
    if res.get("hang"):
        i = "IHang"
    elif "panic" in res:
        i = "IPanic"
    elif "ans" in res:
        i = "(IRes [%s])" % "; ".join("%d" % x for x in res["ans"])
    else:
        return 3
    if case.get("init") is None:
        oracle = "(Some [%s])" % "; ".join("%d" % x for x in oracle_run(case["ops"]))
    else:
        oracle = "None"  # malformed input: outside the property's quantifier, correspondence only
    return "chk_uf %s %s %s" % (h, i, oracle)


# ------------------------------------------------------------------ shrinking
def shrink_ops(ops):
    for i in range(len(ops) - 1, -1, -1):
        yield ops[:i] + ops[i + 1:]
    for i, op in enumerate(ops):
        if op[0] in ("merge", "cmp"):
            for sub in shrink_ops(op[2]):
                yield ops[:i] + [[op[0], op[1], sub]] + ops[i + 1:]
            if op[1] != "hash":
                yield ops[:i] + [[op[0], "hash", op[2]]] + ops[i + 1:]
        elif op[0] in ("union", "same"):
            for j in (1, 2):
                if op[j] > 0:
                    o2 = list(op)
                    o2[j] = op[j] - 1
                    yield ops[:i] + [o2] + ops[i + 1:]


def shrink(case):
    for ops in shrink_ops(case["ops"]):
        yield {"rep": case["rep"], "init": case.get("init"), "ops": ops}
    if case.get("init"):
        init = case["init"]
        for i in range(len(init)):
            yield {"rep": case["rep"], "init": init[:i] + init[i + 1:], "ops": case["ops"]}
    if case["rep"] != "hash":
        yield {"rep": "hash", "init": case.get("init"), "ops": case["ops"]}


# ------------------------------------------------------------------ statistics
def count_ops(ops, acc):
    for op in ops:
        acc[op[0]] = acc.get(op[0], 0) + 1
        if op[0] in ("merge", "cmp"):
            acc["orep_" + op[1]] = acc.get("orep_" + op[1], 0) + 1
            count_ops(op[2], acc)
    return acc


def nontrivial(case, res):
    if "ans" not in res:
        return True
    c = count_ops(case["ops"], {})
    return c.get("union", 0) >= 2 and c.get("same", 0) >= 1 and 1 in res["ans"] and 0 in res["ans"]


def distribution(cases, results):
    d = {"reps": {}, "ops": {}, "len": {}, "malformed": 0, "hang": 0, "answers_1": 0, "answers_0": 0}
    for c, r in zip(cases, results):
        d["reps"][c["rep"]] = d["reps"].get(c["rep"], 0) + 1
        count_ops(c["ops"], d["ops"])
        k = str(min(30, len(c["ops"])) // 5 * 5)
        d["len"][k] = d["len"].get(k, 0) + 1
        d["malformed"] += c.get("init") is not None
        d["hang"] += bool(r.get("hang"))
        d["answers_1"] += sum(1 for x in r.get("ans", []) if x == 1)
        d["answers_0"] += sum(1 for x in r.get("ans", []) if x == 0)
    return d


def describe(case, res):
    exp = oracle_run(case["ops"]) if case.get("init") is None else None
    return {"case": case, "impl": res, "closure_oracle": exp}
