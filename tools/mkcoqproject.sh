#!/bin/sh
# regenerate coq/_CoqProject and coq/Makefile from the files present (safe under
# concurrent invocation: serialised with flock, temp files are unique)
cd "$(dirname "$0")/../coq" || exit 1
exec 9>.mkcoqproject.lock
flock 9
tmp=$(mktemp ./_CoqProject.XXXXXX) || exit 1
{
  echo "-Q theories HV"
  echo "-arg -w -arg -notation-overridden,-deprecated-hint-without-locality,-deprecated-instance-without-locality"
  find theories -name '*.v' | LC_ALL=C sort
} > "$tmp"
if ! cmp -s "$tmp" _CoqProject; then mv "$tmp" _CoqProject; else rm -f "$tmp"; fi
if [ ! -f Makefile ] || [ _CoqProject -nt Makefile ] || ! grep -q "theories" Makefile.conf 2>/dev/null; then
  mk=$(mktemp Makefile.XXXXXX)
  coq_makefile -f _CoqProject -o "$mk" >/dev/null && mv "$mk" Makefile && mv "$mk.conf" Makefile.conf
  rm -f "$mk" "$mk.conf"
fi
exit 0
