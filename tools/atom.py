"""Lattice engine (E1), atomization (C06): case generation, Gallina printing, shrinking.
Types and value conventions are those of tools/lat.py / harness/h_lattices; the harness is
harness/h_atom, the model coq/theories/Lattice/Atom.v."""
import glob
import json
import os

from tools import lat
from tools.vlib import ROOT, g_bool


def atomizable(t):
    """mirror of Atom.atomizable"""
    t = lat.norm(t)
    h = t[0]
    if h in ("Unit", "Set"):
        return True
    if h == "Map":
        return atomizable(t[2])
    if h in ("Bot", "Top"):
        return atomizable(t[1])
    return False


def is_bot(t, v):
    """mirror of the model's isbot on the atomizable codes (used only for the distribution)"""
    t = lat.norm(t)
    h = t[0]
    if h == "Unit":
        return True
    if h == "Set":
        return len(v) == 0
    if h == "Map":
        return all(is_bot(t[2], x) for _, x in v)
    if h == "Bot":
        return v is None or is_bot(t[1], v[0])
    if h == "Top":
        return v is not None and is_bot(t[1], v[0])
    raise ValueError(t)


def has_bot_entry(t, v):
    """some map inside v has an entry whose value is bottom (invisible entries)"""
    t = lat.norm(t)
    h = t[0]
    if h == "Map":
        return any(is_bot(t[2], x) or has_bot_entry(t[2], x) for _, x in v)
    if h in ("Bot", "Top"):
        return v is not None and has_bot_entry(t[1], v[0])
    return False


def load_corpus(prop):
    out = []
    for p in sorted(glob.glob(os.path.join(ROOT, "corpus", prop, "*.json"))):
        c = json.load(open(p))
        out += c if isinstance(c, list) else [c]
    return out


def bottomish(rng, t, size):
    """a value that is bottom without being Default (bottom-valued entries, Some(bottom))"""
    t = lat.norm(t)
    h = t[0]
    if h == "Unit":
        return None
    if h == "Set":
        return []
    if h == "Map":
        n = rng.below(size + 1)
        ks = sorted(rng.sample(lat.KEYS, min(n, len(lat.KEYS))))
        return [[k, bottomish(rng, t[2], max(1, size - 1))] for k in ks]
    if h == "Bot":
        return None if rng.chance(1, 3) else [bottomish(rng, t[1], size)]
    if h == "Top":
        return [bottomish(rng, t[1], size)]
    raise ValueError(t)


def sprinkle(rng, t, v, size):
    """replace some sub-values by bottom-but-not-default ones / add bottom-valued entries"""
    t = lat.norm(t)
    h = t[0]
    if h == "Map":
        d = {k: (sprinkle(rng, t[2], x, size) if rng.chance(1, 2) else x) for k, x in v}
        if rng.chance(1, 2):
            d[rng.choice(lat.KEYS)] = bottomish(rng, t[2], max(1, size - 1))
        return [[k, d[k]] for k in sorted(d)]
    if h in ("Bot", "Top"):
        if v is None:
            return v
        return [sprinkle(rng, t[1], v[0], size)]
    return v


def gen_cases(rng, types, tier, n):
    cases = [dict(c, src="corpus") for c in load_corpus("C06")]
    names = [x for x in types if atomizable(lat.parse_type(x))]
    if not names:
        return cases
    per = max(2, n // len(names))
    for name in names:
        t = lat.parse_type(name)
        if tier == "thorough":
            vals = lat.enum_values(t, 400)
            if vals is not None:
                accs = vals if len(vals) <= 12 else [vals[0], vals[len(vals) // 2], vals[-1]]
                for a in vals:
                    for acc in accs:
                        cases.append({"k": "atom", "ty": name, "a": a, "acc": acc, "src": "exh"})
        for _ in range(per):
            size = rng.choice([1, 2, 3, 3, 4, 5])
            r = rng.below(10)
            if r < 9:
                # steer away from bottom (a few retries; the one-point types stay bottom)
                a = lat.gen_value(rng, t, size)
                for _ in range(4):
                    if not is_bot(t, a):
                        break
                    a = lat.gen_value(rng, t, size + 1)
                if r >= 5:
                    a = sprinkle(rng, t, a, size)
            else:
                a = bottomish(rng, t, size)
            r = rng.below(4)
            if r == 0:
                acc = lat.gen_value(rng, t, size)
            elif r == 1:
                acc = json.loads(json.dumps(a))
            else:
                acc = lat.gen_related(rng, t, a, size)
            cases.append({"k": "atom", "ty": name, "a": a, "acc": acc, "src": "rnd"})
    return cases


def g_bools(bs):
    return "[" + "; ".join(g_bool(b) for b in bs) + "]"


def case_term(case, res):
    if case.get("k") == "uf":
        return uf_term(case, res)
    return lat_case_term(case, res)


def lat_case_term(case, res):
    """Gallina term of type N (bit0 model mismatch, bit1 property fails on the implementation)"""
    if "atoms" not in res:
        return 3  # panic / hang / crash: the model never panics on a well-formed value
    t = lat.parse_type(case["ty"])
    ct = lat.coq_ty(t)
    cv = lambda v: lat.coq_val(t, v)
    obs = "(Build_aobs %s %s %s %s %s %s %s %s %s %s %s)" % (
        ct, "[" + "; ".join(cv(x) for x in res["atoms"]) + "]", g_bools(res["atom_bot"]), g_bool(res["bot"]),
        cv(res["dflt"]), cv(res["reformed"]), g_bools(res["changed"]), g_bool(res["eq"]),
        cv(res["acc_atoms"]), cv(res["acc_a"]), g_bool(res["acc_eq"]))
    return "(achk %s %s %s %s)" % (ct, cv(case["a"]), cv(case["acc"]), obs)


def shrink(case):
    if case.get("k") == "uf":
        yield from shrink_uf(case)
        return
    t = lat.parse_type(case["ty"])
    for f in ("acc", "a"):
        for sv in lat.shrink_value(t, case[f]):
            c2 = dict(case)
            c2[f] = sv
            c2["src"] = "shrunk"
            yield c2
    if case["acc"] != case["a"]:
        c2 = dict(case)
        c2["acc"] = case["a"]
        c2["src"] = "shrunk"
        yield c2


def distribution(cases, results):
    d = {"per_type": {}, "src": {}, "atoms_hist": {}, "a_bottom": 0, "a_bottom_not_default": 0,
         "a_has_bottom_valued_entry": 0, "a_is_top_or_contains_top": 0, "acc_equals_a": 0, "panics": 0}
    for c, r in zip(cases, results):
        d["per_type"][c["ty"]] = d["per_type"].get(c["ty"], 0) + 1
        d["src"][c.get("src", "?")] = d["src"].get(c.get("src", "?"), 0) + 1
        if "atoms" not in r:
            d["panics"] += 1
            continue
        k = str(min(len(r["atoms"]), 12))
        d["atoms_hist"][k] = d["atoms_hist"].get(k, 0) + 1
        if c.get("k") == "uf":
            d["uf_cases"] = d.get("uf_cases", 0) + 1
            if has_cycle(c["a"]):
                d["uf_a_has_pure_cycle"] = d.get("uf_a_has_pure_cycle", 0) + 1
            if has_cycle(c["acc"]):
                d["uf_acc_has_pure_cycle"] = d.get("uf_acc_has_pure_cycle", 0) + 1
            if r["bot"]:
                d["a_bottom"] += 1
                if c["a"]:
                    d["a_bottom_not_default"] += 1
            if c["a"] == c["acc"]:
                d["acc_equals_a"] += 1
            continue
        t = lat.parse_type(c["ty"])
        if r["bot"]:
            d["a_bottom"] += 1
            if c["a"] != r["dflt"]:
                d["a_bottom_not_default"] += 1
        if has_bot_entry(t, c["a"]):
            d["a_has_bottom_valued_entry"] += 1
        if "Top" in c["ty"] and "null" in json.dumps(r["atoms"]):
            d["a_is_top_or_contains_top"] += 1
        if c["a"] == c["acc"]:
            d["acc_equals_a"] += 1
    return d


# ------------------------------------------------------------------ union-find
UF_U = 8


def gen_forest(rng, u=UF_U):
    """a well-formed parent map: distinct keys, every parent <= its key (so no cycles)"""
    n = rng.below(u + 1)
    keys = sorted(rng.sample(list(range(u)), n))
    out = []
    for k in keys:
        r = rng.below(4)
        if r == 0 or k == 0:
            p = k
        elif r == 1 and out:
            p = rng.choice(out)[0]      # another key (keys so far are smaller)
        else:
            p = rng.below(k)            # any smaller item, possibly without an entry
        out.append([k, p])
    return out


def gen_cyclic(rng, u=UF_U):
    """a parent map with one or two PURE cycles (lengths 2..4: every member's parent is the next
    member, no self-parent root -- accepted by UnionFind::new, and find closes such loops on the
    fly) plus a forest on the remaining items.  No edge leads INTO a cycle from outside (a tail
    into a cycle is a rho shape on which find does not terminate; excluded, as for C04)."""
    items = rng.shuffle(list(range(u)))
    out = {}
    pos = 0
    for _ in range(rng.range(1, 2)):
        ln = rng.range(2, 4)
        if pos + ln > u:
            break
        cyc = items[pos:pos + ln]
        pos += ln
        for i, x in enumerate(cyc):
            out[x] = cyc[(i + 1) % ln]
    rest = sorted(items[pos:])
    chosen = []
    for k in rest:
        r = rng.below(5)
        if r == 0:
            continue                      # no entry: its own root
        smaller = [x for x in rest if x < k]
        if r == 1 or not smaller:
            p = k
        else:
            p = rng.choice(smaller)       # parent < key among non-cycle items: acyclic
        out[k] = p
        chosen.append(k)
    return [[k, out[k]] for k in sorted(out)]


def has_cycle(ps):
    par = {k: p for k, p in ps}
    for k in par:
        x, seen = k, set()
        while x in par and par[x] != x and x not in seen:
            seen.add(x)
            x = par[x]
        if x in seen:
            return True
    return False


def gen_uf_cases(rng, tier, n):
    cases = []
    for i in range(n):
        r = rng.below(10)
        if r == 0:
            a = [[k, k] for k in sorted(rng.sample(list(range(UF_U)), rng.below(4)))]   # bottom, not Default
        elif r < 5:
            a = gen_cyclic(rng)
        else:
            a = gen_forest(rng)
        r = rng.below(4)
        acc = json.loads(json.dumps(a)) if r == 0 else (gen_cyclic(rng) if r == 1 else gen_forest(rng))
        cases.append({"k": "uf", "rep": "hash" if i % 2 == 0 else "btree", "u": UF_U, "a": a, "acc": acc,
                      "ty": "UnionFind", "src": "rnd"})
    return cases


def g_pairs(ps):
    return "[" + "; ".join("(%d, %d)" % (k, p) for k, p in ps) + "]"


def g_nums(ns):
    return "[" + "; ".join("%d" % x for x in ns) + "]"


def uf_term(case, res):
    if "atoms" not in res:
        return 3
    obs = "(Build_ufobs %s %s %s %s %s %s %s %s %s %s)" % (
        g_pairs(res["atoms"]), g_bools(res["atom_bot"]), g_bool(res["bot"]), g_bools(res["changed"]),
        g_nums(res["reformed"]), g_nums(res["orig"]), g_bool(res["eq"]),
        g_nums(res["acc_atoms"]), g_nums(res["acc_a"]), g_bool(res["acc_eq"]))
    return "(ufchk %d%%nat %s %s %s)" % (case["u"], g_pairs(case["a"]), g_pairs(case["acc"]), obs)


def shrink_uf(case):
    for f in ("acc", "a"):
        ps = case[f]
        for i in range(len(ps)):
            c2 = dict(case)
            c2[f] = ps[:i] + ps[i + 1:]
            c2["src"] = "shrunk"
            yield c2
        for i, (k, p) in enumerate(ps):
            if p != k:
                c2 = dict(case)
                c2[f] = ps[:i] + [[k, k]] + ps[i + 1:]
                c2["src"] = "shrunk"
                yield c2
