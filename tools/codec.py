"""Engine E11 Codec: generators, reference encoder, Gallina printers for C35."""
import struct

from tools import proto, vlib

SCALARS = ["U8", "U16", "U32", "U64", "I64", "Bool", "Str"]
BITS = {"U8": 8, "U16": 16, "U32": 32, "U64": 64}
STRINGS = ["", "a", "hello", "x y", "é", "日本", "\U0001F600", "aé日", "\x00", "quo\"te\\", "z" * 17]


def kind(t):
    return t if isinstance(t, str) else next(iter(t))


def gen_type(rng, depth):
    if depth <= 0 or rng.chance(1, 4):
        return rng.choice(SCALARS)
    k = rng.below(4)
    if k == 0:
        return {"Opt": gen_type(rng, depth - 1)}
    if k == 1:
        return {"Vec": gen_type(rng, depth - 1)}
    if k == 2:
        return {"Tup": [gen_type(rng, depth - 1) for _ in range(rng.below(5))]}
    return {"Enum": [gen_type(rng, depth - 1) for _ in range(rng.range(1, 5))]}


def gen_val(rng, t):
    k = kind(t)
    if k in BITS:
        top = (1 << BITS[k]) - 1
        return rng.choice([0, 1, top, top - 1, rng.below(top + 1), rng.below(300) % (top + 1), 1 << (BITS[k] - 1)])
    if k == "I64":
        return rng.choice([0, 1, -1, 2 ** 63 - 1, -2 ** 63, rng.below(2 ** 64) - 2 ** 63, rng.below(1000) - 500])
    if k == "Bool":
        return rng.chance(1, 2)
    if k == "Str":
        if rng.chance(1, 2):
            return rng.choice(STRINGS)
        return "".join(rng.choice("abcXYZ09 _ß中") for _ in range(rng.below(7)))
    if k == "Opt":
        return [] if rng.chance(1, 3) else [gen_val(rng, t["Opt"])]
    if k == "Vec":
        return [gen_val(rng, t["Vec"]) for _ in range(rng.below(5))]
    if k == "Tup":
        return [gen_val(rng, x) for x in t["Tup"]]
    tag = rng.below(len(t["Enum"]))
    return {"tag": tag, "v": gen_val(rng, t["Enum"][tag])}


def le(n, k):
    return list((n % (1 << (8 * k))).to_bytes(k, "little"))


def py_encode(t, v):
    """reference encoder (bincode 1.x default options); the Coq check verifies it equals the model's"""
    k = kind(t)
    if k in BITS:
        return le(v, BITS[k] // 8)
    if k == "I64":
        return list(struct.pack("<q", v))
    if k == "Bool":
        return [1 if v else 0]
    if k == "Str":
        b = list(v.encode("utf8"))
        return le(len(b), 8) + b
    if k == "Opt":
        return [0] if not v else [1] + py_encode(t["Opt"], v[0])
    if k == "Vec":
        out = le(len(v), 8)
        for x in v:
            out += py_encode(t["Vec"], x)
        return out
    if k == "Tup":
        out = []
        for tt, x in zip(t["Tup"], v):
            out += py_encode(tt, x)
        return out
    return le(v["tag"], 4) + py_encode(t["Enum"][v["tag"]], v["v"])


def has(t, kinds):
    k = kind(t)
    if k in kinds:
        return True
    if k in ("Opt", "Vec"):
        return has(t[k], kinds)
    if k in ("Tup", "Enum"):
        return any(has(x, kinds) for x in t[k])
    return False


def depth_of(t):
    k = kind(t)
    if k in ("Opt", "Vec"):
        return 1 + depth_of(t[k])
    if k in ("Tup", "Enum"):
        return 1 + max([depth_of(x) for x in t[k]] + [0])
    return 0


# ---------------------------------------------------------------------------- Gallina

G_SCALAR = {"U8": "U8", "U16": "U16", "U32": "U32", "U64": "U64", "I64": "I64", "Bool": "PBool", "Str": "Str"}


def g_ty(t):
    k = kind(t)
    if k in G_SCALAR:
        return G_SCALAR[k]
    if k in ("Opt", "Vec"):
        return "(%s %s)" % (k, g_ty(t[k]))
    return "(%s %s)" % (k, vlib.g_list([g_ty(x) for x in t[k]]))


def g_bytes(bs):
    return vlib.g_list(["%d" % b for b in bs])


def g_val(t, v):
    k = kind(t)
    if k in BITS:
        return "(VN %d)" % v
    if k == "I64":
        return "(VZ (%d)%%Z)" % v
    if k == "Bool":
        return "(VB %s)" % ("true" if v else "false")
    if k == "Str":
        return "(VS %s)" % g_bytes(list(v.encode("utf8")))
    if k == "Opt":
        return "VNone" if not v else "(VSome %s)" % g_val(t["Opt"], v[0])
    if k == "Vec":
        return "(VVec %s)" % vlib.g_list([g_val(t["Vec"], x) for x in v])
    if k == "Tup":
        return "(VTup %s)" % vlib.g_list([g_val(tt, x) for tt, x in zip(t["Tup"], v)])
    return "(VEnum %d %s)" % (v["tag"], g_val(t["Enum"][v["tag"]], v["v"]))


def g_res(t, r):
    """harness {"v":..} | {"err":true} -> option val"""
    if r is None or "v" not in r:
        return "None"
    return "(Some %s)" % g_val(t, r["v"])


# the Raft example's real payload type, as serde derives it
ENTRY_TY = {"Tup": ["U64", "U64", "U64"]}
MEMBER_TY = {"Enum": [{"Tup": ["U32"]}]}
RAFT_TY = {"Enum": [{"Tup": ["U64", "U64", "U64"]},                      # RequestVote{term,last_log_index,last_log_term}
                    {"Tup": ["U64"]},                                    # RequestVoteResponse{term}
                    {"Tup": ["U64", MEMBER_TY, "U64", "U64", {"Vec": ENTRY_TY}, "U64"]},   # AppendEntries
                    {"Tup": ["U64", "Bool", "U64"]}]}                    # AppendEntriesReply


def member_v(raw):
    return {"tag": 0, "v": [raw]}


def raft_v(r):
    t = r["t"]
    if t == "RV":
        return {"tag": 0, "v": [r["term"], r["lli"], r["llt"]]}
    if t == "RVR":
        return {"tag": 1, "v": [r["term"]]}
    if t == "AE":
        return {"tag": 2, "v": [r["term"], member_v(r["leader"]), r["pli"], r["plt"], [list(e) for e in r["entries"]], r["lc"]]}
    return {"tag": 3, "v": [r["term"], r["succ"], r["mi"]]}


VIEW_TY = {"Tup": ["U64", {"Opt": MEMBER_TY}]}
SENTRY_TY = {"Tup": ["Str", "U64", "U64"]}

# ---------------------------------------------------------------------------- cases


def gen_cases(rng, tier, n):
    cases = []
    nval = n * 5 // 10
    for i in range(nval):
        t = gen_type(rng, rng.range(0 if i % 4 == 0 else 1, 3 if tier == "quick" else 4))
        v = gen_val(rng, t)
        cases.append({"k": "val", "ty": t, "v": v, "mbytes": py_encode(t, v)})
    for i in range(n // 10):
        # malformed input: truncations / extensions of a valid frame; arbitrary bytes for fixed-shape types
        t = gen_type(rng, rng.range(0, 3))
        v = gen_val(rng, t)
        b = py_encode(t, v)
        m = rng.below(3)
        if m == 0 and b:
            b = b[:rng.below(len(b))]
        elif m == 1:
            b = b + [rng.below(256) for _ in range(rng.range(1, 4))]
        elif not has(t, ("Vec", "Str")):
            b = [rng.choice([0, 1, 2, 255, rng.below(256)]) for _ in range(rng.below(len(b) + 3))]
        cases.append({"k": "dec", "ty": t, "bytes": b})
    for i in range(n // 10):
        cases.append({"k": "raft", "rpc": proto._gen_rpc(rng, 5, rng.below(6), rng.below(6))})
    for i in range(n // 40):
        cases.append({"k": "view", "term": rng.below(1 << 40), "leader": rng.choice([None, rng.below(1 << 32)])})
        cases.append({"k": "entry", "e": [rng.choice(STRINGS), rng.below(99), rng.below(99)]})
        cases.append({"k": "member", "raw": rng.choice([0, 1, 2 ** 32 - 1, rng.below(2 ** 32)])})
    for i in range(n // 10):
        nk = rng.range(1, 5)
        keys = rng.sample(list(range(8)), nk)
        miss = rng.chance(1, 8)
        items = [[rng.choice(keys) if not (miss and rng.chance(1, 4)) else rng.below(8), rng.below(1000)] for _ in range(rng.below(12))]
        cases.append({"k": "demux", "keys": keys, "items": items})
    for i in range(n // 8):
        cases.append(gen_bp(rng))
    while len(cases) < n:
        t = gen_type(rng, rng.range(0, 2))
        nm = rng.range(1, 5)
        members = rng.sample(list(range(6)), nm)
        items = [[rng.choice(members), gen_val(rng, t)] for _ in range(rng.below(8))]
        cases.append({"k": "wire", "ty": t, "sender": rng.choice(members), "members": members, "items": items})
    return cases


def term(case, res):
    k = case["k"]
    if "panic" in res and k not in ("demux", "bp"):
        return 3
    if "hang" in res or "crash" in res or "garbled" in res or "bad_case" in res:
        return 3
    if k == "val":
        t = case["ty"]
        return "(chk_val %s %s %s %s %s %s %s)" % (g_ty(t), g_val(t, case["v"]), g_bytes(case["mbytes"]), g_bytes(res["bytes"]),
                                                  g_res(t, res["rt"]), g_res(t, res["from_model"]), g_res(t, res["trailing"]))
    if k == "dec":
        t = case["ty"]
        return "(chk_dec %s %s %s)" % (g_ty(t), g_bytes(case["bytes"]), g_res(t, res))
    if k == "raft":
        return "(chk_concrete %s %s %s %s)" % (g_ty(RAFT_TY), g_val(RAFT_TY, raft_v(case["rpc"])), g_bytes(res["bytes"]),
                                               "true" if res["rt"] == case["rpc"] else "false")
    if k == "view":
        v = [case["term"], [] if case["leader"] is None else [member_v(case["leader"])]]
        return "(chk_concrete %s %s %s %s)" % (g_ty(VIEW_TY), g_val(VIEW_TY, v), g_bytes(res["bytes"]), "true" if res["rt_ok"] else "false")
    if k == "entry":
        return "(chk_concrete %s %s %s %s)" % (g_ty(SENTRY_TY), g_val(SENTRY_TY, case["e"]), g_bytes(res["bytes"]),
                                               "true" if res["rt_ok"] else "false")
    if k == "member":
        return "(chk_member %d %s %s %s %s %d %d %d)" % (case["raw"], g_bytes(res["bytes"]), g_bytes(res["tbytes"]),
                                                        "true" if res["same"] else "false", "true" if res["tagless_again"] else "false",
                                                        res["raw_back"], res["tagless_raw"], res["de_raw"])
    if k == "bp":
        return bp_term(case, res)
    if k == "demux":
        items = vlib.g_list(["(%d, %d)" % (a, b) for a, b in case["items"]])
        keys = vlib.g_list(["%d" % x for x in case["keys"]])
        if "panic" in res:
            r = "None"
        else:
            r = "(Some %s)" % vlib.g_list(["(%d, %s)" % (kq[0], g_bytes(kq[1])) for kq in res["queues"]])
        return "(chk_demux %s %s %s)" % (keys, items, r)
    if k == "wire":
        t = case["ty"]
        items = vlib.g_list(["(%d, %s)" % (d, g_val(t, v)) for d, v in case["items"]])
        recv = vlib.g_list(["(%d, %s)" % (m, vlib.g_list(["(%d, %s)" % (s, g_val(t, v)) for s, v in got])) for m, got in res["recv"]])
        return "(chk_wire %s %d %s %s %s)" % (g_ty(t), case["sender"], vlib.g_list(["%d" % m for m in case["members"]]), items, recv)
    return 3


RICH_TY = {"Tup": ["U32", {"Opt": {"Vec": "Str"}}, {"Enum": ["I64", "Str"]}, "Bool"]}
EMB_TY = {"dm_u32": "U32", "dm_rich": RICH_TY}


def gen_emb(rng):
    flow = rng.choice(["dm_u32", "dm_rich", "dm_rich"])
    t = EMB_TY[flow]
    members = rng.sample(list(range(6)), rng.range(1, 5))
    items = [[rng.choice(members), gen_val(rng, t)] for _ in range(rng.below(8))]
    return {"k": "emb", "flow": flow, "sender": rng.below(6), "members": members, "items": items}


def emb_term(case, res):
    if "wire" not in res:
        return 3
    t = EMB_TY[case["flow"]]
    items = vlib.g_list(["(%d, %s)" % (d, g_val(t, v)) for d, v in case["items"]])
    wire = vlib.g_list(["(%d, %s)" % (d, g_bytes(b)) for d, b in res["wire"]])
    recv = vlib.g_list(["(%d, %s)" % (m, vlib.g_list(["(%d, %s)" % (s, g_val(t, v)) for s, v in got])) for m, got in res["recv"]])
    return "(chk_emb %s %d %s %s %s %s)" % (g_ty(t), case["sender"], vlib.g_list(["%d" % m for m in case["members"]]), items, wire, recv)


def gen_bp(rng):
    """demux_map under back-pressure: >= 2 members, readiness scripts, messages to all of them"""
    nm = rng.range(2, 4)
    keys = rng.sample(list(range(8)), nm)
    dens = rng.choice([1, 2, 3])          # pending density /4
    init = [[k, [not rng.chance(dens, 4) for _ in range(rng.below(7))]] for k in keys]
    items = [[rng.choice(keys), rng.range(1, 999)] for _ in range(rng.range(1, 8))]
    return {"k": "bp", "init": init, "items": items, "fuel": 40}


def bp_term(case, res):
    init = vlib.g_list(["(%d, %s)" % (k, vlib.g_list(["true" if b else "false" for b in sc])) for k, sc in case["init"]])
    items = vlib.g_list(["(%d, %d)" % (k, x) for k, x in case["items"]])
    if "members" in res:
        mem = vlib.g_list(["(%d, (%s, %d))" % (k, g_bytes(got), lost) for k, got, lost in res["members"]])
        polls = vlib.g_list(["true" if b else "false" for b in res["polls"]])
        impl = "(Some (%s, %s))" % (mem, polls)
        ans = vlib.g_list(["(%d, %s)" % (k, vlib.g_list(["true" if b else "false" for b in a])) for k, a in res["answers"]])
    else:
        impl, ans = "None", "[]"
    return "(chk_bp %d %s %s %s %s)" % (case["fuel"], init, items, impl, ans)


def shrink(case):
    k = case["k"]
    if k == "bp":
        for i in range(len(case["init"])):
            sc = case["init"][i][1]
            for j in range(len(sc)):
                ini = [list(x) for x in case["init"]]
                ini[i] = [ini[i][0], sc[:j] + sc[j + 1:]]
                yield dict(case, init=ini)
    if k in ("demux", "wire", "emb", "bp"):
        it = case["items"]
        for i in range(len(it)):
            yield dict(case, items=it[:i] + it[i + 1:])
    if k == "dec":
        b = case["bytes"]
        for i in range(len(b)):
            yield dict(case, bytes=b[:i] + b[i + 1:])


# ---------------------------------------------------------------------------------------------
# secondary harness binaries (the generated-closure harnesses): a no-op `cargo build` of a crate
# that depends on the hydro workspace costs 20-100 s on a loaded machine, so the build is skipped
# when nothing it depends on changed: stamp = /repo HEAD + working-tree diff + untracked list +
# the harness crate's own sources.  Only for the default /repo; alternative checkouts always build.
def cached_build(crate, group, binary):
    import hashlib
    import os
    import subprocess
    from tools import vlib
    if vlib.REPO != "/repo":
        ok, bindir, log = vlib.cargo_build(crate, group)
        return (os.path.join(bindir, binary) if ok else None), log
    h = hashlib.sha256()
    for cmd in (["git", "-C", vlib.REPO, "rev-parse", "HEAD"], ["git", "-C", vlib.REPO, "diff", "HEAD"],
                ["git", "-C", vlib.REPO, "status", "--porcelain"]):
        h.update(subprocess.run(cmd, capture_output=True).stdout)
    cdir = os.path.join(vlib.ROOT, "harness", crate)
    for d, dn, fs in sorted(os.walk(cdir)):
        dn[:] = sorted(x for x in dn if x != "target")
        for f in sorted(fs):
            if f.endswith((".rs", ".toml", ".lock")):
                h.update(f.encode())
                h.update(open(os.path.join(d, f), "rb").read())
    h.update(vlib.HOOK_CFG.encode())
    stamp = h.hexdigest()
    bindir = os.path.join(vlib.CACHE, "target-" + group, "debug")
    bpath = os.path.join(bindir, binary)
    spath = os.path.join(vlib.CACHE, "stamp-%s-%s" % (group, crate))
    if os.path.exists(bpath) and os.path.exists(spath) and open(spath).read() == stamp:
        return bpath, "cached"
    ok, bindir, log = vlib.cargo_build(crate, group)
    if not ok:
        return None, log
    open(spath, "w").write(stamp)
    return os.path.join(bindir, binary), log
