#!/usr/bin/env python3
"""Assemble MANIFEST.json from checks/Cxx.json fragments (one per claimed property) and
na/Cxx.json (explicit not-applicable reasons).  Every property without a fragment is listed
under not_applicable with the reason 'check not built yet'."""
import glob
import json
import os

ROOT = os.path.dirname(os.path.dirname(os.path.abspath(__file__)))
props = [json.loads(l)["id"] for l in open(os.path.join(ROOT, "properties.jsonl")) if l.strip()]
checks = []
for f in sorted(glob.glob(os.path.join(ROOT, "checks", "C*.json"))):
    c = json.load(open(f))
    pid = c["property_id"]
    c.setdefault("quick_cmd", "./vcheck %s --tier quick" % pid)
    c.setdefault("thorough_cmd", "./vcheck %s --tier thorough" % pid)
    c.setdefault("evidence_file", "/verif/evidence/%s.json" % pid)
    c.setdefault("replay_cmd_template", "./vcheck %s --replay {path}" % pid)
    checks.append(c)
claimed = {c["property_id"] for c in checks}
na = []
for p in props:
    if p in claimed:
        continue
    f = os.path.join(ROOT, "na", p + ".json")
    if os.path.exists(f):
        na.append(json.load(open(f)))
    else:
        na.append({"property_id": p, "reason": "check not built yet (see DESIGN.md section 5 for the plan); nothing is claimed"})
hooks_file = os.path.join(ROOT, "checks", "hooks.json")
hooks = json.load(open(hooks_file))
commits = []
for f in sorted(glob.glob(os.path.join(ROOT, "checks", "hook_commits", "*.txt"))):
    for line in open(f):
        if line.strip():
            commits.append(line.split()[0])
hooks["source_commits"] = commits
engines = [json.load(open(f)) for f in sorted(glob.glob(os.path.join(ROOT, "checks", "engine_*.json")))]
man = {
    "version": 1,
    "setup_cmd": "./setup.sh",
    "hooks": hooks,
    "engines": engines,
    "checks": checks,
    "not_applicable": na,
    "notes": "Machine-checked proof in Coq 8.16.1 about hand-written executable models, tied to /repo on every run by a "
             "correspondence check (real crate vs. model evaluated inside Coq). See DESIGN.md.",
}
json.dump(man, open(os.path.join(ROOT, "MANIFEST.json"), "w"), indent=1)
print("MANIFEST.json: %d checks, %d not_applicable" % (len(checks), len(na)))
