"""Engine "Push" (C12 dfir_pipes::push combinators, C14 sinktools adaptors):
case generators, Gallina printers, Python-side reference checks (used only for finding
classification, non-triviality and distribution -- the verdict is computed in Coq), shrinkers."""
import glob
import itertools
import json
import os

from tools import vlib
from tools.vlib import g_bool, g_list

# ---------------------------------------------------------------------------- vocabulary

FS = [["id"], ["add", 1], ["add", 7], ["mul", 2], ["mul", 3]]
QS = [["true"], ["false"], ["mod", 2, 0], ["mod", 3, 1], ["lt", 5], ["mod", 2, 1]]
GS = [["rep", 3], ["rep", 4], ["range", 3], ["range", 4], ["two"], ["rep", 1]]

# name -> (number of downstreams or None for variable, item arity)
PUSH_COMBS = {
    "map": (1, 1), "filter": (1, 1), "filter_map": (1, 1), "inspect": (1, 1),
    "flat_map": (1, 1), "flatten": (1, None), "fanout": (2, 1), "unzip": (2, 2),
    "demux": (None, 2),
}


def fev(f, x):
    return x if f[0] == "id" else (x + f[1] if f[0] == "add" else x * f[1])


def pev(q, x):
    if q[0] == "true":
        return True
    if q[0] == "false":
        return False
    if q[0] == "mod":
        return (x % q[1] if q[1] else x) == q[2]
    return x < q[1]


def gev(g, x):
    if g[0] == "two":
        return [x, x + 10]
    n = x % g[1] if g[1] else x
    return [x] * n if g[0] == "rep" else [x + i for i in range(n)]


def nth(i, k):
    return i[k] if k < len(i) else 0


def n_down(case):
    c = case["comb"]
    if c in ("fanout", "unzip"):
        return 2
    if c == "demux":
        return len(case["downs"])
    return 1


def ref_items(case, i):
    """what downstream i must receive (mirror of Run.v ref_items; informative only)"""
    c, items = case["comb"], case["items"]
    ns = [nth(it, 0) for it in items]
    if c == "map":
        return [fev(case["f"], x) for x in ns]
    if c == "filter":
        return [x for x in ns if pev(case["q"], x)]
    if c == "filter_map":
        return [fev(case["f"], x) for x in ns if pev(case["q"], x)]
    if c in ("inspect", "fanout"):
        return ns
    if c == "flat_map":
        return [y for x in ns for y in gev(case["g"], x)]
    if c == "flatten":
        return [y for it in items for y in it]
    if c == "unzip":
        return [nth(it, i) for it in items]
    if c == "demux":
        return [nth(it, 1) for it in items if nth(it, 0) == i]
    raise KeyError(c)


def in_scope(case):
    if case["comb"] == "demux":
        return all(nth(it, 0) < len(case["downs"]) for it in case["items"])
    return True


# ---------------------------------------------------------------------------- python-side log checks


def log_weak_ok(log):
    """wfw of Model.v on an oldest-first JSON log"""
    ready = False
    started = False
    done = False
    for k, v in log:
        if k == "s":
            if not ready or started:
                return False
            ready = False
        elif k == "r":
            if done:
                return False
            ready = bool(v)
        else:
            started = True
            ready = False
            if v:
                done = True
    return True


def log_refinalized(log):
    done = False
    for k, v in log:
        if k == "f":
            if done:
                return True
            if v:
                done = True
    return False


def log_strict_ok(log):
    done = False
    for k, v in log:
        if done:
            return False
        if k == "f" and v:
            done = True
    return log_weak_ok(log)


def sent(log):
    return [v for k, v in log if k == "s"]


def weak_holds(case, res):
    """C12_weak_holds_b of Run.v (python mirror)"""
    if not in_scope(case):
        return True
    if "logs" not in res:
        return False
    logs = res["logs"]
    real = logs[:1] if case["comb"] == "inspect" else logs
    if len(real) != n_down(case):
        return False
    fin = res["out"] == "fin"
    for i, lg in enumerate(real):
        ref = ref_items(case, i)
        s = sent(lg)
        if not log_weak_ok(lg):
            return False
        if fin:
            if s != ref or not any(k == "f" and v for k, v in lg):
                return False
        elif s != ref[:len(s)]:
            return False
    if case["comb"] == "inspect" and sent(logs[1]) != sent(logs[0]):
        return False
    return True


# ---------------------------------------------------------------------------- Gallina printers


def c_fcode(f):
    return {"id": "FId", "add": "(FAdd %d)", "mul": "(FMul %d)"}[f[0]] % tuple(f[1:])


def c_pcode(q):
    return {"true": "PTrue", "false": "PFalse", "mod": "(PModEq %d %d)", "lt": "(PLt %d)"}[q[0]] % tuple(q[1:])


def c_gcode(g):
    return {"rep": "(GRep %d)", "range": "(GRange %d)", "two": "GTwo"}[g[0]] % tuple(g[1:])


def c_comb(case):
    c = case["comb"]
    if c == "map":
        return "(CMap %s)" % c_fcode(case["f"])
    if c == "filter":
        return "(CFilter %s)" % c_pcode(case["q"])
    if c == "filter_map":
        return "(CFilterMap %s %s)" % (c_pcode(case["q"]), c_fcode(case["f"]))
    if c == "flat_map":
        return "(CFlatMap %s)" % c_gcode(case["g"])
    return {"inspect": "CInspect", "flatten": "CFlatten", "fanout": "CFanout", "unzip": "CUnzip",
            "demux": "CDemux"}[c]


def c_bools(bs):
    return g_list([g_bool(bool(b)) for b in bs])


def c_items(items):
    return g_list([g_list(["%d" % x for x in it]) for it in items])


def c_downs(downs):
    return g_list(["(%s, %s)" % (c_bools(d[0]), c_bools(d[1])) for d in downs])


def c_log(log):
    out = []
    for k, v in log:
        if k == "r":
            out.append("ERdy %s" % g_bool(bool(v)))
        elif k == "f":
            out.append("EFin %s" % g_bool(bool(v)))
        else:
            out.append("ESend %d" % v)
    return g_list(out)


_DEV = {"R": "DRdy true", "r": "DRdy false", "S": "DSend", "F": "DFin true", "f": "DFin false"}
_OUT = {"fin": "Finished", "fuel": "OutOfFuel", "panic": "Panicked"}


def c_obs(res):
    if "panic" in res:
        return "(Panicked, [], [])"
    return "(%s, %s, %s)" % (_OUT[res["out"]], g_list([_DEV[ch] for ch in res["trace"]]),
                             g_list([c_log(l) for l in res["logs"]]))


def push_term(case, res, fn="chk12"):
    if "panic" not in res and "logs" not in res:
        return 3  # hang / crash / garbled: nothing to compare, no property can hold
    return "(%s %s %d%%nat %s %s %s)" % (fn, c_comb(case), case["fuel"], c_items(case["items"]),
                                    c_downs(case["downs"]), c_obs(res))


# ---------------------------------------------------------------------------- generators


def gen_value(rng):
    return rng.below(12) if rng.chance(3, 4) else rng.below(40)


def gen_items(rng, comb, n, nd):
    arity = PUSH_COMBS[comb][1]
    items = []
    for _ in range(n):
        if comb == "flatten":
            items.append([gen_value(rng) for _ in range(rng.choice([0, 0, 1, 1, 2, 3, 4]))])
        elif comb == "demux":
            idx = rng.below(nd)
            items.append([idx, gen_value(rng)])
        else:
            items.append([gen_value(rng) for _ in range(arity)])
    return items


def gen_params(rng, comb):
    d = {}
    if comb in ("map", "filter_map"):
        d["f"] = rng.choice(FS)
    if comb in ("filter", "filter_map"):
        d["q"] = rng.choice(QS)
    if comb == "flat_map":
        d["g"] = rng.choice(GS)
    return d


def pick_nd(rng, comb):
    nd = PUSH_COMBS[comb][0]
    return nd if nd is not None else rng.choice([1, 2, 2, 3, 3, 4])


def n_sends(case):
    return [len(ref_items(case, i)) for i in range(n_down(case))]


def script_positions(case, slack_r=2, len_f=3):
    """all (downstream, 'r'|'f', index) script positions that a run of the case can reach"""
    pos = []
    for d, ns in enumerate(n_sends(case)):
        # poll_ready calls on a downstream: one per send plus one per driver poll (fanout & co
        # poll every downstream on every driver poll) plus re-polls after Pend
        nr = max(ns, len(case["items"])) + 1 + slack_r
        pos += [(d, 0, i) for i in range(nr)]
        pos += [(d, 1, i) for i in range(len_f)]
    return pos


def apply_placement(case, placement):
    nd = n_down(case)
    downs = [[[], []] for _ in range(nd)]
    for d, w, i in placement:
        sc = downs[d][w]
        while len(sc) <= i:
            sc.append(True)
        sc[i] = False
    c = dict(case)
    c["downs"] = downs
    return c


def placements(rng, case, max_pend, cap):
    pos = script_positions(case)
    total = sum(1 for k in range(max_pend + 1) for _ in itertools.combinations(range(len(pos)), k)) \
        if len(pos) <= 40 else None
    if total is not None and total <= cap:
        for k in range(max_pend + 1):
            for comb_ in itertools.combinations(pos, k):
                yield list(comb_), True
        return
    seen = set()
    tries = 0
    while len(seen) < cap and tries < cap * 4:
        tries += 1
        k = rng.choice([0, 1, 1, 2, 2, 2, 3, 3, 3, 3][:max_pend * 3 + 1])
        pl = tuple(sorted(rng.sample(pos, k)))
        if pl in seen:
            continue
        seen.add(pl)
        yield list(pl), False


def random_script(rng, n, dens):
    return [not rng.chance(dens, 10) for _ in range(n)]


def load_corpus(prop):
    out = []
    for p in sorted(glob.glob(os.path.join(vlib.ROOT, "corpus", prop, "*.json"))):
        d = json.load(open(p))
        c = d.get("case", d)
        c["src"] = "corpus"
        out.append(c)
    return out


def gen_push_cases(rng, tier, n, combs=None):
    combs = combs or sorted(PUSH_COMBS)
    cases = load_corpus("C12")
    if tier == "thorough":
        # bounded-exhaustive: every combinator x one item sequence per length 0..6 x every
        # placement of <= 3 Pend over all reachable script positions of all its downstreams
        # (sampled without replacement when the placement space exceeds the cap)
        cap = max(200, n // (len(combs) * 8))
        for comb in combs:
            nds = [PUSH_COMBS[comb][0]] if PUSH_COMBS[comb][0] is not None else [1, 2, 3]
            for nd in nds:
                for ln in range(0, 7):
                    base = {"k": "push", "comb": comb, "fuel": 400}
                    base.update(gen_params(rng, comb))
                    base["items"] = gen_items(rng, comb, ln, nd)
                    base["downs"] = [[[], []] for _ in range(nd)]
                    for pl, exh in placements(rng, base, 3, cap if ln > 1 else cap * 2):
                        c = apply_placement(base, pl)
                        c["src"] = "exh" if exh else "exh-sampled"
                        cases.append(c)
    per = max(4, n // len(combs)) if tier == "quick" else max(4, n // (len(combs) * 6))
    for comb in combs:
        for _ in range(per):
            nd = pick_nd(rng, comb)
            c = {"k": "push", "comb": comb}
            c.update(gen_params(rng, comb))
            c["items"] = gen_items(rng, comb, rng.choice([0, 1, 2, 3, 5, 8, 12, 20]), nd)
            if comb == "demux" and c["items"] and rng.chance(1, 12):
                c["items"][rng.below(len(c["items"]))][0] = nd + rng.below(2)  # out-of-range index
            dens = rng.choice([0, 1, 3, 5, 7])
            c["downs"] = [[random_script(rng, rng.below(40), dens), random_script(rng, rng.below(6), dens)]
                          for _ in range(nd)]
            c["fuel"] = rng.below(14) if rng.chance(1, 10) else 1000
            c["src"] = "rnd"
            cases.append(c)
    return cases


# ---------------------------------------------------------------------------- shrinking


def shrink_push(case):
    def mk(**kw):
        c = dict(case)
        c.update(kw)
        c["src"] = "shrunk"
        return c
    items = case["items"]
    for i in range(len(items)):
        yield mk(items=items[:i] + items[i + 1:])
    for d in range(len(case["downs"])):
        for w in (0, 1):
            sc = case["downs"][d][w]
            for i in range(len(sc)):
                nd = [[list(x[0]), list(x[1])] for x in case["downs"]]
                del nd[d][w][i]
                yield mk(downs=nd)
            for i in range(len(sc)):
                if not sc[i]:
                    nd = [[list(x[0]), list(x[1])] for x in case["downs"]]
                    nd[d][w][i] = True
                    yield mk(downs=nd)
    if case["comb"] == "demux" and len(case["downs"]) > 1:
        yield mk(downs=case["downs"][:-1])
    for i, it in enumerate(items):
        for j, x in enumerate(it):
            if x > 0 and not (case["comb"] == "demux" and j == 0):
                it2 = list(it)
                it2[j] = x // 2
                yield mk(items=items[:i] + [it2] + items[i + 1:])
        if case["comb"] == "flatten" and it:
            yield mk(items=items[:i] + [it[:-1]] + items[i + 1:])


# ---------------------------------------------------------------------------- distribution


def push_distribution(cases, results):
    d = {"per_combinator": {}, "src": {}, "items_len": {}, "pend_per_case": {}, "n_downstreams": {},
         "outcome": {}, "pend_seen_ready": 0, "pend_seen_finalize": 0, "small_fuel": 0}
    for c, r in zip(cases, results):
        def inc(k, v):
            d[k][str(v)] = d[k].get(str(v), 0) + 1
        inc("per_combinator", c["comb"])
        inc("src", c.get("src", "?"))
        inc("items_len", len(c["items"]))
        npend = sum(1 for dn in c["downs"] for sc in dn for b in sc if not b)
        inc("pend_per_case", npend if npend <= 3 else ">3")
        inc("n_downstreams", len(c["downs"]))
        inc("outcome", r.get("out", "panic" if "panic" in r else "other"))
        if c.get("fuel", 1000) < 100:
            d["small_fuel"] += 1
        for lg in r.get("logs", []):
            d["pend_seen_ready"] += sum(1 for k, v in lg if k == "r" and not v)
            d["pend_seen_finalize"] += sum(1 for k, v in lg if k == "f" and not v)
    return d
