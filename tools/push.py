"""Engine "Push" (C12 dfir_pipes::push combinators, C14 sinktools adaptors):
case generators, Gallina printers, Python-side reference checks (used only for finding
classification, non-triviality and distribution -- the verdict is computed in Coq), shrinkers."""
import glob
import itertools
import json
import os

from tools import vlib
from tools.vlib import g_bool, g_list

# ---------------------------------------------------------------------------- vocabulary

FS = [["id"], ["add", 1], ["add", 7], ["mul", 2], ["mul", 3]]
QS = [["true"], ["false"], ["mod", 2, 0], ["mod", 3, 1], ["lt", 5], ["mod", 2, 1]]
GS = [["rep", 3], ["rep", 4], ["range", 3], ["range", 4], ["two"], ["rep", 1]]

# name -> (number of downstreams or None for variable, item arity)
PUSH_COMBS = {
    "map": (1, 1), "filter": (1, 1), "filter_map": (1, 1), "inspect": (1, 1),
    "flat_map": (1, 1), "flatten": (1, None), "fanout": (2, 1), "unzip": (2, 2),
    "demux": (None, 2),
    "fold": (1, 1), "reduce": (1, 1), "sort_acc": (1, 1), "sort": (1, 1), "persist": (1, 1),
    "for_each": (1, 1), "fold_keyed": (1, 2), "reduce_keyed": (1, 2), "resolve": (1, 2),
    "pipe_flatmap_fanout": (2, 1), "pipe_map_flatmap_filter": (1, 1), "pipe_filter_fanout_fold": (2, 1),
}
OPS = ["add", "max", "min"]


def oev(o, a, x):
    return a + x if o == "add" else (max(a, x) if o == "max" else min(a, x))


def keyed_map(case):
    m = {}
    for it in case["items"]:
        k, v = nth(it, 0), nth(it, 1)
        if case["comb"] == "fold_keyed":
            m[k] = oev(case["o"], m.get(k, case["init"]), v)
        else:
            m[k] = oev(case["o"], m[k], v) if k in m else v
    return m


def keyed_order(case, res):
    """the HashMap iteration-order oracle, taken from the implementation's emission order"""
    emitted = []
    for e in (res.get("logs") or [[]])[0]:
        if e[0] == "s" and e[1] // 100000 not in emitted:
            emitted.append(e[1] // 100000)
    return emitted + sorted(k for k in keyed_map(case) if k not in emitted)


def fev(f, x):
    return x if f[0] == "id" else (x + f[1] if f[0] == "add" else x * f[1])


def pev(q, x):
    if q[0] == "true":
        return True
    if q[0] == "false":
        return False
    if q[0] == "mod":
        return (x % q[1] if q[1] else x) == q[2]
    return x < q[1]


def gev(g, x):
    if g[0] == "two":
        return [x, x + 10]
    n = x % g[1] if g[1] else x
    return [x] * n if g[0] == "rep" else [x + i for i in range(n)]


def nth(i, k):
    return i[k] if k < len(i) else 0


def n_down(case):
    c = case["comb"]
    if c in ("fanout", "unzip", "pipe_flatmap_fanout", "pipe_filter_fanout_fold"):
        return 2
    if c == "demux":
        return len(case["downs"])
    return 1


def ref_items(case, i):
    """what downstream i must receive (mirror of Run.v ref_items; informative only)"""
    c, items = case["comb"], case["items"]
    ns = [nth(it, 0) for it in items]
    if c == "map":
        return [fev(case["f"], x) for x in ns]
    if c == "filter":
        return [x for x in ns if pev(case["q"], x)]
    if c == "filter_map":
        return [fev(case["f"], x) for x in ns if pev(case["q"], x)]
    if c in ("inspect", "fanout"):
        return ns
    if c == "flat_map":
        return [y for x in ns for y in gev(case["g"], x)]
    if c == "flatten":
        return [y for it in items for y in it]
    if c == "unzip":
        return [nth(it, i) for it in items]
    if c == "demux":
        return [nth(it, 1) for it in items if nth(it, 0) == i]
    if c == "fold":
        a = case["init"]
        for x in ns:
            a = oev(case["o"], a, x)
        return [a]
    if c == "reduce":
        a = case["init"]
        for x in ns:
            a = x if a is None else oev(case["o"], a, x)
        return [] if a is None else [a]
    if c in ("sort", "sort_acc"):
        return sorted(ns)
    if c == "persist":
        return (case["pre"] if case["replay"] else []) + ns
    if c in ("for_each", "resolve"):
        return ns
    if c in ("fold_keyed", "reduce_keyed"):
        return sorted(k * 100000 + v for k, v in keyed_map(case).items())
    if c == "pipe_flatmap_fanout":
        return [y for x in ns for y in gev(case["g"], x)]
    if c == "pipe_map_flatmap_filter":
        return [y for x in ns for y in gev(case["g"], fev(case["f"], x)) if pev(case["q"], y)]
    if c == "pipe_filter_fanout_fold":
        kept = [x for x in ns if pev(case["q"], x)]
        if i == 0:
            return [fev(case["f"], x) for x in kept]
        a = case["init"]
        for x in kept:
            a = oev(case["o"], a, x)
        return [a]
    raise KeyError(c)


def in_scope(case):
    if case["comb"] == "demux":
        return all(nth(it, 0) < len(case["downs"]) for it in case["items"])
    return True


# ---------------------------------------------------------------------------- python-side log checks


def log_weak_ok(log):
    """wfw of Model.v on an oldest-first JSON log"""
    ready = False
    started = False
    done = False
    for k, v in log:
        if k == "s":
            if not ready or started:
                return False
            ready = False
        elif k == "r":
            if done:
                return False
            ready = bool(v)
        else:
            started = True
            ready = False
            if v:
                done = True
    return True


def log_refinalized(log):
    done = False
    for k, v in log:
        if k == "f":
            if done:
                return True
            if v:
                done = True
    return False


def log_strict_ok(log):
    done = False
    for k, v in log:
        if done:
            return False
        if k == "f" and v:
            done = True
    return log_weak_ok(log)


def resolve_send_after_fin(case, res):
    """the known-finding class: ResolveFutures with a subgraph waker sends after the downstream's
    poll_finalize was called (and answered Pending) -- and nothing else is wrong"""
    if case["comb"] != "resolve" or not case.get("waker") or "logs" not in res:
        return False
    lg, q = res["logs"][0], res["logs"][1]
    ready = started = done = late = False
    for k, v in lg:
        if done:
            return False
        if k == "s":
            if not ready:
                return False
            late = late or started
            ready = False
        elif k == "r":
            ready = bool(v)
        else:
            started, ready, done = True, False, bool(v)
    vals = [nth(it, 0) for it in case["items"]]
    s = sent(lg)
    if s != vals[:len(s)]:
        return False
    if res["out"] == "fin" and (not done or s + sent(q) != vals):
        return False
    return late


def pipe_ready_after_done(case, res):
    """known-finding class: flat_map upstream of fanout polls poll_ready on a downstream whose
    poll_finalize already answered Done -- and nothing else is wrong"""
    if case["comb"] != "pipe_flatmap_fanout" or "logs" not in res:
        return False
    late = False
    for i, lg in enumerate(res["logs"]):
        ready = started = done = False
        for k, v in lg:
            if k == "s":
                if not ready or started or done:
                    return False
                ready = False
            elif k == "r":
                late = late or done
                ready = bool(v) and not done
            else:
                if done:
                    return False
                started, ready, done = True, False, bool(v)
        ref = ref_items(case, i)
        s = [v for k, v in lg if k == "s"]
        if s != ref[:len(s)] or (res["out"] == "fin" and (s != ref or not done)):
            return False
    return late


def sent(log):
    return [v for k, v in log if k == "s"]


def weak_holds(case, res):
    """C12_weak_holds_b of Run.v (python mirror)"""
    if not in_scope(case):
        return True
    if "logs" not in res:
        return False
    logs = res["logs"]
    real = logs[:1] if case["comb"] == "inspect" else logs
    if len(real) != n_down(case):
        return False
    fin = res["out"] == "fin"
    for i, lg in enumerate(real):
        ref = ref_items(case, i)
        s = sent(lg)
        if not log_weak_ok(lg):
            return False
        if fin:
            if s != ref or not any(k == "f" and v for k, v in lg):
                return False
        elif s != ref[:len(s)]:
            return False
    if case["comb"] == "inspect" and sent(logs[1]) != sent(logs[0]):
        return False
    return True


# ---------------------------------------------------------------------------- Gallina printers


def c_fcode(f):
    return {"id": "FId", "add": "(FAdd %d)", "mul": "(FMul %d)"}[f[0]] % tuple(f[1:])


def c_pcode(q):
    return {"true": "PTrue", "false": "PFalse", "mod": "(PModEq %d %d)", "lt": "(PLt %d)"}[q[0]] % tuple(q[1:])


def c_gcode(g):
    return {"rep": "(GRep %d)", "range": "(GRange %d)", "two": "GTwo"}[g[0]] % tuple(g[1:])


_VARIANT = {}


def source_variant(rel, marker):
    """Which variant of a combinator the checked source tree contains (regenerated from the
    source on every run): True iff `marker` occurs in REPO/<rel> (the finalize-once / close-once fix)."""
    key = (rel, marker)
    if key not in _VARIANT:
        try:
            _VARIANT[key] = marker in open(os.path.join(vlib.REPO, rel), errors="replace").read()
        except OSError:
            _VARIANT[key] = False
    return _VARIANT[key]


def push_fixed(comb):
    rel, marker = {"fanout": ("dfir_pipes/src/push/fanout.rs", "finalized_0"),
                   "unzip": ("dfir_pipes/src/push/unzip.rs", "finalized_0"),
                   "demux": ("dfir_pipes/src/push/demux_var.rs", "poll_finalize_once")}[comb]
    return source_variant(rel, marker)


def require_fix_markers():
    """The models transcribe the finalize-once / close-once code (/repo de9fd2170a9, e255bb09846).
    Fail loudly if the checked tree lost those markers (the model would silently be the wrong one)."""
    missing = [c for c in ("fanout", "unzip", "demux") if not push_fixed(c)]
    if not source_variant("sinktools/src/unzip.rs", "closed_0"):
        missing.append("sinktools unzip")
    for rel, marker, what in (("dfir_pipes/src/push/flat_map.rs", "if self.buffer.is_some()", "flat_map poll_finalize"),
                              ("dfir_pipes/src/push/flatten.rs", "if self.buffer.is_some()", "flatten poll_finalize"),
                              ("dfir_pipes/src/push/resolve_futures.rs", "finalizing", "resolve_futures finalizing flag")):
        if not source_variant(rel, marker):
            missing.append(what)
    if missing:
        raise RuntimeError("source no longer contains the finalize-once/close-once code for: %s "
                           "(models in Push/Model.v, Push/SinkModel.v must be re-transcribed)" % missing)


_OC = {"add": "OAdd", "max": "OMax", "min": "OMin"}


def c_comb(case, res=None):
    c = case["comb"]
    if c == "fold":
        return "(CFold %s %d)" % (_OC[case["o"]], case["init"])
    if c == "reduce":
        return "(CReduce %s %s)" % (_OC[case["o"]], "None" if case["init"] is None else "(Some %d)" % case["init"])
    if c == "persist":
        return "(CPersist %s %s)" % (g_list(["%d" % x for x in case["pre"]]), g_bool(case["replay"]))
    if c in ("fold_keyed", "reduce_keyed"):
        ord_ = g_list(["%d" % k for k in keyed_order(case, res or {})])
        if c == "fold_keyed":
            return "(CFoldKeyed %s %d %s)" % (_OC[case["o"]], case["init"], ord_)
        return "(CReduceKeyed %s %s)" % (_OC[case["o"]], ord_)
    if c == "resolve":
        return "(CResolve %s)" % g_bool(case["waker"])
    if c == "pipe_flatmap_fanout":
        return "(CPipeFMFanout %s)" % c_gcode(case["g"])
    if c == "pipe_map_flatmap_filter":
        return "(CPipeMFF %s %s %s)" % (c_fcode(case["f"]), c_gcode(case["g"]), c_pcode(case["q"]))
    if c == "pipe_filter_fanout_fold":
        return "(CPipeFFF %s %s %s %d)" % (c_pcode(case["q"]), c_fcode(case["f"]), _OC[case["o"]], case["init"])
    if c in ("sort_acc", "sort", "for_each"):
        return {"sort_acc": "CSortAcc", "sort": "CSort", "for_each": "CForEach"}[c]
    if c == "map":
        return "(CMap %s)" % c_fcode(case["f"])
    if c == "filter":
        return "(CFilter %s)" % c_pcode(case["q"])
    if c == "filter_map":
        return "(CFilterMap %s %s)" % (c_pcode(case["q"]), c_fcode(case["f"]))
    if c == "flat_map":
        return "(CFlatMap %s)" % c_gcode(case["g"])
    return {"inspect": "CInspect", "flatten": "CFlatten", "fanout": "CFanout", "unzip": "CUnzip",
            "demux": "CDemux"}[c]


def c_bools(bs):
    return g_list([g_bool(bool(b)) for b in bs])


def c_items(items):
    return g_list([g_list(["%d" % x for x in it]) for it in items])


def c_downs(downs):
    return g_list(["(%s, %s)" % (c_bools(d[0]), c_bools(d[1])) for d in downs])


def c_log(log):
    out = []
    for k, v in log:
        if k == "r":
            out.append("ERdy %s" % g_bool(bool(v)))
        elif k == "f":
            out.append("EFin %s" % g_bool(bool(v)))
        else:
            out.append("ESend %d" % v)
    return g_list(out)


_DEV = {"R": "DRdy true", "r": "DRdy false", "S": "DSend", "F": "DFin true", "f": "DFin false"}
_OUT = {"fin": "Finished", "fuel": "OutOfFuel", "panic": "Panicked"}


def c_obs(res):
    if "panic" in res:
        return "(Panicked, [], [])"
    return "(%s, %s, %s)" % (_OUT[res["out"]], g_list([_DEV[ch] for ch in res["trace"]]),
                             g_list([c_log(l) for l in res["logs"]]))


def push_term(case, res, fn="chk12"):
    if "panic" not in res and "logs" not in res:
        return 3  # hang / crash / garbled: nothing to compare, no property can hold
    return "(%s %s %d%%nat %s %s %s)" % (fn, c_comb(case, res), case["fuel"], c_items(case["items"]),
                                    c_downs(case["downs"]), c_obs(res))


# ---------------------------------------------------------------------------- generators


def gen_value(rng):
    return rng.below(12) if rng.chance(3, 4) else rng.below(40)


def gen_items(rng, comb, n, nd):
    arity = PUSH_COMBS[comb][1]
    items = []
    for _ in range(n):
        if comb == "flatten":
            items.append([gen_value(rng) for _ in range(rng.choice([0, 0, 1, 1, 2, 3, 4]))])
        elif comb == "demux":
            idx = rng.below(nd)
            items.append([idx, gen_value(rng)])
        elif comb in ("fold_keyed", "reduce_keyed"):
            items.append([rng.below(4), gen_value(rng)])
        elif comb == "resolve":
            items.append([gen_value(rng), rng.choice([0, 0, 0, 1, 2, 3])])
        else:
            items.append([gen_value(rng) for _ in range(arity)])
    return items


def gen_params(rng, comb):
    d = {}
    if comb in ("map", "filter_map", "pipe_map_flatmap_filter", "pipe_filter_fanout_fold"):
        d["f"] = rng.choice(FS)
    if comb in ("filter", "filter_map", "pipe_map_flatmap_filter", "pipe_filter_fanout_fold"):
        d["q"] = rng.choice(QS)
    if comb in ("flat_map", "pipe_flatmap_fanout", "pipe_map_flatmap_filter"):
        d["g"] = rng.choice(GS)
    if comb in ("fold", "reduce", "fold_keyed", "reduce_keyed", "pipe_filter_fanout_fold"):
        d["o"] = rng.choice(OPS)
    if comb in ("fold", "fold_keyed", "pipe_filter_fanout_fold"):
        d["init"] = rng.below(5)
    if comb == "reduce":
        d["init"] = None if rng.chance(2, 3) else rng.below(9)
    if comb == "persist":
        d["pre"] = [gen_value(rng) for _ in range(rng.choice([0, 0, 1, 2, 3]))]
        d["replay"] = rng.chance(1, 2)
    if comb == "resolve":
        d["waker"] = rng.chance(1, 3)
    return d


def pick_nd(rng, comb):
    nd = PUSH_COMBS[comb][0]
    return nd if nd is not None else rng.choice([1, 2, 2, 3, 3, 4])


def n_sends(case):
    return [len(ref_items(case, i)) for i in range(n_down(case))]


def script_positions(case, slack_r=2, len_f=3):
    """all (downstream, 'r'|'f', index) script positions that a run of the case can reach"""
    pos = []
    for d, ns in enumerate(n_sends(case)):
        # poll_ready calls on a downstream: one per send plus one per driver poll (fanout & co
        # poll every downstream on every driver poll) plus re-polls after Pend
        nr = max(ns, len(case["items"])) + 1 + slack_r
        pos += [(d, 0, i) for i in range(nr)]
        pos += [(d, 1, i) for i in range(len_f)]
    return pos


def apply_placement(case, placement):
    nd = n_down(case)
    downs = [[[], []] for _ in range(nd)]
    for d, w, i in placement:
        sc = downs[d][w]
        while len(sc) <= i:
            sc.append(True)
        sc[i] = False
    c = dict(case)
    c["downs"] = downs
    return c


def placements(rng, case, max_pend, cap):
    pos = script_positions(case)
    total = sum(1 for k in range(max_pend + 1) for _ in itertools.combinations(range(len(pos)), k)) \
        if len(pos) <= 40 else None
    if total is not None and total <= cap:
        for k in range(max_pend + 1):
            for comb_ in itertools.combinations(pos, k):
                yield list(comb_), True
        return
    seen = set()
    tries = 0
    while len(seen) < cap and tries < cap * 4:
        tries += 1
        k = rng.choice([0, 1, 1, 2, 2, 2, 3, 3, 3, 3][:max_pend * 3 + 1])
        pl = tuple(sorted(rng.sample(pos, k)))
        if pl in seen:
            continue
        seen.add(pl)
        yield list(pl), False


def random_script(rng, n, dens):
    return [not rng.chance(dens, 10) for _ in range(n)]


def load_corpus(prop):
    out = []
    for p in sorted(glob.glob(os.path.join(vlib.ROOT, "corpus", prop, "*.json"))):
        d = json.load(open(p))
        c = d.get("case", d)
        c["src"] = "corpus"
        out.append(c)
    return out


def gen_push_cases(rng, tier, n, combs=None):
    require_fix_markers()
    combs = combs or sorted(PUSH_COMBS)
    cases = load_corpus("C12")
    if tier == "thorough":
        # bounded-exhaustive: every combinator x one item sequence per length 0..6 x every
        # placement of <= 3 Pend over all reachable script positions of all its downstreams
        # (sampled without replacement when the placement space exceeds the cap)
        cap = max(200, n // (len(combs) * 8))
        for comb in combs:
            nds = [PUSH_COMBS[comb][0]] if PUSH_COMBS[comb][0] is not None else [1, 2, 3]
            for nd in nds:
                for ln in range(0, 7):
                    base = {"k": "push", "comb": comb, "fuel": 400}
                    base.update(gen_params(rng, comb))
                    base["items"] = gen_items(rng, comb, ln, nd)
                    base["downs"] = [[[], []] for _ in range(nd)]
                    for pl, exh in placements(rng, base, 3, cap if ln > 1 else cap * 2):
                        c = apply_placement(base, pl)
                        c["src"] = "exh" if exh else "exh-sampled"
                        cases.append(c)
    per = max(4, n // len(combs)) if tier == "quick" else max(4, n // (len(combs) * 6))
    for comb in combs:
        for _ in range(per):
            nd = pick_nd(rng, comb)
            c = {"k": "push", "comb": comb}
            c.update(gen_params(rng, comb))
            c["items"] = gen_items(rng, comb, rng.choice([0, 1, 2, 3, 5, 8, 12, 20]), nd)
            if comb == "demux" and c["items"] and rng.chance(1, 12):
                c["items"][rng.below(len(c["items"]))][0] = nd + rng.below(2)  # out-of-range index
            dens = rng.choice([0, 1, 3, 5, 7])
            c["downs"] = [[random_script(rng, rng.below(40), dens), random_script(rng, rng.below(6), dens)]
                          for _ in range(nd)]
            c["fuel"] = rng.below(14) if rng.chance(1, 10) else 1000
            c["src"] = "rnd"
            cases.append(c)
    return cases


# ---------------------------------------------------------------------------- shrinking


def shrink_push(case):
    def mk(**kw):
        c = dict(case)
        c.update(kw)
        c["src"] = "shrunk"
        return c
    items = case["items"]
    for i in range(len(items)):
        yield mk(items=items[:i] + items[i + 1:])
    for d in range(len(case["downs"])):
        for w in (0, 1):
            sc = case["downs"][d][w]
            for i in range(len(sc)):
                nd = [[list(x[0]), list(x[1])] for x in case["downs"]]
                del nd[d][w][i]
                yield mk(downs=nd)
            for i in range(len(sc)):
                if not sc[i]:
                    nd = [[list(x[0]), list(x[1])] for x in case["downs"]]
                    nd[d][w][i] = True
                    yield mk(downs=nd)
    if case["comb"] == "demux" and len(case["downs"]) > 1:
        yield mk(downs=case["downs"][:-1])
    for i, it in enumerate(items):
        for j, x in enumerate(it):
            if x > 0 and not (case["comb"] == "demux" and j == 0):
                it2 = list(it)
                it2[j] = x // 2
                yield mk(items=items[:i] + [it2] + items[i + 1:])
        if case["comb"] == "flatten" and it:
            yield mk(items=items[:i] + [it[:-1]] + items[i + 1:])


# ---------------------------------------------------------------------------- distribution


def push_distribution(cases, results):
    d = {"per_combinator": {}, "src": {}, "items_len": {}, "pend_per_case": {}, "n_downstreams": {},
         "outcome": {}, "pend_seen_ready": 0, "pend_seen_finalize": 0, "small_fuel": 0}
    for c, r in zip(cases, results):
        def inc(k, v):
            d[k][str(v)] = d[k].get(str(v), 0) + 1
        inc("per_combinator", c["comb"])
        inc("src", c.get("src", "?"))
        inc("items_len", len(c["items"]))
        npend = sum(1 for dn in c["downs"] for sc in dn for b in sc if not b)
        inc("pend_per_case", npend if npend <= 3 else ">3")
        inc("n_downstreams", len(c["downs"]))
        inc("outcome", r.get("out", "panic" if "panic" in r else "other"))
        if c.get("fuel", 1000) < 100:
            d["small_fuel"] += 1
        for lg in r.get("logs", []):
            d["pend_seen_ready"] += sum(1 for k, v in lg if k == "r" and not v)
            d["pend_seen_finalize"] += sum(1 for k, v in lg if k == "f" and not v)
    return d


# ============================================================================ sinktools (C14)

SINK_COMBS = {"map": (1, 1), "filter": (1, 1), "filter_map": (1, 1), "flat_map": (1, 1),
              "flatten": (1, None), "unzip": (2, 2), "lazy": (1, 1),
              "for_each": (1, 1), "try_for_each": (1, 1), "send_iter": (1, 1)}
_RES = {0: "RDone", 1: "RPend", 2: "RErr"}
_SOUT = {"fin": "SFinished", "fail": "SFailed", "fuel": "SOutOfFuel", "panic": "SPanicked"}


def s_ref_items(case, i):
    c = case["comb"]
    if c in ("lazy", "for_each", "try_for_each", "send_iter"):
        return [nth(it, 0) for it in case["items"]]
    return ref_items(case, i)


def c_scomb(case):
    c = case["comb"]
    if c == "map":
        return "(KMap %s)" % c_fcode(case["f"])
    if c == "filter":
        return "(KFilter %s)" % c_pcode(case["q"])
    if c == "filter_map":
        return "(KFilterMap %s %s)" % (c_pcode(case["q"]), c_fcode(case["f"]))
    if c == "flat_map":
        return "(KFlatMap %s)" % c_gcode(case["g"])
    if c == "lazy":
        return "(KLazy %d%%nat %s)" % (case["init_pends"], g_bool(case["init_ok"]))
    if c == "try_for_each":
        return "(KTryForEach %s)" % c_pcode(case["q"])
    if c in ("for_each", "send_iter"):
        return {"for_each": "KForEach", "send_iter": "KSendIter"}[c]
    return {"flatten": "KFlatten", "unzip": "KUnzip"}[c]


def c_ress(rs):
    return g_list([_RES[r] for r in rs])


def c_sdowns(downs):
    return g_list(["(%s, %s, %s, %s)" % (c_ress(d[0]), c_bools(d[1]), c_ress(d[2]), c_ress(d[3])) for d in downs])


def c_slog(log):
    out = []
    for e in log:
        if e[0] == "r":
            out.append("SRdy %s" % _RES[e[1]])
        elif e[0] == "f":
            out.append("SFlush %s" % _RES[e[1]])
        elif e[0] == "c":
            out.append("SClose %s" % _RES[e[1]])
        else:
            out.append("SSend %d %s" % (e[1], g_bool(bool(e[2]))))
    return g_list(out)


def c_strace(tr):
    out = []
    for e in tr:
        if e[0] == "r":
            out.append("TRdy %s" % _RES[e[1]])
        elif e[0] == "f":
            out.append("TFlush %s" % _RES[e[1]])
        elif e[0] == "c":
            out.append("TClose %s" % _RES[e[1]])
        else:
            out.append("TSend %s" % g_bool(bool(e[1])))
    return g_list(out)


def sink_term(case, res, fn="chk14"):
    if "panic" in res:
        obs = "(SPanicked, [], [], 0%nat)"
    elif "logs" not in res:
        return 3
    else:
        obs = "(%s, %s, %s, %d%%nat)" % (_SOUT[res["out"]], c_strace(res["trace"]),
                                        g_list([c_slog(l) for l in res["logs"]]), res["inits"])
    return "(%s %s %d%%nat %s %s %s)" % (fn, c_scomb(case), case["fuel"], c_items(case["items"]),
                                         c_sdowns(case["downs"]), obs)


def slog_failed(log):
    return any((e[0] in "rfc" and e[1] == 2) or (e[0] == "s" and not e[2]) for e in log)


def slog_reclosed(log):
    closed = False
    for e in log:
        if e[0] == "c":
            if closed:
                return True
            if e[1] == 0:
                closed = True
    return False


def slog_weak_ok(log):
    """swfw of SinkModel.v on an oldest-first JSON log"""
    ready = closing = closed = failed = False
    for e in log:
        if failed:
            return False
        if e[0] == "s":
            if not ready or closing:
                return False
            ready = False
            failed = not e[2]
            continue
        if e[0] != "c" and closed:
            return False
        ready = e[0] == "r" and e[1] == 0
        if e[0] == "c":
            closing = True
            closed = closed or e[1] == 0
        failed = e[1] == 2
    return True


def sink_weak_holds(case, res):
    """C14_weak_holds_b (python mirror, used only to classify findings)"""
    if "logs" not in res:
        return False
    logs, out, inits = res["logs"], res["out"], res["inits"]
    if len(logs) != SINK_COMBS[case["comb"]][0]:
        return False
    if case["comb"] == "lazy" and inits == 0:
        if any(logs) or (out == "fin" and case["items"]):
            return False
        logs = []
    for i, lg in enumerate(logs):
        ref = s_ref_items(case, i)
        off = [e[1] for e in lg if e[0] == "s"]
        acc = [e[1] for e in lg if e[0] == "s" and e[2]]
        if not slog_weak_ok(lg) or off != ref[:len(off)]:
            return False
        if out == "fin" and (acc != ref or not any(e[0] == "c" and e[1] == 0 for e in lg) or slog_failed(lg)):
            return False
    anyfail = any(slog_failed(l) for l in logs)
    initfail = case["comb"] == "lazy" and not case["init_ok"] and inits >= 1
    if anyfail and out != "fail":
        return False
    if out == "fail" and not (anyfail or initfail):
        return False
    if inits > 1:
        return False
    if case["comb"] == "lazy":
        return all((not l) or inits == 1 for l in logs)
    return inits == 0


def random_res_script(rng, n, pend_dens, err_dens):
    out = []
    for _ in range(n):
        if rng.chance(err_dens, 40):
            out.append(2)
        elif rng.chance(pend_dens, 10):
            out.append(1)
        else:
            out.append(0)
    return out


def sink_positions(case):
    pos = []
    nd = SINK_COMBS[case["comb"]][0]
    for d in range(nd):
        ns = len(s_ref_items(case, d))
        pos += [(d, 0, i) for i in range(max(ns, len(case["items"])) + 3)]
        pos += [(d, 2, i) for i in range(3)]
        pos += [(d, 3, i) for i in range(3)]
    return pos


def apply_sink_placement(case, placement, err=None):
    nd = SINK_COMBS[case["comb"]][0]
    downs = [[[], [], [], []] for _ in range(nd)]
    for d, w, i in placement:
        sc = downs[d][w]
        while len(sc) <= i:
            sc.append(0)
        sc[i] = 1
    if err is not None:
        d, w, i = err
        sc = downs[d][w]
        while len(sc) <= i:
            sc.append(True if w == 1 else 0)
        sc[i] = False if w == 1 else 2
    c = dict(case)
    c["downs"] = downs
    return c


def gen_sink_base(rng, comb, ln):
    base = {"k": "sink", "comb": comb, "fuel": 400}
    base.update(gen_params(rng, comb if comb not in ("for_each", "try_for_each", "send_iter") else "inspect"))
    if comb == "try_for_each":
        base["q"] = rng.choice([["false"], ["mod", 3, 1], ["lt", 2], ["mod", 5, 0], ["mod", 7, 3]])
    base["items"] = gen_items(rng, comb if comb not in ("lazy", "for_each", "try_for_each", "send_iter") else "map", ln, 1)
    if comb == "lazy":
        base["init_pends"] = rng.below(4)
        base["init_ok"] = not rng.chance(1, 5)
    return base


def gen_sink_cases(rng, tier, n, combs=None):
    require_fix_markers()
    combs = combs or sorted(SINK_COMBS)
    cases = load_corpus("C14")
    if tier == "thorough":
        cap = max(150, n // (len(combs) * 9))
        for comb in combs:
            for ln in range(0, 7):
                base = gen_sink_base(rng, comb, ln)
                if comb == "lazy":
                    base["init_ok"] = True
                pos = sink_positions(base)
                count = 0
                for k in range(4):
                    for pl in itertools.combinations(pos, k):
                        count += 1
                exh = count <= cap
                if exh:
                    pls = [list(pl) for k in range(4) for pl in itertools.combinations(pos, k)]
                else:
                    seen = set()
                    while len(seen) < cap:
                        k = rng.choice([0, 1, 2, 2, 3, 3, 3])
                        seen.add(tuple(sorted(rng.sample(pos, k))))
                    pls = [list(p) for p in sorted(seen)]
                for pl in pls:
                    c = apply_sink_placement(base, pl)
                    c["src"] = "exh" if exh else "exh-sampled"
                    cases.append(c)
                # the same with one injected error at every reachable position (<= 1 Pend)
                errpos = pos + [(d, 1, i) for d in range(SINK_COMBS[comb][0]) for i in range(len(s_ref_items(base, d)))]
                for e in errpos[:60]:
                    pl = [rng.choice(pos)] if rng.chance(1, 2) else []
                    pl = [p for p in pl if p != e]
                    c = apply_sink_placement(base, pl, err=e)
                    c["src"] = "err-sweep"
                    cases.append(c)
            if comb == "lazy":
                for pends in range(4):
                    for ok in (True, False):
                        for ln in (0, 1, 2, 4):
                            c = gen_sink_base(rng, comb, ln)
                            c["init_pends"], c["init_ok"] = pends, ok
                            c["downs"] = [[random_res_script(rng, 6, 3, 0), [], random_res_script(rng, 2, 3, 0),
                                           random_res_script(rng, 2, 3, 0)]]
                            c["src"] = "lazy-init-sweep"
                            cases.append(c)
    if "lazy" in combs:
        # both tiers: the freshly initialised inner sink answers Pending to its first poll_ready
        # (once or twice) while LazySink still holds the first item, for every initializer delay
        for pends in range(4):
            for first_pend in (1, 2):
                for ln in (1, 2, 3):
                    c = gen_sink_base(rng, "lazy", ln)
                    c["init_pends"], c["init_ok"] = pends, True
                    c["downs"] = [[[1] * first_pend, [], [rng.below(2)], [rng.below(2)]]]
                    c["src"] = "lazy-first-ready-pend"
                    cases.append(c)
    per = max(4, n // len(combs)) if tier == "quick" else max(4, n // (len(combs) * 6))
    for comb in combs:
        for _ in range(per):
            c = gen_sink_base(rng, comb, rng.choice([0, 1, 2, 3, 5, 8, 12]))
            pd = rng.choice([0, 1, 3, 5])
            ed = rng.choice([0, 0, 0, 1, 2])
            nd = SINK_COMBS[comb][0]
            c["downs"] = [[random_res_script(rng, rng.below(30), pd, ed),
                           [not rng.chance(ed, 40) for _ in range(rng.below(20))],
                           random_res_script(rng, rng.below(5), pd, ed),
                           random_res_script(rng, rng.below(5), pd, ed)] for _ in range(nd)]
            c["fuel"] = rng.below(14) if rng.chance(1, 10) else 1000
            c["src"] = "rnd"
            cases.append(c)
    return cases


def shrink_sink(case):
    def mk(**kw):
        c = dict(case)
        c.update(kw)
        c["src"] = "shrunk"
        return c
    items = case["items"]
    for i in range(len(items)):
        yield mk(items=items[:i] + items[i + 1:])
    for d in range(len(case["downs"])):
        for w in range(4):
            sc = case["downs"][d][w]
            for i in range(len(sc)):
                nd = [[list(y) for y in x] for x in case["downs"]]
                del nd[d][w][i]
                yield mk(downs=nd)
            for i in range(len(sc)):
                neutral = True if w == 1 else 0
                if sc[i] != neutral:
                    nd = [[list(y) for y in x] for x in case["downs"]]
                    nd[d][w][i] = neutral
                    yield mk(downs=nd)
    if case["comb"] == "lazy" and case["init_pends"] > 0:
        yield mk(init_pends=case["init_pends"] - 1)
    for i, it in enumerate(items):
        for j, x in enumerate(it):
            if x > 0:
                it2 = list(it)
                it2[j] = x // 2
                yield mk(items=items[:i] + [it2] + items[i + 1:])


def sink_distribution(cases, results):
    d = {"per_adaptor": {}, "src": {}, "items_len": {}, "outcome": {}, "n_pend_scripted": {}, "n_err_scripted": {},
         "lazy_init_pends": {}, "lazy_init_fail": 0, "pend_seen": 0, "err_seen": 0, "small_fuel": 0}
    for c, r in zip(cases, results):
        def inc(k, v):
            d[k][str(v)] = d[k].get(str(v), 0) + 1
        inc("per_adaptor", c["comb"])
        inc("src", c.get("src", "?"))
        inc("items_len", len(c["items"]))
        inc("outcome", r.get("out", "panic" if "panic" in r else "other"))
        np_ = sum(1 for dn in c["downs"] for w in (0, 2, 3) for x in dn[w] if x == 1)
        ne = sum(1 for dn in c["downs"] for w in (0, 2, 3) for x in dn[w] if x == 2) + \
            sum(1 for dn in c["downs"] for x in dn[1] if not x)
        inc("n_pend_scripted", np_ if np_ <= 3 else ">3")
        inc("n_err_scripted", ne if ne <= 2 else ">2")
        if c["comb"] == "lazy":
            inc("lazy_init_pends", c["init_pends"])
            d["lazy_init_fail"] += 0 if c["init_ok"] else 1
        if c.get("fuel", 1000) < 100:
            d["small_fuel"] += 1
        for lg in r.get("logs", []):
            d["pend_seen"] += sum(1 for e in lg if e[0] in "rfc" and e[1] == 1)
            d["err_seen"] += 1 if slog_failed(lg) else 0
    return d
