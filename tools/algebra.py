"""Algebra engine (E3, property C09): case generators, Gallina printers, Python-side law
evaluation (used only for finding keys / distribution, never for the verdict) and shrinkers.

A case is a JSON dict understood by harness/h_algebra (see its header) and printed as an
`acase` of coq/theories/Algebra/Model.v.  Carrier = {0..n-1}; binary op = n x n table."""
import glob
import json
import os
import struct

from tools import vlib

ROOT = vlib.ROOT

# ----------------------------------------------------------------------------- kinds

ONE_OP = ["associativity", "commutativity", "idempotency", "semigroup"]
OP_E = ["identity", "absorbing_element", "monoid", "commutative_monoid", "no_nonzero_zero_divisors"]
OP_E_B = ["inverse", "group", "abelian_group"]
TWO_OP = ["left_distributes", "right_distributes", "distributive"]
RINGS = ["ring", "commutative_ring", "integral_domain"]
CHECKERS = ONE_OP + OP_E + OP_E_B + ["nonzero_inverse"] + TWO_OP + ["semiring"] + RINGS + [
    "field", "linearity", "bilinearity"]

CTOR = {
    "associativity": "CAssoc", "commutativity": "CComm", "idempotency": "CIdem", "semigroup": "CSemigroup",
    "identity": "CIdentity", "absorbing_element": "CAbsorbing", "monoid": "CMonoid",
    "commutative_monoid": "CCMonoid", "no_nonzero_zero_divisors": "CNoZeroDiv",
    "inverse": "CInverse", "group": "CGroup", "abelian_group": "CAbGroup", "nonzero_inverse": "CNzInverse",
    "left_distributes": "CLDist", "right_distributes": "CRDist", "distributive": "CDist",
    "semiring": "CSemiring", "ring": "CRing", "commutative_ring": "CCRing", "integral_domain": "CIDomain",
    "field": "CField", "linearity": "CLinearity", "bilinearity": "CBilinearity", "props": "CProps",
}

ERR = {
    "Left distributive property check failed.": "ELeftDistrib",
    "Right distributive property check failed.": "ERightDistrib",
    "Absorbing element property check failed.": "EAbsorbing",
    "Inverse check failed.": "EInverse",
    "Nonzero inverse check failed.": "ENonzeroInverse",
    "Left Identity check failed.": "ELeftIdentity",
    "Right Identity check failed.": "ERightIdentity",
    "Associativity check failed.": "EAssoc",
    "Commutativity check failed.": "EComm",
    "Idempotency check failed.": "EIdem",
    "Linearity check failed.": "ELinearity",
    "Bilinearity check failed.": "EBilinearity",
    "No nonzero zero divisors check failed.": "ENoZeroDiv",
}
PTAG = {"associativity": "PAssoc", "commutativity": "PComm", "idempotency": "PIdem",
        "identity": "PIdentity", "inverse": "PInverse", "absorbing_element": "PAbsorbing"}
SRTY = {"binary_trust": "SBinaryTrust", "multiplicity": "SMultiplicity", "cost": "SCost",
        "confidence": "SConfidence", "fuzzy": "SFuzzy"}

# ----------------------------------------------------------------------------- Gallina printers


def g_l(xs):
    return "[" + "; ".join(str(x) for x in xs) + "]"


def g_t(t):
    return "[" + "; ".join(g_l(r) for r in t) + "]"


def bits_to_float(b):
    return struct.unpack("<d", struct.pack("<Q", b))[0]


def float_to_bits(x):
    return struct.unpack("<Q", struct.pack("<d", x))[0]


def g_float(bits):
    x = bits_to_float(bits)
    if x != x:
        return "nan"
    neg = bits >> 63 == 1
    if x in (float("inf"), float("-inf")):
        return "neg_infinity" if neg else "infinity"
    h = abs(x).hex()
    return "(PrimFloat.opp %s%%float)" % h if neg else "%s%%float" % h


def g_sval(ty, v):
    if ty == "binary_trust":
        return "(VB %s)" % ("true" if v else "false")
    if ty in ("confidence", "fuzzy"):
        return "(VF %s)" % g_float(v)
    if v is None:
        return "VInf"
    return "(VN %d)" % v


def g_osval(ty, v):
    return "None" if v == "panic" else "(Some %s)" % g_sval(ty, v)


def case_term(c):
    k = c["k"]
    it = g_l(c.get("items", []))
    if k in ONE_OP:
        return "(%s %s %s)" % (CTOR[k], it, g_t(c["f"]))
    if k in OP_E:
        return "(%s %s %s %d)" % (CTOR[k], it, g_t(c["f"]), c["e"])
    if k in OP_E_B:
        return "(%s %s %s %d %s)" % (CTOR[k], it, g_t(c["f"]), c["e"], g_l(c["b"]))
    if k == "nonzero_inverse":
        return "(CNzInverse %s %s %d %d %s)" % (it, g_t(c["f"]), c["e"], c["zero"], g_l(c["b"]))
    if k in TWO_OP:
        return "(%s %s %s %s)" % (CTOR[k], it, g_t(c["f"]), g_t(c["g"]))
    if k == "semiring":
        return "(CSemiring %s %s %s %d %d)" % (it, g_t(c["f"]), g_t(c["g"]), c["zero"], c["one"])
    if k in RINGS:
        return "(%s %s %s %s %d %d %s)" % (CTOR[k], it, g_t(c["f"]), g_t(c["g"]), c["zero"], c["one"], g_l(c["b"]))
    if k == "field":
        return "(CField %s %s %s %d %d %s %s)" % (it, g_t(c["f"]), g_t(c["g"]), c["zero"], c["one"],
                                                  g_l(c["b"]), g_l(c["b2"]))
    if k == "linearity":
        return "(CLinearity %s %s %s %s)" % (it, g_t(c["f"]), g_t(c["g"]), g_l(c["q"]))
    if k == "bilinearity":
        return "(CBilinearity %s %s %s %s %s %s)" % (it, g_l(c["items2"]), g_t(c["f"]), g_t(c["h"]),
                                                     g_t(c["g"]), g_t(c["q"]))
    if k == "props":
        return "(CProps %s %s %d %s %d)" % (it, g_t(c["f"]), c["e"], g_l(c["b"]), c["z"])
    if k == "cpow":
        return "(CPow %s %d%%nat)" % (it, c["arity"])
    if k == "sr":
        t = c["ty"]
        ctor = "CSrRel" if c.get("profile") == "release" else "CSr"
        return "(%s %s %s %s %s)" % (ctor, SRTY[t], g_sval(t, c["a"]), g_sval(t, c["b"]), g_sval(t, c["c"]))
    if k == "sr_new":
        return "(CSrNew %s %s)" % (SRTY[c["ty"]], g_sval(c["ty"], c["a"]))
    raise ValueError("unknown kind " + k)


def out_term(c, r):
    """implementation output -> Gallina `aout` (OBad for panic/hang/garbage)"""
    if not isinstance(r, dict) or any(x in r for x in ("panic", "hang", "crash", "garbled", "bad_case")):
        return "OBad"
    k = c["k"]
    if "r" in r:
        if r["r"] == "ok":
            return "(ORes Ok)"
        return "(ORes (Err %s))" % ERR.get(r.get("m"), "EOther")
    if "props" in r:
        return "(OProps %s)" % g_l(PTAG.get(p, "POther") for p in r["props"])
    if "tuples" in r:
        return "(OPow %s %s %s)" % (g_t(r["tuples"]), g_l(r["lens"]), "true" if r["after"] else "false")
    if k == "sr" and isinstance(r.get("v"), list):
        return "(OSr %s)" % g_l(g_osval(c["ty"], v) for v in r["v"])
    if k == "sr_new" and "v" in r:
        return "(ONew %s)" % g_osval(c["ty"], r["v"])
    return "OBad"


def chk_term(c, r):
    return "(chk %s %s)" % (case_term(c), out_term(c, r))


# ----------------------------------------------------------------------------- Python-side laws
# (diagnostics: finding keys and the Ok/Err x holds/fails distribution; the verdict is Coq's)


def op(t):
    return lambda a, b: t[a][b]


def law_assoc(I, f):
    return all(f(a, f(b, c)) == f(f(a, b), c) for a in I for b in I for c in I)


def law_comm(I, f):
    return all(f(a, b) == f(b, a) for a in I for b in I)


def law_ident(I, f, e):
    return all(f(e, a) == a and f(a, e) == a for a in I)


def law_inv(I, f, e, b):
    return all(f(a, b[a]) == e and f(b[a], a) == e for a in I)


def law_absorb(I, f, z):
    return all(f(a, z) == z and f(z, a) == z for a in I)


def law_ldist(I, f, g):
    return all(g(a, f(b, c)) == f(g(a, b), g(a, c)) for a in I for b in I for c in I)


def law_rdist(I, f, g):
    return all(g(f(b, c), a) == f(g(b, a), g(c, a)) for a in I for b in I for c in I)


def law_nzd(I, f, z):
    return all(a == z or b == z or f(a, b) != z for a in I for b in I)


def law_semiring(I, f, g, z, o):
    return (law_assoc(I, f) and law_ident(I, f, z) and law_comm(I, f) and law_assoc(I, g)
            and law_ident(I, g, o) and law_absorb(I, g, z) and law_ldist(I, f, g) and law_rdist(I, f, g))


def law_holds(c):
    """the law the case's checker is documented to check (None for non-checker kinds)"""
    k = c["k"]
    I = c.get("items", [])
    f = op(c["f"]) if "f" in c else None
    g = op(c["g"]) if "g" in c else None
    if k in ("associativity", "semigroup"):
        return law_assoc(I, f)
    if k == "commutativity":
        return law_comm(I, f)
    if k == "idempotency":
        return all(f(a, a) == a for a in I)
    if k == "identity":
        return law_ident(I, f, c["e"])
    if k == "absorbing_element":
        return law_absorb(I, f, c["e"])
    if k == "monoid":
        return law_assoc(I, f) and law_ident(I, f, c["e"])
    if k == "commutative_monoid":
        return law_assoc(I, f) and law_ident(I, f, c["e"]) and law_comm(I, f)
    if k == "no_nonzero_zero_divisors":
        return law_nzd(I, f, c["e"])
    if k == "inverse":
        return law_inv(I, f, c["e"], c["b"])
    if k == "group":
        return law_assoc(I, f) and law_ident(I, f, c["e"]) and law_inv(I, f, c["e"], c["b"])
    if k == "abelian_group":
        return law_assoc(I, f) and law_ident(I, f, c["e"]) and law_inv(I, f, c["e"], c["b"]) and law_comm(I, f)
    if k == "nonzero_inverse":
        b, e = c["b"], c["e"]
        return all(a == c["zero"] or (f(a, b[a]) == e and f(b[a], a) == e) for a in I)
    if k == "left_distributes":
        return law_ldist(I, f, g)
    if k == "right_distributes":
        return law_rdist(I, f, g)
    if k == "distributive":
        return law_ldist(I, f, g) and law_rdist(I, f, g)
    if k == "semiring":
        return law_semiring(I, f, g, c["zero"], c["one"])
    if k in RINGS or k == "field":
        ok = law_semiring(I, f, g, c["zero"], c["one"]) and law_inv(I, f, c["zero"], c["b"])
        if k != "ring":
            ok = ok and law_comm(I, g)
        if k == "integral_domain":
            ok = ok and law_nzd(I, g, c["zero"])
        if k == "field":
            b2, one = c["b2"], c["one"]
            ok = ok and all(a == c["zero"] or (g(a, b2[a]) == one and g(b2[a], a) == one) for a in I)
        return ok
    if k == "linearity":
        q = c["q"]
        return all(q[f(a, b)] == g(q[a], q[b]) for a in I for b in I)
    if k == "bilinearity":
        h, q, J = op(c["h"]), op(c["q"]), c["items2"]
        return (all(q(f(a, b), x) == g(q(a, x), q(b, x)) for a in I for b in I for x in J)
                and all(q(a, h(x, y)) == g(q(a, x), q(a, y)) for a in I for x in J for y in J))
    return None


def sr_failed_clauses(c, r):
    """names of semiring-law clauses that fail on the implementation's values"""
    v = r.get("v")
    if not isinstance(v, list) or len(v) != 20:
        return ["shape"]

    def eq(x, y):
        return x == "panic" or y == "panic" or x == y
    a = c["a"]
    cl = {"add-comm": eq(v[0], v[1]), "add-assoc": eq(v[4], v[5]), "add-ident": eq(v[12], a) and eq(v[13], a),
          "mul-assoc": eq(v[6], v[7]), "mul-ident": eq(v[14], a) and eq(v[15], a),
          "zero-absorbing": eq(v[16], v[18]) and eq(v[17], v[18]),
          "left-dist": eq(v[8], v[9]), "right-dist": eq(v[10], v[11])}
    return sorted(k for k, ok in cl.items() if not ok)


def finding_key(c, r):
    if not isinstance(r, dict):
        return None
    if c["k"] == "sr" and c["ty"] == "confidence" and sr_failed_clauses(c, r) == ["mul-assoc"]:
        return "ConfidenceScore/mul/not-associative"
    return None


# ----------------------------------------------------------------------------- table library


def tab(n, fn):
    return [[fn(a, b) % n for b in range(n)] for a in range(n)]


def lib_ops(n):
    """named single operations on {0..n-1}: (name, table, identity or None, inverse vector or None,
    absorbing or None)"""
    out = [
        ("add", tab(n, lambda a, b: a + b), 0, [(-a) % n for a in range(n)], None),
        ("mul", tab(n, lambda a, b: a * b), 1 % n, None, 0),
        ("max", tab(n, max), 0, None, n - 1),
        ("min", tab(n, min), n - 1, None, 0),
        ("left", tab(n, lambda a, b: a), None, None, None),
        ("right", tab(n, lambda a, b: b), None, None, None),
        ("const0", tab(n, lambda a, b: 0), None, None, 0),
        ("sub", tab(n, lambda a, b: a - b), None, None, None),
    ]
    if n in (2, 4):
        out.append(("xor", tab(n, lambda a, b: a ^ b), 0, list(range(n)), None))
        out.append(("and", tab(n, lambda a, b: a & b), n - 1, None, 0))
        out.append(("or", tab(n, lambda a, b: a | b), 0, None, n - 1))
    return out


GF4_MUL = [[0, 0, 0, 0], [0, 1, 2, 3], [0, 2, 3, 1], [0, 3, 1, 2]]


def lib_pairs(n):
    """(name, f, g, zero, one, inverse_f or None, inverse_g or None)"""
    add, mul = tab(n, lambda a, b: a + b), tab(n, lambda a, b: a * b)
    neg = [(-a) % n for a in range(n)]
    minv = [next((x for x in range(n) if (a * x) % n == 1 % n), 0) for a in range(n)]
    out = [("Zn", add, mul, 0, 1 % n, neg, minv),
           ("maxmin", tab(n, max), tab(n, min), 0, n - 1, None, None),
           ("minmax", tab(n, min), tab(n, max), n - 1, 0, None, None),
           ("maxplus", tab(n, max), [[min(a + b, n - 1) for b in range(n)] for a in range(n)], 0, 0, None, None),
           ("addleft", add, tab(n, lambda a, b: a), 0, 0, neg, None)]
    if n in (2, 4):
        xor = tab(n, lambda a, b: a ^ b)
        out.append(("xorand", xor, tab(n, lambda a, b: a & b), 0, n - 1, list(range(n)), None))
        out.append(("orand", tab(n, lambda a, b: a | b), tab(n, lambda a, b: a & b), 0, n - 1, None, None))
    if n == 4:
        out.append(("GF4", tab(4, lambda a, b: a ^ b), GF4_MUL, 0, 1, [0, 1, 2, 3], [0, 1, 3, 2]))
    return out


def relabel_t(t, p):
    """isomorphic copy of a table under the permutation p (new = p[old])"""
    n = len(t)
    r = [[0] * n for _ in range(n)]
    for a in range(n):
        for b in range(n):
            r[p[a]][p[b]] = p[t[a][b]]
    return r


def relabel_v(v, p):
    r = [0] * len(v)
    for a in range(len(v)):
        r[p[a]] = p[v[a]]
    return r


def flip(rng, t):
    """one cell changed"""
    n = len(t)
    t = [list(r) for r in t]
    if n < 2:
        return t
    a, b = rng.below(n), rng.below(n)
    t[a][b] = (t[a][b] + 1 + rng.below(n - 1)) % n
    return t


def flip_v(rng, v):
    n = len(v)
    v = list(v)
    if n >= 2:
        a = rng.below(n)
        v[a] = (v[a] + 1 + rng.below(n - 1)) % n
    return v


def rnd_t(rng, n):
    return [[rng.below(n) for _ in range(n)] for _ in range(n)]


def rnd_v(rng, n):
    return [rng.below(n) for _ in range(n)]


def all_tables(n):
    cells = n * n
    for code in range(n ** cells):
        t, x = [], code
        for _ in range(n):
            row = []
            for _ in range(n):
                row.append(x % n)
                x //= n
            t.append(row)
        yield t


def pick_items(rng, n):
    """mostly the whole carrier; sometimes shuffled / a sublist / with duplicates (len <= 7)"""
    full = list(range(n))
    r = rng.below(10)
    if r < 7:
        return full
    if r == 7:
        return rng.shuffle(full)
    if r == 8:
        return [x for x in full if rng.chance(2, 3)]
    m = rng.range(0, min(7, n + 2))
    return [rng.below(n) for _ in range(m)]


# ----------------------------------------------------------------------------- case builders


def mk(kind, n, items, src, **kw):
    c = {"k": kind, "n": n, "items": items, "src": src}
    c.update(kw)
    return c


def variants(rng, n, src, build, tables, vectors=(), elems=()):
    """the lawful instance `build(tables, vectors, elems)`, an isomorphic copy, and almost-lawful
    neighbours (one table cell / vector entry / constant changed)"""
    out = [build(tables, vectors, elems, src)]
    p = rng.shuffle(list(range(n)))
    out.append(build([relabel_t(t, p) for t in tables], [relabel_v(v, p) for v in vectors],
                     [p[e] for e in elems], src + "+iso"))
    for i in range(len(tables)):
        ts = list(tables)
        ts[i] = flip(rng, ts[i])
        out.append(build(ts, vectors, elems, src + "+flip"))
    for i in range(len(vectors)):
        vs = list(vectors)
        vs[i] = flip_v(rng, vs[i])
        out.append(build(tables, vs, elems, src + "+flipv"))
    for i in range(len(elems)):
        if n >= 2:
            es = list(elems)
            es[i] = (es[i] + 1 + rng.below(n - 1)) % n
            out.append(build(tables, vectors, es, src + "+wrongconst"))
    return out


def gen_checkers(rng, tier, n_hint):
    cases = []
    thorough = tier == "thorough"
    # --- exhaustive operation tables
    for k in ("associativity", "commutativity", "idempotency"):
        for t in all_tables(2):
            cases.append(mk(k, 2, [0, 1], "exh2", f=t))
        if thorough:
            for t in all_tables(3):
                cases.append(mk(k, 3, [0, 1, 2], "exh3", f=t))
    if thorough:
        for t in all_tables(3):
            for e in range(3):
                cases.append(mk("identity", 3, [0, 1, 2], "exh3", f=t, e=e))
                cases.append(mk("absorbing_element", 3, [0, 1, 2], "exh3", f=t, e=e))
            cases.append(mk("monoid", 3, [0, 1, 2], "exh3", f=t, e=rng.below(3)))
            cases.append(mk("no_nonzero_zero_divisors", 3, [0, 1, 2], "exh3", f=t, e=rng.below(3)))
    for t in all_tables(2):
        for e in range(2):
            for k in ("identity", "absorbing_element", "monoid", "commutative_monoid", "no_nonzero_zero_divisors"):
                cases.append(mk(k, 2, [0, 1], "exh2", f=t, e=e))
            for b in ([0, 0], [0, 1], [1, 0], [1, 1]):
                cases.append(mk("inverse", 2, [0, 1], "exh2", f=t, e=e, b=b))
                cases.append(mk("group", 2, [0, 1], "exh2", f=t, e=e, b=b))
        for t2 in all_tables(2):
            for k in TWO_OP:
                cases.append(mk(k, 2, [0, 1], "exh2", f=t, g=t2))
            for (z, o) in ((0, 1), (1, 0)) if thorough else ((0, 1),):
                cases.append(mk("semiring", 2, [0, 1], "exh2", f=t, g=t2, zero=z, one=o))
        for q in ([0, 0], [0, 1], [1, 0], [1, 1]):
            for t2 in all_tables(2):
                cases.append(mk("linearity", 2, [0, 1], "exh2", f=t, g=t2, q=q))
    # sampled 3-element tables (quick) -- the thorough tier enumerates them above
    reps = max(1, n_hint // 400)
    for _ in range(max(30, n_hint // 4)):
        for k in ONE_OP:
            cases.append(mk(k, 3, [0, 1, 2], "rnd3", f=rnd_t(rng, 3)))
    # --- library structures, isomorphic copies, almost-lawful neighbours
    for _ in range(reps):
        for n in (2, 3, 4, 5):
            for (name, t, e, inv, z) in lib_ops(n):
                items = pick_items(rng, n)
                for k in ONE_OP:
                    cases += variants(rng, n, "lib:" + name,
                                      lambda ts, vs, es, s, k=k, items=items: mk(k, n, items, s, f=ts[0]), [t])
                e0 = e if e is not None else rng.below(n)
                for k in ("identity", "monoid", "commutative_monoid"):
                    cases += variants(rng, n, "lib:" + name,
                                      lambda ts, vs, es, s, k=k, items=items: mk(k, n, items, s, f=ts[0], e=es[0]),
                                      [t], (), [e0])
                z0 = z if z is not None else rng.below(n)
                for k in ("absorbing_element", "no_nonzero_zero_divisors"):
                    cases += variants(rng, n, "lib:" + name,
                                      lambda ts, vs, es, s, k=k, items=items: mk(k, n, items, s, f=ts[0], e=es[0]),
                                      [t], (), [z0])
                inv0 = inv if inv is not None else rnd_v(rng, n)
                for k in OP_E_B:
                    cases += variants(rng, n, "lib:" + name,
                                      lambda ts, vs, es, s, k=k, items=items: mk(k, n, items, s, f=ts[0], e=es[0], b=vs[0]),
                                      [t], [inv0], [e0])
                cases += variants(rng, n, "lib:" + name,
                                  lambda ts, vs, es, s, items=items: mk("props", n, items, s, f=ts[0], e=es[0], b=vs[0], z=es[1]),
                                  [t], [inv0], [e0, z0])
            for (name, f, g, zero, one, invf, invg) in lib_pairs(n):
                items = pick_items(rng, n)
                for k in TWO_OP:
                    cases += variants(rng, n, "lib:" + name,
                                      lambda ts, vs, es, s, k=k, items=items: mk(k, n, items, s, f=ts[0], g=ts[1]), [f, g])
                cases += variants(rng, n, "lib:" + name,
                                  lambda ts, vs, es, s, items=items: mk("semiring", n, items, s, f=ts[0], g=ts[1], zero=es[0], one=es[1]),
                                  [f, g], (), [zero, one])
                bf = invf if invf is not None else rnd_v(rng, n)
                bg = invg if invg is not None else rnd_v(rng, n)
                for k in RINGS:
                    cases += variants(rng, n, "lib:" + name,
                                      lambda ts, vs, es, s, k=k, items=items: mk(k, n, items, s, f=ts[0], g=ts[1], zero=es[0], one=es[1], b=vs[0]),
                                      [f, g], [bf], [zero, one])
                cases += variants(rng, n, "lib:" + name,
                                  lambda ts, vs, es, s, items=items: mk("field", n, items, s, f=ts[0], g=ts[1], zero=es[0], one=es[1], b=vs[0], b2=vs[1]),
                                  [f, g], [bf, bg], [zero, one])
                cases += variants(rng, n, "lib:" + name,
                                  lambda ts, vs, es, s, items=items: mk("nonzero_inverse", n, items, s, f=ts[1], e=es[1], zero=es[0], b=vs[0]),
                                  [f, g], [bg], [zero, one])
                # bilinear: q = g over (f, f, f)
                items2 = pick_items(rng, n)
                cases += variants(rng, n, "lib:" + name,
                                  lambda ts, vs, es, s, items=items, items2=items2: mk("bilinearity", n, items, s, items2=items2, f=ts[0], h=ts[1], g=ts[2], q=ts[3]),
                                  [f, f, f, g])
            # linear maps: homomorphisms between library operations (incl. non-commutative targets)
            ops = lib_ops(n)
            for (name, t, _, _, _) in ops:
                items = pick_items(rng, n)
                for qname, q in (("id", list(range(n))), ("const", [rng.below(n)] * n),
                                 ("scale", [(a * rng.range(0, n - 1)) % n for a in range(n)])):
                    tgt = t if qname != "const" else tab(n, lambda a, b: a)
                    cases += variants(rng, n, "lib:%s/%s" % (name, qname),
                                      lambda ts, vs, es, s, items=items: mk("linearity", n, items, s, f=ts[0], g=ts[1], q=vs[0]),
                                      [t, tgt], [q])
    # --- random tables, carrier 1..5
    for _ in range(max(100, n_hint)):
        n = rng.range(1, 5)
        items = pick_items(rng, n)
        f, g, h = rnd_t(rng, n), rnd_t(rng, n), rnd_t(rng, n)
        b, b2, q = rnd_v(rng, n), rnd_v(rng, n), rnd_v(rng, n)
        e, zero, one = rng.below(n), rng.below(n), rng.below(n)
        k = rng.choice(CHECKERS + ["props"])
        cases.append(mk(k, n, items, "rnd", items2=pick_items(rng, n), f=f, g=g, h=h,
                        b=b, b2=b2, e=e, zero=zero, one=one, z=rng.below(n),
                        q=(rnd_t(rng, n) if k == "bilinearity" else q)))
    return [slim(c) for c in cases]


FIELDS = {k: ["f"] for k in ONE_OP}
FIELDS.update({k: ["f", "e"] for k in OP_E})
FIELDS.update({k: ["f", "e", "b"] for k in OP_E_B})
FIELDS.update({k: ["f", "g"] for k in TWO_OP})
FIELDS.update({k: ["f", "g", "zero", "one", "b"] for k in RINGS})
FIELDS.update({"nonzero_inverse": ["f", "e", "zero", "b"], "semiring": ["f", "g", "zero", "one"],
               "field": ["f", "g", "zero", "one", "b", "b2"], "linearity": ["f", "g", "q"],
               "bilinearity": ["items2", "f", "h", "g", "q"], "props": ["f", "e", "b", "z"]})


def slim(c):
    keep = ["k", "n", "items", "src"] + FIELDS.get(c["k"], [])
    return {k: c[k] for k in keep if k in c}


def gen_cpow(rng, tier, n_hint):
    cases = []
    for arity in range(0, 5):
        for m in range(0, 5 if arity >= 3 else 8):
            if m ** arity > 2500:
                continue
            cases.append({"k": "cpow", "items": list(range(1, m + 1)), "arity": arity, "src": "exh"})
    for _ in range(max(10, n_hint // 20)):
        arity = rng.range(0, 4)
        m = rng.range(0, 7 if arity <= 2 else 5)
        cases.append({"k": "cpow", "items": [rng.below(4) for _ in range(m)], "arity": arity, "src": "rnd"})
    return cases


U32 = 1 << 32
NVALS = [0, 1, 2, 3, 7, 65535, 65536, 65537, 1 << 31, U32 - 2, U32 - 1]
FVALS = [0.0, 1.0, 0.5, 0.1, 0.2, 0.3, 0.7, 0.25, 0.9, 1.0 - 2 ** -53, 5e-324, 2.2250738585072014e-308, 1e-200]


def rnd_n(rng):
    r = rng.below(4)
    if r == 0:
        return rng.choice(NVALS)
    if r == 1:
        return rng.below(10)
    if r == 2:
        return rng.below(1 << 17)
    return rng.below(U32)


def rnd_f01(rng):
    r = rng.below(4)
    if r == 0:
        return rng.choice(FVALS)
    if r == 1:
        return rng.below(11) / 10.0
    if r == 2:
        return rng.below(1 << 53) / float(1 << 53)
    return 2.0 ** -rng.range(0, 1074) * (rng.below(1 << 20) / float(1 << 20))


def gen_sr(rng, tier, n_hint):
    cases = []
    for a in (0, 1):
        for b in (0, 1):
            for c in (0, 1):
                cases.append({"k": "sr", "ty": "binary_trust", "a": a, "b": b, "c": c, "src": "exh"})
    # the classic witnesses
    for ty in ("confidence", "fuzzy"):
        cases.append({"k": "sr", "ty": ty, "a": float_to_bits(0.1), "b": float_to_bits(0.2),
                      "c": float_to_bits(0.3), "src": "lib"})
    m = max(20, n_hint // 8)
    for _ in range(m):
        for ty in ("multiplicity", "cost"):
            v = [rnd_n(rng) for _ in range(3)]
            if ty == "cost":
                v = [None if rng.chance(1, 6) else x for x in v]
            cases.append({"k": "sr", "ty": ty, "a": v[0], "b": v[1], "c": v[2], "src": "rnd"})
        for ty in ("confidence", "fuzzy"):
            v = [float_to_bits(rnd_f01(rng)) for _ in range(3)]
            cases.append({"k": "sr", "ty": ty, "a": v[0], "b": v[1], "c": v[2], "src": "rnd"})
    # constructors, including out-of-range floats (`new` asserts 0 <= v <= 1)
    for ty in ("confidence", "fuzzy"):
        for x in (0.0, 1.0, 0.5, 1.0000000000000002, 2.0, -0.5, -5e-324, float("inf"), float("-inf"), float("nan")):
            cases.append({"k": "sr_new", "ty": ty, "a": float_to_bits(x), "src": "lib"})
        for _ in range(m // 4):
            x = rnd_f01(rng) * rng.choice([1.0, 1.0, 1.5, -1.0])
            if x == 0.0:
                x = 0.0  # no -0.0: f64::max(0.0, -0.0) is unspecified
            cases.append({"k": "sr_new", "ty": ty, "a": float_to_bits(x), "src": "rnd"})
    for ty in ("multiplicity", "cost"):
        for x in (0, 1, U32 - 1):
            cases.append({"k": "sr_new", "ty": ty, "a": x, "src": "lib"})
    cases.append({"k": "sr_new", "ty": "cost", "a": None, "src": "lib"})
    for x in (0, 1):
        cases.append({"k": "sr_new", "ty": "binary_trust", "a": x, "src": "lib"})
    return cases


def gen_sr_release(rng, n):
    """semiring cases run on the harness built with the release profile (no overflow checks)"""
    cases = [{"k": "sr", "ty": "cost", "a": U32 - 1, "b": 1, "c": 0, "profile": "release", "src": "lib"}]
    for _ in range(n):
        for ty in ("cost", "multiplicity"):
            v = [rnd_n(rng) for _ in range(3)]
            if ty == "cost":
                v = [None if rng.chance(1, 6) else x for x in v]
            cases.append({"k": "sr", "ty": ty, "a": v[0], "b": v[1], "c": v[2], "profile": "release", "src": "rnd"})
    for a in (0, 1):
        for b in (0, 1):
            cases.append({"k": "sr", "ty": "binary_trust", "a": a, "b": b, "c": 1 - a, "profile": "release", "src": "exh"})
    return cases


def corpus(prop):
    out = []
    for p in sorted(glob.glob(os.path.join(ROOT, "corpus", prop, "*.json"))):
        d = json.load(open(p))
        out += d["cases"] if "cases" in d else [d["case"] if "case" in d else d]
    return out


def split_profile(cases):
    return ([c for c in cases if c.get("profile") != "release"], [c for c in cases if c.get("profile") == "release"])


def gen(rng, tier, n_hint):
    return (split_profile(corpus("C09"))[0] + gen_checkers(rng.fork(), tier, n_hint) + gen_cpow(rng.fork(), tier, n_hint)
            + gen_sr(rng.fork(), tier, n_hint))


# ----------------------------------------------------------------------------- shrinking


def shrink(c):
    k = c["k"]
    if k == "cpow":
        for i in range(len(c["items"])):
            yield dict(c, items=c["items"][:i] + c["items"][i + 1:])
        if c["arity"] > 0:
            yield dict(c, arity=c["arity"] - 1)
        return
    if k in ("sr", "sr_new"):
        for fld in ("a", "b", "c"):
            v = c.get(fld)
            if isinstance(v, int) and v > 1 and c["ty"] in ("multiplicity", "cost"):
                yield dict(c, **{fld: v // 2})
                yield dict(c, **{fld: v - 1})
        return
    for name in ("items", "items2"):
        if name in c:
            for i in range(len(c[name])):
                yield dict(c, **{name: c[name][:i] + c[name][i + 1:]})
    n = c.get("n", 0)
    # drop the last carrier element when nothing refers to it
    if n >= 2:
        last = n - 1
        used = any(last in c.get(x, []) for x in ("items", "items2"))
        for x in ("e", "zero", "one", "z"):
            used = used or c.get(x) == last
        d = dict(c, n=n - 1)
        for x in ("f", "g", "h", "q"):
            if x in c and isinstance(c[x], list) and c[x] and isinstance(c[x][0], list):
                t = [r[:last] for r in c[x][:last]]
                used = used or any(last in r for r in t)
                d[x] = t
        for x in ("b", "b2") + (("q",) if k == "linearity" else ()):
            if x in c:
                v = c[x][:last]
                used = used or last in v
                d[x] = v
        if not used:
            yield d
    # zero a table cell / vector entry
    for x in ("f", "g", "h", "q"):
        if x in c and c[x] and isinstance(c[x][0], list):
            for a in range(len(c[x])):
                for b in range(len(c[x][a])):
                    if c[x][a][b] != 0:
                        t = [list(r) for r in c[x]]
                        t[a][b] = 0
                        yield dict(c, **{x: t})
    for x in ("b", "b2", "q"):
        if x in c and c[x] and not isinstance(c[x][0], list):
            for a in range(len(c[x])):
                if c[x][a] != 0:
                    v = list(c[x])
                    v[a] = 0
                    yield dict(c, **{x: v})


# ----------------------------------------------------------------------------- evidence helpers


def nontrivial(c, r):
    k = c["k"]
    if k == "cpow":
        return len(c["items"]) >= 2 and c["arity"] >= 1
    if k == "sr":
        return len({json.dumps(c[x]) for x in ("a", "b", "c")}) >= 2
    if k == "sr_new":
        return True
    return c.get("n", 0) >= 2 and len(set(c["items"])) >= 2


def distribution(cases, results):
    d = {"by_kind": {}, "by_source": {}, "carrier_size": {}, "items_shape": {"full": 0, "other": 0},
         "checker_outcome_vs_law": {}, "err_kinds": {}, "sr_by_type": {}, "sr_panics": 0}
    for c, r in zip(cases, results):
        k = c["k"]
        d["by_kind"][k] = d["by_kind"].get(k, 0) + 1
        s = c.get("src", "corpus").split(":")[0].split("+")[0] + ("+" + c["src"].split("+")[1] if "+" in c.get("src", "") else "")
        d["by_source"][s] = d["by_source"].get(s, 0) + 1
        if k in CTOR:
            n = str(c.get("n"))
            d["carrier_size"][n] = d["carrier_size"].get(n, 0) + 1
            d["items_shape"]["full" if c["items"] == list(range(c.get("n", 0))) else "other"] += 1
        if isinstance(r, dict) and "r" in r:
            law = law_holds(c)
            key = "%s:%s/%s" % (k, "Ok" if r["r"] == "ok" else "Err", "law-holds" if law else "law-fails")
            d["checker_outcome_vs_law"][key] = d["checker_outcome_vs_law"].get(key, 0) + 1
            if r["r"] != "ok":
                d["err_kinds"][r.get("m", "?")] = d["err_kinds"].get(r.get("m", "?"), 0) + 1
        if k in ("sr", "sr_new"):
            d["sr_by_type"][c["ty"]] = d["sr_by_type"].get(c["ty"], 0) + 1
            v = r.get("v") if isinstance(r, dict) else None
            if v == "panic" or (isinstance(v, list) and "panic" in v):
                d["sr_panics"] += 1
    tot = {"Ok": 0, "Err": 0}
    for key, v in d["checker_outcome_vs_law"].items():
        tot["Ok" if ":Ok/" in key else "Err"] += v
    d["checker_ok_err_total"] = tot
    return d


# theorems of coq/theories/Props/C09.v (each followed there by Print Assumptions)
THEOREMS = [
    "C09_cartesian_power_complete",
    "C09_cartesian_power_run",
    "C09_associativity",
    "C09_commutativity",
    "C09_idempotency",
    "C09_identity",
    "C09_inverse",
    "C09_nonzero_inverse",
    "C09_absorbing_element",
    "C09_left_distributes",
    "C09_right_distributes",
    "C09_no_nonzero_zero_divisors",
    "C09_composites",
    "C09_single_function_properties",
    "C09_associativity_eq",
    "C09_distributive_eq",
    "C09_linearity",
    "C09_bilinearity",
    "C09_model_satisfies_executable_form",
    "C09_deciders_decide_the_laws",
    "C09_binary_trust_semiring",
    "C09_multiplicity_semiring",
    "C09_cost_semiring",
    "C09_confidence_mul_assoc_refuted",
    "C09_fuzzy_semiring",
]
