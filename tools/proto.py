"""Engine E10 Proto: generators, Gallina printers and shrinkers for Raft (C40) and the quorum
helpers (C39)."""
from tools import vlib

# ---------------------------------------------------------------------------- Gallina printers


def g_entry(e):
    return "(mkE %d %d %d)" % (e[0], e[1], e[2])


def g_optN(x):
    return "None" if x is None else "(Some %d)" % x


def g_bool(b):
    return "true" if b else "false"


def g_rpc(r):
    t = r["t"]
    if t == "RV":
        return "(RV %d %d %d)" % (r["term"], r["lli"], r["llt"])
    if t == "RVR":
        return "(RVR %d)" % r["term"]
    if t == "AE":
        return "(AE %d %d %d %d %s %d)" % (r["term"], r["leader"], r["pli"], r["plt"],
                                          vlib.g_list([g_entry(e) for e in r["entries"]]), r["lc"])
    if t == "AER":
        return "(AER %d %s %d)" % (r["term"], g_bool(r["succ"]), r["mi"])
    raise ValueError(t)


def g_pairs(kv):
    return vlib.g_list(["(%d, %d)" % (k, v) for k, v in kv])


ROLES = ["Follower", "Candidate", "Leader"]


def g_state(s):
    return "(mkS %d %s %s %s %s %s %s %d %d %s %s)" % (
        s["term"], g_optN(s["voted_for"]), ROLES[s["role"]], vlib.g_list(["%d" % v for v in s["votes"]]),
        g_bool(s["hb_seen"]), g_optN(s["known_leader"]), vlib.g_list([g_entry(e) for e in s["log"]]),
        s["commit"], s["emitted"], g_pairs(s["next"]), g_pairs(s["match"]))


def g_input(i):
    return "(mkI %d %s %d %s %s %s %s)" % (
        i["me"], vlib.g_list(["%d" % v for v in i["others"]]), i["cluster_size"], g_bool(i["el"]), g_bool(i["hb"]),
        vlib.g_list(["%d" % v for v in i["reqs"]]),
        vlib.g_list(["(%d, %s)" % (f, g_rpc(r)) for f, r in i["msgs"]]))


def g_output(o):
    view = "None" if o["view"] is None else "(Some (%d, %s))" % (o["view"][0], g_optN(o["view"][1]))
    return "(mkO %s %s %s %s)" % (
        vlib.g_list(["(%d, %s)" % (m, g_rpc(r)) for m, r in o["outbound"]]),
        vlib.g_list([g_entry(e) for e in o["committed"]]),
        vlib.g_list(["(%d, %s)" % (x, g_optN(l)) for x, l in o["redirected"]]), view)


def raft_term(case, res):
    """Gallina term of type N: bit 0 = real raft_step differs from the model, bit 1 = safety fails"""
    if case["k"] == "step":
        if "post" in res:
            r = "(Some (%s, %s))" % (g_state(res["post"]), g_output(res["out"]))
        elif "panic" in res:
            r = "None"
        else:
            return 1  # hang / crash of the harness: not a model behaviour
        return "(chk_single %s %s %s)" % (g_state(case["state"]), g_input(case["input"]), r)
    if "trace" not in res:
        return 3
    steps = []
    for t in res["trace"]:
        if "crash" in t:
            steps.append("(TCrash %d)" % t["crash"])
        elif "panic" in t:
            steps.append("(TPanic %d %s)" % (t["m"], g_input(t["input"])))
        else:
            steps.append("(TStep %d %s %s %s)" % (t["m"], g_input(t["input"]), g_state(t["post"]), g_output(t["out"])))
    return "(chk_cluster %d %d %s)" % (case["n"], case.get("cluster_size", case["n"]), vlib.g_list(steps))


# ---------------------------------------------------------------------------- Raft generators

MODES = ["fifo", "fifo", "fifo", "reorder", "reorder", "dup"]


def _deliver(rng, n, mode, k):
    out = []
    for _ in range(k):
        f = rng.below(n)
        if mode == "fifo":
            out.append({"f": f, "i": 0, "keep": False})
        elif mode == "reorder":
            out.append({"f": f, "i": rng.below(4), "keep": False})
        else:
            out.append({"f": f, "i": rng.below(4), "keep": rng.chance(1, 3)})
    return out


def gen_cluster(rng, tier, small=False):
    n = rng.choice([3, 3, 3, 4, 5, 5] if not small else [1, 2, 3])
    mode = rng.choice(MODES)
    length = rng.range(20, 70) if tier == "quick" else rng.range(30, 160)
    sched = []
    payload = [100]

    def fresh():
        payload[0] += 1
        return payload[0]

    def all_others(m):
        for x in rng.shuffle([y for y in range(n) if y != m]):
            sched.append({"m": x, "deliver": "all"})

    crashes = 0
    focus = rng.below(n)
    while len(sched) < length:
        a = rng.below(100)
        m = rng.below(n)
        if a < 7 and n >= 3:
            # a deposed leader with unreplicated entries comes back as a candidate: `focus` appends a few
            # entries that reach nobody (its outgoing messages are only delayed, which the fail-stop
            # network allows), another member wins the next term, replicates and commits, then the old
            # leader times out twice and asks for votes with a long log of an old term
            old = focus
            sched.append({"m": old, "reqs": [fresh() for _ in range(rng.range(2, 4))], "deliver": []})
            new = rng.choice([y for y in range(n) if y != old])
            rest = [y for y in range(n) if y not in (old, new)]
            sched.append({"m": new, "el": True, "deliver": []})
            if rng.chance(1, 3):
                sched.append({"m": new, "el": True, "deliver": []})
            for x in rng.shuffle(rest):
                sched.append({"m": x, "deliver": "all"})
            sched.append({"m": new, "deliver": "all"})
            for _ in range(rng.range(1, 2)):
                sched.append({"m": new, "reqs": [fresh() for _ in range(rng.range(1, 2))], "hb": True, "deliver": "all"})
                for x in rng.shuffle(rest):
                    sched.append({"m": x, "deliver": "all"})
                sched.append({"m": new, "hb": True, "deliver": "all"})
                for x in rng.shuffle(rest):
                    sched.append({"m": x, "deliver": "all"})
            for _ in range(rng.range(2, 3)):
                sched.append({"m": old, "el": True, "deliver": []})
            for x in rng.shuffle(rest + [new]):
                sched.append({"m": x, "deliver": "all"})
            sched.append({"m": old, "deliver": "all", "hb": True})
            for x in rng.shuffle(rest + [new]):
                sched.append({"m": x, "deliver": "all"})
            sched.append({"m": old, "deliver": "all", "hb": True})
            focus = old if rng.chance(1, 2) else new
        elif a < 12:      # a clean election round for m
            focus = m
            sched.append({"m": m, "el": True, "deliver": "all"})
            if rng.chance(1, 4):  # consume the heartbeat-suppression flag first
                sched.append({"m": m, "el": True, "deliver": "all"})
            all_others(m)
            sched.append({"m": m, "deliver": "all"})
        elif a < 30:    # a replication round driven by the focus member
            m = focus if rng.chance(3, 4) else m
            sched.append({"m": m, "reqs": [fresh() for _ in range(rng.range(0, 3))], "hb": True, "deliver": "all"})
            all_others(m)
            sched.append({"m": m, "hb": rng.chance(1, 2), "deliver": "all"})
        elif a < 42:    # racing candidacy: timer fires without waiting for anything
            sched.append({"m": m, "el": True, "deliver": _deliver(rng, n, mode, rng.below(3))})
        elif a < 60:    # partial delivery
            sched.append({"m": m, "deliver": _deliver(rng, n, mode, rng.range(1, 4)),
                          "hb": rng.chance(1, 5), "el": rng.chance(1, 12)})
        elif a < 72:
            sched.append({"m": m, "deliver": "all", "hb": rng.chance(1, 3)})
        elif a < 84:    # client requests anywhere
            sched.append({"m": m if rng.chance(1, 2) else focus, "reqs": [fresh() for _ in range(rng.range(1, 3))],
                          "deliver": _deliver(rng, n, mode, rng.below(2)), "hb": rng.chance(1, 2)})
        elif a < 96:    # heartbeat pump
            sched.append({"m": m if rng.chance(1, 2) else focus, "hb": True, "deliver": _deliver(rng, n, mode, rng.below(3))})
        else:
            if crashes < (n - 1) // 2 or rng.chance(1, 6):
                crashes += 1
                sched.append({"crash": m})
    return {"k": "cluster", "n": n, "mode": mode, "sched": sched}


def _gen_log(rng, maxterm, maxlen, broken):
    ln = rng.below(maxlen + 1)
    log, t = [], 0
    for i in range(ln):
        if rng.chance(1, 3) and t < maxterm:
            t = rng.range(t, maxterm)
        idx = i + 1
        if broken and rng.chance(1, 10):
            idx = rng.below(ln + 2)
        log.append([rng.range(1, 50), max(t, 0), idx])
    return log


def _gen_rpc(rng, n, term, loglen):
    k = rng.below(4)
    t = max(0, term + rng.choice([-1, 0, 0, 0, 0, 1, 2]))
    if k == 0:
        return {"t": "RV", "term": t, "lli": rng.below(loglen + 3), "llt": rng.below(term + 2)}
    if k == 1:
        return {"t": "RVR", "term": t}
    if k == 2:
        pli = rng.below(loglen + 2)
        es, et = [], rng.below(term + 2)
        for j in range(rng.below(4)):
            if rng.chance(1, 3):
                et = min(t, et + 1)
            idx = pli + j + 1
            if rng.chance(1, 25):
                idx = rng.below(loglen + 3)
            es.append([rng.range(1, 50), et, idx])
        return {"t": "AE", "term": t, "leader": rng.below(n), "pli": pli, "plt": rng.below(term + 2),
                "entries": es, "lc": rng.below(loglen + 4)}
    return {"t": "AER", "term": t, "succ": rng.chance(2, 3), "mi": rng.below(loglen + 3)}


def gen_step(rng, tier):
    n = rng.choice([1, 2, 3, 3, 4, 5])
    me = rng.below(n)
    others = [x for x in range(n) if x != me]
    broken = rng.chance(1, 6)
    term = rng.below(6)
    log = _gen_log(rng, term, 6, broken)
    role = rng.choice([0, 0, 1, 2, 2])
    commit = rng.below(len(log) + 1) if not (broken and rng.chance(1, 4)) else rng.below(len(log) + 3)
    emitted = rng.below(commit + 1) if not (broken and rng.chance(1, 4)) else rng.below(len(log) + 3)

    def idxmap(lo):
        ks = [x for x in (others if not broken else range(n)) if rng.chance(4, 5)]
        return [[k, rng.range(lo if not (broken and rng.chance(1, 5)) else 0, len(log) + 1)] for k in sorted(ks)]

    state = {"term": term, "voted_for": rng.choice([None, me] + list(range(n))),
             "role": role, "votes": sorted(set([me] + [x for x in others if rng.chance(1, 3)])) if role else [],
             "hb_seen": rng.chance(1, 3), "known_leader": rng.choice([None] + list(range(n))),
             "log": log, "commit": commit, "emitted": emitted,
             "next": idxmap(1) if role == 2 or rng.chance(1, 4) else [],
             "match": idxmap(0) if role == 2 or rng.chance(1, 4) else []}
    msgs = [[rng.below(n), _gen_rpc(rng, n, term, len(log))] for _ in range(rng.choice([0, 1, 1, 2, 3, 5]))]
    inp = {"me": me, "others": others, "cluster_size": n if not rng.chance(1, 10) else rng.below(7),
           "el": rng.chance(1, 3), "hb": rng.chance(1, 2), "reqs": [rng.range(1, 99) for _ in range(rng.below(3))],
           "msgs": msgs}
    return {"k": "step", "state": state, "input": inp}


def shrink_raft(case):
    if case["k"] == "cluster":
        s = case["sched"]
        n = len(s)
        for chunk in (n // 2, n // 4, 4, 2, 1):
            if chunk < 1:
                continue
            for i in range(0, n, chunk):
                yield dict(case, sched=s[:i] + s[i + chunk:])
    else:
        inp = case["input"]
        for i in range(len(inp["msgs"])):
            yield dict(case, input=dict(inp, msgs=inp["msgs"][:i] + inp["msgs"][i + 1:]))
        if inp["reqs"]:
            yield dict(case, input=dict(inp, reqs=inp["reqs"][1:]))
        for f in ("el", "hb"):
            if inp[f]:
                yield dict(case, input=dict(inp, **{f: False}))


def raft_stats(case, res):
    """summary of what a cluster run exercised"""
    st = {"leaders": set(), "commit": 0, "maxlog": 0, "panics": 0, "steps": 0, "truncations": 0}
    prev = {}
    for t in res.get("trace", []):
        if "post" in t:
            st["steps"] += 1
            p = t["post"]
            if p["role"] == 2:
                st["leaders"].add((p["term"], t["m"]))
            st["commit"] = max(st["commit"], p["commit"])
            st["maxlog"] = max(st["maxlog"], len(p["log"]))
            old = prev.get(t["m"])
            if old is not None and old["log"][:len(p["log"])] != p["log"][:len(old["log"])]:
                st["truncations"] += 1
            prev[t["m"]] = p
        elif "panic" in t:
            st["panics"] += 1
    return st


# ============================================================================ C39 quorum helpers

Q_INST = [(1, 1), (2, 2), (3, 3), (1, 2), (1, 3), (2, 3), (2, 4)]


def compositions(n, limit=None):
    """all ways to cut a sequence of length n into consecutive non-empty batches (as cut masks)"""
    out = []
    for mask in range(1 << max(0, n - 1)):
        cuts = [i + 1 for i in range(n - 1) if mask >> i & 1]
        out.append(cuts)
        if limit and len(out) >= limit:
            break
    return out


def cut(seq, cuts):
    res, prev = [], 0
    for c in cuts + [len(seq)]:
        res.append(seq[prev:c])
        prev = c
    return res


def gen_quorum(rng, tier):
    """one response sequence + several batchings of it (all of them when short)"""
    fn = rng.choice(["cq", "cq", "cqr", "cqr", "cqr"])
    mn, mx = rng.choice(Q_INST)
    nkeys = rng.range(1, 3)
    over = rng.chance(1, 10)           # occasionally violate the <= max precondition
    seq = []
    val = [10]
    for k in range(1, nkeys + 1):
        cnt = rng.range(0, mx) if not over else rng.range(mx, mx + 2)
        for _ in range(cnt):
            val[0] += 1
            ok = rng.chance(3, 4)
            seq.append([k, val[0] if ok else None, val[0]])   # [key, ok value | None, err value]
    seq = rng.shuffle(seq)
    n = len(seq)
    if n <= (5 if tier == "quick" else 7):
        cutsets = compositions(n)
    else:
        cutsets = [sorted(rng.sample(list(range(1, n)), rng.below(n))) for _ in range(8 if tier == "quick" else 24)]
        cutsets.append([])
        cutsets.append(list(range(1, n)))
    runs = []
    for cs in cutsets:
        batches = cut(seq, cs)
        # sprinkle empty ticks
        if rng.chance(1, 4):
            batches.insert(rng.below(len(batches) + 1), [])
        runs.append(batches)
    case = {"k": "quorum", "fn": fn, "mn": mn, "mx": mx, "seq": seq, "batchings": runs}
    return with_harness_fields(case)


def with_harness_fields(case):
    """the harness reads `flow` + `runs` (quorum) or `flow` + `ticks` (join)"""
    case = dict(case)
    if case["k"] == "join":
        case["flow"] = "jr"
    else:
        fn = case["fn"]
        case["flow"] = "%s_%d_%d" % (fn, case["mn"], case["mx"])
        case["runs"] = [[{"a": [q_item(fn, it) for it in b]} for b in run] for run in case["batchings"]]
    return case


def gen_join(rng, tier):
    nk = rng.range(1, 5)
    keys = list(range(1, nk + 1))
    late = rng.chance(1, 8)            # response before its metadata (outside documented usage)
    dup = rng.chance(1, 12)
    nt = rng.range(1, 6)
    ticks = [{"m": [], "r": []} for _ in range(nt)]
    for k in keys:
        tm = rng.below(nt)
        ticks[tm]["m"].append([k, 100 + k])
        if rng.chance(4, 5):
            tr = rng.range(tm, nt - 1) if not late else rng.below(nt)
            ticks[tr]["r"].append([k, 200 + k])
        if dup and rng.chance(1, 2):
            ticks[rng.below(nt)]["r"].append([k, 300 + k])
    return with_harness_fields({"k": "join", "ticks": ticks})


def q_item(fn, it):
    k, okv, errv = it
    if fn == "cq":
        return [k, None if okv is not None else errv]
    return [k, {"ok": okv} if okv is not None else {"err": errv}]


def g_resp(fn, it):
    k, okv, errv = it
    if okv is None:
        return "(%d%%N, RErr %d%%N)" % (k, errv)
    return "(%d%%N, ROk %d%%N)" % (k, 0 if fn == "cq" else okv)


def g_pairsN(ps):
    return vlib.g_list(["(%d%%N, %d%%N)" % (a, b) for a, b in ps])


def quorum_term(case, res):
    if "panic" in res or "hang" in res or "crash" in res or "not_compiled" in res or "garbled" in res:
        return 3
    if case["k"] == "join":
        ts = []
        for t, o in zip(case["ticks"], res["ticks"]):
            outs = vlib.g_list(["(%d%%N, (%d%%N, %d%%N))" % (k, mv[0], mv[1]) for k, mv in o["out"]])
            ts.append("((%s, %s), %s)" % (g_pairsN(t["m"]), g_pairsN(t["r"]), outs))
        return "(chk_jr %s)" % vlib.g_list(ts)
    fn = case["fn"]
    runs = []
    for run, rr in zip(case["batchings"], res["runs"]):
        ts = []
        for b, o in zip(run, rr["ticks"]):
            if fn == "cq":
                ok = vlib.g_list(["%d%%N" % k for k in o["ok"]])
            else:
                ok = g_pairsN(o["ok"])
            ts.append("(%s, (%s, %s))" % (vlib.g_list([g_resp(fn, it) for it in b]), ok, g_pairsN(o["err"])))
        runs.append(vlib.g_list(ts))
    return "(chk_%s %d %d %s)" % (fn, case["mn"], case["mx"], vlib.g_list(runs))


def quorum_finding_key(case, res):
    """the one known class: collect_quorum_with_response with min < max reports, for a key that
    reached its quorum, also the successes that arrived later IN THE SAME BATCH -- so the reported
    (key,value) multiset depends on the batching.  The key applies only if every tick of every run
    obeys the per-tick rule (all successes so far of exactly the keys due in that batch) and the
    error side is exact, i.e. nothing else is wrong."""
    if case.get("k") != "quorum" or case["fn"] != "cqr" or not case["mn"] < case["mx"] or "runs" not in res:
        return None
    mn = case["mn"]
    flat = []
    for run, rr in zip(case["batchings"], res["runs"]):
        seen = []
        allok = []
        for b, o in zip(run, rr["ticks"]):
            before = {}
            for k, okv, _ in seen:
                before[k] = before.get(k, 0) + (okv is not None)
            after = dict(before)
            for k, okv, _ in b:
                after[k] = after.get(k, 0) + (okv is not None)
            due = [k for k in after if before.get(k, 0) < mn <= after[k]]
            want = sorted([k, okv] for k, okv, _ in seen + b if okv is not None and k in due)
            if sorted(o["ok"]) != want:
                return None
            if o["err"] != [[k, e] for k, okv, e in b if okv is None]:
                return None
            seen += b
            allok += o["ok"]
        flat.append(sorted(allok))
    if all(f == flat[0] for f in flat):
        return None
    return "cqr/min<max/values-depend-on-batching"


def shrink_quorum(case):
    if case["k"] == "join":
        for i, t in enumerate(case["ticks"]):
            for f in ("m", "r"):
                for j in range(len(t[f])):
                    ticks = [dict(x) for x in case["ticks"]]
                    ticks[i] = dict(t, **{f: t[f][:j] + t[f][j + 1:]})
                    yield with_harness_fields(dict(case, ticks=ticks))
        return
    # fewer batchings, then fewer responses (re-cut every batching)
    bs = case["batchings"]
    if len(bs) > 2:
        for i in range(len(bs)):
            yield with_harness_fields(dict(case, batchings=bs[:i] + bs[i + 1:]))
    for it in case["seq"]:
        nb = [[[x for x in b if x != it] for b in run] for run in bs]
        yield with_harness_fields(dict(case, seq=[x for x in case["seq"] if x != it], batchings=nb))


# ============================================================================ C40 Paxos components


def gen_px_acc(rng):
    """scripted per-tick message batches for the acceptor node of paxos_core"""
    bals = [[rng.range(0, 3), rng.below(2)] for _ in range(3)]
    ticks = []
    for _ in range(rng.range(2, 7)):
        p1a = [rng.choice(bals) for _ in range(rng.choice([0, 0, 1, 1, 2]))]
        p2a = []
        for _ in range(rng.choice([0, 1, 2, 3, 4])):
            b = rng.choice(bals)
            p2a.append([b[1], b, rng.below(4), rng.choice([None, 1, 2, 3, 4])])
        ticks.append({"p1a": p1a, "p2a": p2a})
    return {"k": "px_acc", "id": rng.below(3), "ticks": ticks}


def gen_px_seq(rng):
    """the proposer node of paxos_core after winning an election with the given quorum logs"""
    prev = [rng.range(0, 3), 1]
    logs = []
    for _ in range(2):
        entries = []
        if rng.chance(3, 4):
            for sl in range(rng.range(1, 4)):
                if rng.chance(3, 5):
                    entries.append([sl, [rng.below(prev[0] + 1), rng.below(2)], rng.choice([None, 1, 2, 3])])
        logs.append({"cp": None, "entries": entries})
    ticks = [[rng.range(10, 99) for _ in range(rng.below(3))] for _ in range(rng.range(1, 4))]
    return {"k": "px_seq", "prev": prev, "logs": logs, "ticks": ticks}


def gen_px_elect(rng):
    """the leader decision of the proposer node: heartbeats and p1b replies per tick"""
    prev = [rng.range(0, 3), 1]
    my = [prev[0] + 1, 0]
    ticks = []
    for _ in range(rng.range(2, 7)):
        hb, p1b = [], []
        if rng.chance(1, 8):
            hb.append([my[0] + rng.below(2), 1])
        for _ in range(rng.choice([0, 1, 1, 2, 3])):
            b = rng.choice([my, my, my, [0, 0], [max(my[0] - 1, 0), 0]])
            acc = rng.below(3) if not rng.chance(1, 4) else 0
            if rng.chance(1, 6):
                p1b.append([acc, b, {"err": rng.choice([None, [my[0], 1], [my[0] + 1, 1], b])}])
            else:
                p1b.append([acc, b, "ok"])
        for bb in hb + [m[2]["err"] for m in p1b if m[2] != "ok" and m[2]["err"]]:
            if (my[0], my[1]) < (bb[0], bb[1]):
                my = [bb[0] + 1, 0]
        ticks.append({"hb": hb, "p1b": p1b})
    return {"k": "px_elect", "prev": prev, "ticks": ticks}


def px_harness_case(case):
    """the case fed to harness/h_paxos (px_seq / px_elect are scripted runs of the real proposer node)"""
    if case["k"] == "px_elect":
        ticks = [{"adv_ms": 0}, {"adv_ms": 100, "hb": [case["prev"]]}, {"adv_ms": 4000}]
        for j, t in enumerate(case["ticks"]):
            ticks.append({"adv_ms": 10, "payloads": [100 + j], "hb": t["hb"],
                          "p1b": [[m[0], m[1], {"ok": []} if m[2] == "ok" else m[2]] for m in t["p1b"]]})
        return {"k": "px_prop", "id": 0, "ticks": ticks}
    if case["k"] != "px_seq":
        return case
    bal = [case["prev"][0] + 1, 0]
    ticks = [{"adv_ms": 0}, {"adv_ms": 100, "hb": [case["prev"]]}, {"adv_ms": 4000},
             {"adv_ms": 10, "p1b": [[a, bal, {"ok": case["logs"][a]["entries"]}] for a in range(2)]}]
    for ps in case["ticks"]:
        ticks.append({"adv_ms": 10, "payloads": ps})
    return {"k": "px_prop", "id": 0, "ticks": ticks}


def gen_px(rng, tier):
    if rng.chance(1, 4):
        return gen_px_acc(rng)
    if rng.chance(1, 4):
        return gen_px_seq(rng)
    if rng.chance(1, 4):
        return gen_px_elect(rng)
    if rng.chance(1, 3):
        nt = rng.range(1, 5)
        ticks, hi = [], -1
        for _ in range(nt):
            mx = None
            if rng.chance(1, 4):
                mx = max(hi, 0) + rng.below(3) if not rng.chance(1, 8) else rng.below(4)
            ps = [rng.range(1, 99) for _ in range(rng.below(4))]
            base = (mx + 1) if mx is not None else max(hi + 1, 0)
            if ps:
                hi = max(hi, base + len(ps) - 1)
            ticks.append({"max": mx, "payloads": ps})
        return {"k": "px_index", "ticks": ticks}
    f = rng.choice([1, 1, 2])
    nlogs = rng.choice([f + 1, f + 1, f + 1, 2 * f + 1, rng.range(1, 2 * f + 1)])
    logs = []
    for _ in range(nlogs):
        entries = []
        for s in range(rng.range(2, 6)):
            if rng.chance(3, 5):
                entries.append([s, [rng.range(1, 3), rng.below(3)], rng.choice([None, 1, 2, 2, 3])])
        logs.append({"cp": rng.below(3) if rng.chance(1, 6) else None, "entries": entries})
    return {"k": "px_recommit", "f": f, "ballot": [rng.range(3, 5), rng.below(3)], "logs": logs}


def px_finding_key(case, r):
    """known-finding keys of the Paxos cases (r = result of the real proposer node).  A key is returned only
    when the violation is EXPLAINED by the recorded mechanism, so that any other divergence is still reported:
    - px/slot-reuse-after-leader-change: the election quorum's logs are non-empty, in every tick the new
      payloads got exactly the slots (max slot in those logs)+1.. (the recorded rule), and every pair of
      different values for one (slot, ballot) consists of two such new-payload p2as of different ticks;
    - px/p1b-quorum-counts-replies-not-acceptors: every tick in which the node led without Ok p1b replies of
      f+1 distinct acceptors for its ballot had at least f+1 Ok REPLIES for that ballot fed before;
    - px/quorum-counts-replies-not-acceptors: every slot reported decided without Ok replies of f+1 distinct
      acceptors had at least f+1 Ok REPLIES for (slot, leader ballot) fed before."""
    if r is None or "ticks" not in r:
        return None
    if case["k"] == "px_seq":
        slots = [e[0] for l in case["logs"] for e in l["entries"]]
        if not slots:
            return None
        base = max(slots) + 1
        bal = [case["prev"][0] + 1, 0]
        new = {}                                   # slot -> set of (tick, value) of predicted new-payload p2as
        allv = {}
        for j, (ps, t) in enumerate(zip([[]] + case["ticks"], r["ticks"][3:])):
            got = set((m[3], m[4]) for m in t["p2a"] if m[2] == bal)
            for m in t["p2a"]:
                if m[2] != bal:
                    return None
                allv.setdefault(m[3], set()).add(m[4])
            for i, pv in enumerate(ps):
                if (base + i, pv) not in got:
                    return None                    # not the recorded slot rule
                new.setdefault(base + i, set()).add((j, pv))
        bad = [sl for sl, vs in allv.items() if len(vs) > 1]
        if not bad:
            return None
        for sl in bad:
            nv = set(v for _, v in new.get(sl, ()))
            if allv[sl] != nv or len(set(j for j, _ in new[sl])) < 2:
                return None                        # a conflict the recorded mechanism does not explain
        return "px/slot-reuse-after-leader-change"
    if case["k"] == "px_elect":
        oks, explained = [], False
        for j, (t, o) in enumerate(zip(case["ticks"], r["ticks"][3:])):
            oks += [(m[0], tuple(m[1])) for m in t["p1b"] if m[2] == "ok"]
            mine = [m for m in o["p2a"] if m[4] == 100 + j and m[0] == 0]
            if mine:
                b = tuple(mine[0][2])
                who = [a for a, bb in oks if bb == b]
                if len(set(who)) < 2:
                    if len(who) < 2:
                        return None                # leader without even f+1 Ok replies: something else
                    explained = True
        return "px/p1b-quorum-counts-replies-not-acceptors" if explained else None
    if case["k"] == "px_prop":
        bal, oks, explained = None, [], False
        for t, o in zip(case["ticks"], r["ticks"]):
            if o["leader"]:
                bal = o["leader"][-1]
            oks += [(m[0], m[1]) for m in t.get("p2b", []) if "ok" in m[3] and m[2] == bal]
            for d in o["decided"]:
                mine = [a for a, sl in oks if sl == d[0]]
                if len(set(mine)) < 2:
                    if len(mine) < 2:
                        return None                # decided without even f+1 replies: something else
                    explained = True
        return "px/quorum-counts-replies-not-acceptors" if explained else None
    return None


def g_oN(x):
    return "None" if x is None else "(Some %d)" % x


def px_term(case, res):
    if "panic" in res or "hang" in res or "crash" in res or "bad_case" in res or "garbled" in res:
        return 3
    gb = lambda b: "(%d, %d)" % (b[0], b[1])
    gob = lambda b: "None" if b is None else "(Some %s)" % gb(b)
    if case["k"] == "px_acc":
        ticks = vlib.g_list(["(%s, %s)" % (vlib.g_list([gb(b) for b in t["p1a"]]),
                                             vlib.g_list(["(%d, %s, %d, %s)" % (m[0], gb(m[1]), m[2], g_oN(m[3])) for m in t["p2a"]]))
                             for t in case["ticks"]])
        outs = []
        for t in res["ticks"]:
            p1 = []
            for to, b, body in t["p1b"]:
                if "ok" in body:
                    r = "(inl %s)" % vlib.g_list(["(%d, (%s, %s))" % (e[0], gb(e[1]), g_oN(e[2])) for e in body["ok"]])
                else:
                    r = "(inr %s)" % gob(body["err"])
                p1.append("(%d, %s, %s)" % (to, gb(b), r))
            p2 = ["(%d, %d, %s, %s)" % (to, sl, gb(b), "None" if "ok" in body else "(Some %s)" % gob(body["err"]))
                  for to, sl, b, body in t["p2b"]]
            outs.append("(%s, %s)" % (vlib.g_list(p1), vlib.g_list(p2)))
        return "(PaxosCheck.chk_acc %s %s)" % (ticks, vlib.g_list(outs))
    if case["k"] == "px_elect":
        pre = "[(%s, [])]" % vlib.g_list([gb(case["prev"])])
        ticks = vlib.g_list(["(%s, %s)" % (vlib.g_list([gb(b) for b in t["hb"]]),
                                             vlib.g_list(["(%d, (%s, %s))" % (m[0], gb(m[1]), "None" if m[2] == "ok" else "(Some %s)" % gob(m[2]["err"]))
                                                          for m in t["p1b"]])) for t in case["ticks"]])
        impl = []
        for j, o in enumerate(res["ticks"][3:]):
            mine = [m for m in o["p2a"] if m[4] == 100 + j and m[0] == 0]
            if any(m[4] is not None and m[4] >= 100 and m[4] != 100 + j for m in o["p2a"]):
                return 1  # a payload proposed in a tick it was not fed in
            impl.append("(%s, %s)" % (vlib.g_bool(bool(mine)), gb(mine[0][2]) if mine else "(0, 0)"))
        return "(PaxosCheck.chk_elect 1 0 %s %s %s)" % (pre, ticks, vlib.g_list(impl))
    if case["k"] == "px_prop":
        # scripted run of the real proposer node: decided slots need Ok replies of f+1 distinct acceptors
        bal, ticks = None, []
        for t, o in zip(case["ticks"], res["ticks"]):
            if o["leader"]:
                bal = o["leader"][-1]
            oks = ["(%d, %d)" % (m[0], m[1]) for m in t.get("p2b", []) if "ok" in m[3] and m[2] == bal]
            ticks.append("(%s, %s)" % (vlib.g_list(oks), vlib.g_list(["%d" % d[0] for d in o["decided"]])))
        return "(PaxosCheck.chk_dec 1 %s)" % vlib.g_list(ticks)
    if case["k"] == "px_seq":
        bal = [case["prev"][0] + 1, 0]
        logs = vlib.g_list(["(%s, %s)" % (g_oN(l["cp"]), vlib.g_list(["(%d, (%d, %d), %s)" % (e[0], e[1][0], e[1][1], g_oN(e[2])) for e in l["entries"]]))
                            for l in case["logs"]])
        mticks = [[]] + case["ticks"]
        # the leader must have announced exactly its ballot, once, in the election tick
        pre = res["ticks"][:3]
        if res["ticks"][3]["leader"] != [bal] or any(t["p2a"] or t["leader"] for t in pre):
            return 1
        outs = []
        for t in res["ticks"][3:]:
            if any(m[2] != bal or m[1] != 0 for m in t["p2a"]):
                return 1
            per = {}
            for m in t["p2a"]:
                per.setdefault(m[0], []).append((m[3], m[4]))
            if sorted(per.keys()) != ([0, 1, 2] if per else []) or any(sorted(map(str, v)) != sorted(map(str, per[0])) for v in per.values()):
                return 1  # a broadcast goes to the three acceptors alike
            outs.append(vlib.g_list(["(%d, %s)" % (sl, g_oN(v)) for sl, v in per.get(0, [])]))
        return "(PaxosCheck.chk_seq 1 %s %s %s %s)" % (gb(bal), logs, vlib.g_list([vlib.g_list(["%d" % p for p in ps]) for ps in mticks]),
                                                       vlib.g_list(outs))
    if case["k"] == "px_index":
        ticks = vlib.g_list(["(%s, %s)" % (g_oN(t["max"]), vlib.g_list(["%d" % p for p in t["payloads"]])) for t in case["ticks"]])
        outs = vlib.g_list([vlib.g_list(["(%d, %d)" % (s, p) for s, p in o]) for o in res["ticks"]])
        return "(PaxosCheck.chk_index %s %s)" % (ticks, outs)
    logs = vlib.g_list(["(%s, %s)" % (g_oN(l["cp"]), vlib.g_list(["(%d, (%d, %d), %s)" % (e[0], e[1][0], e[1][1], g_oN(e[2])) for e in l["entries"]]))
                        for l in case["logs"]])
    out = vlib.g_list(["((%d, (%d, %d)), %s)" % (o[0][0], o[0][1][0], o[0][1][1], g_oN(o[1])) for o in res["recommit"]])
    mx = g_oN(res["max_slot"][0]) if res["max_slot"] else "None"
    return "(PaxosCheck.chk_recommit %d (%d, %d) %s %s %s)" % (case["f"], case["ballot"][0], case["ballot"][1], logs, out, mx)
