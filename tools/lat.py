"""Lattice engine (E1) support: type codes, value generation, Gallina printing.
Type names come from the harness (`{"k":"types"}`): "<sexp>@<rust type>"."""
import itertools
import json

from tools.vlib import g_bool, g_cmp


def parse_sexp(s):
    toks = s.replace("(", " ( ").replace(")", " ) ").split()
    pos = [0]

    def go():
        t = toks[pos[0]]
        pos[0] += 1
        if t == "(":
            out = []
            while toks[pos[0]] != ")":
                out.append(go())
            pos[0] += 1
            return tuple(out)
        return t

    r = go()
    return r if isinstance(r, tuple) else (r,)


def parse_type(name):
    return parse_sexp(name.split("@")[0])


SC = {"u8": "SU8", "unb": "SUnb", "bool": "SBool"}


def coq_ty(t):
    h = t[0]
    if h == "Unit":
        return "TUnit"
    if h in ("Max", "Min"):
        return "(T%s %s)" % (h, SC[t[1]])
    if h == "Set":
        return "TSet"
    if h == "Map":
        return "(TMap %s)" % coq_ty(norm(t[2]))
    if h in ("Bot", "Top", "Vec"):
        return "(T%s %s)" % (h, coq_ty(norm(t[1])))
    if h == "Conflict":
        return "TConflict"
    if h in ("Pair", "Dom"):
        return "(T%s %s %s)" % (h, coq_ty(norm(t[1])), coq_ty(norm(t[2])))
    if h == "SetTomb":
        return "TSetTomb"
    if h == "MapTomb":
        return "(TMapTomb %s)" % coq_ty(norm(t[1]))
    if h == "UF":
        return "TUF"
    raise ValueError(t)


def norm(t):
    return t if isinstance(t, tuple) else (t,)


def coq_val(t, v):
    t = norm(t)
    h = t[0]
    if h == "Unit":
        return "tt"
    if h in ("Max", "Min"):
        return "%d" % v
    if h == "Set":
        return "[" + "; ".join("%d" % x for x in v) + "]"
    if h == "Map":
        return "[" + "; ".join("(%d, %s)" % (k, coq_val(t[2], x)) for k, x in v) + "]"
    if h in ("Bot", "Top"):
        return "None" if v is None else "(Some %s)" % coq_val(t[1], v[0])
    if h == "Conflict":
        return "None" if v is None else "(Some %d)" % v[0]
    if h in ("Pair", "Dom"):
        return "(%s, %s)" % (coq_val(t[1], v[0]), coq_val(t[2], v[1]))
    if h == "Vec":
        return "[" + "; ".join(coq_val(t[1], x) for x in v) + "]"
    if h == "SetTomb":
        return "([%s], [%s])" % ("; ".join("%d" % x for x in v[0]), "; ".join("%d" % x for x in v[1]))
    if h == "MapTomb":
        return "([%s], [%s])" % ("; ".join("(%d, %s)" % (k, coq_val(t[1], x)) for k, x in v[0]),
                                 "; ".join("%d" % x for x in v[1]))
    if h == "UF":
        return "[" + "; ".join("(%d, %d)" % (k, p) for k, p in v) + "]"
    raise ValueError(t)


def total_ty(t):
    t = norm(t)
    if t[0] in ("Unit", "Max", "Min"):
        return True
    if t[0] in ("Bot", "Top"):
        return total_ty(t[1])
    return False


def key_total(t):
    """mirror of Univ.key_total: every DomPair inside t has a totally ordered key lattice"""
    t = norm(t)
    h = t[0]
    if h == "Map":
        return key_total(t[2])
    if h in ("Bot", "Top", "Vec", "MapTomb"):
        return key_total(t[1])
    if h == "Pair":
        return key_total(t[1]) and key_total(t[2])
    if h == "Dom":
        return total_ty(t[1]) and key_total(t[1]) and key_total(t[2])
    return True


def has_top(t):
    t = norm(t)
    h = t[0]
    if h in ("Unit", "Min", "Top", "Conflict"):
        return True
    if h == "Max":
        return t[1] != "unb"
    if h in ("Set", "Map", "Vec", "SetTomb", "MapTomb", "UF"):
        return False
    if h == "Bot":
        return has_top(t[1])
    return has_top(t[1]) and has_top(t[2])


def top_sound(t):
    """mirror of Univ.top_sound: no WithTop over a lattice that already has a top"""
    t = norm(t)
    h = t[0]
    if h == "Map":
        return top_sound(t[2])
    if h in ("Bot", "Vec", "MapTomb"):
        return top_sound(t[1])
    if h == "Top":
        return (not has_top(t[1])) and top_sound(t[1])
    if h in ("Pair", "Dom"):
        return top_sound(t[1]) and top_sound(t[2])
    return True


# ------------------------------------------------------------------ generation

U8_POOL = [0, 0, 1, 1, 2, 3, 7, 254, 255, 255]
UNB_POOL = [0, 0, 1, 1, 2, 3, 4, 9]
KEYS = [0, 1, 2, 3, 4, 5]


def scalar_pool(sc):
    return {"u8": U8_POOL, "unb": UNB_POOL, "bool": [0, 1]}[sc]


def repr_len(rng, rep, maxlen):
    if rep == "Singleton":
        return 1
    if rep == "Option":
        return rng.below(2)
    if rep.startswith("Array"):
        return int(rep[5:])
    return rng.below(maxlen + 1)


def gen_value(rng, t, size=3):
    t = norm(t)
    h = t[0]
    if h == "Unit":
        return None
    if h in ("Max", "Min"):
        return rng.choice(scalar_pool(t[1]))
    if h == "Set":
        n = repr_len(rng, t[1], size)
        return sorted(rng.sample(KEYS, min(n, len(KEYS))))
    if h == "Map":
        n = repr_len(rng, t[1], size)
        ks = sorted(rng.sample(KEYS, min(n, len(KEYS))))
        return [[k, gen_value(rng, t[2], max(1, size - 1))] for k in ks]
    if h in ("Bot", "Top"):
        return None if rng.chance(1, 4) else [gen_value(rng, t[1], size)]
    if h == "Conflict":
        return None if rng.chance(1, 4) else [rng.below(3)]
    if h in ("Pair", "Dom"):
        return [gen_value(rng, t[1], size), gen_value(rng, t[2], size)]
    if h == "Vec":
        return [gen_value(rng, t[1], max(1, size - 1)) for _ in range(rng.below(size + 1))]
    if h in ("SetTomb", "MapTomb"):
        # well-formed: live items / keys and tombstones disjoint
        items = rng.shuffle(KEYS)
        nl, nt = rng.below(size + 1), rng.below(size + 1)
        live, tomb = sorted(items[:nl]), sorted(items[nl:nl + nt])
        if h == "SetTomb":
            return [live, tomb]
        return [[[k, gen_value(rng, t[1], max(1, size - 1))] for k in live], tomb]
    if h == "UF":
        return gen_forest(rng, size)
    raise ValueError(t)


def uf_roots(v):
    """root of every mentioned item in a forest-shaped parent map [[k, p]..]"""
    par = {k: p for k, p in v}

    def root(x):
        seen = 0
        while par.get(x, x) != x and seen < 64:
            x = par[x]
            seen += 1
        return x

    return root


def gen_forest(rng, size=3):
    """a forest-shaped parent map (the only well-formed union-find values): every edge points to
    an item earlier in a random order, so there is no cycle; now and then a self entry"""
    order = rng.shuffle(KEYS)
    n = rng.below(size + 2)
    out = {}
    for i in range(1, len(order)):
        if len(out) >= n:
            break
        if rng.chance(2, 3):
            out[order[i]] = order[rng.below(i)]
    if rng.chance(1, 6):
        k = rng.choice(KEYS)
        if k not in out:
            out[k] = k
    return [[k, out[k]] for k in sorted(out)]


def perturb(rng, t, v, size=3):
    """a value close to v (often comparable with it)"""
    t = norm(t)
    h = t[0]
    if h == "Unit":
        return None
    if h in ("Max", "Min"):
        pool = scalar_pool(t[1])
        hi = max(pool)
        return rng.choice([min(hi, v + 1), max(0, v - 1), v, rng.choice(pool)])
    if h == "Set":
        rep = t[1]
        if rep in ("Singleton",) or rep.startswith("Array"):
            return gen_value(rng, t, size)
        s = set(v)
        if rep == "Option":
            return gen_value(rng, t, size)
        if rng.chance(1, 2) or not s:
            s.add(rng.choice(KEYS))
        else:
            s.discard(rng.choice(sorted(s)))
        return sorted(s)
    if h == "Map":
        rep = t[1]
        if rep in ("Singleton", "Option") or rep.startswith("Array"):
            if v and rng.chance(1, 2):
                return [[k, perturb(rng, t[2], x, size)] for k, x in v]
            return gen_value(rng, t, size)
        d = {k: x for k, x in v}
        r = rng.below(3)
        if r == 0 or not d:
            d[rng.choice(KEYS)] = gen_value(rng, t[2], max(1, size - 1))
        elif r == 1:
            k = rng.choice(sorted(d))
            d[k] = perturb(rng, t[2], d[k], size)
        else:
            del d[rng.choice(sorted(d))]
        return [[k, d[k]] for k in sorted(d)]
    if h in ("Bot", "Top"):
        if v is None:
            return gen_value(rng, t, size)
        if rng.chance(1, 5):
            return None
        return [perturb(rng, t[1], v[0], size)]
    if h == "Conflict":
        return gen_value(rng, t, size)
    if h in ("Pair", "Dom"):
        r = rng.below(3)
        a = perturb(rng, t[1], v[0], size) if r != 1 else v[0]
        b = perturb(rng, t[2], v[1], size) if r != 0 else v[1]
        return [a, b]
    if h == "Vec":
        v = list(v)
        r = rng.below(3)
        if r == 0 or not v:
            v.append(gen_value(rng, t[1], max(1, size - 1)))
        elif r == 1:
            i = rng.below(len(v))
            v[i] = perturb(rng, t[1], v[i], size)
        else:
            v.pop()
        return v
    if h in ("SetTomb", "MapTomb"):
        live = [list(e) if h == "MapTomb" else e for e in v[0]]
        tomb = list(v[1])
        keyof = (lambda e: e[0]) if h == "MapTomb" else (lambda e: e)
        r = rng.below(5)
        x = rng.choice(KEYS)
        if r == 0 and tomb:
            tomb.remove(rng.choice(tomb))
        elif r == 1:
            # delete x: tombstone it and drop it from the live part (keeps well-formedness)
            if x not in tomb:
                tomb = sorted(tomb + [x])
            live = [e for e in live if keyof(e) != x]
        elif r == 2 and live:
            live.pop(rng.below(len(live)))
        elif r == 3 and h == "MapTomb" and live:
            i = rng.below(len(live))
            live[i] = [live[i][0], perturb(rng, t[1], live[i][1], size)]
        elif x not in tomb and x not in [keyof(e) for e in live]:
            live = sorted(live + [[x, gen_value(rng, t[1], max(1, size - 1))] if h == "MapTomb" else x],
                          key=keyof)
        return [live, tomb]
    if h == "UF":
        v = [list(e) for e in v]
        r = rng.below(3)
        if r == 0 and v:
            v.pop(rng.below(len(v)))      # dropping an entry of a forest leaves a forest
            return v
        root = uf_roots(v)
        keys = [k for k, _ in v]
        x, p = rng.choice(KEYS), rng.choice(KEYS)
        # hang a root that has no entry yet below some item of another tree
        if x not in keys and root(p) != x and x != p:
            v.append([x, p])
        return sorted(v)
    raise ValueError(t)


def gen_related(rng, t, base, size=3):
    r = rng.below(10)
    if r < 3:
        return gen_value(rng, t, size)
    if r < 4:
        return json.loads(json.dumps(base))
    if r < 8:
        return perturb(rng, t, base, size)
    return perturb(rng, t, perturb(rng, t, base, size), size)


def enum_values(t, limit=60):
    """small-scope enumeration (domain {0,1}, sizes <= 2); None if more than `limit`"""
    t = norm(t)
    h = t[0]

    def cap(xs):
        xs = list(xs)
        return xs if len(xs) <= limit else None

    if h == "Unit":
        return [None]
    if h in ("Max", "Min"):
        return {"u8": [0, 1, 255], "unb": [0, 1, 2], "bool": [0, 1]}[t[1]]
    if h == "Set":
        rep = t[1]
        allv = [[], [0], [1], [0, 1]]
        if rep == "Singleton":
            return [[0], [1]]
        if rep == "Option":
            return [[], [0], [1]]
        if rep.startswith("Array"):
            n = int(rep[5:])
            return [sorted(c) for c in itertools.combinations([0, 1, 2], n)]
        return allv
    if h == "Map":
        inner = enum_values(t[2], limit)
        if inner is None:
            return None
        rep = t[1]
        out = []
        if rep not in ("Singleton",) and not rep.startswith("Array"):
            out.append([])
        for k in (0, 1):
            for x in inner:
                out.append([[k, x]])
        if rep in ("Hash", "BTree", "Vec") or rep == "Array2":
            for x in inner:
                for y in inner:
                    out.append([[0, x], [1, y]])
        if rep.startswith("Array") and rep != "Array2":
            return None
        if rep == "Array2":
            out = [o for o in out if len(o) == 2]
        return cap(out)
    if h in ("Bot", "Top"):
        inner = enum_values(t[1], limit)
        return None if inner is None else cap([None] + [[x] for x in inner])
    if h == "Conflict":
        return [None, [0], [1]]
    if h in ("Pair", "Dom"):
        a, b = enum_values(t[1], limit), enum_values(t[2], limit)
        if a is None or b is None:
            return None
        return cap([[x, y] for x in a for y in b])
    if h == "Vec":
        inner = enum_values(t[1], limit)
        if inner is None:
            return None
        out = [[]] + [[x] for x in inner] + [[x, y] for x in inner for y in inner]
        return cap(out)
    if h == "SetTomb":
        # items {0,1}: each absent / live / tombstoned
        return [[[k for k, s in zip((0, 1), st) if s == 1], [k for k, s in zip((0, 1), st) if s == 2]]
                for st in itertools.product((0, 1, 2), repeat=2)]
    if h == "MapTomb":
        inner = enum_values(t[1], limit)
        if inner is None:
            return None
        per_key = [("absent", None), ("tomb", None)] + [("live", x) for x in inner]
        out = []
        for s0, s1 in itertools.product(per_key, repeat=2):
            live = [[k, s[1]] for k, s in zip((0, 1), (s0, s1)) if s[0] == "live"]
            tomb = [k for k, s in zip((0, 1), (s0, s1)) if s[0] == "tomb"]
            out.append([live, tomb])
        return cap(out)
    if h == "UF":
        return [[], [[0, 0]], [[1, 0]], [[0, 1]], [[2, 0]], [[2, 1]], [[1, 0], [2, 0]], [[1, 0], [2, 1]],
                [[0, 2], [1, 2]], [[0, 1], [2, 1]]]
    raise ValueError(t)


# ------------------------------------------------------------------ shrinking (type-aware)


def shrink_value(t, v):
    t = norm(t)
    h = t[0]
    if h == "Unit":
        return
    if h in ("Max", "Min"):
        for c in (0, 1, v - 1):
            if 0 <= c < v:
                yield c
        return
    if h == "Set":
        rep = t[1]
        fixed = rep == "Singleton" or rep.startswith("Array")
        if not fixed:
            for i in range(len(v)):
                yield v[:i] + v[i + 1:]
        for i, x in enumerate(v):
            for c in (0, 1, 2):
                if c < x and c not in v:
                    yield sorted(v[:i] + [c] + v[i + 1:])
        return
    if h == "Map":
        rep = t[1]
        fixed = rep == "Singleton" or rep.startswith("Array")
        if not fixed:
            for i in range(len(v)):
                yield v[:i] + v[i + 1:]
        for i, (k, x) in enumerate(v):
            for sx in shrink_value(t[2], x):
                yield v[:i] + [[k, sx]] + v[i + 1:]
        return
    if h in ("Bot", "Top"):
        if v is not None:
            yield None
            for sx in shrink_value(t[1], v[0]):
                yield [sx]
        return
    if h == "Conflict":
        if v is not None:
            yield None
            if v[0] > 0:
                yield [0]
        return
    if h in ("Pair", "Dom"):
        for sa in shrink_value(t[1], v[0]):
            yield [sa, v[1]]
        for sb in shrink_value(t[2], v[1]):
            yield [v[0], sb]
        return
    if h == "Vec":
        for i in range(len(v)):
            yield v[:i] + v[i + 1:]
        for i, x in enumerate(v):
            for sx in shrink_value(t[1], x):
                yield v[:i] + [sx] + v[i + 1:]
        return
    if h in ("SetTomb", "MapTomb"):
        live, tomb = v
        for i in range(len(live)):
            yield [live[:i] + live[i + 1:], tomb]
        for i in range(len(tomb)):
            yield [live, tomb[:i] + tomb[i + 1:]]
        if h == "MapTomb":
            for i, (k, x) in enumerate(live):
                for sx in shrink_value(t[1], x):
                    yield [live[:i] + [[k, sx]] + live[i + 1:], tomb]
        return
    if h == "UF":
        for i in range(len(v)):
            yield v[:i] + v[i + 1:]
        return


# ------------------------------------------------------------------ the triple observation


def coq_mres(t, r):
    return "(%s, %s)" % (coq_val(t, r[0]), g_bool(r[1]))


def coq_obs(t, o):
    ct = coq_ty(t)
    fields = [coq_mres(t, o[k]) for k in ("ab", "ba", "aa", "ab_c", "bc", "a_bc")]
    fields += [g_bool(o[k]) for k in ("eq_aa_a", "eq_ab_ba", "eq_assoc", "eq_ab_a", "eq_ba_b")]
    fields += [g_cmp(o["cmp_ab"]), g_cmp(o["cmp_ba"]), g_bool(o["eq_ab"]), g_bool(o["bot_a"]), g_bool(o["top_a"]),
               g_bool(o["bot_b"]), g_bool(o["top_b"])]
    return "(Build_obs %s %s)" % (ct, " ".join(fields))


def triple_term(pred, case, res):
    """Gallina term of type N for a triple case (bit0 model mismatch, bit1 property fails)"""
    if "ab" not in res:
        return 3  # panic / hang / crash: no law can hold, and the model never panics here
    if not res.get("owned_ok", True):
        return 3
    t = parse_type(case["ty"])
    return "(chk %s %s %s %s %s %s)" % (pred, coq_ty(t), coq_val(t, case["a"]), coq_val(t, case["b"]),
                                        coq_val(t, case["c"]), coq_obs(t, res))


def gen_triples(rng, types, tier, n, pick=None):
    """types: list of registered names. Mostly related triples; exhaustive small scope in
    the thorough tier for types whose small-scope enumeration is small."""
    cases = []
    names = [x for x in types if pick is None or pick(parse_type(x))]
    if not names:
        return cases
    per = max(2, n // len(names))
    for name in names:
        t = parse_type(name)
        if tier == "thorough":
            vals = enum_values(t, 24)
            if vals is not None and len(vals) ** 3 <= 1800:
                for a in vals:
                    for b in vals:
                        for c in vals:
                            cases.append({"k": "triple", "ty": name, "a": a, "b": b, "c": c, "src": "exh"})
        for _ in range(per):
            a = gen_value(rng, t)
            b = gen_related(rng, t, a)
            c = gen_related(rng, t, rng.choice([a, b]))
            if rng.chance(1, 2):
                a, b = b, a
            cases.append({"k": "triple", "ty": name, "a": a, "b": b, "c": c, "src": "rnd"})
    return cases


def shrink_triple(case):
    t = parse_type(case["ty"])
    for f in ("c", "b", "a"):
        for sv in shrink_value(t, case[f]):
            c2 = dict(case)
            c2[f] = sv
            c2["src"] = "shrunk"
            yield c2
    # identify arguments
    for f, g in (("c", "a"), ("c", "b"), ("b", "a")):
        if case[f] != case[g]:
            c2 = dict(case)
            c2[f] = case[g]
            c2["src"] = "shrunk"
            yield c2


# ------------------------------------------------------------------ heterogeneous pairs


def het_codes(name):
    codes = name.split("@")[0].split(" <- ")
    return parse_sexp(codes[0]), parse_sexp(codes[1])


def gen_het(rng, names, n):
    cases = []
    per = max(4, n // max(1, len(names)))
    for name in names:
        ts, to = het_codes(name)
        for _ in range(per):
            a = gen_value(rng, ts)
            b = gen_value(rng, to) if rng.below(4) < 3 else perturb(rng, to, gen_value(rng, to))
            cases.append({"k": "het", "ty": name, "a": a, "b": b, "src": "rnd"})
    return cases


def het_term(case, res):
    if "ab" not in res:
        return 3
    t, _ = het_codes(case["ty"])
    ct = coq_ty(t)
    obs = "(Build_hobs %s %s %s %s %s %s %s %s %s %s)" % (
        ct, coq_mres(t, res["ab"]), g_cmp(res["cmp_ab"]), g_bool(res["eq_ab"]), coq_val(t, res["from_b"]),
        coq_mres(t, res["hom_ab"]), g_cmp(res["hom_cmp_ab"]), g_bool(res["hom_eq_ab"]),
        g_bool(res["bot_b"]) if res["bot_b"] is not None else "(isbot (ops %s) %s)" % (ct, coq_val(t, case["b"])),
        g_bool(res["top_b"]) if res["top_b"] is not None else "(istop (ops %s) %s)" % (ct, coq_val(t, case["b"])))
    return "(chk_het %s %s %s %s)" % (ct, coq_val(t, case["a"]), coq_val(t, case["b"]), obs)


def shrink_het(case):
    ts, to = het_codes(case["ty"])
    for sv in shrink_value(to, case["b"]):
        yield dict(case, b=sv, src="shrunk")
    for sv in shrink_value(ts, case["a"]):
        yield dict(case, a=sv, src="shrunk")


def triple_distribution(cases, results):
    d = {"per_type": {}, "cmp_ab": {}, "changed_ab": {"true": 0, "false": 0}, "src": {}, "panics": 0}
    for c, r in zip(cases, results):
        if c.get("k") != "triple":
            d["src"][c.get("k")] = d["src"].get(c.get("k"), 0) + 1
            continue
        d["per_type"][c["ty"]] = d["per_type"].get(c["ty"], 0) + 1
        d["src"][c.get("src", "?")] = d["src"].get(c.get("src", "?"), 0) + 1
        if "ab" not in r:
            d["panics"] += 1
            continue
        k = str(r["cmp_ab"])
        d["cmp_ab"][k] = d["cmp_ab"].get(k, 0) + 1
        d["changed_ab"]["true" if r["ab"][1] else "false"] += 1
    return d
