"""Lattice engine (E1) support: type codes, value generation, Gallina printing.
Type names come from the harness (`{"k":"types"}`): "<sexp>@<rust type>"."""
import itertools
import json

from tools.vlib import g_bool, g_cmp


def parse_sexp(s):
    toks = s.replace("(", " ( ").replace(")", " ) ").split()
    pos = [0]

    def go():
        t = toks[pos[0]]
        pos[0] += 1
        if t == "(":
            out = []
            while toks[pos[0]] != ")":
                out.append(go())
            pos[0] += 1
            return tuple(out)
        return t

    r = go()
    return r if isinstance(r, tuple) else (r,)


def parse_type(name):
    return parse_sexp(name.split("@")[0])


SC = {"u8": "SU8", "unb": "SUnb", "bool": "SBool"}


def coq_ty(t):
    h = t[0]
    if h == "Unit":
        return "TUnit"
    if h in ("Max", "Min"):
        return "(T%s %s)" % (h, SC[t[1]])
    if h == "Set":
        return "TSet"
    if h == "Map":
        return "(TMap %s)" % coq_ty(norm(t[2]))
    if h in ("Bot", "Top", "Vec"):
        return "(T%s %s)" % (h, coq_ty(norm(t[1])))
    if h == "Conflict":
        return "TConflict"
    if h in ("Pair", "Dom"):
        return "(T%s %s %s)" % (h, coq_ty(norm(t[1])), coq_ty(norm(t[2])))
    raise ValueError(t)


def norm(t):
    return t if isinstance(t, tuple) else (t,)


def coq_val(t, v):
    t = norm(t)
    h = t[0]
    if h == "Unit":
        return "tt"
    if h in ("Max", "Min"):
        return "%d" % v
    if h == "Set":
        return "[" + "; ".join("%d" % x for x in v) + "]"
    if h == "Map":
        return "[" + "; ".join("(%d, %s)" % (k, coq_val(t[2], x)) for k, x in v) + "]"
    if h in ("Bot", "Top"):
        return "None" if v is None else "(Some %s)" % coq_val(t[1], v[0])
    if h == "Conflict":
        return "None" if v is None else "(Some %d)" % v[0]
    if h in ("Pair", "Dom"):
        return "(%s, %s)" % (coq_val(t[1], v[0]), coq_val(t[2], v[1]))
    if h == "Vec":
        return "[" + "; ".join(coq_val(t[1], x) for x in v) + "]"
    raise ValueError(t)


def total_ty(t):
    t = norm(t)
    if t[0] in ("Unit", "Max", "Min"):
        return True
    if t[0] in ("Bot", "Top"):
        return total_ty(t[1])
    return False


def key_total(t):
    """mirror of Univ.key_total: every DomPair inside t has a totally ordered key lattice"""
    t = norm(t)
    h = t[0]
    if h == "Map":
        return key_total(t[2])
    if h in ("Bot", "Top", "Vec"):
        return key_total(t[1])
    if h == "Pair":
        return key_total(t[1]) and key_total(t[2])
    if h == "Dom":
        return total_ty(t[1]) and key_total(t[1]) and key_total(t[2])
    return True


def has_top(t):
    t = norm(t)
    h = t[0]
    if h in ("Unit", "Min", "Top", "Conflict"):
        return True
    if h == "Max":
        return t[1] != "unb"
    if h in ("Set", "Map", "Vec"):
        return False
    if h == "Bot":
        return has_top(t[1])
    return has_top(t[1]) and has_top(t[2])


def top_sound(t):
    """mirror of Univ.top_sound: no WithTop over a lattice that already has a top"""
    t = norm(t)
    h = t[0]
    if h == "Map":
        return top_sound(t[2])
    if h in ("Bot", "Vec"):
        return top_sound(t[1])
    if h == "Top":
        return (not has_top(t[1])) and top_sound(t[1])
    if h in ("Pair", "Dom"):
        return top_sound(t[1]) and top_sound(t[2])
    return True


# ------------------------------------------------------------------ generation

U8_POOL = [0, 0, 1, 1, 2, 3, 7, 254, 255, 255]
UNB_POOL = [0, 0, 1, 1, 2, 3, 4, 9]
KEYS = [0, 1, 2, 3, 4, 5]


def scalar_pool(sc):
    return {"u8": U8_POOL, "unb": UNB_POOL, "bool": [0, 1]}[sc]


def repr_len(rng, rep, maxlen):
    if rep == "Singleton":
        return 1
    if rep == "Option":
        return rng.below(2)
    if rep.startswith("Array"):
        return int(rep[5:])
    return rng.below(maxlen + 1)


def gen_value(rng, t, size=3):
    t = norm(t)
    h = t[0]
    if h == "Unit":
        return None
    if h in ("Max", "Min"):
        return rng.choice(scalar_pool(t[1]))
    if h == "Set":
        n = repr_len(rng, t[1], size)
        return sorted(rng.sample(KEYS, min(n, len(KEYS))))
    if h == "Map":
        n = repr_len(rng, t[1], size)
        ks = sorted(rng.sample(KEYS, min(n, len(KEYS))))
        return [[k, gen_value(rng, t[2], max(1, size - 1))] for k in ks]
    if h in ("Bot", "Top"):
        return None if rng.chance(1, 4) else [gen_value(rng, t[1], size)]
    if h == "Conflict":
        return None if rng.chance(1, 4) else [rng.below(3)]
    if h in ("Pair", "Dom"):
        return [gen_value(rng, t[1], size), gen_value(rng, t[2], size)]
    if h == "Vec":
        return [gen_value(rng, t[1], max(1, size - 1)) for _ in range(rng.below(size + 1))]
    raise ValueError(t)


def perturb(rng, t, v, size=3):
    """a value close to v (often comparable with it)"""
    t = norm(t)
    h = t[0]
    if h == "Unit":
        return None
    if h in ("Max", "Min"):
        pool = scalar_pool(t[1])
        hi = max(pool)
        return rng.choice([min(hi, v + 1), max(0, v - 1), v, rng.choice(pool)])
    if h == "Set":
        rep = t[1]
        if rep in ("Singleton",) or rep.startswith("Array"):
            return gen_value(rng, t, size)
        s = set(v)
        if rep == "Option":
            return gen_value(rng, t, size)
        if rng.chance(1, 2) or not s:
            s.add(rng.choice(KEYS))
        else:
            s.discard(rng.choice(sorted(s)))
        return sorted(s)
    if h == "Map":
        rep = t[1]
        if rep in ("Singleton", "Option") or rep.startswith("Array"):
            if v and rng.chance(1, 2):
                return [[k, perturb(rng, t[2], x, size)] for k, x in v]
            return gen_value(rng, t, size)
        d = {k: x for k, x in v}
        r = rng.below(3)
        if r == 0 or not d:
            d[rng.choice(KEYS)] = gen_value(rng, t[2], max(1, size - 1))
        elif r == 1:
            k = rng.choice(sorted(d))
            d[k] = perturb(rng, t[2], d[k], size)
        else:
            del d[rng.choice(sorted(d))]
        return [[k, d[k]] for k in sorted(d)]
    if h in ("Bot", "Top"):
        if v is None:
            return gen_value(rng, t, size)
        if rng.chance(1, 5):
            return None
        return [perturb(rng, t[1], v[0], size)]
    if h == "Conflict":
        return gen_value(rng, t, size)
    if h in ("Pair", "Dom"):
        r = rng.below(3)
        a = perturb(rng, t[1], v[0], size) if r != 1 else v[0]
        b = perturb(rng, t[2], v[1], size) if r != 0 else v[1]
        return [a, b]
    if h == "Vec":
        v = list(v)
        r = rng.below(3)
        if r == 0 or not v:
            v.append(gen_value(rng, t[1], max(1, size - 1)))
        elif r == 1:
            i = rng.below(len(v))
            v[i] = perturb(rng, t[1], v[i], size)
        else:
            v.pop()
        return v
    raise ValueError(t)


def gen_related(rng, t, base, size=3):
    r = rng.below(10)
    if r < 3:
        return gen_value(rng, t, size)
    if r < 4:
        return json.loads(json.dumps(base))
    if r < 8:
        return perturb(rng, t, base, size)
    return perturb(rng, t, perturb(rng, t, base, size), size)


def enum_values(t, limit=60):
    """small-scope enumeration (domain {0,1}, sizes <= 2); None if more than `limit`"""
    t = norm(t)
    h = t[0]

    def cap(xs):
        xs = list(xs)
        return xs if len(xs) <= limit else None

    if h == "Unit":
        return [None]
    if h in ("Max", "Min"):
        return {"u8": [0, 1, 255], "unb": [0, 1, 2], "bool": [0, 1]}[t[1]]
    if h == "Set":
        rep = t[1]
        allv = [[], [0], [1], [0, 1]]
        if rep == "Singleton":
            return [[0], [1]]
        if rep == "Option":
            return [[], [0], [1]]
        if rep.startswith("Array"):
            n = int(rep[5:])
            return [sorted(c) for c in itertools.combinations([0, 1, 2], n)]
        return allv
    if h == "Map":
        inner = enum_values(t[2], limit)
        if inner is None:
            return None
        rep = t[1]
        out = []
        if rep not in ("Singleton",) and not rep.startswith("Array"):
            out.append([])
        for k in (0, 1):
            for x in inner:
                out.append([[k, x]])
        if rep in ("Hash", "BTree", "Vec") or rep == "Array2":
            for x in inner:
                for y in inner:
                    out.append([[0, x], [1, y]])
        if rep.startswith("Array") and rep != "Array2":
            return None
        if rep == "Array2":
            out = [o for o in out if len(o) == 2]
        return cap(out)
    if h in ("Bot", "Top"):
        inner = enum_values(t[1], limit)
        return None if inner is None else cap([None] + [[x] for x in inner])
    if h == "Conflict":
        return [None, [0], [1]]
    if h in ("Pair", "Dom"):
        a, b = enum_values(t[1], limit), enum_values(t[2], limit)
        if a is None or b is None:
            return None
        return cap([[x, y] for x in a for y in b])
    if h == "Vec":
        inner = enum_values(t[1], limit)
        if inner is None:
            return None
        out = [[]] + [[x] for x in inner] + [[x, y] for x in inner for y in inner]
        return cap(out)
    raise ValueError(t)


# ------------------------------------------------------------------ shrinking (type-aware)


def shrink_value(t, v):
    t = norm(t)
    h = t[0]
    if h == "Unit":
        return
    if h in ("Max", "Min"):
        for c in (0, 1, v - 1):
            if 0 <= c < v:
                yield c
        return
    if h == "Set":
        rep = t[1]
        fixed = rep == "Singleton" or rep.startswith("Array")
        if not fixed:
            for i in range(len(v)):
                yield v[:i] + v[i + 1:]
        for i, x in enumerate(v):
            for c in (0, 1, 2):
                if c < x and c not in v:
                    yield sorted(v[:i] + [c] + v[i + 1:])
        return
    if h == "Map":
        rep = t[1]
        fixed = rep == "Singleton" or rep.startswith("Array")
        if not fixed:
            for i in range(len(v)):
                yield v[:i] + v[i + 1:]
        for i, (k, x) in enumerate(v):
            for sx in shrink_value(t[2], x):
                yield v[:i] + [[k, sx]] + v[i + 1:]
        return
    if h in ("Bot", "Top"):
        if v is not None:
            yield None
            for sx in shrink_value(t[1], v[0]):
                yield [sx]
        return
    if h == "Conflict":
        if v is not None:
            yield None
            if v[0] > 0:
                yield [0]
        return
    if h in ("Pair", "Dom"):
        for sa in shrink_value(t[1], v[0]):
            yield [sa, v[1]]
        for sb in shrink_value(t[2], v[1]):
            yield [v[0], sb]
        return
    if h == "Vec":
        for i in range(len(v)):
            yield v[:i] + v[i + 1:]
        for i, x in enumerate(v):
            for sx in shrink_value(t[1], x):
                yield v[:i] + [sx] + v[i + 1:]
        return


# ------------------------------------------------------------------ the triple observation


def coq_mres(t, r):
    return "(%s, %s)" % (coq_val(t, r[0]), g_bool(r[1]))


def coq_obs(t, o):
    ct = coq_ty(t)
    fields = [coq_mres(t, o[k]) for k in ("ab", "ba", "aa", "ab_c", "bc", "a_bc")]
    fields += [g_bool(o[k]) for k in ("eq_aa_a", "eq_ab_ba", "eq_assoc", "eq_ab_a", "eq_ba_b")]
    fields += [g_cmp(o["cmp_ab"]), g_cmp(o["cmp_ba"]), g_bool(o["eq_ab"]), g_bool(o["bot_a"]), g_bool(o["top_a"]),
               g_bool(o["bot_b"]), g_bool(o["top_b"])]
    return "(Build_obs %s %s)" % (ct, " ".join(fields))


def triple_term(pred, case, res):
    """Gallina term of type N for a triple case (bit0 model mismatch, bit1 property fails)"""
    if "ab" not in res:
        return 3  # panic / hang / crash: no law can hold, and the model never panics here
    if not res.get("owned_ok", True):
        return 3
    t = parse_type(case["ty"])
    return "(chk %s %s %s %s %s %s)" % (pred, coq_ty(t), coq_val(t, case["a"]), coq_val(t, case["b"]),
                                        coq_val(t, case["c"]), coq_obs(t, res))


def gen_triples(rng, types, tier, n, pick=None):
    """types: list of registered names. Mostly related triples; exhaustive small scope in
    the thorough tier for types whose small-scope enumeration is small."""
    cases = []
    names = [x for x in types if pick is None or pick(parse_type(x))]
    if not names:
        return cases
    per = max(2, n // len(names))
    for name in names:
        t = parse_type(name)
        if tier == "thorough":
            vals = enum_values(t, 24)
            if vals is not None and len(vals) ** 3 <= 1800:
                for a in vals:
                    for b in vals:
                        for c in vals:
                            cases.append({"k": "triple", "ty": name, "a": a, "b": b, "c": c, "src": "exh"})
        for _ in range(per):
            a = gen_value(rng, t)
            b = gen_related(rng, t, a)
            c = gen_related(rng, t, rng.choice([a, b]))
            if rng.chance(1, 2):
                a, b = b, a
            cases.append({"k": "triple", "ty": name, "a": a, "b": b, "c": c, "src": "rnd"})
    return cases


def shrink_triple(case):
    t = parse_type(case["ty"])
    for f in ("c", "b", "a"):
        for sv in shrink_value(t, case[f]):
            c2 = dict(case)
            c2[f] = sv
            c2["src"] = "shrunk"
            yield c2
    # identify arguments
    for f, g in (("c", "a"), ("c", "b"), ("b", "a")):
        if case[f] != case[g]:
            c2 = dict(case)
            c2[f] = case[g]
            c2["src"] = "shrunk"
            yield c2


# ------------------------------------------------------------------ heterogeneous pairs


def het_codes(name):
    codes = name.split("@")[0].split(" <- ")
    return parse_sexp(codes[0]), parse_sexp(codes[1])


def gen_het(rng, names, n):
    cases = []
    per = max(4, n // max(1, len(names)))
    for name in names:
        ts, to = het_codes(name)
        for _ in range(per):
            a = gen_value(rng, ts)
            b = gen_value(rng, to) if rng.below(4) < 3 else perturb(rng, to, gen_value(rng, to))
            cases.append({"k": "het", "ty": name, "a": a, "b": b, "src": "rnd"})
    return cases


def het_term(case, res):
    if "ab" not in res:
        return 3
    t, _ = het_codes(case["ty"])
    ct = coq_ty(t)
    obs = "(Build_hobs %s %s %s %s %s %s %s %s %s %s)" % (
        ct, coq_mres(t, res["ab"]), g_cmp(res["cmp_ab"]), g_bool(res["eq_ab"]), coq_val(t, res["from_b"]),
        coq_mres(t, res["hom_ab"]), g_cmp(res["hom_cmp_ab"]), g_bool(res["hom_eq_ab"]),
        g_bool(res["bot_b"]) if res["bot_b"] is not None else "(isbot (ops %s) %s)" % (ct, coq_val(t, case["b"])),
        g_bool(res["top_b"]) if res["top_b"] is not None else "(istop (ops %s) %s)" % (ct, coq_val(t, case["b"])))
    return "(chk_het %s %s %s %s)" % (ct, coq_val(t, case["a"]), coq_val(t, case["b"]), obs)


def shrink_het(case):
    ts, to = het_codes(case["ty"])
    for sv in shrink_value(to, case["b"]):
        yield dict(case, b=sv, src="shrunk")
    for sv in shrink_value(ts, case["a"]):
        yield dict(case, a=sv, src="shrunk")


def triple_distribution(cases, results):
    d = {"per_type": {}, "cmp_ab": {}, "changed_ab": {"true": 0, "false": 0}, "src": {}, "panics": 0}
    for c, r in zip(cases, results):
        if c.get("k") != "triple":
            d["src"][c.get("k")] = d["src"].get(c.get("k"), 0) + 1
            continue
        d["per_type"][c["ty"]] = d["per_type"].get(c["ty"], 0) + 1
        d["src"][c.get("src", "?")] = d["src"].get(c.get("src", "?"), 0) + 1
        if "ab" not in r:
            d["panics"] += 1
            continue
        k = str(r["cmp_ab"])
        d["cmp_ab"][k] = d["cmp_ab"].get(k, 0) + 1
        d["changed_ab"]["true" if r["ab"][1] else "false"] += 1
    return d
