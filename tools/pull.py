"""Pull engine (E4, pull side) support: case generators, Gallina printers, shrinkers for
C11 (pull combinators) and C13 (symmetric hash join).

A C11 case:  {"k":"c11","comb":<name>,"fn":<closure name>,"n":<usize arg>,
              "ins":[{"s":[<item>|"P"|"E",...],"lo":<slack>,"hi":<slack>|null}, ...],"extra":<polls after end>}
The harness answers {"trace":[[lo,hi|null,step],...]} with step = "P" | "E" | ["R",val].
"""
import itertools

UMAX = 18446744073709551615

# combinator -> (number of inputs, closure kind, inputs that must be fused scripts)
COMBS = {
    "map": (1, "fn", ()), "inspect": (1, None, ()), "filter": (1, "pr", ()),
    "filter_map": (1, "op", ()), "flat_map": (1, "ls", ()), "flatten": (1, None, ()),
    "take_while": (1, "pr", ()), "skip_while": (1, "pr", ()), "take": (1, "n", ()),
    "skip": (1, "n", ()), "enumerate": (1, None, ()), "fuse": (1, None, ()),
    "chain": (2, None, (0,)), "zip": (2, None, ()), "zip_longest": (2, None, (0, 1)),
    "cross_singleton": (2, None, ()),
}
VOCAB = {
    "fn": [["add", 3], "mul2", "mod5"],
    "pr": ["mod3", ["lt", 4], "even", "true", "false"],
    "op": ["half_even", "dec", "none"],
    "ls": ["rep_mod3", "dup", "empty", "iota"],
}
KNAME = {
    "map": "KMap", "inspect": "KInspect", "filter": "KFilter", "filter_map": "KFilterMap",
    "flat_map": "KFlatMap", "flatten": "KFlatten", "take_while": "KTakeWhile",
    "skip_while": "KSkipWhile", "take": "KTake", "skip": "KSkip", "enumerate": "KEnumerate",
    "fuse": "KFuse", "chain": "KChain", "zip": "KZip", "zip_longest": "KZipLongest",
    "cross_singleton": "KCross",
}

# ------------------------------------------------------------------------------ Gallina


def g_closure(kind, f):
    if kind == "fn":
        return "(FAdd %d)" % f[1] if isinstance(f, list) else {"mul2": "FMul2", "mod5": "FMod5"}[f]
    if kind == "pr":
        return "(PLt %d)" % f[1] if isinstance(f, list) else {
            "mod3": "PMod3", "even": "PEven", "true": "PTrue", "false": "PFalse"}[f]
    if kind == "op":
        return {"half_even": "OHalfEven", "dec": "ODec", "none": "ONone"}[f]
    if kind == "ls":
        return {"rep_mod3": "LRepMod3", "dup": "LDup", "empty": "LEmpty", "iota": "LIota"}[f]
    raise ValueError(kind)


def g_item(x):
    if isinstance(x, list):
        return "[" + "; ".join("%d" % y for y in x) + "]"
    return "%d" % x


def g_script(s):
    out = []
    for x in s:
        if x == "P":
            out.append("Pend")
        elif x == "E":
            out.append("End")
        else:
            out.append("Rdy %s" % g_item(x))
    return "[" + "; ".join(out) + "]"


def g_src(i):
    hi = "None" if i.get("hi") is None else "(Some %d)" % i["hi"]
    return "(Src %s %d %s)" % (g_script(i["s"]), i.get("lo", 0), hi)


def g_case(c):
    nin, kind, _ = COMBS[c["comb"]]
    parts = [KNAME[c["comb"]]]
    if kind == "n":
        parts.append("%d" % c["n"])
    elif kind:
        parts.append(g_closure(kind, c["fn"]))
    parts += [g_src(i) for i in c["ins"][:nin]]
    return "(" + " ".join(parts) + ")"


def g_val(v):
    if isinstance(v, int):
        return "(VN %d)" % v
    tag = v[0]
    if tag == "p":
        return "(VP %s %s)" % (g_val(v[1]), g_val(v[2]))
    if tag == "b":
        return "(VB %s %s)" % (g_val(v[1]), g_val(v[2]))
    if tag == "l":
        return "(VL %s)" % g_val(v[1])
    if tag == "r":
        return "(VR %s)" % g_val(v[1])
    raise ValueError(v)


def g_trace(tr):
    out = []
    for lo, hi, st in tr:
        h = "(%d, %s)" % (lo, "None" if hi is None else "Some %d" % hi)
        if st == "P":
            s = "Pending"
        elif st == "E":
            s = "Ended"
        else:
            s = "Ready %s" % g_val(st[1])
        out.append("(%s, %s)" % (h, s))
    return "[" + "; ".join(out) + "]"


def c11_term(case, res):
    """Gallina term of type N: bit0 = trace differs from the model's, bit1 = C11 fails on it."""
    if "trace" not in res:
        return 3  # panic / hang / crash of the combinator on a valid script
    if case["comb"] == "inspect":
        seen = [st[1] for _, _, st in res["trace"] if isinstance(st, list)]
        if res.get("inspected") != seen:
            return 3
    return "chk %s %s" % (g_case(case), g_trace(res["trace"]))


# ------------------------------------------------------------------------------ generators

HI_CHOICES = [0, 0, 0, 2, None, None, UMAX, UMAX - 1]
LO_CHOICES = [0, 0, 0, 1, 3]


def rand_script(rng, maxlen, pend_num, fused, listy=False):
    """pend_num/10 = pending density; non-fused scripts get 1-2 End markers and a continuation"""
    n = rng.range(0, maxlen)
    s = []
    for _ in range(n):
        if rng.chance(pend_num, 10):
            s.append("P")
        elif listy:
            s.append([rng.below(9) for _ in range(rng.below(4))])
        else:
            s.append(rng.below(12))
    if not fused and s:
        for _ in range(rng.range(1, 2)):
            s.insert(rng.below(len(s) + 1), "E")
    elif fused and rng.chance(1, 4):
        s += ["E"] * rng.range(1, 2)      # explicit ends at the tail: still fused
    return s


def rand_input(rng, maxlen, pend_num, fused, listy=False):
    return {"s": rand_script(rng, maxlen, pend_num, fused, listy),
            "lo": rng.choice(LO_CHOICES), "hi": rng.choice(HI_CHOICES)}


def mk_case(comb, fn, n, ins, extra=3):
    c = {"k": "c11", "comb": comb, "ins": ins, "extra": extra}
    if fn is not None:
        c["fn"] = fn
    if n is not None:
        c["n"] = n
    return c


def rand_case(rng, maxlen, combs=None):
    comb = rng.choice(combs or sorted(COMBS))
    nin, kind, need_fused = COMBS[comb]
    pend_num = rng.choice([0, 1, 3, 3, 6])
    ins = []
    for i in range(nin):
        fused = (i in need_fused) or rng.chance(2, 3)
        ins.append(rand_input(rng, maxlen, pend_num, fused, listy=(comb == "flatten")))
    fn = rng.choice(VOCAB[kind]) if kind in VOCAB else None
    n = rng.below(maxlen // 2 + 2) if kind == "n" else None
    return mk_case(comb, fn, n, ins, extra=rng.range(1, 4))


def placements(items, k):
    """all scripts with exactly these items in order and exactly k Pend, anywhere"""
    n = len(items)
    for pos in itertools.combinations(range(n + k), k):
        s, it = [], iter(items)
        ps = set(pos)
        for i in range(n + k):
            s.append("P" if i in ps else next(it))
        yield s


def all_scripts(maxn, maxk, values, listy=False):
    out = []
    for n in range(maxn + 1):
        items = [values[i % len(values)] for i in range(n)]
        if listy:
            items = [[v, v + 1][: v % 3] for v in items]
        for k in range(maxk + 1):
            out += list(placements(items, k))
    return out


def exhaustive_cases(rng):
    """every combinator x item sequences of length <= 6 (<= 4 for two inputs) x every
    placement of <= 3 (<= 2) Pend per input; closures rotate through the vocabulary"""
    cases = []
    vals = [3, 1, 4, 6, 5, 9, 2]
    one = all_scripts(6, 3, vals)
    one_l = all_scripts(6, 3, vals, listy=True)
    two_a = all_scripts(4, 2, vals)
    two_b = all_scripts(4, 2, [7, 0, 8, 2])
    j = 0
    for comb in sorted(COMBS):
        nin, kind, need_fused = COMBS[comb]
        if nin == 1:
            for s in (one_l if comb == "flatten" else one):
                j += 1
                fn = VOCAB[kind][j % len(VOCAB[kind])] if kind in VOCAB else None
                n = (j % 5) if kind == "n" else None
                cases.append(mk_case(comb, fn, n, [{"s": s, "lo": 0, "hi": 0}], extra=2))
        else:
            for s1 in two_a:
                for s2 in two_b:
                    j += 1
                    cases.append(mk_case(comb, None, None,
                                         [{"s": s1, "lo": 0, "hi": 0},
                                          {"s": s2, "lo": 0, "hi": HI_CHOICES[j % len(HI_CHOICES)]}],
                                         extra=2))
    return cases


def gen_c11(rng, tier, n, corpus=()):
    cases = list(corpus)
    if tier == "thorough":
        cases += exhaustive_cases(rng)
        cases += [rand_case(rng, 40) for _ in range(n)]
    else:
        # every combinator equally often, short and long random scripts
        names = sorted(COMBS)
        for i in range(n):
            cases.append(rand_case(rng, 40 if i % 3 else 8, combs=[names[i % len(names)]]))
    return cases


# ------------------------------------------------------------------------------ shrinking


def shrink_c11(case):
    ins = case["ins"]
    for i, inp in enumerate(ins):
        s = inp["s"]
        for j in range(len(s)):
            t = s[:j] + s[j + 1:]
            yield dict(case, ins=ins[:i] + [dict(inp, s=t)] + ins[i + 1:])
    for i, inp in enumerate(ins):
        if inp.get("lo", 0) != 0 or inp.get("hi") is not None:
            yield dict(case, ins=ins[:i] + [dict(inp, lo=0, hi=None)] + ins[i + 1:])
        s = inp["s"]
        for j, x in enumerate(s):
            if isinstance(x, int) and x > 0:
                for y in sorted({0, x // 2, x - 1}):
                    t = s[:j] + [y] + s[j + 1:]
                    yield dict(case, ins=ins[:i] + [dict(inp, s=t)] + ins[i + 1:])
    if case.get("extra", 0) > 1:
        yield dict(case, extra=1)
    if case.get("n", 0) > 0:
        yield dict(case, n=case["n"] - 1)


# ------------------------------------------------------------------------------ distribution


def fused_script(s):
    ended = False
    for x in s:
        if x == "E":
            ended = True
        elif ended:
            return False
    return True


def dist_c11(cases, results):
    d = {"combinator": {}, "script_len": {"0": 0, "1-3": 0, "4-6": 0, "7-15": 0, "16-40": 0, ">40": 0},
         "pend_density": {"0": 0, "(0,0.2]": 0, "(0.2,0.5]": 0, ">0.5": 0},
         "pends_per_input": {}, "non_fused_inputs": 0, "inputs": 0,
         "hint_upper": {"exact": 0, "slack": 0, "none": 0, "near_usize_max": 0},
         "trace_len_total": 0, "pending_surfaced": 0, "ready_steps": 0, "ended_first_poll": 0}
    for c, r in zip(cases, results):
        d["combinator"][c["comb"]] = d["combinator"].get(c["comb"], 0) + 1
        for i in c["ins"][:COMBS[c["comb"]][0]]:
            s = i["s"]
            d["inputs"] += 1
            L = len(s)
            b = "0" if L == 0 else "1-3" if L <= 3 else "4-6" if L <= 6 else "7-15" if L <= 15 else "16-40" if L <= 40 else ">40"
            d["script_len"][b] += 1
            np_ = sum(1 for x in s if x == "P")
            dens = np_ / L if L else 0
            b = "0" if np_ == 0 else "(0,0.2]" if dens <= 0.2 else "(0.2,0.5]" if dens <= 0.5 else ">0.5"
            d["pend_density"][b] += 1
            k = str(np_) if np_ < 4 else "4+"
            d["pends_per_input"][k] = d["pends_per_input"].get(k, 0) + 1
            if not fused_script(s):
                d["non_fused_inputs"] += 1
            hi = i.get("hi")
            d["hint_upper"]["none" if hi is None else "exact" if hi == 0 else "near_usize_max" if hi > 1 << 60 else "slack"] += 1
        tr = r.get("trace", []) if isinstance(r, dict) else []
        d["trace_len_total"] += len(tr)
        d["pending_surfaced"] += sum(1 for x in tr if x[2] == "P")
        d["ready_steps"] += sum(1 for x in tr if isinstance(x[2], list))
        if tr and tr[0][2] == "E":
            d["ended_first_poll"] += 1
    return d
