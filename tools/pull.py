"""Pull engine (E4, pull side) support: case generators, Gallina printers, shrinkers for
C11 (pull combinators) and C13 (symmetric hash join).

A C11 case:  {"k":"c11","comb":<name>,"fn":<closure name>,"n":<usize arg>,
              "ins":[{"s":[<item>|"P"|"E",...],"lo":<slack>,"hi":<slack>|null}, ...],"extra":<polls after end>}
The harness answers {"trace":[[lo,hi|null,step],...]} with step = "P" | "E" | ["R",val].
"""
import itertools

UMAX = 18446744073709551615

# combinator -> (number of inputs, closure kind, inputs that must be fused scripts)
COMBS = {
    "map": (1, "fn", ()), "inspect": (1, None, ()), "filter": (1, "pr", ()),
    "filter_map": (1, "op", ()), "flat_map": (1, "ls", ()), "flatten": (1, None, ()),
    "take_while": (1, "pr", ()), "skip_while": (1, "pr", ()), "take": (1, "n", ()),
    "skip": (1, "n", ()), "enumerate": (1, None, ()), "fuse": (1, None, ()),
    "chain": (2, None, (0,)), "zip": (2, None, ()), "zip_longest": (2, None, (0, 1)),
    "cross_singleton": (2, None, ()),
}
VOCAB = {
    "fn": [["add", 3], "mul2", "mod5"],
    "pr": ["mod3", ["lt", 4], "even", "true", "false"],
    "op": ["half_even", "dec", "none"],
    "ls": ["rep_mod3", "dup", "empty", "iota"],
}
KNAME = {
    "map": "KMap", "inspect": "KInspect", "filter": "KFilter", "filter_map": "KFilterMap",
    "flat_map": "KFlatMap", "flatten": "KFlatten", "take_while": "KTakeWhile",
    "skip_while": "KSkipWhile", "take": "KTake", "skip": "KSkip", "enumerate": "KEnumerate",
    "fuse": "KFuse", "chain": "KChain", "zip": "KZip", "zip_longest": "KZipLongest",
    "cross_singleton": "KCross",
}

# ------------------------------------------------------------------------------ Gallina


def g_closure(kind, f):
    if kind == "fn":
        return "(FAdd %d)" % f[1] if isinstance(f, list) else {"mul2": "FMul2", "mod5": "FMod5"}[f]
    if kind == "pr":
        return "(PLt %d)" % f[1] if isinstance(f, list) else {
            "mod3": "PMod3", "even": "PEven", "true": "PTrue", "false": "PFalse"}[f]
    if kind == "op":
        return {"half_even": "OHalfEven", "dec": "ODec", "none": "ONone"}[f]
    if kind == "ls":
        return {"rep_mod3": "LRepMod3", "dup": "LDup", "empty": "LEmpty", "iota": "LIota"}[f]
    raise ValueError(kind)


def g_item(x):
    if isinstance(x, list):
        return "[" + "; ".join("%d" % y for y in x) + "]"
    return "%d" % x


def g_script(s):
    out = []
    for x in s:
        if x == "P":
            out.append("Pend")
        elif x == "E":
            out.append("End")
        else:
            out.append("Rdy %s" % g_item(x))
    return "[" + "; ".join(out) + "]"


def g_src(i):
    hi = "None" if i.get("hi") is None else "(Some %d)" % i["hi"]
    return "(Src %s %d %s)" % (g_script(i["s"]), i.get("lo", 0), hi)


def g_case(c):
    nin, kind, _ = COMBS[c["comb"]]
    parts = [KNAME[c["comb"]]]
    if kind == "n":
        parts.append("%d" % c["n"])
    elif kind:
        parts.append(g_closure(kind, c["fn"]))
    parts += [g_src(i) for i in c["ins"][:nin]]
    return "(" + " ".join(parts) + ")"


def g_val(v):
    if isinstance(v, int):
        return "(VN %d)" % v
    tag = v[0]
    if tag == "p":
        return "(VP %s %s)" % (g_val(v[1]), g_val(v[2]))
    if tag == "b":
        return "(VB %s %s)" % (g_val(v[1]), g_val(v[2]))
    if tag == "l":
        return "(VL %s)" % g_val(v[1])
    if tag == "r":
        return "(VR %s)" % g_val(v[1])
    raise ValueError(v)


def g_trace(tr):
    out = []
    for lo, hi, st in tr:
        h = "(%d, %s)" % (lo, "None" if hi is None else "Some %d" % hi)
        if st == "P":
            s = "Pending"
        elif st == "E":
            s = "Ended"
        else:
            s = "Ready %s" % g_val(st[1])
        out.append("(%s, %s)" % (h, s))
    return "[" + "; ".join(out) + "]"


def c11_term(case, res):
    """Gallina term of type N: bit0 = trace differs from the model's, bit1 = C11 fails on it."""
    if "trace" not in res:
        return 3  # panic / hang / crash of the combinator on a valid script
    if case["comb"] == "inspect":
        seen = [st[1] for _, _, st in res["trace"] if isinstance(st, list)]
        if res.get("inspected") != seen:
            return 3
    return "chk %s %s" % (g_case(case), g_trace(res["trace"]))


# ------------------------------------------------------------------------------ generators

HI_CHOICES = [0, 0, 0, 2, None, None, UMAX, UMAX - 1]
LO_CHOICES = [0, 0, 0, 1, 3]


def rand_script(rng, maxlen, pend_num, fused, listy=False):
    """pend_num/10 = pending density; non-fused scripts get 1-2 End markers and a continuation"""
    n = rng.range(0, maxlen)
    s = []
    for _ in range(n):
        if rng.chance(pend_num, 10):
            s.append("P")
        elif listy:
            s.append([rng.below(9) for _ in range(rng.below(4))])
        else:
            s.append(rng.below(12))
    if not fused and s:
        for _ in range(rng.range(1, 2)):
            s.insert(rng.below(len(s) + 1), "E")
    elif fused and rng.chance(1, 4):
        s += ["E"] * rng.range(1, 2)      # explicit ends at the tail: still fused
    return s


def rand_input(rng, maxlen, pend_num, fused, listy=False):
    return {"s": rand_script(rng, maxlen, pend_num, fused, listy),
            "lo": rng.choice(LO_CHOICES), "hi": rng.choice(HI_CHOICES)}


def mk_case(comb, fn, n, ins, extra=3):
    c = {"k": "c11", "comb": comb, "ins": ins, "extra": extra}
    if fn is not None:
        c["fn"] = fn
    if n is not None:
        c["n"] = n
    return c


def rand_case(rng, maxlen, combs=None):
    comb = rng.choice(combs or sorted(COMBS))
    nin, kind, need_fused = COMBS[comb]
    pend_num = rng.choice([0, 1, 3, 3, 6])
    ins = []
    for i in range(nin):
        fused = (i in need_fused) or rng.chance(2, 3)
        ins.append(rand_input(rng, maxlen, pend_num, fused, listy=(comb == "flatten")))
    fn = rng.choice(VOCAB[kind]) if kind in VOCAB else None
    n = rng.below(maxlen // 2 + 2) if kind == "n" else None
    return mk_case(comb, fn, n, ins, extra=rng.range(1, 4))


def placements(items, k):
    """all scripts with exactly these items in order and exactly k Pend, anywhere"""
    n = len(items)
    for pos in itertools.combinations(range(n + k), k):
        s, it = [], iter(items)
        ps = set(pos)
        for i in range(n + k):
            s.append("P" if i in ps else next(it))
        yield s


def all_scripts(maxn, maxk, values, listy=False):
    out = []
    for n in range(maxn + 1):
        items = [values[i % len(values)] for i in range(n)]
        if listy:
            items = [[v, v + 1][: v % 3] for v in items]
        for k in range(maxk + 1):
            out += list(placements(items, k))
    return out


def exhaustive_cases(rng):
    """every combinator x item sequences of length <= 6 (<= 4 for two inputs) x every
    placement of <= 3 (<= 2) Pend per input; closures rotate through the vocabulary"""
    cases = []
    vals = [3, 1, 4, 6, 5, 9, 2]
    one = all_scripts(6, 3, vals)
    one_l = all_scripts(6, 3, vals, listy=True)
    two_a = all_scripts(4, 2, vals)
    two_b = all_scripts(4, 2, [7, 0, 8, 2])
    j = 0
    for comb in sorted(COMBS):
        nin, kind, need_fused = COMBS[comb]
        if nin == 1:
            for s in (one_l if comb == "flatten" else one):
                j += 1
                fn = VOCAB[kind][j % len(VOCAB[kind])] if kind in VOCAB else None
                n = (j % 5) if kind == "n" else None
                cases.append(mk_case(comb, fn, n, [{"s": s, "lo": 0, "hi": 0}], extra=2))
        else:
            for s1 in two_a:
                for s2 in two_b:
                    j += 1
                    cases.append(mk_case(comb, None, None,
                                         [{"s": s1, "lo": 0, "hi": 0},
                                          {"s": s2, "lo": 0, "hi": HI_CHOICES[j % len(HI_CHOICES)]}],
                                         extra=2))
    return cases


def gen_c11(rng, tier, n, corpus=()):
    cases = list(corpus)
    if tier == "thorough":
        cases += exhaustive_cases(rng)
        cases += [rand_case(rng, 40) for _ in range(n)]
    else:
        # every combinator equally often, short and long random scripts
        names = sorted(COMBS)
        for i in range(n):
            cases.append(rand_case(rng, 40 if i % 3 else 8, combs=[names[i % len(names)]]))
    return cases


# ------------------------------------------------------------------------------ shrinking


def shrink_c11(case):
    ins = case["ins"]
    for i, inp in enumerate(ins):
        s = inp["s"]
        for j in range(len(s)):
            t = s[:j] + s[j + 1:]
            yield dict(case, ins=ins[:i] + [dict(inp, s=t)] + ins[i + 1:])
    for i, inp in enumerate(ins):
        if inp.get("lo", 0) != 0 or inp.get("hi") is not None:
            yield dict(case, ins=ins[:i] + [dict(inp, lo=0, hi=None)] + ins[i + 1:])
        s = inp["s"]
        for j, x in enumerate(s):
            if isinstance(x, int) and x > 0:
                for y in sorted({0, x // 2, x - 1}):
                    t = s[:j] + [y] + s[j + 1:]
                    yield dict(case, ins=ins[:i] + [dict(inp, s=t)] + ins[i + 1:])
    if case.get("extra", 0) > 1:
        yield dict(case, extra=1)
    if case.get("n", 0) > 0:
        yield dict(case, n=case["n"] - 1)


# ------------------------------------------------------------------------------ distribution


def fused_script(s):
    ended = False
    for x in s:
        if x == "E":
            ended = True
        elif ended:
            return False
    return True


def dist_c11(cases, results):
    d = {"combinator": {}, "script_len": {"0": 0, "1-3": 0, "4-6": 0, "7-15": 0, "16-40": 0, ">40": 0},
         "pend_density": {"0": 0, "(0,0.2]": 0, "(0.2,0.5]": 0, ">0.5": 0},
         "pends_per_input": {}, "non_fused_inputs": 0, "inputs": 0,
         "hint_upper": {"exact": 0, "slack": 0, "none": 0, "near_usize_max": 0},
         "trace_len_total": 0, "pending_surfaced": 0, "ready_steps": 0, "ended_first_poll": 0}
    for c, r in zip(cases, results):
        d["combinator"][c["comb"]] = d["combinator"].get(c["comb"], 0) + 1
        for i in c["ins"][:COMBS[c["comb"]][0]]:
            s = i["s"]
            d["inputs"] += 1
            L = len(s)
            b = "0" if L == 0 else "1-3" if L <= 3 else "4-6" if L <= 6 else "7-15" if L <= 15 else "16-40" if L <= 40 else ">40"
            d["script_len"][b] += 1
            np_ = sum(1 for x in s if x == "P")
            dens = np_ / L if L else 0
            b = "0" if np_ == 0 else "(0,0.2]" if dens <= 0.2 else "(0.2,0.5]" if dens <= 0.5 else ">0.5"
            d["pend_density"][b] += 1
            k = str(np_) if np_ < 4 else "4+"
            d["pends_per_input"][k] = d["pends_per_input"].get(k, 0) + 1
            if not fused_script(s):
                d["non_fused_inputs"] += 1
            hi = i.get("hi")
            d["hint_upper"]["none" if hi is None else "exact" if hi == 0 else "near_usize_max" if hi > 1 << 60 else "slack"] += 1
        tr = r.get("trace", []) if isinstance(r, dict) else []
        d["trace_len_total"] += len(tr)
        d["pending_surfaced"] += sum(1 for x in tr if x[2] == "P")
        d["ready_steps"] += sum(1 for x in tr if isinstance(x[2], list))
        if tr and tr[0][2] == "E":
            d["ended_first_poll"] += 1
    return d


# ============================================================================== C13
# A C13 case:
#  {"k":"c13","mode":"inc","sem":"set"|"multi","pre":[[[k,v],..],[[k,v],..]],
#   "ins":[{"s":[[k,v]|"P",...]},{"s":[...]}],"extra":n}
#  {"k":"c13","mode":"ticks","sem":..,"persist":[b,b],"ticks":[[{"s":..},{"s":..}],...]}


def g_kv(x):
    return "(%d, %d)" % (x[0], x[1])


def g_kvscript(s):
    out = []
    for x in s:
        out.append("Pend" if x == "P" else "End" if x == "E" else "Rdy %s" % g_kv(x))
    return "[" + "; ".join(out) + "]"


def g_kvlist(l):
    return "[" + "; ".join(g_kv(x) for x in l) + "]"


def g_sem(s):
    return "SetSem" if s == "set" else "MultiSem"


def g_jcase(c):
    if c["mode"] == "inc":
        pre = c.get("pre") or [[], []]
        return "(JInc %s %s %s %s %s)" % (g_sem(c["sem"]), g_kvlist(pre[0]), g_kvlist(pre[1]),
                                          g_kvscript(c["ins"][0]["s"]), g_kvscript(c["ins"][1]["s"]))
    ticks = "; ".join("(%s, %s)" % (g_kvscript(t[0]["s"]), g_kvscript(t[1]["s"])) for t in c["ticks"])
    return "(JTicks %s %s %s [%s])" % (g_sem(c["sem"]), "true" if c["persist"][0] else "false",
                                       "true" if c["persist"][1] else "false", ticks)


def g_row(r):
    return "(%d, (%d, %d))" % (r[0], r[1], r[2])


def g_jobs(c, res):
    if c["mode"] == "inc":
        tr = []
        for lo, hi, st in res["trace"]:
            h = "(%d, %s)" % (lo, "None" if hi is None else "Some %d" % hi)
            if st == "P":
                s = "Pending"
            elif st == "E":
                s = "Ended"
            else:
                v = st[1]  # ["p", k, ["p", v1, v2]]
                s = "Ready %s" % g_row([v[1], v[2][1], v[2][2]])
            tr.append("(%s, %s)" % (h, s))
        t1, t2 = res["tables"]
        return "(JObs [%s] %s %d %s %d [])" % ("; ".join(tr), g_kvlist(t1["rows"]), t1["len"],
                                               g_kvlist(t2["rows"]), t2["len"])
    ticks = []
    for t in res["ticks"]:
        ticks.append("([%s], (%d, %d))" % ("; ".join(g_row(r) for r in t["rows"]), t["lens"][0], t["lens"][1]))
    return "(JObs [] [] 0 [] 0 [%s])" % "; ".join(ticks)


def c13_term(case, res):
    if (case["mode"] == "inc" and "trace" not in res) or (case["mode"] == "ticks" and "ticks" not in res):
        return 3
    return "jchk %s %s" % (g_jcase(case), g_jobs(case, res))


def rand_kvscript(rng, maxn, nk, nv, pend_num):
    s = []
    for _ in range(rng.range(0, maxn)):
        s.append([rng.below(nk), rng.below(nv)])
    for _ in range(pend_num):
        s.insert(rng.below(len(s) + 1), "P")
    return s


def rand_c13(rng):
    sem = rng.choice(["set", "multi"])
    nk, nv = rng.choice([(3, 3), (3, 3), (2, 2), (1, 3), (5, 2)])
    if rng.chance(7, 10):
        pre = None
        if rng.chance(3, 10):
            pre = [[[rng.below(nk), rng.below(nv)] for _ in range(rng.below(4))] for _ in range(2)]
        c = {"k": "c13", "mode": "inc", "sem": sem,
             "ins": [{"s": rand_kvscript(rng, rng.choice([4, 8, 12]), nk, nv, rng.below(4))} for _ in range(2)],
             "extra": rng.range(1, 3)}
        if pre is not None:
            c["pre"] = pre
        return c
    nt = rng.range(1, 4)
    return {"k": "c13", "mode": "ticks", "sem": sem, "persist": [rng.chance(1, 2), rng.chance(1, 2)],
            "ticks": [[{"s": rand_kvscript(rng, 6, nk, nv, rng.below(3))} for _ in range(2)] for _ in range(nt)]}


def exhaustive_c13():
    """both semantics x every pair of arrival sequences of length <= 2 over 2 keys x 2 values
    x every placement of <= 1 Pend per side"""
    dom = [[k, v] for k in range(2) for v in range(2)]
    side = []
    for n in range(3):
        for seq in itertools.product(dom, repeat=n):
            for k in range(2):
                side += list(placements(list(seq), k))
    cases = []
    for sem in ("set", "multi"):
        for a in side:
            for b in side:
                cases.append({"k": "c13", "mode": "inc", "sem": sem, "ins": [{"s": a}, {"s": b}], "extra": 1})
    return cases


def gen_c13(rng, tier, n, corpus=()):
    cases = list(corpus)
    if tier == "thorough":
        cases += exhaustive_c13()
    cases += [rand_c13(rng) for _ in range(n)]
    return cases


def shrink_c13(case):
    def scripts(c):
        if c["mode"] == "inc":
            return [("ins", i) for i in range(2)]
        return [("ticks", t, i) for t in range(len(c["ticks"])) for i in range(2)]

    def get(c, path):
        return c["ins"][path[1]]["s"] if path[0] == "ins" else c["ticks"][path[1]][path[2]]["s"]

    def put(c, path, s):
        import copy
        d = copy.deepcopy(c)
        if path[0] == "ins":
            d["ins"][path[1]]["s"] = s
        else:
            d["ticks"][path[1]][path[2]]["s"] = s
        return d

    if case["mode"] == "ticks" and len(case["ticks"]) > 1:
        for t in range(len(case["ticks"])):
            yield dict(case, ticks=case["ticks"][:t] + case["ticks"][t + 1:])
    if case.get("pre"):
        yield {k: v for k, v in case.items() if k != "pre"}
    for path in scripts(case):
        s = get(case, path)
        for j in range(len(s)):
            yield put(case, path, s[:j] + s[j + 1:])
    for path in scripts(case):
        s = get(case, path)
        for j, x in enumerate(s):
            if isinstance(x, list):
                for y in ([0, x[1]], [x[0], 0]):
                    if y != x:
                        yield put(case, path, s[:j] + [y] + s[j + 1:])


def dist_c13(cases, results):
    d = {"mode": {}, "sem": {}, "arrivals_per_side": {"0": 0, "1-2": 0, "3-4": 0, "5-8": 0, "9+": 0},
         "pends_per_side": {}, "preloaded": 0, "ticks_per_case": {}, "persist": {},
         "emitted_rows_total": 0, "cases_with_duplicate_arrivals": 0, "pending_surfaced": 0}
    for c, r in zip(cases, results):
        d["mode"][c["mode"]] = d["mode"].get(c["mode"], 0) + 1
        d["sem"][c["sem"]] = d["sem"].get(c["sem"], 0) + 1
        sides = c["ins"] if c["mode"] == "inc" else [x for t in c["ticks"] for x in t]
        dup = False
        for sd in sides:
            arr = [tuple(x) for x in sd["s"] if isinstance(x, list)]
            n = len(arr)
            b = "0" if n == 0 else "1-2" if n <= 2 else "3-4" if n <= 4 else "5-8" if n <= 8 else "9+"
            d["arrivals_per_side"][b] += 1
            k = str(sum(1 for x in sd["s"] if x == "P"))
            d["pends_per_side"][k] = d["pends_per_side"].get(k, 0) + 1
            dup = dup or len(set(arr)) < n
        d["cases_with_duplicate_arrivals"] += 1 if dup else 0
        if c.get("pre"):
            d["preloaded"] += 1
        if c["mode"] == "ticks":
            k = str(len(c["ticks"]))
            d["ticks_per_case"][k] = d["ticks_per_case"].get(k, 0) + 1
            k = "%s/%s" % tuple("static" if p else "tick" for p in c["persist"])
            d["persist"][k] = d["persist"].get(k, 0) + 1
            d["emitted_rows_total"] += sum(len(t["rows"]) for t in r.get("ticks", []))
        else:
            tr = r.get("trace", [])
            d["emitted_rows_total"] += sum(1 for x in tr if isinstance(x[2], list))
            d["pending_surfaced"] += sum(1 for x in tr if x[2] == "P")
    return d



# ============================================================================== c11x
# the rest of dfir_pipes::pull: stream adaptors, either, consuming futures
XCOMBS = ["iter", "once", "empty", "stream", "stream_compat", "either_l", "either_r", "stream_ready", "flat_map_stream",
          "flatten_stream", "filter_map_async", "collect", "for_each", "next", "accumulate",
          "send_push", "send_sink"]
XPULLS = {"iter", "once", "empty", "stream", "stream_compat", "either_l", "either_r", "stream_ready", "flat_map_stream",
          "flatten_stream", "filter_map_async"}
ST_VOCAB = {"s_rep": "SRep", "s_pp": "SPP", "s_empty": "SEmpty", "s_pend": "SPend", "s_endmid": "SEndMid"}
FU_VOCAB = {"a_half": "AHalf", "a_now": "ANow", "a_none": "ANone", "a_slow": "ASlow"}
ACC_VOCAB = {"fold": "AFold", "reduce": "AReduce", "fold_from": "AFoldFrom"}


def g_bools(l):
    return "[" + "; ".join("true" if b else "false" for b in l) + "]"


def g_src_scripts(i):
    """a source whose items are scripts (flatten_stream)"""
    steps = []
    for x in i["s"]:
        steps.append("Pend" if x == "P" else "End" if x == "E" else "Rdy %s" % g_script(x))
    hi = "None" if i.get("hi") is None else "(Some %d)" % i["hi"]
    return "(Src [%s] %d %s)" % ("; ".join(steps), i.get("lo", 0), hi)


def g_src_kv(i):
    hi = "None" if i.get("hi") is None else "(Some %d)" % i["hi"]
    return "(Src %s %d %s)" % (g_kvscript(i["s"]), i.get("lo", 0), hi)


def g_xcase(c):
    comb, ins = c["comb"], c["ins"]
    if comb in ("iter", "once", "empty"):
        return "(XSource [%s])" % "; ".join("%d" % x for x in ins[0]["s"])
    if comb in ("stream", "stream_compat", "either_l"):
        return "(XRelay %s)" % g_src(ins[0])
    if comb == "either_r":
        return "(XRelay %s)" % g_src(ins[1])
    if comb == "stream_ready":
        return "(XStreamReady %s)" % g_src(ins[0])
    if comb == "flat_map_stream":
        return "(XFlatMapStream %s %s)" % (ST_VOCAB[c["fn"]], g_src(ins[0]))
    if comb == "flatten_stream":
        return "(XFlattenStream %s)" % g_src_scripts(ins[0])
    if comb == "filter_map_async":
        return "(XFilterMapAsync %s %s)" % (FU_VOCAB[c["fn"]], g_src(ins[0]))
    if comb in ("collect", "for_each"):
        return "(XCollect %s)" % g_src(ins[0])
    if comb == "next":
        return "(XNext %s)" % g_src(ins[0])
    if comb == "accumulate":
        return "(XAccumulate %s %s)" % (ACC_VOCAB[c["fn"]], g_src_kv(ins[0]))
    if comb in ("send_push", "send_sink"):
        return "(XSend %s %s %s %s)" % ("true" if comb == "send_push" else "false",
                                        g_bools(c.get("ready", [])), g_bools(c.get("fin", [])), g_src(ins[0]))
    raise ValueError(comb)


def g_ev(e):
    if e[0] == "H":
        return "EHint (%d, %s)" % (e[1], "None" if e[2] is None else "Some %d" % e[2])
    if e[0] == "Rd":
        return "EReady %s" % ("true" if e[1] else "false")
    if e[0] == "S":
        return "ESend %d" % e[1]
    if e[0] == "F":
        return "EFin %s" % ("true" if e[1] else "false")
    raise ValueError(e)


def c11x_term(case, res):
    comb = case["comb"]
    if comb in XPULLS:
        if "trace" not in res:
            return 3
        return "xchk_pull %s %s" % (g_xcase(case), g_trace(res["trace"]))
    if "pendings" not in res:
        return 3
    r = res["result"]
    items, rows, nxt, log = "[]", "[]", "Pending", "[]"
    if comb in ("collect", "for_each"):
        items = "[" + "; ".join("%d" % x for x in r) + "]"
    elif comb == "next":
        nxt = "Pending" if r == "P" else "Ended" if r == "E" else "Ready %d" % r[1]
    elif comb == "accumulate":
        rows = g_kvlist(r)
    else:
        if any(e[0] == "flush" for e in r):
            return 3
        log = "[" + "; ".join(g_ev(e) for e in r) + "]"
    obs = "(FObs %d %s %d %s %s (%s) %s)" % (res["pendings"], "true" if res["completed"] else "false",
                                             res["after_end"], items, rows, nxt, log)
    return "xchk_fut %s %s" % (g_xcase(case), obs)


def rand_xcase(rng, comb=None):
    comb = comb or rng.choice(XCOMBS)
    pend_num = rng.choice([0, 1, 3, 5])
    maxlen = rng.choice([5, 12])
    fused = rng.chance(2, 3)
    c = {"k": "c11x", "comb": comb, "extra": rng.range(1, 3)}
    if comb in ("iter", "once", "empty"):
        n = 1 if comb == "once" else 0 if comb == "empty" else rng.range(0, 10)
        c["ins"] = [{"s": [rng.below(12) for _ in range(n)], "lo": 0, "hi": 0}]
    elif comb == "flatten_stream":
        s = []
        for _ in range(rng.range(0, 8)):
            if rng.chance(pend_num, 10):
                s.append("P")
            else:
                s.append(rand_script(rng, 4, 3, rng.chance(3, 4)))
        if not fused and s:
            s.insert(rng.below(len(s) + 1), "E")
        c["ins"] = [{"s": s, "lo": 0, "hi": rng.choice(HI_CHOICES)}]
    elif comb == "accumulate":
        c["ins"] = [{"s": rand_kvscript(rng, 8, 3, 6, rng.below(4)), "lo": 0, "hi": None}]
        if not fused:
            c["ins"][0]["s"].insert(rng.below(len(c["ins"][0]["s"]) + 1), "E")
        c["fn"] = rng.choice(sorted(ACC_VOCAB))
    else:
        c["ins"] = [rand_input(rng, maxlen, pend_num, fused)]
        if comb.startswith("either"):
            c["ins"].append(rand_input(rng, maxlen, pend_num, fused))
    if comb == "flat_map_stream":
        c["fn"] = rng.choice(sorted(ST_VOCAB))
    if comb == "filter_map_async":
        c["fn"] = rng.choice(sorted(FU_VOCAB))
    if comb in ("send_push", "send_sink"):
        c["ready"] = [rng.chance(2, 3) for _ in range(rng.below(8))]
        c["fin"] = [rng.chance(1, 2) for _ in range(rng.below(3))]
    return c


def exhaustive_xcases():
    """every adaptor x item sequences <= 4 x every placement of <= 2 Pend (closures rotate)"""
    cases = []
    one = all_scripts(4, 2, [3, 1, 4, 6])
    j = 0
    for comb in XCOMBS:
        if comb in ("flatten_stream", "accumulate", "iter", "once", "empty"):
            continue
        for s in one:
            j += 1
            c = {"k": "c11x", "comb": comb, "extra": 1, "ins": [{"s": s, "lo": 0, "hi": 0}]}
            if comb.startswith("either"):
                c["ins"].append({"s": list(reversed(s)), "lo": 0, "hi": None})
            if comb == "flat_map_stream":
                c["fn"] = sorted(ST_VOCAB)[j % len(ST_VOCAB)]
            if comb == "filter_map_async":
                c["fn"] = sorted(FU_VOCAB)[j % len(FU_VOCAB)]
            if comb in ("send_push", "send_sink"):
                c["ready"] = [(j >> b) & 1 == 0 for b in range(j % 4)]
                c["fin"] = [False] * (j % 2)
            cases.append(c)
    return cases


def shrink_x(case):
    ins = case["ins"]
    for i, inp in enumerate(ins):
        s = inp["s"]
        for j in range(len(s)):
            yield dict(case, ins=ins[:i] + [dict(inp, s=s[:j] + s[j + 1:])] + ins[i + 1:])
        if inp.get("lo", 0) != 0 or inp.get("hi") not in (0, None):
            yield dict(case, ins=ins[:i] + [dict(inp, lo=0, hi=0)] + ins[i + 1:])
    for k in ("ready", "fin"):
        if case.get(k):
            yield dict(case, **{k: case[k][:-1]})
    if case.get("extra", 0) > 1:
        yield dict(case, extra=1)


# ============================================================================== c11p
# pipelines: a source under 2-3 unary combinators
STAGES = {"map": "fn", "inspect": None, "filter": "pr", "filter_map": "op", "flat_map": "ls",
          "take_while": "pr", "skip_while": "pr", "take": "n", "skip": "n", "fuse": None}
GNAME = {"map": "GMap", "inspect": "GInspect", "filter": "GFilter", "filter_map": "GFilterMap",
         "flat_map": "GFlatMap", "take_while": "GTakeWhile", "skip_while": "GSkipWhile",
         "take": "GTake", "skip": "GSkip", "fuse": "GFuse"}


def g_stage(st):
    kind = STAGES[st["op"]]
    if kind == "n":
        return "(%s %d)" % (GNAME[st["op"]], st["n"])
    if kind:
        return "(%s %s)" % (GNAME[st["op"]], g_closure(kind, st["fn"]))
    return GNAME[st["op"]]


def c11p_term(case, res):
    if "trace" not in res:
        return 3
    stages = case["stages"]
    nflat = sum(1 for s in stages if s["op"] == "flat_map")
    horizon = 24 + len(res["trace"]) + 4 * len(case["ins"][0]["s"]) * (3 ** nflat)
    pc = "(PCase %d [%s] %s %s)" % (horizon, "; ".join(g_stage(s) for s in stages[:-1]),
                                    g_stage(stages[-1]), g_src(case["ins"][0]))
    return "pchk %s %s" % (pc, g_trace(res["trace"]))


def rand_pipe(rng):
    depth = rng.range(2, 3)
    stages = []
    for _ in range(depth):
        op = rng.choice(sorted(STAGES))
        st = {"op": op}
        kind = STAGES[op]
        if kind == "n":
            st["n"] = rng.below(5)
        elif kind:
            st["fn"] = rng.choice(VOCAB[kind])
        stages.append(st)
    return {"k": "c11p", "stages": stages, "extra": rng.range(1, 3),
            "ins": [rand_input(rng, rng.choice([4, 8]), rng.choice([0, 2, 4]), rng.chance(2, 3))]}


def shrink_pipe(case):
    if len(case["stages"]) > 1:
        for i in range(len(case["stages"])):
            yield dict(case, stages=case["stages"][:i] + case["stages"][i + 1:])
    inp = case["ins"][0]
    s = inp["s"]
    for j in range(len(s)):
        yield dict(case, ins=[dict(inp, s=s[:j] + s[j + 1:])])
    if inp.get("lo", 0) != 0 or inp.get("hi") not in (0, None):
        yield dict(case, ins=[dict(inp, lo=0, hi=0)])


# ---- a binary combinator over two pipelines
BTOP = {"zip": "BZip", "chain": "BChain", "zip_longest": "BZipLongest", "cross_singleton": "BCross"}


def rand_stages(rng, lo, hi):
    stages = []
    for _ in range(rng.range(lo, hi)):
        op = rng.choice(sorted(STAGES))
        st = {"op": op}
        kind = STAGES[op]
        if kind == "n":
            st["n"] = rng.below(5)
        elif kind:
            st["fn"] = rng.choice(VOCAB[kind])
        stages.append(st)
    return stages


def rand_bpipe(rng):
    pend = rng.choice([0, 2, 4])
    return {"k": "c11p", "bin": rng.choice(sorted(BTOP)), "extra": rng.range(1, 3),
            "stages": rand_stages(rng, 0, 2), "stages_b": rand_stages(rng, 0, 2),
            "ins": [rand_input(rng, rng.choice([4, 7]), pend, rng.chance(2, 3)) for _ in range(2)]}


def _horizon(stages, script, trace_len):
    nflat = sum(1 for s in stages if s["op"] == "flat_map")
    return 24 + trace_len + 4 * len(script) * (3 ** nflat)


def c11b_term(case, res):
    if "trace" not in res:
        return 3
    sa, sb = list(case["stages"]), list(case["stages_b"])
    # FusedPull inputs are obtained with fuse() in the harness
    if case["bin"] in ("chain", "zip_longest"):
        sa = sa + [{"op": "fuse"}]
    if case["bin"] == "zip_longest":
        sb = sb + [{"op": "fuse"}]
    h = max(_horizon(sa, case["ins"][0]["s"], len(res["trace"])),
            _horizon(sb, case["ins"][1]["s"], len(res["trace"])))
    bc = "(BCase %d [%s] %s [%s] %s %s)" % (h, "; ".join(g_stage(s) for s in sa), g_src(case["ins"][0]),
                                            "; ".join(g_stage(s) for s in sb), g_src(case["ins"][1]),
                                            BTOP[case["bin"]])
    return "bchk %s %s" % (bc, g_trace(res["trace"]))


def shrink_bpipe(case):
    for key in ("stages", "stages_b"):
        for i in range(len(case[key])):
            yield dict(case, **{key: case[key][:i] + case[key][i + 1:]})
    ins = case["ins"]
    for i, inp in enumerate(ins):
        s = inp["s"]
        for j in range(len(s)):
            yield dict(case, ins=ins[:i] + [dict(inp, s=s[:j] + s[j + 1:])] + ins[i + 1:])
        if inp.get("lo", 0) != 0 or inp.get("hi") not in (0, None):
            yield dict(case, ins=ins[:i] + [dict(inp, lo=0, hi=0)] + ins[i + 1:])
