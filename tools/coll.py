"""Coll engine (E2) support: generators, Gallina printers, shrinkers for
C10 (variadic collections, case kind "vc") and C08 (generalized hash tries, case kind "ght")."""
import glob
import json
import os

from tools.vlib import ROOT, g_bool

# ====================================================================== shared printing


def g_row(r):
    return "[" + "; ".join("%d" % x for x in r) + "]"


def g_rows(rs):
    return "[" + "; ".join(g_row(r) for r in rs) + "]"


def g_w(w):
    return "true" if w else "false"


def load_corpus(prop):
    out = []
    for p in sorted(glob.glob(os.path.join(ROOT, "corpus", prop, "*.json"))):
        c = json.load(open(p))
        c = c.get("case", c)
        c["src"] = "corpus:" + os.path.basename(p)
        out.append(c)
    return out


# ====================================================================== C10: variadic collections

KINDS = {"set": "KSet", "counted": "KCounted", "column": "KColumn"}


def vc_op_term(op):
    name, w = op[0], g_w(op[1])
    if name == "eq":
        return "OEq %s" % w
    body = {
        "ins": lambda: "SInsert %s" % g_row(op[2]),
        "ext": lambda: "SExtend %s" % g_rows(op[2]),
        "drain": lambda: "SDrain",
        "contains": lambda: "SContains %s" % g_row(op[2]),
        "get": lambda: "SGet %s" % g_row(op[2]),
        "len": lambda: "SLen",
        "is_empty": lambda: "SIsEmpty",
        "iter": lambda: "SIter",
        "into_iter": lambda: "SIntoIter",
    }[name]()
    return "On %s (%s)" % (w, body)


def vc_ans_term(a):
    if a == "unit":
        return "AUnit"
    if a == "unsupported":
        return "AUnsupported"
    if "b" in a:
        return "ABool %s" % g_bool(a["b"])
    if "n" in a:
        return "ANum %d" % a["n"]
    if "rows" in a:
        return "ARows %s" % g_rows(a["rows"])
    if "optrow" in a:
        return "AOptRow " + ("None" if a["optrow"] is None else "(Some %s)" % g_row(a["optrow"]))
    if "optent" in a:
        e = a["optent"]
        return "AOptEnt " + ("None" if e is None else "(Some (%s, %d))" % (g_row(e[0]), e[1]))
    raise ValueError(a)


def vc_term(case, res):
    """Gallina term of type N: bit0 model mismatch, bit1 C10 fails on the implementation."""
    if "ans" not in res or len(res["ans"]) != len(case["ops"]):
        return 3  # panic / hang / crash: the model never panics, no answer can be right
    try:
        answers = "[" + "; ".join(vc_ans_term(a) for a in res["ans"]) + "]"
    except (ValueError, TypeError, KeyError):
        return 3
    ops = "[" + "; ".join(vc_op_term(o) for o in case["ops"]) + "]"
    return "(c10_chk %s %d%%nat %s %s)" % (KINDS[case["kind"]], case["arity"], ops, answers)


def vc_oracle(case):
    """Expected answers from the history alone (plain Python multiset) -- used only to
    classify a failing case (finding key) and for the distribution; verdicts come from Coq."""
    kind = case["kind"]
    regs = [[], []]
    out = []

    def contents(h):
        if kind == "set":
            seen, res = set(), []
            for r in h:
                if tuple(r) not in seen:
                    seen.add(tuple(r))
                    res.append(r)
            return res
        return list(h)

    for op in case["ops"]:
        name, w = op[0], op[1]
        h = regs[w]
        if name == "ins":
            out.append({"b": (op[2] not in h) if kind == "set" else True})
            h.append(op[2])
        elif name == "ext":
            h.extend(op[2])
            out.append("unit")
        elif name == "drain":
            out.append({"rows": sorted(contents(h))})
            regs[w] = []
        elif name == "contains":
            out.append({"b": op[2] in h})
        elif name == "get":
            if kind == "set":
                out.append({"optrow": op[2] if op[2] in h else None})
            elif kind == "counted":
                out.append({"optent": [op[2], h.count(op[2])] if op[2] in h else None})
            else:
                out.append("unsupported")
        elif name == "len":
            out.append({"n": len(contents(h))})
        elif name == "is_empty":
            out.append({"b": len(h) == 0})
        elif name in ("iter", "into_iter"):
            out.append({"rows": sorted(contents(h))})
        elif name == "eq":
            o = regs[1 - w]
            if kind == "column":
                out.append("unsupported")
            else:
                out.append({"b": sorted(contents(h)) == sorted(contents(o))})
    return out


def vc_triggers(case):
    """indices of `extend` ops with a non-empty batch onto a non-empty register, per register"""
    size = [0, 0]
    trig = [[], []]
    for i, op in enumerate(case["ops"]):
        name, w = op[0], op[1]
        if name == "ins":
            size[w] += 1
        elif name == "ext":
            if size[w] > 0 and len(op[2]) > 0:
                trig[w].append(i)
            size[w] += len(op[2])
        elif name == "drain":
            size[w] = 0
    return trig


def vc_finding_key(case, res):
    """No open finding for C10 (the counted set's extend/reserve defect was fixed in /repo by
    38aff06f64c): every property failure is reported."""
    return None


def _rand_row(rng, arity, dom):
    return [rng.below(dom) for _ in range(arity)]


def _batch_size(rng, big_left):
    r = rng.below(10)
    if r < 5:
        return rng.range(0, 6)
    if r < 8 or big_left <= 0:
        return rng.range(7, 20)
    return rng.range(21, 64)


def gen_vc_case(rng, tier):
    kind = rng.choice(["set", "set", "counted", "counted", "counted", "column", "column"])
    arity = rng.range(2, 4)
    dom = rng.choice([2, 3, 4, 4, 4, 6, 40])
    nops = rng.range(1, 60) if rng.chance(3, 4) else rng.range(1, 12)
    # a third of the counted histories never extend a non-empty collection (kept from the time
    # the extend/reserve defect was open, so that other defects were not hidden behind it)
    ext_nonempty_ok = not (kind == "counted" and rng.chance(1, 3))
    big_left = 2 if tier == "quick" else 4
    regs = [[], []]
    ops = []
    while len(ops) < nops:
        w = 1 if rng.chance(3, 10) else 0
        h = regs[w]
        r = rng.below(100)
        if r < 24:
            row = rng.choice(h) if h and rng.chance(1, 3) else _rand_row(rng, arity, dom)
            ops.append(["ins", w, row])
            h.append(row)
        elif r < 40:
            if h and not ext_nonempty_ok:
                continue
            n = _batch_size(rng, big_left)
            if n > 20:
                big_left -= 1
            batch = [rng.choice(h) if h and rng.chance(1, 5) else _rand_row(rng, arity, dom) for _ in range(n)]
            ops.append(["ext", w, batch])
            h.extend(batch)
        elif r < 55:
            row = rng.choice(h) if h and rng.chance(3, 5) else _rand_row(rng, arity, dom)
            ops.append(["contains", w, row])
        elif r < 65:
            row = rng.choice(h) if h and rng.chance(3, 5) else _rand_row(rng, arity, dom)
            ops.append(["get", w, row])
        elif r < 72:
            ops.append(["len", w])
        elif r < 75:
            ops.append(["is_empty", w])
        elif r < 81:
            ops.append(["iter", w])
        elif r < 85:
            ops.append(["into_iter", w])
        elif r < 89:
            ops.append(["drain", w])
            regs[w] = []
        elif r < 94:
            ops.append(["eq", w])
        else:
            # make the other register hold the same rows (other order / other op mix), then compare
            o = 1 - w
            if regs[o]:
                ops.append(["drain", o])
                regs[o] = []
            rows = rng.shuffle(h)
            if len(rows) > 80:
                continue
            if kind == "set" and rng.chance(1, 2):
                rows = rows + rng.sample(rows, min(len(rows), 2))  # duplicates are invisible in a set
            if rng.chance(1, 2) or not ext_nonempty_ok:
                for row in rows:
                    ops.append(["ins", o, row])
            else:
                k = rng.below(len(rows) + 1)
                for row in rows[:k]:
                    ops.append(["ins", o, row])
                ops.append(["ext", o, rows[k:]])
            regs[o] = list(rows)
            if rng.chance(1, 3):
                extra = _rand_row(rng, arity, dom)
                ops.append(["ins", o, extra])
                regs[o].append(extra)
            ops.append(["eq", rng.below(2)])
    return {"k": "vc", "kind": kind, "arity": arity, "ops": ops[:max(nops, 1) + 90], "src": "rnd"}


def gen_vc(rng, tier, n):
    cases = load_corpus("C10")
    while len(cases) < n:
        cases.append(gen_vc_case(rng, tier))
    return cases


def shrink_vc(case):
    ops = case["ops"]
    n = len(ops)

    def mk(new_ops):
        c = dict(case)
        c["ops"] = new_ops
        c["src"] = "shrunk"
        return c

    # drop chunks of operations, then single operations (keep at least one)
    size = n // 2
    while size >= 1:
        for i in range(0, n, size):
            new = ops[:i] + ops[i + size:]
            if new:
                yield mk(new)
        size //= 2
    for i, op in enumerate(ops):
        if op[0] == "ext" and op[2]:
            b = op[2]
            for nb in (b[:len(b) // 2], b[len(b) // 2:], b[1:], b[:-1]):
                if len(nb) < len(b):
                    yield mk(ops[:i] + [[op[0], op[1], nb]] + ops[i + 1:])
    # smaller numbers
    for i, op in enumerate(ops):
        if op[0] in ("ins", "contains", "get"):
            for j, x in enumerate(op[2]):
                if x > 0:
                    row = list(op[2])
                    row[j] = 0
                    yield mk(ops[:i] + [[op[0], op[1], row]] + ops[i + 1:])


def vc_nontrivial(case, res):
    names = [o[0] for o in case["ops"]]
    return any(x in ("ins", "ext") for x in names) and any(
        x in ("contains", "get", "len", "iter", "into_iter", "drain", "eq", "is_empty") for x in names)


def vc_distribution(cases, results):
    d = {"kind": {}, "arity": {}, "ops": {}, "history_len": {"1-5": 0, "6-20": 0, "21-60": 0, "61+": 0},
         "extend_batch": {"0": 0, "1-6": 0, "7-20": 0, "21-64": 0, "65+": 0},
         "extend_onto_nonempty": 0, "eq_true": 0, "eq_false": 0, "contains_true": 0, "contains_false": 0,
         "panics_or_hangs": 0, "rows_inserted_total": 0}
    for c, r in zip(cases, results):
        d["kind"][c["kind"]] = d["kind"].get(c["kind"], 0) + 1
        d["arity"][str(c["arity"])] = d["arity"].get(str(c["arity"]), 0) + 1
        n = len(c["ops"])
        d["history_len"]["1-5" if n <= 5 else "6-20" if n <= 20 else "21-60" if n <= 60 else "61+"] += 1
        d["extend_onto_nonempty"] += sum(len(t) for t in vc_triggers(c))
        for op in c["ops"]:
            d["ops"][op[0]] = d["ops"].get(op[0], 0) + 1
            if op[0] == "ins":
                d["rows_inserted_total"] += 1
            if op[0] == "ext":
                b = len(op[2])
                d["rows_inserted_total"] += b
                d["extend_batch"]["0" if b == 0 else "1-6" if b <= 6 else "7-20" if b <= 20 else "21-64" if b <= 64 else "65+"] += 1
        if "ans" not in r:
            d["panics_or_hangs"] += 1
            continue
        for op, a in zip(c["ops"], r["ans"]):
            if op[0] == "eq" and isinstance(a, dict) and "b" in a:
                d["eq_true" if a["b"] else "eq_false"] += 1
            if op[0] == "contains" and isinstance(a, dict) and "b" in a:
                d["contains_true" if a["b"] else "contains_false"] += 1
    return d


# ====================================================================== C08: generalized hash tries

GHT_SHAPES = {  # mirror of harness/h_coll/src/ght.rs::shapes(); checked against it at run time
    "k1v1": {"nk": 1, "arity": 2, "nko": 2},
    "k2v1": {"nk": 2, "arity": 3, "nko": 3},
    "k2v0": {"nk": 2, "arity": 2, "nko": 2},
    "k1v2": {"nk": 1, "arity": 3, "nko": 3},
    "k3v1": {"nk": 3, "arity": 4, "nko": 4},
    "k0v2": {"nk": 0, "arity": 2, "nko": 2},
}


def ght_op_term(op, shape=None):
    name, w = op[0], g_w(op[1])
    if name == "join":
        return "GJoin %s" % w
    if name == "cart":
        return "GCart %s %d%%nat" % (w, GHT_SHAPES[shape]["nko"])
    if name == "force":
        return "GForce %s" % w
    if name == "ins":
        return "GInsert %s %s" % (w, g_row(op[2]))
    if name in ("merge", "lmerge"):
        return "GMerge %s" % w
    if name == "contains":
        return "GContains %s %s" % (w, g_row(op[2]))
    if name == "iter":
        return "GIter %s" % w
    if name == "prefix":
        return "GPrefix %s %s" % (w, g_row(op[2]))
    if name == "leaf":
        return "GLeaf %s %s" % (w, g_row(op[2]))
    return {"cmp": "GCmp", "eq": "GEq", "height": "GHeight", "is_bot": "GIsBot"}[name] + " " + w


def ght_ans_term(op, a):
    if not isinstance(a, dict):
        raise ValueError(a)
    if "panic" in a:
        if op[0] == "cmp":
            return "GACmp PPanic"
        raise ValueError(a)
    if "b" in a:
        return "GABool %s" % g_bool(a["b"])
    if "n" in a:
        return "GANum %d" % a["n"]
    if "rows" in a:
        return "GARows %s" % g_rows(a["rows"])
    if "optrows" in a:
        if a.get("forced_height", 1) != 1:
            raise ValueError(a)
        return "GAOptRows " + ("None" if a["optrows"] is None else "(Some %s)" % g_rows(a["optrows"]))
    if "cmp" in a:
        return "GACmp " + ("PNone" if a["cmp"] == "None" else "(PSome %s)" % a["cmp"])
    raise ValueError(a)


def ght_term(case, res):
    if "ans" not in res or len(res["ans"]) != len(case["ops"]):
        return 3
    try:
        answers = "[" + "; ".join(ght_ans_term(o, a) for o, a in zip(case["ops"], res["ans"])) + "]"
    except (ValueError, TypeError, KeyError):
        return 3  # a panic outside partial_cmp, or an unparsable answer: never right
    ops = "[" + "; ".join(ght_op_term(o, case["shape"]) for o in case["ops"]) + "]"
    return "(c08_chk %d%%nat %s %s)" % (GHT_SHAPES[case["shape"]]["nk"], ops, answers)


def ght_oracle(case):
    """expected answers from the history alone (Python sets); classification / statistics only"""
    nk = GHT_SHAPES[case["shape"]]["nk"]
    regs = [set(), set()]
    out = []
    for op in case["ops"]:
        name, w = op[0], op[1]
        s, o = regs[w], regs[1 - w]
        if name == "ins":
            s.add(tuple(op[2]))
            out.append({"b": True})
        elif name in ("merge", "lmerge"):
            out.append({"b": not o <= s})
            s |= o
        elif name == "contains":
            out.append({"b": tuple(op[2]) in s})
        elif name == "iter":
            out.append({"rows": sorted(list(r) for r in s)})
        elif name == "prefix":
            p = tuple(op[2])
            out.append({"rows": sorted(list(r) for r in s if r[:len(p)] == p)})
        elif name == "leaf":
            r = tuple(op[2])
            out.append({"optrows": sorted(list(x) for x in s if x[:nk] == r[:nk]) if r in s else None})
        elif name == "cmp":
            out.append({"cmp": "Eq" if s == o else "Lt" if s < o else "Gt" if s > o else "None"})
        elif name == "eq":
            out.append({"b": s == o})
        elif name == "height":
            out.append({"n": nk})
        elif name == "is_bot":
            out.append({"b": not s})
        elif name == "join":
            out.append({"rows": sorted({x + y[nk:] for x in s for y in o if x[:nk] == y[:nk]})})
            out[-1]["rows"] = [list(r) for r in out[-1]["rows"]]
        elif name == "cart":
            out.append({"rows": [list(r) for r in sorted({x + y for x in s for y in o})]})
        elif name == "force":
            out.append({"optrows": sorted(list(r) for r in s) if nk == 0 else None})
    return out


def ght_finding_key(case, res):
    """No open finding for C08 (the partial_cmp panic was fixed in /repo by 40ab16e7935):
    every property failure is reported."""
    return None


def gen_ght_case(rng, tier):
    shape = rng.choice(sorted(GHT_SHAPES))
    arity = GHT_SHAPES[shape]["arity"]
    dom = rng.choice([2, 3, 4, 4, 4])
    nops = rng.range(1, 40) if rng.chance(3, 4) else rng.range(1, 10)
    # merges of the other register and re-inserted rows keep many pairs comparable (see the
    # `cmp` histogram in the evidence), so wrong partial_cmp answers other than the known panic
    # are not hidden
    regs = [[], []]
    ops = []

    def row():
        return [rng.below(dom) for _ in range(arity)]

    while len(ops) < nops:
        w = 1 if rng.chance(2, 5) else 0
        h = regs[w]
        both = regs[0] + regs[1]
        if GHT_SHAPES[shape]["nk"] == 0 and rng.chance(1, 12):
            ops.append(["force", w])   # COLT force: only the root-leaf shape has it
            continue
        r = rng.below(100)
        if r < 34:
            x = rng.choice(both) if both and rng.chance(1, 3) else row()
            ops.append(["ins", w, x])
            h.append(x)
        elif r < 42:
            ops.append([rng.choice(["merge", "lmerge"]), w])
            regs[w] = h + regs[1 - w]
        elif r < 54:
            ops.append(["contains", w, rng.choice(both) if both and rng.chance(3, 5) else row()])
        elif r < 61:
            ops.append(["iter", w])
        elif r < 72:
            base = rng.choice(both) if both and rng.chance(3, 4) else row()
            ops.append(["prefix", w, base[:rng.range(0, arity)]])
        elif r < 79:
            ops.append(["leaf", w, rng.choice(both) if both and rng.chance(3, 4) else row()])
        elif r < 89:
            ops.append(["cmp", w])
        elif r < 93:
            ops.append(["eq", w])
        elif r < 96:
            ops.append(["join", w])
        elif r < 97:
            if len(set(map(tuple, regs[0]))) * len(set(map(tuple, regs[1]))) <= 150:
                ops.append(["cart", w])
        elif r < 98:
            ops.append(["height", w])
        else:
            ops.append(["is_bot", w])
    return {"k": "ght", "shape": shape, "ops": ops, "src": "rnd"}


def gen_ght(rng, tier, n):
    cases = load_corpus("C08")
    while len(cases) < n:
        cases.append(gen_ght_case(rng, tier))
    return cases


def shrink_ght(case):
    ops = case["ops"]
    n = len(ops)

    def mk(new_ops):
        c = dict(case)
        c["ops"] = new_ops
        c["src"] = "shrunk"
        return c

    size = n // 2
    while size >= 1:
        for i in range(0, n, size):
            new = ops[:i] + ops[i + size:]
            if new:
                yield mk(new)
        size //= 2
    for i, op in enumerate(ops):
        if op[0] in ("ins", "contains", "leaf", "prefix"):
            for j, x in enumerate(op[2]):
                if x > 0:
                    r = list(op[2])
                    r[j] = 0
                    yield mk(ops[:i] + [[op[0], op[1], r]] + ops[i + 1:])


def ght_nontrivial(case, res):
    names = [o[0] for o in case["ops"]]
    return "ins" in names and any(x not in ("ins", "height") for x in names)


def ght_distribution(cases, results):
    d = {"shape": {}, "ops": {}, "cmp": {}, "merge_changed": {"true": 0, "false": 0},
         "history_len": {"1-5": 0, "6-20": 0, "21-40": 0, "41+": 0}, "prefix_len": {},
         "leaf_found": 0, "leaf_missing": 0, "case_level_panics_or_hangs": 0,
         "join_rows": {"0": 0, "1-5": 0, "6+": 0}, "cart_rows": {"0": 0, "1-20": 0, "21+": 0}}
    for c, r in zip(cases, results):
        d["shape"][c["shape"]] = d["shape"].get(c["shape"], 0) + 1
        n = len(c["ops"])
        d["history_len"]["1-5" if n <= 5 else "6-20" if n <= 20 else "21-40" if n <= 40 else "41+"] += 1
        for op in c["ops"]:
            d["ops"][op[0]] = d["ops"].get(op[0], 0) + 1
            if op[0] == "prefix":
                k = str(len(op[2]))
                d["prefix_len"][k] = d["prefix_len"].get(k, 0) + 1
        if "ans" not in r:
            d["case_level_panics_or_hangs"] += 1
            continue
        for op, a in zip(c["ops"], r["ans"]):
            if not isinstance(a, dict):
                continue
            if op[0] == "cmp":
                k = "panic" if "panic" in a else a.get("cmp", "?")
                d["cmp"][k] = d["cmp"].get(k, 0) + 1
            if op[0] in ("merge", "lmerge") and "b" in a:
                d["merge_changed"]["true" if a["b"] else "false"] += 1
            if op[0] == "join" and "rows" in a:
                n = len(a["rows"])
                d["join_rows"]["0" if n == 0 else "1-5" if n <= 5 else "6+"] += 1
            if op[0] == "cart" and "rows" in a:
                n = len(a["rows"])
                d["cart_rows"]["0" if n == 0 else "1-20" if n <= 20 else "21+"] += 1
            if op[0] == "leaf" and "optrows" in a:
                d["leaf_found" if a["optrows"] is not None else "leaf_missing"] += 1
    return d


# ====================================================================== C08 extended: storage kinds, forced, drains, COLT

GHT2_SHAPES = {"k1v1": {"nk": 1, "arity": 2}, "k2v1": {"nk": 2, "arity": 3}, "k0v2": {"nk": 0, "arity": 2}}
X_KEYS = {}  # former classes: 1 forced flag in == (fixed beb89003dcf), 2 empty child counts as content (fixed c041ccb5709)


def x_op_term(op):
    name, w = op[0], g_w(op[1])
    if name == "ins":
        return "XInsert %s %s" % (w, g_row(op[2]))
    if name == "contains":
        return "XContains %s %s" % (w, g_row(op[2]))
    if name == "child_drain":
        return "XChildDrain %s %d" % (w, op[2])
    return {"merge": "XMerge", "iter": "XIter", "cmp": "XCmp", "eq": "XEq", "is_bot": "XIsBot",
            "force_drain": "XForceDrain"}[name] + " " + w


def x_ans_term(op, a):
    if a == "inner":
        return "XAInner"
    if a == "unsupported":
        return "XAUnsupported"
    if not isinstance(a, dict):
        raise ValueError(a)
    if "panic" in a:
        if op[0] == "cmp":
            return "XACmp PPanic"
        raise ValueError(a)
    if "b" in a:
        return "XABool %s" % g_bool(a["b"])
    if "rows" in a:
        return "XARows %s" % g_rows(a["rows"])
    if "optrows" in a:
        return "XAOptRows " + ("None" if a["optrows"] is None else "(Some %s)" % g_rows(a["optrows"]))
    if "cmp" in a:
        return "XACmp " + ("PNone" if a["cmp"] == "None" else "(PSome %s)" % a["cmp"])
    raise ValueError(a)


def ght2_term(case, res):
    if "ans" not in res or len(res["ans"]) != len(case["ops"]):
        return 3
    try:
        answers = "[" + "; ".join(x_ans_term(o, a) for o, a in zip(case["ops"], res["ans"])) + "]"
    except (ValueError, TypeError, KeyError):
        return 3
    sh = GHT2_SHAPES[case["shape"]]
    ops = "[" + "; ".join(x_op_term(o) for o in case["ops"]) + "]"
    return "(c08x_chk %s %d%%nat %d%%nat %s %s)" % (KINDS[case["storage"]], sh["arity"], sh["nk"], ops, answers)


def gen_ght2_case(rng, tier, drains=True):
    shape = rng.choice(sorted(GHT2_SHAPES))
    storage = rng.choice(["set", "set", "counted", "column"])
    sh = GHT2_SHAPES[shape]
    dom = rng.choice([2, 3, 3, 4])
    nops = rng.range(1, 30)
    ops = []
    rows = []

    def row():
        return [rng.below(dom) for _ in range(sh["arity"])]

    while len(ops) < nops:
        w = 1 if rng.chance(2, 5) else 0
        r = rng.below(100)
        if r < 38:
            x = rng.choice(rows) if rows and rng.chance(1, 3) else row()
            rows.append(x)
            ops.append(["ins", w, x])
        elif r < 48:
            ops.append(["merge", w])
        elif r < 60:
            ops.append(["contains", w, rng.choice(rows) if rows and rng.chance(3, 5) else row()])
        elif r < 70:
            ops.append(["iter", w])
        elif r < 80:
            ops.append(["cmp", w])
        elif r < 88:
            ops.append(["eq", w])
        elif r < 92:
            ops.append(["is_bot", w])
        elif drains and r < 96:
            ops.append(["force_drain", w])
            if rng.chance(1, 2):
                ops.append([rng.choice(["eq", "cmp", "merge", "iter"]), rng.below(2)])
        elif drains:
            ops.append(["child_drain", w, rng.choice(rows)[0] if rows and rng.chance(3, 4) else rng.below(dom)])
            if rng.chance(1, 2):
                ops.append([rng.choice(["eq", "cmp", "merge", "child_drain"]), rng.below(2)] )
                if ops[-1][0] == "child_drain":
                    ops[-1].append(ops[-2][2])
    return {"k": "ght2", "storage": storage, "shape": shape, "ops": ops, "drains": drains, "src": "rnd"}


def shrink_ops_generic(case):
    ops = case["ops"]
    n = len(ops)

    def mk(new_ops):
        c = dict(case)
        c["ops"] = new_ops
        c["src"] = "shrunk"
        return c

    size = n // 2
    while size >= 1:
        for i in range(0, n, size):
            new = ops[:i] + ops[i + size:]
            if new:
                yield mk(new)
        size //= 2


# ---- COLT forests


def c_op_term(op):
    if op[0] == "ins":
        return "CInsert %s" % g_row(op[1])
    if op[0] == "get":
        return "CGet %s" % g_row(op[1])
    return "CAll"


def c_ans_term(a):
    if a == "unit":
        return "CAUnit"
    return "CAForest [" + "; ".join(g_rows(e) for e in a["forest"]) + "]"


def colt_term(case, res):
    if "ans" not in res or len(res["ans"]) != len(case["ops"]):
        return 3
    try:
        answers = "[" + "; ".join(c_ans_term(a) for a in res["ans"]) + "]"
    except (ValueError, TypeError, KeyError):
        return 3
    ops = "[" + "; ".join(c_op_term(o) for o in case["ops"]) + "]"
    a = case["arity"]
    return "(colt_chk KColumn %d%%nat %d%%nat %s %s)" % (a, a + 1, ops, answers)


def gen_colt_case(rng, tier):
    arity = rng.choice([2, 3, 3, 4])
    dom = rng.choice([2, 3, 3])
    nops = rng.range(1, 25)
    ops = []
    rows = []
    for _ in range(nops):
        r = rng.below(100)
        if r < 50:
            x = rng.choice(rows) if rows and rng.chance(1, 4) else [rng.below(dom) for _ in range(arity)]
            rows.append(x)
            ops.append(["ins", x])
        elif r < 88:
            base = rng.choice(rows) if rows and rng.chance(3, 4) else [rng.below(dom) for _ in range(arity)]
            ops.append(["get", base[:rng.range(1, arity)]])
        else:
            ops.append(["all"])
    ops.append(["all"])
    return {"k": "colt", "arity": arity, "ops": ops, "src": "rnd"}


# ---- mixing the three kinds of C08 cases


def c08_term(case, res):
    k = case.get("k")
    if k == "ght":
        return ght_term(case, res)
    if k == "ght2":
        return ght2_term(case, res)
    if k == "colt":
        return colt_term(case, res)
    return 3


def exhaustive_pairs():
    """small-scope sweep: every pair of tries over the domain {0,1}^arity (all subsets for the
    2-column shapes, subsets of size <= 2 for the 3-column shapes), inserted in two different
    orders, observed with every binary operation"""
    import itertools
    out = []
    tail = [["cmp", 0], ["cmp", 1], ["eq", 0], ["is_bot", 0], ["is_bot", 1], ["join", 0], ["iter", 0],
            ["merge", 0], ["iter", 0], ["cmp", 0], ["eq", 0], ["lmerge", 1], ["eq", 1]]
    for shape in ("k1v1", "k2v0", "k0v2", "k2v1", "k1v2"):
        arity = GHT_SHAPES[shape]["arity"]
        rows = [list(r) for r in itertools.product((0, 1), repeat=arity)]
        if arity == 2:
            subsets = [list(c) for k in range(len(rows) + 1) for c in itertools.combinations(rows, k)]
        else:
            subsets = [list(c) for k in range(3) for c in itertools.combinations(rows, k)]
        for a in subsets:
            for b in subsets:
                ops = [["ins", 0, r] for r in a] + [["ins", 1, r] for r in reversed(b)] + tail
                out.append({"k": "ght", "shape": shape, "ops": ops, "src": "exh"})
    return out


def exhaustive_colt():
    """small-scope sweep of COLT forests: every multiset-free subset of {0,1}^2 inserted, then
    every pair of get paths (lengths 1 and 2), observing the result forests and all rows"""
    import itertools
    rows = [list(r) for r in itertools.product((0, 1), repeat=2)]
    paths = [[0], [1]] + rows
    out = []
    for k in range(len(rows) + 1):
        for sub in itertools.combinations(rows, k):
            for p in paths:
                for q in paths:
                    ops = [["ins", r] for r in sub] + [["get", p], ["all"], ["get", q], ["all"]]
                    out.append({"k": "colt", "arity": 2, "ops": ops, "src": "exh"})
    return out


def gen_c08(rng, tier, n):
    cases = load_corpus("C08")
    if tier == "thorough":
        cases += exhaustive_pairs()
        cases += exhaustive_colt()
    while len(cases) < n:
        r = rng.below(10)
        if r < 5:
            cases.append(gen_ght_case(rng, tier))
        elif r < 8:
            cases.append(gen_ght2_case(rng, tier, drains=rng.chance(1, 2)))
        else:
            cases.append(gen_colt_case(rng, tier))
    return cases


def shrink_c08(case):
    if case.get("k") == "ght":
        return shrink_ght(case)
    return shrink_ops_generic(case)


class VerdictRecorder:
    """State-based finding classification: the Coq verdict carries, above bits 0-1, the class of
    the deviations computed from the MODEL's state (ModelGHT2.cause).  vlib hands finding_key only
    (case, result), so the verdicts of the last evaluation are recorded here by wrapping
    vlib.evaluate (tools/vlib.py itself is not edited)."""

    def __init__(self, vlib):
        self.by_case = {}
        orig = vlib.evaluate
        rec = self

        def wrapped(ctx, spec, binary, cases):
            results, verd = orig(ctx, spec, binary, cases)
            for c, v in zip(cases, verd):
                rec.by_case[vlib.case_hash(c)] = v
            return results, verd

        vlib.evaluate = wrapped
        self.vlib = vlib

    def klass(self, case):
        v = self.by_case.get(self.vlib.case_hash(case))
        return None if v is None else (v >> 2) & 3


def c08_nontrivial(case, res):
    if case.get("k") == "ght":
        return ght_nontrivial(case, res)
    names = [o[0] for o in case["ops"]]
    return "ins" in names and len(set(names)) > 1


def c08_distribution(cases, results):
    g = [(c, r) for c, r in zip(cases, results) if c.get("k") == "ght"]
    d = ght_distribution([c for c, _ in g], [r for _, r in g])
    d["case_kinds"] = {}
    d["ght2_storage"] = {}
    d["ght2_ops"] = {}
    d["colt_ops"] = {}
    for c in cases:
        k = c.get("k")
        d["case_kinds"][k] = d["case_kinds"].get(k, 0) + 1
        if k == "ght2":
            d["ght2_storage"][c["storage"]] = d["ght2_storage"].get(c["storage"], 0) + 1
            for op in c["ops"]:
                d["ght2_ops"][op[0]] = d["ght2_ops"].get(op[0], 0) + 1
        if k == "colt":
            for op in c["ops"]:
                key = op[0] + (str(len(op[1])) if op[0] == "get" else "")
                d["colt_ops"][key] = d["colt_ops"].get(key, 0) + 1
    return d


# ====================================================================== C10: variadics/src/lib.rs tuple-list operations


def _g_opt_n(x):
    return "None" if x is None else "(Some %d)" % x


def var_term(case, res):
    need = ("reverse", "extend", "len", "splits", "suffix_splits", "hget", "into_iter", "into_option", "eq",
            "vec_zip", "vec_get", "vec_drained")
    if any(k not in res for k in need):
        return 3
    # the by-reference / const variants must agree with the by-value ones
    if (res.get("reverse_ref") != res["reverse"] or res.get("LEN") != res["len"] or res.get("eq_ref") != res["eq"]
            or res.get("as_ref") != case["row"] or res.get("into_zip") != res["vec_zip"]):
        return 3

    def pairs(ps):
        return "[" + "; ".join("(Some (%s, %s))" % (g_row(p[0]), g_row(p[1])) for p in ps) + "]"

    d = res["vec_drained"]
    obs = "(Build_vobs %s %s %d %s %s %s %s %s %s %s %s %s)" % (
        g_row(res["reverse"]), g_row(res["extend"]), res["len"], pairs(res["splits"]), pairs(res["suffix_splits"]),
        "[" + "; ".join(_g_opt_n(x) for x in res["hget"]) + "]", g_row(res["into_iter"]),
        "[" + "; ".join(_g_opt_n(x) for x in res["into_option"]) + "]", g_bool(res["eq"]),
        g_rows(res["vec_zip"]), "None" if res["vec_get"] is None else "(Some %s)" % g_row(res["vec_get"]),
        "None" if d is None else "(Some (%s, %s))" % (g_rows(d[0]), g_rows(d[1])))
    return "(var_chk %s %s %s %d%%nat %d%%nat %d%%nat %s)" % (
        g_row(case["row"]), g_row(case["row2"]), g_rows(case["rows"]), case["idx"], case["lo"], case["hi"], obs)


def gen_var_case(rng, tier):
    arity = rng.range(1, 4)
    dom = rng.choice([2, 3, 10, 1000])
    row = [rng.below(dom) for _ in range(arity)]
    r = rng.below(4)
    row2 = list(row) if r == 0 else [rng.below(dom) for _ in range(arity)]
    if r == 1:
        row2 = list(row)
        row2[rng.below(arity)] += 1
    nrows = rng.range(0, 6)
    rows = [[rng.below(dom) for _ in range(arity)] for _ in range(nrows)]
    lo = rng.range(0, nrows + 1)
    hi = rng.range(0, nrows + 1) if rng.chance(1, 4) else rng.range(min(lo, nrows), nrows)
    return {"k": "var", "row": row, "row2": row2, "rows": rows, "idx": rng.range(0, nrows + 1),
            "lo": lo, "hi": hi, "src": "rnd"}


def c10_term(case, res):
    return var_term(case, res) if case.get("k") == "var" else vc_term(case, res)


def gen_c10(rng, tier, n):
    cases = gen_vc(rng, tier, n)
    for _ in range(max(60, n // 4)):
        cases.append(gen_var_case(rng, tier))
    return cases


def c10_distribution(cases, results):
    v = [(c, r) for c, r in zip(cases, results) if c.get("k") == "vc"]
    d = vc_distribution([c for c, _ in v], [r for _, r in v])
    var = [c for c in cases if c.get("k") == "var"]
    d["variadic_op_cases"] = {"count": len(var), "arity": {}, "drain_ok": 0, "drain_panics": 0}
    for c, r in zip(cases, results):
        if c.get("k") != "var":
            continue
        a = str(len(c["row"]))
        d["variadic_op_cases"]["arity"][a] = d["variadic_op_cases"]["arity"].get(a, 0) + 1
        d["variadic_op_cases"]["drain_ok" if r.get("vec_drained") is not None else "drain_panics"] += 1
    return d
