#!/usr/bin/env python3
"""Run checks against a seeded change without touching /repo:
   tools/seedcheck.py <dir with patch.diff> <prop> [<prop> ...]
A detached worktree of /repo HEAD is created under /tmp, the patch applied there, each
check's quick tier run with HV_REPO pointing at it (harnesses are rebuilt against the
worktree in a separate target dir), results written to <dir>/checks_result.json, and the
worktree removed."""
import json
import os
import subprocess
import sys
import time

ROOT = os.path.dirname(os.path.dirname(os.path.abspath(__file__)))


def sh(cmd, **kw):
    return subprocess.run(cmd, shell=True, stdout=subprocess.PIPE, stderr=subprocess.STDOUT, text=True, **kw)


def main():
    d = os.path.abspath(sys.argv[1])
    props = sys.argv[2:]
    # a fixed path when free: stageleft names staged macros after the checkout path, so generated
    # crates cached in the -alt target dirs are only reusable for the same path
    wt = "/tmp/seed_wt"
    if os.path.exists(wt):
        wt = "/tmp/seed_wt_%d" % os.getpid()
    r = sh("git -C /repo worktree add --detach %s HEAD" % wt)
    if r.returncode != 0:
        print(r.stdout)
        sys.exit(2)
    out = {"worktree_of": sh("git -C /repo rev-parse HEAD").stdout.strip(), "checks": {}}
    saved = {}
    for p in props:
        path = os.path.join(ROOT, "evidence", p + ".json")
        saved[p] = open(path).read() if os.path.exists(path) else None
    try:
        r = sh("git -C %s apply %s/patch.diff" % (wt, d))
        if r.returncode != 0:
            print("patch does not apply:\n" + r.stdout)
            sys.exit(2)
        for p in props:
            t0 = time.time()
            env = dict(os.environ, HV_REPO=wt)
            r = sh("./vcheck %s --tier quick" % p, cwd=ROOT, env=env)
            lines = [l for l in r.stdout.split("\n") if l.startswith(("VIOLATION", "KNOWN-FINDING", "OK ", "FRAMEWORK"))]
            out["checks"][p] = {"rc": r.returncode, "lines": lines, "wall_s": round(time.time() - t0, 1)}
            print(p, "rc=%d" % r.returncode, lines[:3])
            for l in lines:
                if l.startswith("VIOLATION") and "replay=" in l:
                    rp = l.split("replay=")[1].split()[0]
                    if os.path.exists(rp):
                        dst = os.path.join(d, "replay_%s_%s" % (p, os.path.basename(rp)))
                        open(dst, "w").write(open(rp).read())
    finally:
        sh("git -C /repo worktree remove --force %s" % wt)
        sh("rm -rf %s/work/harness_alt" % ROOT)
    # results of checks not re-run this time are kept (a later run of one check must not erase
    # what other checks reported about the same seeded change)
    rp = os.path.join(d, "checks_result.json")
    try:
        old = json.load(open(rp)).get("checks", {})
    except Exception:
        old = {}
    for p, v in old.items():
        out["checks"].setdefault(p, v)
    json.dump(out, open(rp, "w"), indent=1)
    # evidence files of the checked properties were rewritten against the seeded tree: put
    # back what was there before (only those files; other work may be rewriting the rest)
    for p, content in saved.items():
        path = os.path.join(ROOT, "evidence", p + ".json")
        if content is None:
            if os.path.exists(path):
                os.remove(path)
        else:
            open(path, "w").write(content)


if __name__ == "__main__":
    main()
