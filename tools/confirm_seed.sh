#!/bin/sh
# (sequential use only) Confirm a seeded change delivered by a mutation sub-agent, in a scratch worktree of /repo HEAD:
#   tools/confirm_seed.sh <out_dir> <demo_src> <demo_dest_in_repo> "<cargo test args of the demo>" "<cargo test args of existing tests>"
# 1. patch applies; 2. demo FAILS with the change; 3. existing tests (the given targets) PASS with the
# change; 4. demo PASSES without the change.  Writes <out_dir>/confirmed.txt.  The worktree is
# removed at the end; the shared target dir /tmp/cf_target is kept between confirmations (remove
# it when the batch is done).
out="$1"; demo="$2"; dest="$3"; demo_args="$4"; exist_args="$5"
# fixed path: stageleft names its staged macros after the checkout path, so the trybuild cache in
# the shared target dir is only valid for one path; confirmations therefore run one at a time
wt=${CF_WT:-/tmp/cf_wt}
export CARGO_NET_OFFLINE=true CARGO_TARGET_DIR=${CF_TARGET:-/tmp/cf_target} RUST_BACKTRACE=0
log="$out/confirmed.txt"
: > "$log"
git -C /repo worktree add --detach "$wt" HEAD -q || { echo "worktree failed" >> "$log"; exit 2; }
cd "$wt" || exit 2
if git apply "$out/patch.diff"; then echo "patch: applies to $(git -C /repo rev-parse --short HEAD)" >> "$log"; else echo "patch: DOES NOT APPLY" >> "$log"; cd /; git -C /repo worktree remove --force "$wt"; exit 1; fi
mkdir -p "$(dirname "$dest")"; cp "$out/$demo" "$dest"
# in-crate demonstrations: CF_APPEND_FILE / CF_APPEND_TEXT register the copied module
if [ -n "$CF_APPEND_FILE" ]; then printf '%b' "$CF_APPEND_TEXT" >> "$CF_APPEND_FILE"; fi
timeout 5400 cargo test --offline $demo_args > /tmp/cf_demo_with_$$.log 2>&1; rc=$?
echo "demo with change: rc=$rc $(grep -E '^test result' /tmp/cf_demo_with_$$.log | tr '\n' ' ')" >> "$log"
if [ -n "$exist_args" ]; then
  timeout 7200 cargo test --offline $exist_args > /tmp/cf_exist_$$.log 2>&1; rc=$?
  echo "existing tests with change ($exist_args): rc=$rc passed=$(grep -E '^test result' /tmp/cf_exist_$$.log | sed -E 's/.* ([0-9]+) passed.*/\1/' | paste -sd+ | bc) failed=$(grep -E '^test result' /tmp/cf_exist_$$.log | sed -E 's/.* ([0-9]+) failed.*/\1/' | paste -sd+ | bc)" >> "$log"
  grep -E "^test .* FAILED|^error" /tmp/cf_exist_$$.log | head -10 >> "$log"
fi
git apply -R "$out/patch.diff"
timeout 5400 cargo test --offline $demo_args > /tmp/cf_demo_without_$$.log 2>&1; rc=$?
echo "demo without change: rc=$rc $(grep -E '^test result' /tmp/cf_demo_without_$$.log | tr '\n' ' ')" >> "$log"
cd /
git -C /repo worktree remove --force "$wt"
rm -f /tmp/cf_demo_with_$$.log /tmp/cf_demo_without_$$.log /tmp/cf_exist_$$.log
cat "$log"
