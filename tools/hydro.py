"""Hydro engine (E8) support: corpus registry, tick-partition generators, Gallina printers,
emission-table extraction, source scans (HydroNode variants, trusted-assumption call sites)."""
import itertools
import os
import re

from tools import vlib

REPO = vlib.REPO

# ---------------------------------------------------------------------------- corpus registry
# name -> inputs ('n' = u32 item, 'kv' = (u32,u32) pair), kind:
#   'ord'   stream typed TotalOrder      'unord' stream typed NoOrder
#   'agg'   singleton / optional         'keyed' keyed singleton (entries)
# heavy: quadratic outputs (join / cross) -> smaller "large" inputs
# plumbing: DFIR operator tokens the observation wrapper adds (none so far)


def F(inputs, kind, heavy=False, plumbing=(), props=("C28",)):
    return dict(inputs=list(inputs), kind=kind, heavy=heavy, plumbing=list(plumbing), props=set(props))


FLOWS = {
    "f_map": F(["n"], "ord", props=("C28", "C29")),
    "f_filter": F(["n"], "ord", props=("C28", "C29")),
    "f_flat_map": F(["n"], "ord", props=("C28", "C29")),
    "f_filter_map": F(["n"], "ord", props=("C28", "C29")),
    "f_enumerate": F(["n"], "ord", props=("C28", "C29")),
    "f_unique": F(["n"], "ord", props=("C28", "C29")),
    "f_union": F(["n", "n"], "unord"),
    "f_join": F(["kv", "kv"], "unord", heavy=True),
    "f_cross": F(["n", "n"], "unord", heavy=True),
    "f_anti_join": F(["kv"], "ord", props=("C28", "C29")),
    "f_fold": F(["n"], "agg", props=("C28", "C29")),
    "f_fold_comm": F(["n"], "agg"),
    "f_count": F(["n"], "agg", props=("C28", "C33")),
    "f_max": F(["n"], "agg", props=("C28", "C33")),
    "f_min": F(["n"], "agg"),
    "f_last": F(["n"], "agg", props=("C28", "C29")),
    "f_reduce": F(["n"], "agg", props=("C28", "C29")),
    "f_fold_keyed": F(["kv"], "keyed", props=("C28", "C29")),
    "f_reduce_keyed": F(["kv"], "keyed", props=("C28", "C29")),
    "f_map_filter_unique": F(["n"], "ord", props=("C28", "C29")),
    "f_flat_map_enumerate": F(["n"], "ord", props=("C28", "C29")),
    "f_join_fold": F(["kv", "kv"], "agg", heavy=True),
    "f_union_unique_count": F(["n", "n"], "agg", props=("C28", "C33")),
    "f_cross_filter": F(["n", "n"], "unord", heavy=True),
    "f_unique_join": F(["kv", "kv"], "unord", heavy=True),
    "f_count_map": F(["n"], "agg"),
    "f_anti_join_unique": F(["kv"], "ord", props=("C28", "C29")),
    "f_keyed_max": F(["kv"], "keyed", props=("C28", "C29")),
}

TICK_FLOWS = {
    "t_fold": F(["n"], "agg", props=("C30",)),
    "t_reduce": F(["n"], "agg", props=("C30",)),
    "t_count": F(["n"], "agg", props=("C30", "C32")),
    "t_max": F(["n"], "agg", props=("C30", "C32")),
    "t_min": F(["n"], "agg", props=("C30", "C32")),
    "t_first": F(["n"], "agg", props=("C30", "C32")),
    "t_last": F(["n"], "agg", props=("C30", "C32")),
    "t_limit": F(["n"], "ord", props=("C30",)),
    "t_sort": F(["kv"], "ord", props=("C30",)),
    "t_enumerate": F(["n"], "ord", props=("C30",)),
    "t_unique": F(["n"], "ord", props=("C30",)),
    "t_chain": F(["n", "n"], "ord", props=("C30",)),
    "t_join": F(["kv", "kv"], "ord", heavy=True, props=("C30",)),
    "t_cross": F(["n", "n"], "ord", heavy=True, props=("C30",)),
    "t_anti_join": F(["kv", "n"], "ord", props=("C30",)),
    "t_cross_singleton": F(["n", "n"], "ord", props=("C30",)),
    "t_fold_keyed": F(["kv"], "keyed", props=("C30",)),
    "t_reduce_keyed": F(["kv"], "keyed", props=("C30",)),
    "t_defer": F(["n"], "ord", props=("C30",)),
    "t_defer_chain": F(["n", "n"], "ord", props=("C30",)),
    "t_defer_count": F(["n"], "agg", props=("C30",)),
    "t_sort_enumerate_fold": F(["n"], "agg", props=("C30",)),
    "t_cycle": F(["n"], "ord", props=("C30",)),
}
# flows with inputs typed NoOrder (index list): the driver may present them in any order
TICK_FLOWS["t_join_half_unord"] = F(["kv", "kv"], "ord", props=("C29",))
TICK_FLOWS["t_join_half_unord"]["unordered"] = [1]
for _n, _i in [("u_max", "n"), ("u_min", "n"), ("u_count", "n"), ("u_first", "n"), ("u_last", "n"),
               ("u_is_empty", "n"), ("u_value_counts", "kv"), ("u_get_max_key", "kv")]:
    TICK_FLOWS[_n] = F([_i], "agg" if _n != "u_value_counts" else "keyed", props=("C32",))
# how the harness may perturb the batch of each C32 flow: 'perm' any order, 'dupset' any order and
# multiplicity >= 1 (NoOrder + AtLeastOnce), 'stutter' in-place repetition (TotalOrder + AtLeastOnce)
PERTURB = {"u_max": ["perm", "dupset"], "u_min": ["perm", "dupset"], "u_count": ["perm"],
           "u_first": ["stutter"], "u_last": ["stutter"], "u_is_empty": ["perm"],
           "u_value_counts": ["perm"], "u_get_max_key": []}
FLOWS.update(TICK_FLOWS)

# structural tokens of the surface syntax that are not operators of the emission table
STRUCTURAL = {"handoff", "identity", "tee"}

FLOWS["m_value_counts"] = F(["kv"], "keyed", props=("C33",))
FLOWS["m_keyed_first"] = F(["kv"], "unord", props=("C33",))

INPUT_NAMES = "abcd"

# ---------------------------------------------------------------------------- Gallina printing


def g_val(v):
    if isinstance(v, bool):
        return "(VN %d)" % (1 if v else 0)
    if isinstance(v, int):
        return "(VN %d)" % v
    if v is None:
        return "VU"
    if isinstance(v, list):
        if len(v) == 2:
            return "(VP %s %s)" % (g_val(v[0]), g_val(v[1]))
        if len(v) == 0:
            return "VU"
        if len(v) == 1:  # Some x
            return "(VP %s VU)" % g_val(v[0])
    raise ValueError("cannot print value %r" % (v,))


def g_vec(v):
    """a Rust Vec as a cons-list value"""
    out = "VU"
    for x in reversed(v):
        out = "(VP %s %s)" % (g_val(x), out)
    return out


def g_vals(xs):
    return "[" + "; ".join(g_val(x) for x in xs) + "]"


def g_ticks(case):
    names = INPUT_NAMES[:len(FLOWS[case["flow"]]["inputs"])] if case["flow"] in FLOWS else None
    if names is None:
        names = INPUT_NAMES[:case.get("ninputs", 1)]
    return "[" + "; ".join("[" + "; ".join(g_vals(t.get(n, [])) for n in names) + "]"
                           for t in case["ticks"]) + "]"


def g_impl(res, out="out"):
    return "[" + "; ".join(g_vals(t[out]) for t in res["ticks"]) + "]"


def broken(res):
    return (not isinstance(res, dict)) or ("ticks" not in res)


def case_term(fn, case, res):
    """Gallina verdict term `(fn flow ticks impl)`; 3 when the implementation panicked / hung"""
    if broken(res) or len(res["ticks"]) != len(case["ticks"]):
        return 3
    return "(%s %s %s %s)" % (fn, case["flow"], g_ticks(case), g_impl(res))


# ---------------------------------------------------------------------------- emission table

_OP = re.compile(r"^_\w+\s*=\s*([A-Za-z_]\w*)\s*(?:::\s*<([^>]*)>)?\s*\(")


def op_tokens(syntax):
    """operator tokens `name<lifetimes>` of a DFIR surface-syntax string, sorted"""
    toks = []
    for line in syntax.split("\n"):
        m = _OP.match(line.strip())
        if m:
            g = (m.group(2) or "").replace(" ", "")
            # only persistence lifetimes matter; type arguments (identity::<T>) are dropped
            g = ",".join(x for x in g.split(",") if x.startswith("'"))
            if m.group(1) in STRUCTURAL:
                continue
            toks.append(m.group(1) + ("<%s>" % g if g else ""))
    return sorted(toks)


def emit_term(flow, res, fn="chk_emit"):
    if not isinstance(res, dict) or "syntax" not in res:
        return 1
    toks = op_tokens(res["syntax"])
    return "(%s %s [%s] [%s])" % (fn, flow,
                                  "; ".join(vlib.g_string(t) + "%string" for t in FLOWS[flow]["plumbing"]),
                                  "; ".join(vlib.g_string(t) + "%string" for t in toks))


# ---------------------------------------------------------------------------- generators


def gen_item(rng, kind, nkeys=4):
    if kind == "n":
        return rng.below(10)
    return [rng.below(nkeys), rng.below(6)]


def gen_input(rng, kind, n):
    return [gen_item(rng, kind) for _ in range(n)]


def assignments(n, T):
    """all non-decreasing maps {0..n-1} -> {0..T-1} (cut the sequence into T consecutive batches)"""
    return list(itertools.combinations_with_replacement(range(T), n))


def split(seq, assign, T):
    ticks = [[] for _ in range(T)]
    for x, t in zip(seq, assign):
        ticks[t].append(x)
    return ticks


def mk_case(flow, inputs, assigns, T, src):
    names = INPUT_NAMES[:len(inputs)]
    per = [split(seq, a, T) for seq, a in zip(inputs, assigns)]
    ticks = [{n: per[i][t] for i, n in enumerate(names)} for t in range(T)]
    return {"flow": flow, "ticks": ticks, "src": src}


def all_partitions(flow, inputs, maxT, src="small"):
    out = []
    for T in range(1, maxT + 1):
        for combo in itertools.product(*[assignments(len(seq), T) for seq in inputs]):
            out.append(mk_case(flow, inputs, combo, T, src))
    return out


def random_partition(rng, flow, inputs, src="large"):
    T = rng.range(1, 8)
    assigns = []
    for seq in inputs:
        a = sorted(rng.below(T) for _ in seq)
        assigns.append(a)
    return mk_case(flow, inputs, assigns, T, src)


def small_sizes(rng, k, total):
    """split a total item budget over k inputs"""
    if k == 1:
        return [total]
    a = rng.range(0, total)
    return [a, total - a] + [0] * (k - 2)


def gen_partition_cases(rng, tier, flows, small_inputs=2, large_parts=8, small_total=4, maxT=3):
    """per flow: `small_inputs` random small inputs under ALL partitions into <= maxT ticks, and one
    large input (<= 40 items, <= 12 per side for quadratic flows) under random partitions"""
    cases = []
    thorough = tier == "thorough"
    if thorough:
        small_inputs, large_parts, small_total, maxT = 3, 20, 5, 4
    maxT0 = maxT
    for flow in flows:
        spec = FLOWS[flow]
        k = len(spec["inputs"])
        maxT = maxT0 if (k == 1 or not thorough) else 3
        for _ in range(small_inputs):
            sizes = small_sizes(rng, k, rng.range(max(1, small_total - 1), small_total))
            inputs = [gen_input(rng, kind, n) for kind, n in zip(spec["inputs"], sizes)]
            cases += all_partitions(flow, inputs, maxT)
        for _ in range(3 if thorough else 1):
            cap = 12 if spec["heavy"] else 40
            inputs = [gen_input(rng, kind, rng.range(cap // 2, cap)) for kind in spec["inputs"]]
            for _ in range(large_parts):
                cases.append(random_partition(rng, flow, inputs))
    return cases


def interleavings(rng, per_key, count):
    """random cross-key interleavings preserving every key's own order"""
    outs = []
    for _ in range(count):
        pos = {k: 0 for k in per_key}
        seq = []
        live = [k for k in per_key if per_key[k]]
        while live:
            k = rng.choice(live)
            seq.append([k, per_key[k][pos[k]]])
            pos[k] += 1
            if pos[k] == len(per_key[k]):
                live.remove(k)
        outs.append(seq)
    return outs


def gen_interleave_cases(rng, tier, flows):
    """keyed flows: the same per-key sequences under random cross-key interleavings x random
    partitions (the per-key results must not change)"""
    cases = []
    n_inter, n_part = (12, 3) if tier == "thorough" else (5, 2)
    for flow in flows:
        for rep in range(3 if tier == "thorough" else 1):
            per_key = {k: [rng.below(6) for _ in range(rng.range(0, 5))] for k in range(4)}
            for seq in interleavings(rng, per_key, n_inter):
                for _ in range(n_part):
                    c = random_partition(rng, flow, [seq], src="interleave")
                    c["group"] = "%s/%d" % (flow, rep)
                    cases.append(c)
    return cases


def canonical_ticks(case):
    """the case's batches with every NoOrder input sorted (its canonical arrival order)"""
    un = [INPUT_NAMES[i] for i in FLOWS[case["flow"]].get("unordered", [])]
    return [{n: (sorted(v) if n in un else v) for n, v in t.items()} for t in case["ticks"]]


def gen_unordered_cases(rng, tier, flow):
    """every arrival order (permutation) of the NoOrder input's batch, <= 4 items, few keys so that
    one left item has several matches; one and two ticks"""
    cases = []
    reps = 6 if tier == "thorough" else 2
    for _ in range(reps):
        a = [[rng.below(2), rng.below(6)] for _ in range(rng.range(1, 3))]
        b = [[rng.below(2), rng.below(6)] for _ in range(rng.range(2, 4))]
        for perm in sorted(set(itertools.permutations([tuple(x) for x in b]))):
            pb = [list(x) for x in perm]
            cases.append({"flow": flow, "ticks": [{"a": a, "b": pb}], "src": "perm"})
            cases.append({"flow": flow, "ticks": [{"a": a[:1], "b": pb[:2]}, {"a": a[1:], "b": pb[2:]}], "src": "perm"})
    return cases


def corpus_cases(prop):
    """minimised past disagreements / finding witnesses, run first"""
    import glob
    import json
    out = []
    for f in sorted(glob.glob(os.path.join(vlib.ROOT, "corpus", prop, "*.json"))):
        c = json.load(open(f))
        out += c if isinstance(c, list) else [c]
    return out


def emit_cases(flows):
    return [{"k": "syntax", "flow": f, "src": "emit"} for f in flows]


# ---------------------------------------------------------------------------- shrinking


def shrink_ticks(case):
    """candidates: drop one item, merge two adjacent ticks, drop an empty tick"""
    if "ticks" not in case:
        return
    ticks = case["ticks"]
    for t in range(len(ticks)):
        for n, items in ticks[t].items():
            for i in range(len(items)):
                c = dict(case)
                c["ticks"] = [dict(x) for x in ticks]
                c["ticks"][t][n] = items[:i] + items[i + 1:]
                yield c
    for t in range(len(ticks) - 1):
        c = dict(case)
        merged = {n: ticks[t].get(n, []) + ticks[t + 1].get(n, []) for n in set(ticks[t]) | set(ticks[t + 1])}
        c["ticks"] = ticks[:t] + [merged] + ticks[t + 2:]
        yield c
    for t in range(len(ticks)):
        if len(ticks) > 1 and not any(ticks[t].values()):
            c = dict(case)
            c["ticks"] = ticks[:t] + ticks[t + 1:]
            yield c


# ---------------------------------------------------------------------------- distribution


def distribution(cases, results):
    d = {"by_source": {}, "by_flow": {}, "ticks": {}, "items": {}, "empty_ticks": 0, "panics": 0}
    for c, r in zip(cases, results):
        d["by_source"][c.get("src", "?")] = d["by_source"].get(c.get("src", "?"), 0) + 1
        f = c.get("flow", "?")
        d["by_flow"][f] = d["by_flow"].get(f, 0) + 1
        if "ticks" in c:
            T = len(c["ticks"])
            d["ticks"][str(T)] = d["ticks"].get(str(T), 0) + 1
            n = sum(len(v) for t in c["ticks"] for v in t.values())
            b = "0-5" if n <= 5 else "6-15" if n <= 15 else "16-40" if n <= 40 else "41+"
            d["items"][b] = d["items"].get(b, 0) + 1
            d["empty_ticks"] += sum(1 for t in c["ticks"] if not any(t.values()))
        if isinstance(r, dict) and ("panic" in r or "hang" in r or "crash" in r):
            d["panics"] += 1
    return d


def nontrivial_partition(case, res):
    """>= 2 ticks, >= 2 items, and the flow produced some output"""
    if "ticks" not in case:
        return True
    n = sum(len(v) for t in case["ticks"] for v in t.values())
    if broken(res):
        return True
    outs = sum(len(v) for t in res["ticks"] for v in t.values())
    return len(case["ticks"]) >= 2 and n >= 2 and outs >= 1


# ---------------------------------------------------------------------------- source scans

MODELLED_NODES = {
    # top level (C28/C29/C33)
    "Source": "SSrc / SIter / BBatch", "Cast": "SWeaken / BWeaken / into_keyed (no operator)",
    "ObserveNonDet": "identity in production (observation casts, trusted assumptions)",
    "AssertIsConsistent": "identity in production (after fold / reduce)",
    "Batch": "identity in production", "YieldConcat": "identity in production (all_ticks)",
    "Chain": "SUnion (merge_unordered) / BChain", "Join": "SJoin / SCross (cross_product = maps + join)",
    "JoinHalf": "BJoin / BCross (bounded right side)",
    "AntiJoin": "SAntiJoin / BAntiJoin", "Map": "SMap / AMap / BMap", "FlatMap": "SFlatMap / BFlatMap",
    "Filter": "SFilter / BFilter", "FilterMap": "SFilterMap", "Inspect": "SInspect",
    "Enumerate": "SEnumerate / BEnumerate", "Unique": "SUnique / BUnique",
    "Fold": "AFold / BFold", "FoldKeyed": "AFoldKeyed / BFoldKeyed",
    "Reduce": "AReduce / BReduce", "ReduceKeyed": "AReduceKeyed / BReduceKeyed",
    # tick level (C30)
    "DeferTick": "BDefer", "Sort": "BSort", "CrossSingleton": "BCrossSingleton",
    "CycleSource": "loop_run (tick cycle)", "Scan": "BGen (generator: first / limit)",
}


def hydro_node_variants():
    """variant names of `pub enum HydroNode` in hydro_lang/src/compile/ir/mod.rs (regenerated
    from the source on every run)"""
    src = open(os.path.join(REPO, "hydro_lang/src/compile/ir/mod.rs")).read()
    m = re.search(r"pub enum HydroNode \{", src)
    i = m.end()
    depth, names, cur = 1, [], i
    line_start = True
    while depth > 0 and i < len(src):
        c = src[i]
        if c == "{" or c == "(":
            depth += 1
        elif c == "}" or c == ")":
            depth -= 1
        i += 1
    body = src[m.end():i - 1]
    depth = 0
    for line in body.split("\n"):
        s = line.strip()
        if depth == 0:
            mm = re.match(r"^([A-Z]\w*)\s*(\{|\(|,|$)", s)
            if mm and not s.startswith("//") and not s.startswith("#"):
                names.append(mm.group(1))
        depth += line.count("{") + line.count("(") - line.count("}") - line.count(")")
    return names


def node_coverage(modelled=None):
    names = hydro_node_variants()
    modelled = modelled or MODELLED_NODES
    missing = [n for n in modelled if n not in names]
    covered = [n for n in names if n in modelled]
    return {"hydro_node_variants": len(names), "modelled": len(covered),
            "modelled_variants": covered,
            "unmodelled_variants": [n for n in names if n not in modelled],
            "stale_model_entries": missing}


# ---------------------------------------------------------------------------- standard_check wrapper


def run_standard(ctx, spec, extra_coverage):
    """vlib.standard_check, with extra keys merged into the evidence coverage (vlib.finish is
    wrapped, not edited)."""
    orig = vlib.finish

    def finish(ctx_, level, coverage, assumptions, extra=None):
        cov = dict(coverage)
        ec = extra_coverage() if callable(extra_coverage) else extra_coverage
        cov.update(ec)
        return orig(ctx_, level, cov, assumptions, extra)

    vlib.finish = finish
    try:
        vlib.standard_check(ctx, spec)
    finally:
        vlib.finish = orig


# ---------------------------------------------------------------------------- C32: trusted call sites

_SITE = re.compile(r"\.\s*assume_(ordering|retries)_trusted(_bounded)?\b|self\.assume_(ordering|retries)_trusted(_bounded)?\b")
_FN = re.compile(r"^\s*(?:pub(?:\([a-z]+\))?\s+)?fn\s+(\w+)")


def trusted_sites():
    """every `assume_ordering_trusted` / `assume_retries_trusted` call in
    hydro_lang/src/live_collections/** (regenerated from the source on every run) as
    'file::enclosing fn::kind' keys with multiplicity"""
    base = os.path.join(REPO, "hydro_lang/src/live_collections")
    sites = []
    for d, _, fs in os.walk(base):
        for f in sorted(fs):
            if not f.endswith(".rs"):
                continue
            path = os.path.join(d, f)
            rel = os.path.relpath(path, base)
            cur = "?"
            for ln, line in enumerate(open(path, errors="replace"), 1):
                s = line.strip()
                if s.startswith("//"):
                    continue
                m = _FN.match(line)
                if m:
                    cur = m.group(1)
                    if cur.startswith("assume_"):
                        continue
                for mm in re.finditer(r"assume_(ordering|retries)_trusted(_bounded)?", line):
                    if re.search(r"fn\s+assume_", line):
                        continue
                    kind = mm.group(1) + ("_bounded" if mm.group(2) else "")
                    sites.append(("%s::%s::%s" % (rel, cur, kind), ln))
    return sites


# site -> (status, justification).  status: 'proved' (Coq theorem named), 'noop' (identity on the
# type level: the cast cannot change the runtime kind), 'forward' (helper forwarding its caller's
# guard), 'unproved' (modelled list only; justification depends on an upstream invariant and is not
# proved here), 'test' (inside #[cfg(test)] code)
TRUSTED_TABLE = {
    "stream/mod.rs::max::retries": ("proved", "max_set_invariant (duplication does not change the set)"),
    "stream/mod.rs::max::ordering_bounded": ("proved", "max_set_invariant (permutation)"),
    "stream/mod.rs::min::retries": ("proved", "min_set_invariant"),
    "stream/mod.rs::min::ordering_bounded": ("proved", "min_set_invariant"),
    "stream/mod.rs::first::retries": ("proved", "first_stutter (TotalOrder + AtLeastOnce = stuttering)"),
    "stream/mod.rs::last::retries": ("proved", "last_stutter"),
    "stream/mod.rs::count::ordering": ("proved", "count_perm"),
    "stream/mod.rs::is_empty::ordering": ("proved", "is_empty_perm"),
    "stream/mod.rs::assume_ordering_trusted_bounded::ordering": ("forward", "helper: trusted only when Bounded, else plain assume_ordering"),
    "stream/mod.rs::weaken_ordering::ordering": ("proved", "weaken_sound (cast to a weaker guarantee)"),
    "stream/mod.rs::make_totally_ordered::ordering": ("noop", "O: IsOrdered implies O = TotalOrder; use_ordering_type panics otherwise"),
    "stream/mod.rs::weaken_retries::retries": ("proved", "weaken_sound (cast to a weaker guarantee)"),
    "stream/mod.rs::make_exactly_once::retries": ("noop", "R: IsExactlyOnce implies R = ExactlyOnce"),
    "stream/mod.rs::repeat_with_keys::ordering": ("unproved", "keys of a keyed singleton are distinct; per-key groups do not depend on key order"),
    "keyed_stream/mod.rs::weaken_ordering::ordering": ("proved", "weaken_sound"),
    "keyed_stream/mod.rs::make_totally_ordered::ordering": ("noop", "O: IsOrdered"),
    "keyed_stream/mod.rs::weaken_retries::retries": ("proved", "weaken_sound"),
    "keyed_stream/mod.rs::make_exactly_once::retries": ("noop", "R: IsExactlyOnce"),
    "keyed_stream/mod.rs::value_counts::ordering": ("proved", "value_counts_perm"),
    "keyed_singleton.rs::into_singleton_inside_tick::ordering": ("unproved", "entries have distinct keys (upstream invariant); insert is commutative on distinct keys"),
    "keyed_singleton.rs::into_singleton::ordering": ("unproved", "same as into_singleton_inside_tick"),
    "keyed_singleton.rs::get_max_key::ordering": ("unproved", "distinct keys + total order on keys give a unique maximum; exercised by the u_get_max_key flow"),
    "sliced/mod.rs::sim_sliced_atomic_keyed_stream::ordering": ("test", "inside #[cfg(test)] mod tests"),
}


def trusted_check():
    """compare the scanned call sites with the modelled table; returns (report, problems)"""
    sites = trusted_sites()
    problems, rows = [], []
    seen = set()
    for key, ln in sites:
        k = key if key in TRUSTED_TABLE else None
        if k is None:
            problems.append("unmodelled trusted call site %s (line %d)" % (key, ln))
            rows.append({"site": key, "line": ln, "status": "UNMODELLED"})
            continue
        seen.add(k)
        rows.append({"site": key, "line": ln, "status": TRUSTED_TABLE[k][0], "justification": TRUSTED_TABLE[k][1]})
    for k in TRUSTED_TABLE:
        if k not in seen:
            problems.append("modelled call site %s no longer exists in the source" % k)
    return rows, problems


def gen_trusted_cases(rng, tier, flows):
    """C32: base batches of <= 5 items; every permutation (ordering sites), random duplications
    (retries sites); each case carries the base batch the result must be equal to"""
    cases = []
    reps = 5 if tier == "thorough" else 2
    for flow in flows:
        kind = FLOWS[flow]["inputs"][0]
        for rep in range(reps):
            n = rng.range(0, 5) if rep else rng.range(3, 5)
            base = gen_input(rng, kind, n)
            variants = [("base", base)]
            for p in PERTURB[flow]:
                if p == "perm":
                    perms = sorted(set(itertools.permutations([tuple(x) if isinstance(x, list) else x for x in base])))
                    if len(perms) > 40 and tier != "thorough":
                        perms = rng.sample(perms, 40)
                    variants += [("perm", [list(x) if isinstance(x, tuple) else x for x in q]) for q in perms]
                elif p == "dupset" and base:
                    for _ in range(8):
                        v = list(base) + [rng.choice(base) for _ in range(rng.range(1, 4))]
                        variants.append(("dupset", rng.shuffle(v)))
                elif p == "stutter":
                    for _ in range(8):
                        v = []
                        for x in base:
                            v += [x] * rng.range(1, 3)
                        variants.append(("stutter", v))
            for src, v in variants:
                cases.append({"flow": flow, "ticks": [{"a": v}, {"a": []}], "base": [{"a": base}, {"a": []}], "src": src})
            # the base input cut into ticks in all ways: the per-tick results follow the batches
            for c in all_partitions(flow, [base], 2, src="base"):
                c["base"] = c["ticks"]
                cases.append(c)
    return cases


# ---------------------------------------------------------------------------- C33: API -> bound table

# public APIs whose return type promises a monotone / bounded-value collection, as
# 'file::fn' -> associated type in the signature (scanned from the source on every run)
BOUND_TABLE = {
    "stream/mod.rs::count": "StreamToMonotone",
    "keyed_stream/mod.rs::value_counts": "KeyedStreamToMonotone",
    "keyed_stream/mod.rs::first": "WithBoundedValue",
    "keyed_stream/mod.rs::fold_early_stop": "WithBoundedValue",
    "keyed_stream/mod.rs::cast_at_most_one_entry_per_key": "WithBoundedValue",
}
_BOUND = re.compile(r"\b(StreamToMonotone|KeyedStreamToMonotone|WithBoundedValue)\b")


def bound_check():
    base = os.path.join(REPO, "hydro_lang/src/live_collections")
    found = {}
    for rel in ("stream/mod.rs", "keyed_stream/mod.rs", "keyed_singleton.rs", "singleton.rs", "optional.rs"):
        src = open(os.path.join(base, rel), errors="replace").read()
        # function signatures: from `fn name` to the opening brace of the body
        for m in re.finditer(r"\bfn\s+(\w+)\s*(<[^{;]*?>)?\s*\(([^{;]*?)\)\s*->\s*([^{;]*?)\s*(where[^{;]*)?\{", src, re.S):
            ret = m.group(4)
            b = _BOUND.search(ret)
            if b:
                found["%s::%s" % (rel, m.group(1))] = b.group(1)
    problems = []
    for k, v in found.items():
        if BOUND_TABLE.get(k) != v:
            problems.append("API %s returns a %s collection but is not in the modelled bound table" % (k, v))
    for k, v in BOUND_TABLE.items():
        if found.get(k) != v:
            problems.append("modelled bound %s -> %s no longer matches the source (%s)" % (k, v, found.get(k)))
    rows = [{"api": k, "bound": v, "modelled": BOUND_TABLE.get(k) == v} for k, v in sorted(found.items())]
    return rows, problems
