"""Hydro engine (E8) support: corpus registry, tick-partition generators, Gallina printers,
emission-table extraction, source scans (HydroNode variants, trusted-assumption call sites)."""
import itertools
import os
import re

from tools import vlib

REPO = vlib.REPO

# ---------------------------------------------------------------------------- corpus registry
# name -> inputs ('n' = u32 item, 'kv' = (u32,u32) pair), kind:
#   'ord'   stream typed TotalOrder      'unord' stream typed NoOrder
#   'agg'   singleton / optional         'keyed' keyed singleton (entries)
# heavy: quadratic outputs (join / cross) -> smaller "large" inputs
# plumbing: DFIR operator tokens the observation wrapper adds (none so far)


def F(inputs, kind, heavy=False, plumbing=(), props=("C28",)):
    return dict(inputs=list(inputs), kind=kind, heavy=heavy, plumbing=list(plumbing), props=set(props))


FLOWS = {
    "f_map": F(["n"], "ord", props=("C28", "C29")),
    "f_filter": F(["n"], "ord", props=("C28", "C29")),
    "f_flat_map": F(["n"], "ord", props=("C28", "C29")),
    "f_filter_map": F(["n"], "ord", props=("C28", "C29")),
    "f_enumerate": F(["n"], "ord", props=("C28", "C29")),
    "f_unique": F(["n"], "ord", props=("C28", "C29")),
    "f_union": F(["n", "n"], "unord"),
    "f_join": F(["kv", "kv"], "unord", heavy=True),
    "f_cross": F(["n", "n"], "unord", heavy=True),
    "f_anti_join": F(["kv"], "ord", props=("C28", "C29")),
    "f_fold": F(["n"], "agg", props=("C28", "C29")),
    "f_fold_comm": F(["n"], "agg"),
    "f_count": F(["n"], "agg", props=("C28", "C33")),
    "f_max": F(["n"], "agg", props=("C28", "C33")),
    "f_min": F(["n"], "agg"),
    "f_last": F(["n"], "agg", props=("C28", "C29")),
    "f_reduce": F(["n"], "agg", props=("C28", "C29")),
    "f_fold_keyed": F(["kv"], "keyed", props=("C28", "C29")),
    "f_reduce_keyed": F(["kv"], "keyed", props=("C28", "C29")),
    "f_map_filter_unique": F(["n"], "ord", props=("C28", "C29")),
    "f_flat_map_enumerate": F(["n"], "ord", props=("C28", "C29")),
    "f_join_fold": F(["kv", "kv"], "agg", heavy=True),
    "f_union_unique_count": F(["n", "n"], "agg", props=("C28", "C33")),
    "f_cross_filter": F(["n", "n"], "unord", heavy=True),
    "f_unique_join": F(["kv", "kv"], "unord", heavy=True),
    "f_count_map": F(["n"], "agg"),
    "f_anti_join_unique": F(["kv"], "ord", props=("C28", "C29")),
    "f_keyed_max": F(["kv"], "keyed", props=("C28", "C29")),
}

TICK_FLOWS = {
    "t_fold": F(["n"], "agg", props=("C30",)),
    "t_reduce": F(["n"], "agg", props=("C30",)),
    "t_count": F(["n"], "agg", props=("C30", "C32")),
    "t_max": F(["n"], "agg", props=("C30", "C32")),
    "t_min": F(["n"], "agg", props=("C30", "C32")),
    "t_first": F(["n"], "agg", props=("C30", "C32")),
    "t_last": F(["n"], "agg", props=("C30", "C32")),
    "t_limit": F(["n"], "ord", props=("C30",)),
    "t_sort": F(["kv"], "ord", props=("C30",)),
    "t_enumerate": F(["n"], "ord", props=("C30",)),
    "t_unique": F(["n"], "ord", props=("C30",)),
    "t_chain": F(["n", "n"], "ord", props=("C30",)),
    "t_join": F(["kv", "kv"], "ord", heavy=True, props=("C30",)),
    "t_cross": F(["n", "n"], "ord", heavy=True, props=("C30",)),
    "t_anti_join": F(["kv", "n"], "ord", props=("C30",)),
    "t_cross_singleton": F(["n", "n"], "ord", props=("C30",)),
    "t_fold_keyed": F(["kv"], "keyed", props=("C30",)),
    "t_reduce_keyed": F(["kv"], "keyed", props=("C30",)),
    "t_defer": F(["n"], "ord", props=("C30",)),
    "t_defer_chain": F(["n", "n"], "ord", props=("C30",)),
    "t_defer_count": F(["n"], "agg", props=("C30",)),
    "t_sort_enumerate_fold": F(["n"], "agg", props=("C30",)),
    "t_cycle": F(["n"], "ord", props=("C30",)),
}
# flows with inputs typed NoOrder (index list): the driver may present them in any order
TICK_FLOWS["t_join_half_unord"] = F(["kv", "kv"], "ord", props=("C29",))
TICK_FLOWS["t_join_half_unord"]["unordered"] = [1]
for _n, _i in [("u_max", "n"), ("u_min", "n"), ("u_count", "n"), ("u_first", "n"), ("u_last", "n"),
               ("u_is_empty", "n"), ("u_value_counts", "kv"), ("u_get_max_key", "kv")]:
    TICK_FLOWS[_n] = F([_i], "agg" if _n != "u_value_counts" else "keyed", props=("C32",))
# how the harness may perturb the batch of each C32 flow: 'perm' any order, 'dupset' any order and
# multiplicity >= 1 (NoOrder + AtLeastOnce), 'stutter' in-place repetition (TotalOrder + AtLeastOnce)
TICK_FLOWS["u_into_singleton"] = F(["kv"], "agg", props=("C32",))
TICK_FLOWS["u_repeat_with_keys"] = F(["kv", "n"], "unord", props=("C32",))
HAND_ONLY_C32 = {"u_into_singleton", "u_repeat_with_keys"}
PERTURB = {"u_max": ["perm", "dupset"], "u_min": ["perm", "dupset"], "u_count": ["perm"],
           "u_first": ["stutter"], "u_last": ["stutter"], "u_is_empty": ["perm"],
           "u_value_counts": ["perm"], "u_get_max_key": [], "u_into_singleton": [], "u_repeat_with_keys": []}
FLOWS.update(TICK_FLOWS)

# structural tokens of the surface syntax that are not operators of the emission table
STRUCTURAL = {"handoff", "identity", "tee"}

FLOWS["m_value_counts"] = F(["kv"], "keyed", props=("C33",))
for _n in ("m_vc_map", "m_vc_map_with_key", "m_fold_mono_map_with_key", "m_fold_mono", "m_mk_map_with_key"):
    FLOWS[_n] = F(["kv"], "keyed", props=("C33",))
FLOWS["m_count_map"] = F(["n"], "agg", props=("C33",))
FLOWS["m_keyed_first"] = F(["kv"], "unord", props=("C33",))

# round 2: flows whose Gallina term exists only as the translation of the builder's IR dump
GENERATED_ONLY = {
    "f_limit": F(["n"], "ord", props=("C28", "C29")),
    "f_first": F(["n"], "agg", props=("C28", "C29")),
    "c_filter_map_unique_enumerate": F(["n"], "ord", props=("C28", "C29")),
    "c_union_map_unique_count": F(["n", "n"], "agg", props=("C28", "C33")),
    "c_filter_map_keyed_fold": F(["kv"], "keyed", props=("C28", "C29")),
    "c_anti_map_filter_enumerate": F(["kv"], "ord", props=("C28", "C29")),
    "c_map_limit_enumerate": F(["n"], "ord", props=("C28", "C29")),
    "c_unique_join_map_unique": F(["kv", "kv"], "unord", heavy=True),
    "c_filter_first": F(["n"], "agg", props=("C28", "C29")),
    "c_join_fold_map": F(["kv", "kv"], "agg", heavy=True),
    "c_tee_union": F(["n"], "unord"),
}
GENERATED_ONLY["t_or"] = F(["n", "n"], "agg", props=("C30",))
GENERATED_ONLY["t_reduce_watermark"] = F(["kv", "n"], "keyed", props=("C30",))
GENERATED_ONLY["n_o2o"] = F(["n"], "ord", props=("C28",))
GENERATED_ONLY["n_o2o"]["net"] = "o2o"
GENERATED_ONLY["n_m2o"] = F(["n"], "keyed", props=("C29",))
GENERATED_ONLY["n_m2o"]["net"] = "m2o"
for _n in ("f_join_bl", "f_join_bb", "f_cross_bl"):
    GENERATED_ONLY[_n] = F(["kv" if "join" in _n else "n"], "unord", heavy=True)
for _n in ("f_join_br", "f_cross_br"):
    GENERATED_ONLY[_n] = F(["kv" if "join" in _n else "n"], "ord", heavy=True, props=("C28", "C29"))
GENERATED_ONLY["t_difference"] = F(["n", "n"], "ord", props=("C30",))
GENERATED_ONLY["t_cross_nested"] = F(["n", "n"], "ord", heavy=True, props=("C30",))
GENERATED_ONLY["t_singleton_const"] = F(["n"], "ord", props=("C30",))
GENERATED_ONLY["t_first_tick"] = F(["n"], "ord", props=("C30",))
GENERATED_ONLY["f_difference_b"] = F(["n"], "unord", heavy=True)
GENERATED_ONLY["f_partition"] = F(["n"], "unord")
for _n, _i, _k in (("x_across_enumerate", "n", "ord"), ("x_across_reduce", "n", "agg"), ("x_across_limit", "n", "ord"),
                   ("x_across_fold_keyed", "kv", "keyed"), ("x_across_reduce_keyed", "kv", "keyed"),
                   ("x_across_enumerate_unique", "n", "ord")):
    GENERATED_ONLY[_n] = F([_i], _k, props=("C30",))
for _n in ("x_atomic_enumerate", "x_all_ticks_atomic_enumerate"):
    GENERATED_ONLY[_n] = F(["n"], "ord", props=("C28", "C29"))
for _n in ("x_across_count", "x_across_fold", "x_across_unique"):
    GENERATED_ONLY[_n] = F(["n"], "agg" if _n != "x_across_unique" else "ord", props=("C30",))
for _n in ("m_vc_map", "m_vc_map_with_key", "m_fold_mono_map_with_key", "m_fold_mono", "m_mk_map_with_key", "m_count_map"):
    GENERATED_ONLY[_n] = FLOWS[_n]
FLOWS.update(GENERATED_ONLY)

INPUT_NAMES = "abcd"

# ---------------------------------------------------------------------------- Gallina printing


def g_val(v):
    if isinstance(v, bool):
        return "(VN %d)" % (1 if v else 0)
    if isinstance(v, int):
        return "(VN %d)" % v
    if v is None:
        return "VU"
    if isinstance(v, list):
        if len(v) == 2:
            return "(VP %s %s)" % (g_val(v[0]), g_val(v[1]))
        if len(v) == 0:
            return "VU"
        if len(v) == 1:  # Some x
            return "(VP %s VU)" % g_val(v[0])
    raise ValueError("cannot print value %r" % (v,))


def g_vec(v):
    """a Rust Vec as a cons-list value"""
    out = "VU"
    for x in reversed(v):
        out = "(VP %s %s)" % (g_val(x), out)
    return out


def g_vals(xs):
    return "[" + "; ".join(g_val(x) for x in xs) + "]"


def g_ticks(case):
    names = INPUT_NAMES[:len(FLOWS[case["flow"]]["inputs"])] if case["flow"] in FLOWS else None
    if names is None:
        names = INPUT_NAMES[:case.get("ninputs", 1)]
    return "[" + "; ".join("[" + "; ".join(g_vals(t.get(n, [])) for n in names) + "]"
                           for t in case["ticks"]) + "]"


def g_impl(res, out="out"):
    return "[" + "; ".join(g_vals(t[out]) for t in res["ticks"]) + "]"


def broken(res):
    return (not isinstance(res, dict)) or ("ticks" not in res)


def case_term(fn, case, res):
    """Gallina verdict term `(fn flow ticks impl)`; 3 when the implementation panicked / hung"""
    if broken(res) or len(res["ticks"]) != len(case["ticks"]):
        return 3
    return "(%s %s %s %s)" % (fn, case["flow"], g_ticks(case), g_impl(res))


# ---------------------------------------------------------------------------- emission table

_OP = re.compile(r"^_\w+\s*=\s*([A-Za-z_]\w*)\s*(?:::\s*<([^>]*)>)?\s*\(")


def op_tokens(syntax):
    """operator tokens `name<lifetimes>` of a DFIR surface-syntax string, sorted"""
    toks = []
    for line in syntax.split("\n"):
        m = _OP.match(line.strip())
        if m:
            g = (m.group(2) or "").replace(" ", "")
            # only persistence lifetimes matter; type arguments (identity::<T>) are dropped
            g = ",".join(x for x in g.split(",") if x.startswith("'"))
            if m.group(1) in STRUCTURAL:
                continue
            toks.append(m.group(1) + ("<%s>" % g if g else ""))
    return sorted(toks)


def emit_term(flow, res, fn="chk_emit"):
    if not isinstance(res, dict) or "syntax" not in res:
        return 1
    toks = op_tokens(res["syntax"])
    return "(%s %s [%s] [%s])" % (fn, flow,
                                  "; ".join(vlib.g_string(t) + "%string" for t in FLOWS[flow]["plumbing"]),
                                  "; ".join(vlib.g_string(t) + "%string" for t in toks))


# ---------------------------------------------------------------------------- generators


def gen_item(rng, kind, nkeys=4):
    if kind == "n":
        return rng.below(10)
    return [rng.below(nkeys), rng.below(6)]


def gen_input(rng, kind, n):
    return [gen_item(rng, kind) for _ in range(n)]


def assignments(n, T):
    """all non-decreasing maps {0..n-1} -> {0..T-1} (cut the sequence into T consecutive batches)"""
    return list(itertools.combinations_with_replacement(range(T), n))


def split(seq, assign, T):
    ticks = [[] for _ in range(T)]
    for x, t in zip(seq, assign):
        ticks[t].append(x)
    return ticks


def mk_case(flow, inputs, assigns, T, src):
    names = INPUT_NAMES[:len(inputs)]
    per = [split(seq, a, T) for seq, a in zip(inputs, assigns)]
    ticks = [{n: per[i][t] for i, n in enumerate(names)} for t in range(T)]
    return {"flow": flow, "ticks": ticks, "src": src}


def all_partitions(flow, inputs, maxT, src="small"):
    out = []
    for T in range(1, maxT + 1):
        for combo in itertools.product(*[assignments(len(seq), T) for seq in inputs]):
            out.append(mk_case(flow, inputs, combo, T, src))
    return out


def random_partition(rng, flow, inputs, src="large"):
    T = rng.range(1, 8)
    assigns = []
    for seq in inputs:
        a = sorted(rng.below(T) for _ in seq)
        assigns.append(a)
    return mk_case(flow, inputs, assigns, T, src)


def small_sizes(rng, k, total):
    """split a total item budget over k inputs"""
    if k == 1:
        return [total]
    a = rng.range(0, total)
    return [a, total - a] + [0] * (k - 2)


def gen_partition_cases(rng, tier, flows, small_inputs=2, large_parts=8, small_total=4, maxT=3):
    """per flow: `small_inputs` random small inputs under ALL partitions into <= maxT ticks, and one
    large input (<= 40 items, <= 12 per side for quadratic flows) under random partitions"""
    cases = []
    thorough = tier == "thorough"
    if thorough:
        small_inputs, large_parts, small_total, maxT = 3, 20, 5, 4
    maxT0 = maxT
    for flow in flows:
        spec = FLOWS[flow]
        k = len(spec["inputs"])
        maxT = maxT0 if (k == 1 or not thorough) else 3
        for _ in range(small_inputs):
            sizes = small_sizes(rng, k, rng.range(max(1, small_total - 1), small_total))
            inputs = [gen_input(rng, kind, n) for kind, n in zip(spec["inputs"], sizes)]
            cases += all_partitions(flow, inputs, maxT)
        for _ in range(3 if thorough else 1):
            cap = 12 if spec["heavy"] else 40
            inputs = [gen_input(rng, kind, rng.range(cap // 2, cap)) for kind in spec["inputs"]]
            for _ in range(large_parts):
                cases.append(random_partition(rng, flow, inputs))
    return cases


def gen_repeat_cases(rng, tier, flows):
    """the SAME item arriving in consecutive ticks (a replaying join followed by multiset_delta must not
    swallow it), and the same pattern with empty ticks in between; other inputs arrive in tick 0"""
    cases = []
    for flow in flows:
        kinds = FLOWS[flow]["inputs"]
        j = len(kinds) - 1
        for _ in range(4 if tier == "thorough" else 2):
            x, y = gen_item(rng, kinds[j]), gen_item(rng, kinds[j])
            others = {INPUT_NAMES[i]: gen_input(rng, kinds[i], rng.range(1, 3)) for i in range(j)}
            n = INPUT_NAMES[j]
            for src, pat in (("repeat", [[x], [x], [y, x], [x]]), ("repeat_gap", [[x], [], [x], [], [y], [x]])):
                ticks = []
                for t, items in enumerate(pat):
                    tk = {m: (v if t == 0 else []) for m, v in others.items()}
                    tk[n] = items
                    ticks.append(tk)
                cases.append({"flow": flow, "ticks": ticks, "src": src})
    return cases


def interleavings(rng, per_key, count):
    """random cross-key interleavings preserving every key's own order"""
    outs = []
    for _ in range(count):
        pos = {k: 0 for k in per_key}
        seq = []
        live = [k for k in per_key if per_key[k]]
        while live:
            k = rng.choice(live)
            seq.append([k, per_key[k][pos[k]]])
            pos[k] += 1
            if pos[k] == len(per_key[k]):
                live.remove(k)
        outs.append(seq)
    return outs


def gen_interleave_cases(rng, tier, flows):
    """keyed flows: the same per-key sequences under random cross-key interleavings x random
    partitions (the per-key results must not change)"""
    cases = []
    n_inter, n_part = (12, 3) if tier == "thorough" else (5, 2)
    for flow in flows:
        for rep in range(3 if tier == "thorough" else 1):
            per_key = {k: [rng.below(6) for _ in range(rng.range(0, 5))] for k in range(4)}
            for seq in interleavings(rng, per_key, n_inter):
                for _ in range(n_part):
                    c = random_partition(rng, flow, [seq], src="interleave")
                    c["group"] = "%s/%d" % (flow, rep)
                    cases.append(c)
    return cases


def canonical_ticks(case):
    """the case's batches with every NoOrder input sorted (its canonical arrival order)"""
    un = [INPUT_NAMES[i] for i in FLOWS[case["flow"]].get("unordered", [])]
    return [{n: (sorted(v) if n in un else v) for n, v in t.items()} for t in case["ticks"]]


def gen_unordered_cases(rng, tier, flow):
    """every arrival order (permutation) of the NoOrder input's batch, <= 4 items, few keys so that
    one left item has several matches; one and two ticks"""
    cases = []
    reps = 6 if tier == "thorough" else 2
    for _ in range(reps):
        a = [[rng.below(2), rng.below(6)] for _ in range(rng.range(1, 3))]
        b = [[rng.below(2), rng.below(6)] for _ in range(rng.range(2, 4))]
        for perm in sorted(set(itertools.permutations([tuple(x) for x in b]))):
            pb = [list(x) for x in perm]
            cases.append({"flow": flow, "ticks": [{"a": a, "b": pb}], "src": "perm"})
            cases.append({"flow": flow, "ticks": [{"a": a[:1], "b": pb[:2]}, {"a": a[1:], "b": pb[2:]}], "src": "perm"})
    return cases


def corpus_cases(prop):
    """minimised past disagreements / finding witnesses, run first"""
    import glob
    import json
    out = []
    for f in sorted(glob.glob(os.path.join(vlib.ROOT, "corpus", prop, "*.json"))):
        c = json.load(open(f))
        out += c if isinstance(c, list) else [c]
    return out


def emit_cases(flows):
    return [{"k": "syntax", "flow": f, "src": "emit"} for f in flows]


# ---------------------------------------------------------------------------- shrinking


def shrink_ticks(case):
    """candidates: drop one item, merge two adjacent ticks, drop an empty tick"""
    if "ticks" not in case:
        return
    ticks = case["ticks"]
    for t in range(len(ticks)):
        for n, items in ticks[t].items():
            for i in range(len(items)):
                c = dict(case)
                c["ticks"] = [dict(x) for x in ticks]
                c["ticks"][t][n] = items[:i] + items[i + 1:]
                yield c
    for t in range(len(ticks) - 1):
        c = dict(case)
        merged = {n: ticks[t].get(n, []) + ticks[t + 1].get(n, []) for n in set(ticks[t]) | set(ticks[t + 1])}
        c["ticks"] = ticks[:t] + [merged] + ticks[t + 2:]
        yield c
    for t in range(len(ticks)):
        if len(ticks) > 1 and not any(ticks[t].values()):
            c = dict(case)
            c["ticks"] = ticks[:t] + ticks[t + 1:]
            yield c


# ---------------------------------------------------------------------------- distribution


def distribution(cases, results):
    d = {"by_source": {}, "by_flow": {}, "ticks": {}, "items": {}, "empty_ticks": 0, "panics": 0}
    for c, r in zip(cases, results):
        d["by_source"][c.get("src", "?")] = d["by_source"].get(c.get("src", "?"), 0) + 1
        f = c.get("flow", "?")
        d["by_flow"][f] = d["by_flow"].get(f, 0) + 1
        if "ticks" in c:
            T = len(c["ticks"])
            d["ticks"][str(T)] = d["ticks"].get(str(T), 0) + 1
            n = sum(len(v) for t in c["ticks"] for v in t.values())
            b = "0-5" if n <= 5 else "6-15" if n <= 15 else "16-40" if n <= 40 else "41+"
            d["items"][b] = d["items"].get(b, 0) + 1
            d["empty_ticks"] += sum(1 for t in c["ticks"] if not any(t.values()))
        if isinstance(r, dict) and ("panic" in r or "hang" in r or "crash" in r):
            d["panics"] += 1
    return d


def nontrivial_partition(case, res):
    """>= 2 ticks, >= 2 items, and the flow produced some output"""
    if "ticks" not in case:
        return True
    n = sum(len(v) for t in case["ticks"] for v in t.values())
    if broken(res):
        return True
    outs = sum(len(v) for t in res["ticks"] for v in t.values())
    return len(case["ticks"]) >= 2 and n >= 2 and outs >= 1


# ---------------------------------------------------------------------------- source scans

MODELLED_NODES = {
    # top level (C28/C29/C33)
    "Source": "SSrc / SIter / BBatch", "Cast": "SWeaken / BWeaken / into_keyed (no operator)",
    "ObserveNonDet": "identity in production (observation casts, trusted assumptions)",
    "AssertIsConsistent": "identity in production (after fold / reduce)",
    "Batch": "identity in production", "YieldConcat": "identity in production (all_ticks)",
    "Chain": "SUnion (merge_unordered) / BChain", "Join": "SJoin / SCross (cross_product = maps + join)",
    "AntiJoin": "SAntiJoin / BAntiJoin", "Map": "SMap / AMap / BMap", "FlatMap": "SFlatMap / BFlatMap",
    "Filter": "SFilter / BFilter", "FilterMap": "SFilterMap", "Inspect": "SInspect",
    "Enumerate": "SEnumerate / BEnumerate", "Unique": "SUnique / BUnique",
    "Fold": "AFold / BFold", "FoldKeyed": "AFoldKeyed / BFoldKeyed",
    "Reduce": "AReduce / BReduce", "ReduceKeyed": "AReduceKeyed / BReduceKeyed",
    # tick level (C30)
    "DeferTick": "BDefer", "Sort": "BSort", "CrossSingleton": "BCrossSingleton",
    "CycleSource": "loop_run (tick cycle)", "Scan": "SGen / BGen (generator: first / limit)",
    "Tee": "shared subterm duplicated (translator), structural tee()",
    "JoinHalf": "SJoinHalf (top level, Bounded right side) / BJoin / BCross",
    "ChainFirst": "BChainFirst (Optional::or in a tick)",
    "BeginAtomic": "identity in production; Atomic = top level for lifetimes",
    "Network": "a link: receiver input 0 fed by the re-batched sender output (flows n_o2o, n_m2o)",
    "Difference": "SDifference (Bounded negative side) / BDifference",
    "CrossProduct": "BCrossNL (cross_product_nested_loop)",
    "SingletonSource": "BConst / BFirstTick (in a tick)",
    "PartitionShared": "SPart (shared, both sides filters of one predicate)",
    "PartitionSide": "SPart true / false",
    "EndAtomic": "identity in production",
    "ReduceKeyedWatermark": "BReduceKeyedWm (in a tick)",
}


def hydro_node_variants():
    """variant names of `pub enum HydroNode` in hydro_lang/src/compile/ir/mod.rs (regenerated
    from the source on every run)"""
    src = open(os.path.join(REPO, "hydro_lang/src/compile/ir/mod.rs")).read()
    m = re.search(r"pub enum HydroNode \{", src)
    i = m.end()
    depth, names, cur = 1, [], i
    line_start = True
    while depth > 0 and i < len(src):
        c = src[i]
        if c == "{" or c == "(":
            depth += 1
        elif c == "}" or c == ")":
            depth -= 1
        i += 1
    body = src[m.end():i - 1]
    depth = 0
    for line in body.split("\n"):
        s = line.strip()
        if depth == 0:
            mm = re.match(r"^([A-Z]\w*)\s*(\{|\(|,|$)", s)
            if mm and not s.startswith("//") and not s.startswith("#"):
                names.append(mm.group(1))
        depth += line.count("{") + line.count("(") - line.count("}") - line.count(")")
    return names


def node_coverage(modelled=None):
    names = hydro_node_variants()
    modelled = modelled or MODELLED_NODES
    missing = [n for n in modelled if n not in names]
    covered = [n for n in names if n in modelled]
    return {"hydro_node_variants": len(names), "modelled": len(covered),
            "modelled_variants": covered,
            "unmodelled_variants": [n for n in names if n not in modelled],
            "stale_model_entries": missing}


# ---------------------------------------------------------------------------- standard_check wrapper


def run_standard(ctx, spec, extra_coverage):
    """vlib.standard_check, with extra keys merged into the evidence coverage (vlib.finish is
    wrapped, not edited)."""
    orig = vlib.finish

    def finish(ctx_, level, coverage, assumptions, extra=None):
        cov = dict(coverage)
        ec = extra_coverage() if callable(extra_coverage) else extra_coverage
        cov.update(ec)
        return orig(ctx_, level, cov, assumptions, extra)

    vlib.finish = finish
    try:
        vlib.standard_check(ctx, spec)
    finally:
        vlib.finish = orig


# ---------------------------------------------------------------------------- C32: trusted call sites

_SITE = re.compile(r"\.\s*assume_(ordering|retries)_trusted(_bounded)?\b|self\.assume_(ordering|retries)_trusted(_bounded)?\b")
_FN = re.compile(r"^\s*(?:pub(?:\([a-z]+\))?\s+)?fn\s+(\w+)")


def trusted_sites():
    """every `assume_ordering_trusted` / `assume_retries_trusted` call in
    hydro_lang/src/live_collections/** (regenerated from the source on every run) as
    'file::enclosing fn::kind' keys with multiplicity"""
    base = os.path.join(REPO, "hydro_lang/src/live_collections")
    sites = []
    for d, _, fs in os.walk(base):
        for f in sorted(fs):
            if not f.endswith(".rs"):
                continue
            path = os.path.join(d, f)
            rel = os.path.relpath(path, base)
            cur = "?"
            for ln, line in enumerate(open(path, errors="replace"), 1):
                s = line.strip()
                if s.startswith("//"):
                    continue
                m = _FN.match(line)
                if m:
                    cur = m.group(1)
                    if cur.startswith("assume_"):
                        continue
                for mm in re.finditer(r"assume_(ordering|retries)_trusted(_bounded)?", line):
                    if re.search(r"fn\s+assume_", line):
                        continue
                    kind = mm.group(1) + ("_bounded" if mm.group(2) else "")
                    sites.append(("%s::%s::%s" % (rel, cur, kind), ln))
    return sites


# site -> (status, justification).  status: 'proved' (Coq theorem named), 'noop' (identity on the
# type level: the cast cannot change the runtime kind), 'forward' (helper forwarding its caller's
# guard), 'unproved' (modelled list only; justification depends on an upstream invariant and is not
# proved here), 'test' (inside #[cfg(test)] code)
TRUSTED_TABLE = {
    "stream/mod.rs::max::retries": ("proved", "max_set_invariant (duplication does not change the set)"),
    "stream/mod.rs::max::ordering_bounded": ("proved", "max_set_invariant (permutation)"),
    "stream/mod.rs::min::retries": ("proved", "min_set_invariant"),
    "stream/mod.rs::min::ordering_bounded": ("proved", "min_set_invariant"),
    "stream/mod.rs::first::retries": ("proved", "first_stutter (TotalOrder + AtLeastOnce = stuttering)"),
    "stream/mod.rs::last::retries": ("proved", "last_stutter"),
    "stream/mod.rs::count::ordering": ("proved", "count_perm"),
    "stream/mod.rs::is_empty::ordering": ("proved", "is_empty_perm"),
    "stream/mod.rs::assume_ordering_trusted_bounded::ordering": ("forward", "helper: trusted only when Bounded, else plain assume_ordering"),
    "stream/mod.rs::weaken_ordering::ordering": ("proved", "weaken_sound (cast to a weaker guarantee)"),
    "stream/mod.rs::make_totally_ordered::ordering": ("noop", "O: IsOrdered implies O = TotalOrder; use_ordering_type panics otherwise"),
    "stream/mod.rs::weaken_retries::retries": ("proved", "weaken_sound (cast to a weaker guarantee)"),
    "stream/mod.rs::make_exactly_once::retries": ("noop", "R: IsExactlyOnce implies R = ExactlyOnce"),
    "stream/mod.rs::repeat_with_keys::ordering": ("proved", "C32_repeat_with_keys under keys_distinct (C32_keyed_singleton_invariant_*)"),
    "keyed_stream/mod.rs::weaken_ordering::ordering": ("proved", "weaken_sound"),
    "keyed_stream/mod.rs::make_totally_ordered::ordering": ("noop", "O: IsOrdered"),
    "keyed_stream/mod.rs::weaken_retries::retries": ("proved", "weaken_sound"),
    "keyed_stream/mod.rs::make_exactly_once::retries": ("noop", "R: IsExactlyOnce"),
    "keyed_stream/mod.rs::value_counts::ordering": ("proved", "value_counts_perm"),
    "keyed_singleton.rs::into_singleton_inside_tick::ordering": ("proved", "C32_into_singleton under keys_distinct (C32_keyed_singleton_invariant_*)"),
    "keyed_singleton.rs::into_singleton::ordering": ("proved", "C32_into_singleton under keys_distinct"),
    "keyed_singleton.rs::get_max_key::ordering": ("proved", "C32_get_max_key under keys_distinct"),
    "sliced/mod.rs::sim_sliced_atomic_keyed_stream::ordering": ("test", "inside #[cfg(test)] mod tests"),
}


def trusted_check():
    """compare the scanned call sites with the modelled table; returns (report, problems)"""
    sites = trusted_sites()
    problems, rows = [], []
    seen = set()
    for key, ln in sites:
        k = key if key in TRUSTED_TABLE else None
        if k is None:
            problems.append("unmodelled trusted call site %s (line %d)" % (key, ln))
            rows.append({"site": key, "line": ln, "status": "UNMODELLED"})
            continue
        seen.add(k)
        rows.append({"site": key, "line": ln, "status": TRUSTED_TABLE[k][0], "justification": TRUSTED_TABLE[k][1]})
    for k in TRUSTED_TABLE:
        if k not in seen:
            problems.append("modelled call site %s no longer exists in the source" % k)
    return rows, problems


def gen_trusted_cases(rng, tier, flows):
    """C32: base batches of <= 5 items; every permutation (ordering sites), random duplications
    (retries sites); each case carries the base batch the result must be equal to"""
    cases = []
    reps = 5 if tier == "thorough" else 2
    for flow in flows:
        kind = FLOWS[flow]["inputs"][0]
        if len(FLOWS[flow]["inputs"]) > 1:
            for rep in range(reps * 2):
                inputs = [gen_input(rng, k, rng.range(0, 4)) for k in FLOWS[flow]["inputs"]]
                for c in all_partitions(flow, inputs, 2, src="base"):
                    c["base"] = c["ticks"]
                    cases.append(c)
            continue
        for rep in range(reps):
            n = rng.range(0, 5) if rep else rng.range(3, 5)
            base = gen_input(rng, kind, n)
            variants = [("base", base)]
            for p in PERTURB[flow]:
                if p == "perm":
                    perms = sorted(set(itertools.permutations([tuple(x) if isinstance(x, list) else x for x in base])))
                    if len(perms) > 40 and tier != "thorough":
                        perms = rng.sample(perms, 40)
                    variants += [("perm", [list(x) if isinstance(x, tuple) else x for x in q]) for q in perms]
                elif p == "dupset" and base:
                    for _ in range(8):
                        v = list(base) + [rng.choice(base) for _ in range(rng.range(1, 4))]
                        variants.append(("dupset", rng.shuffle(v)))
                elif p == "stutter":
                    for _ in range(8):
                        v = []
                        for x in base:
                            v += [x] * rng.range(1, 3)
                        variants.append(("stutter", v))
            for src, v in variants:
                cases.append({"flow": flow, "ticks": [{"a": v}, {"a": []}], "base": [{"a": base}, {"a": []}], "src": src})
            # the base input cut into ticks in all ways: the per-tick results follow the batches
            for c in all_partitions(flow, [base], 2, src="base"):
                c["base"] = c["ticks"]
                cases.append(c)
    return cases


# ---------------------------------------------------------------------------- C33: API -> bound table

# public APIs whose return type promises a monotone / bounded-value collection, as
# 'file::fn' -> associated type in the signature (scanned from the source on every run)
BOUND_TABLE = {
    "stream/mod.rs::count": "StreamToMonotone",
    "keyed_stream/mod.rs::value_counts": "KeyedStreamToMonotone",
    "keyed_stream/mod.rs::first": "WithBoundedValue",
    "keyed_stream/mod.rs::fold_early_stop": "WithBoundedValue",
    "keyed_stream/mod.rs::cast_at_most_one_entry_per_key": "WithBoundedValue",
}
_BOUND = re.compile(r"\b(StreamToMonotone|KeyedStreamToMonotone|WithBoundedValue)\b")


def bound_check():
    base = os.path.join(REPO, "hydro_lang/src/live_collections")
    found = {}
    for rel in ("stream/mod.rs", "keyed_stream/mod.rs", "keyed_singleton.rs", "singleton.rs", "optional.rs"):
        src = open(os.path.join(base, rel), errors="replace").read()
        # function signatures: from `fn name` to the opening brace of the body
        for m in re.finditer(r"\bfn\s+(\w+)\s*(<[^{;]*?>)?\s*\(([^{;]*?)\)\s*->\s*([^{;]*?)\s*(where[^{;]*)?\{", src, re.S):
            ret = m.group(4)
            b = _BOUND.search(ret)
            if b:
                found["%s::%s" % (rel, m.group(1))] = b.group(1)
    problems = []
    for k, v in found.items():
        if BOUND_TABLE.get(k) != v:
            problems.append("API %s returns a %s collection but is not in the modelled bound table" % (k, v))
    for k, v in BOUND_TABLE.items():
        if found.get(k) != v:
            problems.append("modelled bound %s -> %s no longer matches the source (%s)" % (k, v, found.get(k)))
    rows = [{"api": k, "bound": v, "modelled": BOUND_TABLE.get(k) == v} for k, v in sorted(found.items())]
    return rows, problems


# ---------------------------------------------------------------------------- IR dump -> Gallina
# The harness returns, per flow, the serde dump of the HydroRoot list the production builder built
# ({"k":"ir"}).  `translate_flow` turns it into a Gallina term of Hydro/Model.v / ModelTick.v:
# structure, sources, locations (top level vs tick) and order casts come from the dump; closures are
# looked up by their quoted source text in CLOSURES (an unknown closure makes the flow
# untranslatable, which the checks report).


class Untranslatable(Exception):
    pass


_SHARED = {}
_EXTRA = []   # translated shared subterms at their 2nd+ reference (for the emission table)


def _shared(inner):
    """serialize_dedup_shared writes a shared node as {"$shared": id, "node": ...} the first time
    and as {"$shared_ref": id} afterwards"""
    if "$shared" in inner:
        _SHARED[inner["$shared"]] = inner["node"]
        return inner["node"]
    if "$shared_ref" in inner:
        if inner["$shared_ref"] in _SHARED:
            return _SHARED[inner["$shared_ref"]]
        raise Untranslatable("dangling shared-node reference")
    raise Untranslatable("shared node form " + str(inner)[:60])


def _match(s, i):
    """index just after the bracket group starting at s[i] in '([{'"""
    pairs = {"(": ")", "[": "]", "{": "}"}
    stack = [pairs[s[i]]]
    i += 1
    while stack:
        c = s[i]
        if c in pairs:
            stack.append(pairs[c])
        elif c == stack[-1]:
            stack.pop()
        i += 1
    return i


def closure_sig(expr):
    """canonical text of a quoted closure: BODY{cap=SIG,...} (stageleft plumbing removed)"""
    m = re.search(r"__stageleft_quote_\w+\s*!\s*\(", expr)
    if not m:
        return expr.strip()
    i = m.end()
    while expr[i] != "[":
        i += 1
    j = _match(expr, i)
    caps_txt = expr[i + 1:j - 1]
    k = j
    while expr[k] != "[":
        k += 1
    e = _match(expr, k)
    body = " ".join(expr[k + 1:e - 1].split())
    caps = []
    pos = 0
    for cm in re.finditer(r"(\w+)\s*=\s*", caps_txt):
        if cm.start() < pos:
            continue
        # value extends to the matching top-level comma
        v0 = cm.end()
        depth, p = 0, v0
        while p < len(caps_txt):
            c = caps_txt[p]
            if c in "([{":
                p = _match(caps_txt, p)
                continue
            if c == "<":
                depth += 1
            elif c == ">" and depth > 0:
                depth -= 1
            elif c == "," and depth == 0:
                break
            p += 1
        caps.append((cm.group(1), closure_sig(caps_txt[v0:p])))
        pos = p
    return body + ("{" + ",".join("%s=%s" % c for c in caps) + "}" if caps else "")


GEN_WRAPPER = ("move | state : & mut Option < Option < _ > > , v | { if state . is_none () { * state = Some (Some (init__free ())) ; } "
               "match state { Some (Some (state_value)) => match f__free (state_value , v) { Generate :: Yield (out) => Some (Some (out)) , "
               "Generate :: Return (out) => { * state = Some (None) ; Some (Some (out)) } Generate :: Break => None , "
               "Generate :: Continue => Some (None) , } , _ => None , } }")
LIMIT2 = ("move | count , item | { if * count == n__free { Generate :: Break } else { * count += 1 ; if * count == n__free "
          "{ Generate :: Return (item) } else { Generate :: Yield (item) } } }{n__free=2}")

# closure source text -> Gallina (closures of harness/h_hydro_flows and of hydro_lang's own operators)
CLOSURES = {
    # unary: val -> val / bool / list val / option val
    "| x | x * 2 + 1": "(vn1 (fun x => x * 2 + 1))",
    "| x | * x % 3 == 0": "(fun v => n_of v mod 3 =? 0)",
    "| x | vec ! [x ; (x % 3) as usize]": "c_rep3",
    "| x | if x % 2 == 0 { Some (x / 2) } else { None }":
        "(fun v => if n_of v mod 2 =? 0 then Some (VN (n_of v / 2)) else None)",
    "| x | x % 4": "(vn1 (fun x => x mod 4))",
    "| x | * x != 2": "(fun v => negb (n_of v =? 2))",
    "| (i , x) | (x , i as u32)": "(fun p => VP (vsnd p) (vfst p))",
    "| (k , (v , w)) | k + v * w": "(fun p => VN (kf p + n_of (vfst (vsnd p)) * n_of (vsnd (vsnd p))))",
    "| x | x + 1": "(vn1 (fun x => x + 1))",
    "| (x , y) | x < y": "(fun p => kf p <? vf p)",
    "| (_ , v) | * v % 2 == 1": "(fun p => vf p mod 2 =? 1)",
    "| (k , (v , w)) | (k , v + w)": "(fun p => VP (vfst p) (VN (n_of (vfst (vsnd p)) + n_of (vsnd (vsnd p)))))",
    "| x | * x % 2 == 1": "(fun v => n_of v mod 2 =? 1)",
    "| c | (c as u32) * 10": "(vn1 (fun c => c * 10))",
    "| (k , v) | k * 10 + v": "(fun p => VN (kf p * 10 + vf p))",
    "| (k , v) | (k % 2 , v)": "(fun p => VP (VN (kf p mod 2)) (vsnd p))",
    "| v | (() , v)": "(fun v => VP VU v)",
    "| (() , (v1 , v2)) | (v1 , v2)": "(fun p => VP (vfst (vsnd p)) (vsnd (vsnd p)))",
    "| x | x + 100": "(vn1 (fun x => x + 100))",
    "| (x , c) | (x , c as u32)": "(fun p => p)",
    "| x | x * 2": "(vn1 (fun x => x * 2))",
    "| x | * x != 0": "(fun v => negb (n_of v =? 0))",
    "| x | * x % 2 == 1": "(fun v => n_of v mod 2 =? 1)",
    "| (i , x) | (i as u32 + 1) * x": "(fun p => VN ((kf p + 1) * vf p))",
    "| (m , v) | (m . get_raw_id () , v)": "(fun p => p)",
    # non order-preserving closures (C33 map / map_with_key flows)
    "| c | 100 - 10 * ((c % 10) as u32)": "(vn1 (fun c => 100 - 10 * (c mod 10)))",
    "| (k , c) | k + 100 - 10 * ((c % 10) as u32)": "(fun p => VN (kf p + 100 - 10 * (vf p mod 10)))",
    "| (k , s) | k + 100 - 10 * (s % 10)": "(fun p => VN (kf p + 100 - 10 * (vf p mod 10)))",
    "| acc , v | * acc += v": "c_plus",
    # binary accumulators
    "| acc , x | * acc = (* acc * 2 + x) % 1009": "(vn2 (fun a x => (a * 2 + x) mod 1009))",
    "| acc , v | * acc = (* acc * 2 + v) % 1009": "(vn2 (fun a x => (a * 2 + x) mod 1009))",
    "| acc , x | * acc = (* acc * 3 + x) % 1009": "(vn2 (fun a x => (a * 3 + x) mod 1009))",
    "| acc , v | * acc = (* acc * 3 + v) % 1009": "(vn2 (fun a x => (a * 3 + x) mod 1009))",
    "| acc , x | * acc += x": "c_plus",
    "| count , _ | * count += 1": "c_count",
    "| acc , _ | * acc += 1": "c_count",
    "| curr , new | { if new > * curr { * curr = new ; } }": "c_max",
    "| curr , new | { if new < * curr { * curr = new ; } }": "c_min",
    "| acc , v | { if v > * acc { * acc = v ; } }": "c_max",
    "| curr , new | * curr = new": "c_last",
    "| _ , _ | { }": "c_first",
    "move | curr , new | { if new . 0 > curr . 0 { * curr = new ; } }": "c_maxkey",
    # initial values
    "| | 0u32": "(VN 0)", "| | 0usize": "(VN 0)", "| | 1u32": "(VN 1)", "| | 0": "(VN 0)", "| | ()": "VU",
    # generators
    "| _ , item | Generate :: Return (item)": "g_first",
    LIMIT2: "g_limit2",
}


_MAP_WRAP = "{ let orig = f__free ; move | (k , v) | (k , orig (v)) }{f__free="
_MAPK_WRAP = "{ let orig = f__free ; move | (k , v) | { let out = orig ((Clone :: clone (& k) , v)) ; (k , out) } }{f__free="


def _clos(v):
    sig = closure_sig(v["expr"] if isinstance(v, dict) else v)
    # KeyedSingleton::map / map_with_key wrap the user closure so that the key is kept
    if sig.startswith(_MAP_WRAP) and sig[len(_MAP_WRAP):-1] in CLOSURES:
        return "(fun e => VP (vfst e) (%s (vsnd e)))" % CLOSURES[sig[len(_MAP_WRAP):-1]]
    if sig.startswith(_MAPK_WRAP) and sig[len(_MAPK_WRAP):-1] in CLOSURES:
        return "(fun e => VP (vfst e) (%s e))" % CLOSURES[sig[len(_MAPK_WRAP):-1]]
    if sig not in CLOSURES:
        raise Untranslatable("closure not in the vocabulary: " + sig[:160])
    return CLOSURES[sig]


def _node(x):
    (k, v), = x.items()
    return k, v


def _ck(v):
    ck = v.get("metadata", {}).get("collection_kind", {})
    if not ck:
        return "?", {}
    (k, i), = ck.items()
    return k, i


def _is_tick(v):
    return "Tick" in v.get("metadata", {}).get("location_id", {})


def _retry(v):
    i = _ck(v)[1]
    return i.get("retry", i.get("value_retry"))


def _order(v):
    i = _ck(v)[1]
    return i.get("order", i.get("value_order"))


def _iter_vals(expr):
    """items of `vec![...]` in a source_iter expression: integers or (nested) tuples of integers"""
    body = closure_sig(expr)
    m = re.match(r"^vec\s*!\s*\[(.*)\]$", body, re.S)
    if not m:
        raise Untranslatable("source_iter expression " + body[:80])
    txt = re.sub(r"(\d+)\s*[a-z]\w*", r"\1", m.group(1))     # 1u32 -> 1
    txt = txt.replace("(", "[").replace(")", "]")
    try:
        import json as _json
        return _json.loads("[" + txt + "]")
    except Exception:
        raise Untranslatable("source_iter items " + m.group(1)[:80])


def _src_index(v):
    s = v["source"]
    if "Embedded" in s:
        return INPUT_NAMES.index(s["Embedded"])
    raise Untranslatable("source " + str(s)[:60])


def _gen_parts(v, iv):
    """(init, f) Gallina terms of a FlatMap(| d | d) over Scan = Stream::generator"""
    if closure_sig(v["f"]["expr"]) != "| d | d":
        raise Untranslatable("flat_map over scan that is not the generator flatten")
    sig = closure_sig(iv["acc"]["expr"])
    if not sig.startswith(GEN_WRAPPER + "{") or closure_sig(iv["init"]["expr"]) != "| | None":
        raise Untranslatable("scan that is not Stream::generator's wrapper")
    caps = sig[len(GEN_WRAPPER) + 1:-1]
    m = re.match(r"^f__free=(.*),init__free=(.*)$", caps)
    if not m or m.group(1) not in CLOSURES or m.group(2) not in CLOSURES:
        raise Untranslatable("generator closure not in the vocabulary: " + caps[:160])
    return CLOSURES[m.group(2)], CLOSURES[m.group(1)]


_KINDS_S, _KINDS_B = [], []
_NET = []   # sender-side terms of the Network nodes met while translating a receiver
_REC_S = {"Source", "Map", "Filter", "FilterMap", "FlatMap", "Inspect", "Enumerate", "Unique", "Chain", "Join",
          "JoinHalf", "AntiJoin", "Difference", "PartitionSide"}
_REC_B = {"Batch", "Map", "Filter", "FlatMap", "Chain", "Sort", "Enumerate", "Unique", "JoinHalf", "AntiJoin",
          "CrossSingleton", "Difference", "CrossProduct", "DeferTick"}


def _is_order_cast(k, v):
    """a Cast that weakens the ordering (translated to SWeaken / BWeaken); retry casts
    (weaken_retries) and kind casts (into_keyed) produce no node in the model and are not judged"""
    if k != "Cast":
        return False
    iv = _node(v["inner"])[1]
    return _order(v) == "NoOrder" and _order(iv) == "TotalOrder" and _ck(v)[0] == _ck(iv)[0]


def _kind_entry(t, v):
    kind, info = _ck(v)
    if kind not in ("Stream", "KeyedStream"):
        return None
    b = info.get("bound") == "Bounded"
    o = info.get("order", info.get("value_order")) == "TotalOrder"
    r = info.get("retry", info.get("value_retry")) == "ExactlyOnce"
    return "(%s, (%s, (%s, %s)))" % (t, vlib.g_bool(b), vlib.g_bool(o), vlib.g_bool(r))


def tr_s(x):
    """top-level stream node -> snode term; records the node's builder metadata for the kind check"""
    t = _tr_s(x)
    k, v = _node(x)
    if isinstance(v, dict) and not _is_tick(v) and (k in _REC_S or _is_order_cast(k, v)):
        e = _kind_entry(t, v)
        if e:
            _KINDS_S.append(e)
    return t


def tr_b(x):
    """tick-level node -> bnode term; records the node's builder metadata for the kind check"""
    t = _tr_b(x)
    k, v = _node(x)
    if isinstance(v, dict) and _is_tick(v) and (k in _REC_B or _is_order_cast(k, v)
                                                or t.startswith("(BWeakenR") and k == "Cast"
                                                or t.startswith("(BAssume") and k == "ObserveNonDet"):
        e = _kind_entry(t, v)
        if e:
            _KINDS_B.append(e)
    return t


def _tr_s(x):
    """top-level stream node -> snode term"""
    k, v = _node(x)
    if k == "Tee":
        # a shared node: the IR is a DAG, the model duplicates the subterm (same denotation and
        # same per-tick semantics: tee() copies every item to both consumers)
        second = "$shared_ref" in v["inner"]
        t = tr_s(_shared(v["inner"]))
        if second:
            _EXTRA.append(t)
        return t
    if k == "Source":
        if "Iter" in v["source"]:
            return "(SIter %s)" % g_vals(_iter_vals(v["source"]["Iter"]))
        return "(SSrc %d)" % _src_index(v)
    if k in ("ObserveNonDet", "AssertIsConsistent", "BeginAtomic", "EndAtomic"):
        # identities in production; Atomic-located operators are top-level ('static) operators
        return tr_s(v["inner"])
    if k == "YieldConcat" and _is_tick(_node(v["inner"])[1]):
        # all_ticks_atomic inside across_ticks: the batches, seen again as one top-level stream
        return tr_s(v["inner"])
    if k == "Batch":
        ik, iv = _node(v["inner"])
        if ik != "Source":
            raise Untranslatable("batch of a computed collection under across_ticks")
        return "(SSrc %d)" % _src_index(iv)
    if k == "Cast":
        inner = v["inner"]
        ik, iv = _node(inner)
        if _order(v) == "NoOrder" and _order(iv) == "TotalOrder" and _ck(v)[0] == _ck(iv)[0]:
            return "(SWeaken %s)" % tr_s(inner)
        return tr_s(inner)
    if k == "Map":
        return "(SMap %s %s)" % (_clos(v["f"]), tr_s(v["input"]))
    if k == "Filter":
        return "(SFilter %s %s)" % (_clos(v["f"]), tr_s(v["input"]))
    if k == "FilterMap":
        return "(SFilterMap %s %s)" % (_clos(v["f"]), tr_s(v["input"]))
    if k == "FlatMap" and _node(v["input"])[0] == "Scan":
        iv = _node(v["input"])[1]
        init, f = _gen_parts(v, iv)
        return "(SGen %s %s %s)" % (init, f, tr_s(iv["input"]))
    if k == "FlatMap":
        ordered = not (_order(v) == "NoOrder" and _order(_node(v["input"])[1]) == "TotalOrder")
        return "(SFlatMap %s %s %s)" % (vlib.g_bool(ordered), _clos(v["f"]), tr_s(v["input"]))
    if k == "Inspect":
        return "(SInspect %s)" % tr_s(v["input"])
    if k == "Enumerate":
        return "(SEnumerate %s)" % tr_s(v["input"])
    if k == "Unique":
        return "(SUnique %s)" % tr_s(v["input"])
    if k == "Chain":
        if _ck(_node(v["first"])[1])[1].get("bound") != "Unbounded":
            raise Untranslatable("top-level chain with a bounded first side")
        return "(SUnion %s %s)" % (tr_s(v["first"]), tr_s(v["second"]))
    if k == "Join":
        return "(SJoin %s %s)" % (tr_s(v["left"]), tr_s(v["right"]))
    if k == "Network":
        # a link: the receiver reads it as its input 0; the sender program is kept aside
        _NET.append(tr_s(v["input"]))
        return "(SSrc 0)"
    if k == "JoinHalf":
        return "(SJoinHalf %s %s)" % (tr_s(v["left"]), tr_s(v["right"]))
    if k == "Difference":
        nk, nv = _node(v["neg"])
        if nk != "Source" or "Iter" not in nv["source"]:
            raise Untranslatable("filter_not_in whose negative side is not a source_iter")
        return "(SDifference %s %s)" % (tr_s(v["pos"]), g_vals(_iter_vals(nv["source"]["Iter"])))
    if k == "PartitionSide":
        second = "$shared_ref" in v["inner"]
        sk, sv = _node(_shared(v["inner"]))
        if sk != "PartitionShared":
            raise Untranslatable("PartitionSide over " + sk)
        t = "(SPart %s %s %s)" % (vlib.g_bool(v["is_true"]), _clos(sv["f"]), tr_s(sv["input"]))
        if second:
            _EXTRA.append(t)
        return t
    if k == "AntiJoin":
        nk, nv = _node(v["neg"])
        if nk != "Source" or "Iter" not in nv["source"]:
            raise Untranslatable("anti_join whose negative side is not a source_iter")
        return "(SAntiJoin %s %s)" % (tr_s(v["pos"]), g_vals(_iter_vals(nv["source"]["Iter"])))
    raise Untranslatable("top-level stream node " + k)


_ABOUNDS = []   # (ranode term, bound recorded by the builder) for every translated aggregate node
# accumulator closures the library / the flow annotates with `monotone = manual_proof!(..)`
_MONO_TEXT = {"| count , _ | * count += 1": "KCount", "| acc , _ | * acc += 1": "KCount", "| acc , v | * acc += v": "KPlusMono"}


def _acc_code(v):
    sig = closure_sig(v["expr"])
    if sig in _MONO_TEXT:
        return _MONO_TEXT[sig]
    acc = _clos(v)
    return "KPlus" if acc == "c_plus" else "(KOther %s)" % acc


def _abound(v):
    """the SingletonBound / KeyedSingletonBound the builder recorded, as the model's [abnd]"""
    kind, info = _ck(v)
    b = info.get("bound")
    if kind == "Singleton":
        return {"Monotonic": "BMonoSingle", "Unbounded": "BUnb"}.get(b)
    if kind == "Optional":
        return {"Unbounded": "BUnb"}.get(b)
    if kind == "KeyedSingleton":
        return {"MonotonicValue": "BMonoValue", "MonotonicKeys": "BMonoKeys", "Unbounded": "BUnb"}.get(b)
    return None


def tr_a(x):
    """top-level singleton / optional / keyed singleton node -> anode term"""
    k, v = _node(x)
    if k in ("ObserveNonDet", "AssertIsConsistent", "Cast", "BeginAtomic", "EndAtomic"):
        return tr_a(v["inner"])
    # reified aggregates (ranode): the accumulator of a fold is a code when it is one of the
    # vocabulary closures proved commutative, so that wf_rab can decide the side conditions
    t = None
    if k == "Fold":
        t = "(RFold %s %s %s)" % (_clos(v["init"]), _acc_code(v["acc"]), tr_s(v["input"]))
    elif k == "Reduce":
        t = "(RReduce %s %s)" % (_clos(v["f"]), tr_s(v["input"]))
    elif k == "FoldKeyed":
        t = "(RFoldKeyed %s %s %s)" % (_clos(v["init"]), _acc_code(v["acc"]), tr_s(v["input"]))
    elif k == "ReduceKeyed":
        t = "(RReduceKeyed %s %s)" % (_clos(v["f"]), tr_s(v["input"]))
    elif k == "Map":
        t = "(RMap %s %s)" % (_clos(v["f"]), tr_a(v["input"]))
    if t is None:
        raise Untranslatable("top-level aggregate node " + k)
    b = _abound(v)
    if b is not None:
        _ABOUNDS.append((t, b))
    return t


def _tr_b(x):
    """tick-level node -> bnode term"""
    k, v = _node(x)
    if k == "Batch":
        ik, iv = _node(v["inner"])
        if ik != "Source":
            raise Untranslatable("batch of a computed top-level collection inside a tick program")
        return "(BBatch %d)" % _src_index(iv)
    if k == "AssertIsConsistent":
        return tr_b(v["inner"])
    if k == "ObserveNonDet":
        # assume_ordering / assume_retries (trusted or not): identity in production; the model keeps
        # the assumed kind when it differs from the input's
        iv = _node(v["inner"])[1]
        if _ck(v)[0] in ("Stream", "KeyedStream") and (_order(v) != _order(iv) or _retry(v) != _retry(iv)):
            return "(BAssume %s %s %s)" % (vlib.g_bool(_order(v) == "TotalOrder"),
                                          vlib.g_bool(_retry(v) == "ExactlyOnce"), tr_b(v["inner"]))
        return tr_b(v["inner"])
    if k == "Cast":
        inner = v["inner"]
        ik, iv = _node(inner)
        if _order(v) == "NoOrder" and _order(iv) == "TotalOrder" and _ck(v)[0] == _ck(iv)[0]:
            return "(BWeaken %s)" % tr_b(inner)
        if _retry(v) == "AtLeastOnce" and _retry(iv) == "ExactlyOnce" and _ck(v)[0] == _ck(iv)[0]:
            return "(BWeakenR %s)" % tr_b(inner)
        return tr_b(inner)
    if k == "Map":
        return "(BMap %s %s)" % (_clos(v["f"]), tr_b(v["input"]))
    if k == "Filter":
        return "(BFilter %s %s)" % (_clos(v["f"]), tr_b(v["input"]))
    if k == "FlatMap":
        ik, iv = _node(v["input"])
        if ik == "Scan":
            init, f = _gen_parts(v, iv)
            return "(BGen %s %s %s)" % (init, f, tr_b(iv["input"]))
        return "(BFlatMap %s %s)" % (_clos(v["f"]), tr_b(v["input"]))
    if k == "Chain":
        return "(BChain %s %s)" % (tr_b(v["first"]), tr_b(v["second"]))
    if k == "Sort":
        return "(BSort %s)" % tr_b(v["input"])
    if k == "Enumerate":
        return "(BEnumerate %s)" % tr_b(v["input"])
    if k == "Unique":
        return "(BUnique %s)" % tr_b(v["input"])
    if k == "JoinHalf":
        return "(BJoin %s %s)" % (tr_b(v["left"]), tr_b(v["right"]))
    if k == "AntiJoin":
        return "(BAntiJoin %s %s)" % (tr_b(v["pos"]), tr_b(v["neg"]))
    if k == "CrossSingleton":
        return "(BCrossSingleton %s %s)" % (tr_b(v["left"]), tr_b(v["right"]))
    if k == "Fold":
        return "(BFold %s %s %s)" % (_clos(v["init"]), _clos(v["acc"]), tr_b(v["input"]))
    if k == "Reduce":
        return "(BReduce %s %s)" % (_clos(v["f"]), tr_b(v["input"]))
    if k == "FoldKeyed":
        return "(BFoldKeyed %s %s %s)" % (_clos(v["init"]), _clos(v["acc"]), tr_b(v["input"]))
    if k == "ReduceKeyed":
        return "(BReduceKeyed %s %s)" % (_clos(v["f"]), tr_b(v["input"]))
    if k == "Difference":
        return "(BDifference %s %s)" % (tr_b(v["pos"]), tr_b(v["neg"]))
    if k == "CrossProduct":
        return "(BCrossNL %s %s)" % (tr_b(v["left"]), tr_b(v["right"]))
    if k == "SingletonSource":
        sig = closure_sig(v["value"] if isinstance(v["value"], str) else v["value"].get("expr", ""))
        m = re.match(r"^(\d+)\s*[a-z]\w*$", sig.strip())
        if not m:
            raise Untranslatable("singleton value " + sig[:60])
        return "(%s (VN %s))" % ("BFirstTick" if v["first_tick_only"] else "BConst", m.group(1))
    if k == "DeferTick":
        return "(BDefer %s)" % tr_b(v["input"])
    if k == "ChainFirst":
        return "(BChainFirst %s %s)" % (tr_b(v["first"]), tr_b(v["second"]))
    if k == "ReduceKeyedWatermark":
        return "(BReduceKeyedWm %s %s %s)" % (_clos(v["f"]), tr_b(v["input"]), tr_b(v["watermark"]))
    raise Untranslatable("tick node " + k)


def translate_flow(ir):
    """IR dump (list of roots) -> (kind, term, expected_total_order|None); kind in FS / FA / B"""
    _SHARED.clear()
    del _EXTRA[:]
    del _KINDS_S[:]
    del _KINDS_B[:]
    del _NET[:]
    del _ABOUNDS[:]
    if len(ir) != 1:
        raise Untranslatable("%d roots (cycles / several outputs)" % len(ir))
    rk, rv = _node(ir[0])
    if rk != "EmbeddedOutput":
        raise Untranslatable("root " + rk)
    x = rv["input"]
    # observation plumbing: assume_ordering at the very top
    k, v = _node(x)
    while k == "ObserveNonDet" and not v.get("trusted"):
        x = v["inner"]
        k, v = _node(x)
    # top-level maps applied to the observed snapshots of an aggregate (entries().all_ticks().map(f))
    maps, px, pk, pv = [], x, k, v
    while pk == "Map" and not _is_tick(pv):
        maps.append(pv["f"])
        px = pv["input"]
        pk, pv = _node(px)
    if maps and pk == "YieldConcat":
        z = pv["inner"]
        zk, zv = _node(z)
        while zk == "Cast":
            z = zv["inner"]
            zk, zv = _node(z)
        if (zk == "Batch" and _node(zv["inner"])[0] != "Source" and not _is_tick(_node(zv["inner"])[1])
                and _ck(_node(zv["inner"])[1])[0] not in ("Stream", "KeyedStream")):
            t = tr_a(zv["inner"])
            for f in reversed(maps):
                t = "(RMap %s %s)" % (_clos(f), t)
            return "FA", "(rinterp (RA %s))" % t, None
    if k != "YieldConcat":
        return "FS", "(rinterp (RS %s))" % tr_s(x), _order(v) == "TotalOrder"
    y = v["inner"]
    expected = _order(_node(y)[1]) == "TotalOrder" if _ck(_node(y)[1])[0] == "Stream" else None
    # snapshot of a top-level singleton / optional / keyed singleton: Cast* (Batch top-level-node)
    z = y
    zk, zv = _node(z)
    while zk == "Cast":
        z = zv["inner"]
        zk, zv = _node(z)
    if zk == "Batch" and _node(zv["inner"])[0] != "Source" and not _is_tick(_node(zv["inner"])[1]):
        ik, iv = _node(zv["inner"])
        if _ck(iv)[0] in ("Stream", "KeyedStream"):
            return "FS", "(rinterp (RS %s))" % tr_s(zv["inner"]), _order(iv) == "TotalOrder"
        return "FA", "(rinterp (RA %s))" % tr_a(zv["inner"]), None
    return "B", tr_b(y), expected


def gen_name(flow):
    return "g_" + flow


def translated_defs(ctx, binary, flows):
    """Gallina definitions `g_<flow>` translated from the builder's IR dump, and a report"""
    res = vlib.run_harness(ctx, binary, [{"k": "ir", "flow": f} for f in flows], name="ir")
    defs, report = [], {}
    for f, r in zip(flows, res):
        try:
            if not isinstance(r, dict) or "ir" not in r:
                raise Untranslatable("no IR dump from the harness")
            kind, term, expected = translate_flow(r["ir"])
            defs.append("Definition %s := %s." % (gen_name(f), term))
            report[f] = {"kind": kind, "expected_total_order": expected, "term": term, "shared_extra": list(_EXTRA),
                         "kinds_s": list(_KINDS_S), "kinds_b": list(_KINDS_B), "sender": (list(_NET) or [None])[0],
                         "abounds": list(_ABOUNDS)}
        except Untranslatable as e:
            report[f] = {"kind": None, "why": str(e)}
    return "\n".join(defs), report


HAND_ONLY = {"t_cycle": "tick cycle (two roots)", "u_is_empty": "is_none pipeline",
             "u_into_singleton": "HashMap-valued singleton (per-batch function)",
             "u_repeat_with_keys": "cross_product_nested_loop (per-batch function)",
             "m_keyed_first": "fold_early_stop (keyed generator)"}


class Translated:
    """per-run translation of the corpus flows from the builder's IR dump"""

    def __init__(self, ctx, binary, flows):
        self.defs, self.report = translated_defs(ctx, binary, flows)
        _TR_CURRENT[0] = self
        self.failed = [f for f, r in self.report.items() if r["kind"] is None and f not in HAND_ONLY]

    def ok(self, flow):
        return self.report.get(flow, {}).get("kind") is not None

    def name(self, flow):
        return gen_name(flow) if self.ok(flow) else flow

    def same(self, flow, case):
        """cross-check term of the generated term against the hand-written one on this case"""
        if not self.ok(flow):
            return 1 if flow in self.failed else None
        if flow in GENERATED_ONLY:
            r = self.report[flow]
            e = r["expected_total_order"]
            if r["kind"] == "FS" and e is not None:
                return "(same_flow %s %s [] (Some %s))" % (gen_name(flow), gen_name(flow), vlib.g_bool(e))
            return None
        r = self.report[flow]
        e = r["expected_total_order"]
        exp = "None" if e is None else "(Some %s)" % vlib.g_bool(e)
        fn = "same_bnode" if r["kind"] == "B" else "same_flow"
        return "(%s %s %s %s %s)" % (fn, gen_name(flow), flow, g_ticks(case), exp)

    def wf_term(self, flow):
        """executable well-formedness check of the translated top-level term (sound by
        C28_translated_terms_wf_check_sound); None for tick programs / hand-specified flows"""
        r = self.report.get(flow, {})
        if r.get("kind") in ("FS", "FA") and r["term"].startswith("(rinterp "):
            return "(chk_wf %s)" % r["term"][len("(rinterp "):-1]
        return None

    def kinds_term(self, flow):
        """the model's kind judgement against the collection_kind metadata of every translated node"""
        r = self.report.get(flow, {})
        ts = []
        if r.get("kinds_s"):
            ts.append("(chk_kinds_s [%s])" % "; ".join(r["kinds_s"]))
        if r.get("kinds_b"):
            ts.append("(chk_kinds_b [%s])" % "; ".join(r["kinds_b"]))
        if not ts:
            return None
        return ts[0] if len(ts) == 1 else "(N.lor %s %s)" % (ts[0], ts[1])

    def abounds_term(self, flow):
        """bound judgement of every translated aggregate node vs the bound the builder recorded"""
        ab = self.report.get(flow, {}).get("abounds") or []
        if not ab:
            return None
        return "(chk_abounds [%s])" % "; ".join("(%s, %s)" % e for e in ab)

    def root_promise(self, flow):
        """mono_kind promised by the RECORDED bound of the observed (outermost) aggregate node"""
        ab = self.report.get(flow, {}).get("abounds") or []
        if not ab:
            return None
        return "(promise_of %s)" % ab[-1][1]

    def kinds_count(self):
        return sum(len(r.get("kinds_s", [])) + len(r.get("kinds_b", [])) for r in self.report.values())

    def wrap(self, flow, case, term):
        s = self.same(flow, case)
        if s is None or isinstance(term, int):
            return term
        if s == 1:
            return "(N.lor %s 1)" % term
        return "(N.lor %s %s)" % (term, s)

    def summary(self):
        return {"kind_judgement_nodes_checked": self.kinds_count(),
                "translated_from_ir_dump": sorted(f for f in self.report if self.ok(f)),
                "generated_only_no_hand_term": sorted(f for f in self.report if self.ok(f) and f in GENERATED_ONLY),
                "hand_specified_only": {f: HAND_ONLY.get(f, self.report[f].get("why")) for f in self.report if not self.ok(f)},
                "translation_failures": {f: self.report[f].get("why") for f in self.failed}}


_TR_CURRENT = [None]   # the run's Translated object (set by Translated.__init__)


def emit_term_named(flow, name, res, fn="chk_emit", extras=()):
    """emission-table term for `flow`, evaluated on the Gallina term called `name`, OR-ed with the
    kind-judgement check of the flow's translated nodes"""
    t = _emit_term_named(flow, name, res, fn, extras)
    tr = _TR_CURRENT[0]
    if tr is None or isinstance(t, int):
        return t
    for k in (tr.kinds_term(flow), tr.abounds_term(flow)):
        if k is not None:
            t = "(N.lor %s %s)" % (t, k)
    return t


def _emit_term_named(flow, name, res, fn="chk_emit", extras=()):
    t = emit_term(flow, res, fn=fn)
    if isinstance(t, int):
        return t
    if extras:
        return t.replace("(%s %s " % (fn, flow), "(chk_emit_dag %s [%s] " % (name, "; ".join(extras)), 1)
    return t.replace("(%s %s " % (fn, flow), "(%s %s " % (fn, name), 1)


# ---------------------------------------------------------------------------- network links


def net_flows(prop):
    return [f for f, sp in FLOWS.items() if sp.get("net") and prop in sp["props"]]


def gen_net_cases(rng, tier, prop):
    """o2o: sender inputs cut into ticks x arbitrary FIFO re-batching for the receiver (with empty
    receiver ticks, always ending with a tick that delivers the rest); m2o: 2-3 members x random
    per-sender-FIFO interleavings"""
    cases = []
    reps = 12 if tier == "thorough" else 5
    for flow in net_flows(prop):
        cases.append({"k": "ir", "flow": flow, "src": "emit"})
        for _ in range(reps):
            if FLOWS[flow]["net"] == "o2o":
                items = gen_input(rng, "n", rng.range(2, 10))
                base = random_partition(rng, flow, [items], src="net")
                for _ in range(4):
                    ks, left = [], len(items)
                    for _ in range(rng.range(1, 5)):
                        k = rng.range(0, 3)
                        ks.append(k)
                    ks.append(len(items))
                    cases.append({"flow": flow, "ticks": base["ticks"], "deliver": ks, "src": "net"})
            else:
                members = [gen_input(rng, "n", rng.range(0, 5)) for _ in range(rng.range(2, 3))]
                for _ in range(4):
                    pool = []
                    for i, m in enumerate(members):
                        pool += [i] * len(m)
                    pool = rng.shuffle(pool)
                    sched, i = [], 0
                    while i < len(pool):
                        k = rng.range(0, 3)
                        sched.append(pool[i:i + k])
                        i += k
                    sched.append([])
                    cases.append({"flow": flow, "members": members, "deliver": sched, "src": "net"})
    return cases


def net_term(tr, case, res):
    flow = case["flow"]
    r = tr.report.get(flow, {})
    if r.get("kind") is None or not r.get("sender"):
        return 1
    if case.get("k") == "ir":
        ts = [t for t in (tr.kinds_term(flow), tr.wf_term(flow)) if t]
        out = "0"
        for t in ts:
            out = "(N.lor %s %s)" % (out, t)
        return out
    if not isinstance(res, dict) or "ticks" not in res:
        return 3
    impl = g_impl(res)
    inner = r["term"][len("(rinterp "):-1]            # (RS n) / (RA a)
    if FLOWS[flow]["net"] == "o2o":
        recv = inner[len("(RS "):-1]
        ticks = "[" + "; ".join("[" + g_vals(t.get("a", [])) + "]" for t in case["ticks"]) + "]"
        sent = "[" + "; ".join(g_vals(t) for t in res["sent_ticks"]) + "]"
        ks = "[" + "; ".join("%d%%nat" % k for k in case["deliver"]) + "]"
        return "(chk_net_o2o %s %s %s %s %s %s)" % (r["sender"], recv, ticks, ks, sent, impl)
    recv = "(interp_a %s)" % inner[len("(RA "):-1]
    members = "[" + "; ".join(g_vals(m) for m in case["members"]) + "]"
    sent = "[" + "; ".join(g_vals(t) for t in res["sent_members"]) + "]"
    sched = "[" + "; ".join("[" + "; ".join("%d%%nat" % m for m in t) + "]" for t in case["deliver"]) + "]"
    return "(chk_net_m2o %s %s %s %s %s %s)" % (r["sender"], recv, members, sched, sent, impl)
