#!/bin/sh
# run every claimed check's quick tier sequentially; summary to work/runall.log
cd /verif
mkdir -p work
: > work/runall.log
for f in checks/C*.json; do
  id=$(basename $f .json)
  s=$(date +%s)
  timeout 1500 ./vcheck $id --tier quick > work/runall_$id.out 2>&1
  rc=$?
  e=$(date +%s)
  echo "$id rc=$rc $((e-s))s $(grep -c '^VIOLATION' work/runall_$id.out) violations; $(grep -c '^KNOWN-FINDING' work/runall_$id.out) known; $(tail -1 work/runall_$id.out | cut -c1-100)" >> work/runall.log
done
echo DONE >> work/runall.log
