"""Sim engine (E9) support: hook descriptions, decision-script enumeration, Gallina printing.

A hook description is JSON: {"kind": stream_t|stream_n|keyed_t|keyed_n|single|pass|ksingle,
"q": [..] | "m": [[k,[..]],..], "tr": null|[..], "last": null|v|[[k,v],..]}.
The Python port of the decision procedures below is used ONLY to enumerate the valid decision
strings of a configuration (which ranges are requested at which point); the oracle is the Coq
model, never this port: a wrong port merely yields scripts that are invalid on both sides.
"""
import copy

from tools.vlib import g_bool, g_list, g_opt

UNKEYED = ("stream_t", "stream_n", "single", "pass")
KEYED = ("keyed_t", "keyed_n", "ksingle")
KINDS = UNKEYED + KEYED
TOP = ("top_order", "top_fold", "top_merge", "top_keyed_order", "top_partial", "top_kmerge")

# ---------------------------------------------------------------- Python port (enumeration only)


class Empty(Exception):
    pass


class Need(Exception):
    def __init__(self, lo, hi):
        self.lo, self.hi = lo, hi


class Stop(Exception):
    """the procedure panics (model: Panic): nothing more is asked"""


def p_total(q, force, ask):
    c = ask(1 if force else 0, len(q))
    del q[:c]
    return c > 0


def p_noorder(q, must, ask):
    out = 0
    mi = 0
    while q:
        if not (must and out == 0) and ask(0, 1) == 1:
            break
        idx = ask(mi, len(q) - 1)
        q.pop(idx)
        out += 1
        mi = idx
        if mi == len(q):
            break
    return out > 0


def p_keyed(m, force, ask, noorder):
    r = len([1 for _, q in m if q])
    any_ = False
    for _, q in m:
        if not q:
            continue
        r -= 1
        if noorder:
            nt = p_noorder(q, force and r == 0, ask)
        else:
            nt = p_total(q, force and r == 0, ask)
        if nt:
            force = False
            any_ = True
    return any_


def p_single(q, last, force, ask):
    if not q:
        if force or last is None:
            raise Stop()
        return False
    if not force and last is not None and ask(0, 1) == 1:
        return False
    idx = ask(0, len(q) - 1)
    del q[:idx + 1]
    return True


def p_ksingle(m, last, force, ask):
    r = len([1 for _, q in m if q])
    any_ = False
    for k, q in m:
        if not q:
            if k not in last:
                raise Stop()
            continue
        r -= 1
        do_nt = force and r == 0
        if not do_nt and k in last and ask(0, 1) == 1:
            continue
        if (not do_nt and k not in last) and ask(0, 1) == 1:
            continue
        idx = ask(0, len(q) - 1)
        del q[:idx + 1]
        last.add(k)
        any_ = True
        force = False
    return any_


def p_top(h, force, ask):
    k = h["kind"]
    if k == "top_kmerge":
        ne = [q for _, q in h["m"] if q] + [q for _, q in h["m2"] if q]
        if not ne:
            return
        if not force and ask(0, 1) == 1:
            return
        ask(0, len(ne) - 1)
        return
    if k in ("top_keyed_order", "top_partial"):
        ne = [q for _, q in h["m"] if q]
        if not ne:
            return
        if not force and ask(0, 1) == 1:
            return
        ki = ask(0, len(ne) - 1)
        if k == "top_keyed_order":
            ask(0, len(ne[ki]) - 1)
        return
    q = h["q"]
    if k == "top_order":
        if not q:
            return
        if not force and ask(0, 1) == 1:
            return
        ask(0, len(q) - 1)
    elif k == "top_fold":
        if not q:
            if force:
                raise Stop()
            return
        sel = 0
        for i in range(len(q)):
            if (i == len(q) - 1 and sel == 0) or ask(0, 1) == 1:
                sel += 1
        for i in range(sel - 1, 0, -1):
            ask(0, i)
    elif k == "top_merge":
        q2 = h["q2"]
        if not q and not q2:
            return
        if not force and ask(0, 1) == 1:
            return
        if q and q2:
            ask(0, 1)


def group_first_seen(pairs):
    g, idx = [], {}
    for k, v in pairs:
        if k not in idx:
            idx[k] = len(g)
            g.append([k, []])
        g[idx[k]][1].append(v)
    return g


def p_inline(c, ask):
    if c["kind"] == "kshuffle":
        d = dict((k, vs) for k, vs in group_first_seen(c["input"]))
        for k in c.get("_order") or list(d):
            n = len(d[k])
            for src in range(0, n - 1):
                ask(src, n - 1)
        return
    if c["kind"] == "partial":
        g = [list(vs) for _, vs in group_first_seen(c["input"])]
        while True:
            ne = [q for q in g if q]
            if not ne:
                return
            ne[ask(0, len(ne) - 1)].pop(0)
    if c["kind"] == "kmerge":
        ga, gb = dict(group_first_seen(c["first"])), dict(group_first_seen(c["second"]))
        keys = []
        for k, _ in c["first"] + c["second"]:
            if k not in keys:
                keys.append(k)
        for k in keys:
            a, b = len(ga.get(k, [])), len(gb.get(k, []))
            while a > 0 and b > 0:
                if ask(0, 1) == 1:
                    b -= 1
                else:
                    a -= 1
        return
    if c["kind"] == "shuffle":
        n = len(c["input"])
        for src in range(0, n - 1):
            ask(src, n - 1)
    else:
        a, b = len(c["first"]), len(c["second"])
        while a > 0 and b > 0:
            if ask(0, 1) == 1:
                b -= 1
            else:
                a -= 1


def top_scripts(h, force, limit=4000):
    return enum_scripts(lambda ask: p_top(h, force, ask), limit)


def inline_scripts(c, limit=4000):
    return enum_scripts(lambda ask: p_inline(c, ask), limit)


def can_nt(h):
    if h["kind"] == "top_kmerge":
        return any(q for _, q in h["m"]) or any(q for _, q in h["m2"])
    if h["kind"] in ("top_keyed_order", "top_partial"):
        return any(q for _, q in h["m"])
    if h["kind"] == "top_merge":
        return bool(h["q"]) or bool(h["q2"])
    if h["kind"] in KEYED:
        return any(q for _, q in h["m"])
    return bool(h["q"])


def p_auto(h, force, ask):
    """runs on a private copy of the hook description (queues are consumed); returns the
    'non-trivial' flag; sets h['_dec']"""
    k = h["kind"]
    h["_dec"] = True
    if k == "stream_t":
        return p_total(h["q"], force, ask)
    if k == "stream_n":
        return p_noorder(h["q"], force, ask)
    if k == "keyed_t":
        return p_keyed(h["m"], force, ask, False)
    if k == "keyed_n":
        return p_keyed(h["m"], force, ask, True)
    if k == "single":
        return p_single(h["q"], h.get("last"), force, ask)
    if k == "pass":
        if h["q"]:
            del h["q"][:]
            return True
        if h.get("last") is None:
            raise Stop()
        return False
    if k == "ksingle":
        return p_ksingle(h["m"], set(kk for kk, _ in (h.get("last") or [])), force, ask)
    raise ValueError(k)


def p_run_hooks(hs, ask):
    """idle hooks only (no manual decisions)"""
    for h in hs:
        h["_dec"] = False
    rc = len(hs)
    made = False
    for h in hs:
        if not can_nt(h):
            p_auto(h, False, ask)
            rc -= 1
    for h in hs:
        if not h["_dec"]:
            made |= p_auto(h, (not made) and rc == 1, ask)
            if rc == 0:
                raise Stop()
            rc -= 1


def enum_scripts(proc, limit=4000):
    """all complete decision strings of `proc(ask)` by depth-first re-execution; a string that
    runs into an empty range or a panic is kept (both sides must agree on it too)"""
    out = []
    stack = [[]]
    while stack and len(out) < limit:
        prefix = stack.pop()
        pos = [0]

        def ask(lo, hi):
            if hi < lo:
                raise Empty()
            if pos[0] < len(prefix):
                v = prefix[pos[0]]
                pos[0] += 1
                return v
            raise Need(lo, hi)

        try:
            proc(ask)
            out.append(prefix)
        except Need as n:
            for v in range(n.hi, n.lo - 1, -1):
                stack.append(prefix + [v])
        except (Empty, Stop):
            out.append(prefix)
    return out


def hook_scripts(h, force, limit=4000):
    return enum_scripts(lambda ask: p_auto(copy.deepcopy(h), force, ask), limit)


def tick_scripts(hs, limit=4000):
    return enum_scripts(lambda ask: p_run_hooks(copy.deepcopy(hs), ask), limit)


def mutate_script(rng, ds):
    """an invalid or over-long neighbour of a valid script"""
    ds = list(ds)
    c = rng.below(3)
    if c == 0 and ds:
        return ds[:-1]
    if c == 1 and ds:
        i = rng.below(len(ds))
        ds[i] += 1 + rng.below(6)
        return ds
    return ds + [rng.below(3)]


# ---------------------------------------------------------------- hook generation

def reorder_hook(h, order):
    """present a keyed hook's map in the implementation's iteration order"""
    if h["kind"] not in KEYED or order is None:
        return h
    d = dict((k, q) for k, q in h["m"])
    h2 = dict(h)
    h2["m"] = [[k, list(d.get(k, []))] for k in order]
    return h2


def full_map(h):
    """the map the implementation will hold: entries of m (merged per key, first-seen order),
    plus keys that only occur in `last` (primed, empty queue)"""
    m = []
    idx = {}
    for k, q in h["m"]:
        if k not in idx:
            idx[k] = len(m)
            m.append([k, []])
        m[idx[k]][1] += list(q)
    if h["kind"] == "ksingle":
        for k, _ in (h.get("last") or []):
            if k not in idx:
                idx[k] = len(m)
                m.append([k, []])
    return m


def rand_queue(rng, maxlen, distinct=None):
    n = rng.below(maxlen + 1)
    if distinct is None:
        distinct = rng.chance(2, 3)
    if distinct:
        return [10 * (i + 1) + rng.below(3) for i in range(n)]
    return [1 + rng.below(3) for _ in range(n)]


def rand_hook(rng, kind=None, maxlen=4, maxkeys=3):
    kind = kind or rng.choice(KINDS)
    if kind in ("stream_t", "stream_n"):
        return {"kind": kind, "q": rand_queue(rng, maxlen), "tr": None}
    if kind == "pass":
        q = rand_queue(rng, maxlen)
        last = rng.choice([None, 5, 7]) if q or rng.chance(1, 8) else 5
        return {"kind": kind, "q": q, "tr": None, "last": last}
    if kind == "single":
        q = rand_queue(rng, maxlen)
        last = rng.choice([None, 5, 7]) if q or rng.chance(1, 8) else 5
        return {"kind": kind, "q": q, "tr": None, "last": last}
    keys = rng.sample([1, 2, 3, 7, 100, 65536, 4000000000], 1 + rng.below(maxkeys))
    if rng.chance(1, 10):
        keys = []
    m = [[k, rand_queue(rng, maxlen - 1)] for k in keys]
    if kind == "ksingle":
        last = []
        for k, q in m:
            # an empty queue is only reachable for a key that was released before
            if not q or rng.chance(1, 2):
                if q or not rng.chance(1, 12):
                    last.append([k, 3 + rng.below(3)])
        return {"kind": kind, "m": m, "tr": None, "last": last}
    return {"kind": kind, "m": m, "tr": None}


def small_hooks(kind, maxlen):
    """bounded-exhaustive hook configurations of one kind: queue lengths 0..maxlen"""
    out = []
    if kind in ("stream_t", "stream_n"):
        for n in range(maxlen + 1):
            out.append({"kind": kind, "q": [10 * (i + 1) for i in range(n)], "tr": None})
        out.append({"kind": kind, "q": [1, 1, 2][:maxlen], "tr": None})
    elif kind in ("single", "pass"):
        for n in range(maxlen + 1):
            for last in (None, 5):
                out.append({"kind": kind, "q": [10 * (i + 1) for i in range(n)], "tr": None, "last": last})
    else:
        lens = [(a, b) for a in range(min(maxlen, 3) + 1) for b in range(min(maxlen, 2) + 1)]
        for a, b in lens:
            m = [[1, [10 * (i + 1) for i in range(a)]], [2, [20 * (i + 1) for i in range(b)]]]
            if kind == "ksingle":
                for lm in range(4):
                    last = [[k, 5 + k] for k in (1, 2) if lm & k]
                    out.append({"kind": kind, "m": m, "tr": None, "last": last})
            else:
                out.append({"kind": kind, "m": m, "tr": None})
        m3 = [[1, [10]], [2, [20, 21]], [3, [30]]]
        if kind == "ksingle":
            out.append({"kind": kind, "m": m3, "tr": None, "last": [[2, 9]]})
        else:
            out.append({"kind": kind, "m": m3, "tr": None})
    return out


# ---------------------------------------------------------------- Gallina printing

def g_ln(l):
    return g_list(["%d" % x for x in l])


def g_kv(l):
    return g_list(["(%d, %d)" % (k, v) for k, v in l])


def g_map(m):
    return g_list(["(%d, %s)" % (k, g_ln(q)) for k, q in m])


def g_nat(n):
    return "%d%%nat" % n


def g_script(ds):
    return g_list([g_nat(d) for d in ds])


def g_obool(b):
    return "None" if b is None else "(Some %s)" % g_bool(b)


def g_hook(h):
    k = h["kind"]
    tr = h.get("tr")
    if k in ("stream_t", "stream_n"):
        return "(%s %s %s)" % ({"stream_t": "HStreamT", "stream_n": "HStreamN"}[k], g_ln(h["q"]),
                               g_opt(None if tr is None else g_ln(tr)))
    if k == "pass":
        last = h.get("last")
        return "(HPass %s None %s)" % (g_ln(h["q"]), "None" if last is None else "(Some %d)" % last)
    if k == "single":
        last = h.get("last")
        return "(HSingle %s None %s)" % (g_ln(h["q"]), "None" if last is None else "(Some %d)" % last)
    m = full_map(h)
    if k in ("keyed_t", "keyed_n"):
        return "(%s %s %s)" % ({"keyed_t": "HKeyedT", "keyed_n": "HKeyedN"}[k], g_map(m),
                               g_opt(None if tr is None else g_kv(tr)))
    if k == "ksingle":
        return "(HKSingle %s None %s)" % (g_map(m), g_kv(h.get("last") or []))
    raise ValueError(k)


def order_of(before):
    return [k for k, _ in before]


def g_obs(r):
    if r.get("bad"):
        return "OBad"
    if "panic" in r:
        return "(OPanic %s %s)" % (g_nat(r["panic"]), g_bool(r.get("at") == "release"))
    return "(OOk %s %s %s %s %s %s %s %s %s)" % (
        g_map(r["before"]), g_obool(r["cur0"]), g_bool(r["can0"]), g_bool(r["ready0"]), g_bool(r["ret"]),
        g_obool(r["cur1"]), g_kv(r["emitted"]), g_map(r["after"]), g_nat(r["used"]))


def hook_term(case, res):
    """Gallina term (type N) for a 'hook' case: run_rounds over the rounds the implementation
    actually executed (it stops at the first panic / bad script)"""
    if "rounds" not in res:
        return 3
    rs = []
    for rnd, r in zip(case["rounds"], res["rounds"]):
        if "before" not in r:
            return 3
        ds = r.get("ds_used", rnd.get("ds", []))
        rs.append("{| r_push := %s; r_order := %s; r_force := %s; r_ds := %s; r_obs := %s |}" % (
            g_kv(rnd.get("push", [])), g_ln(order_of(r["before"])), g_bool(rnd.get("force", False)),
            g_script(ds), g_obs(r)))
    return "(run_rounds %s %s)" % (g_hook(case["hook"]), g_list(rs))


def g_tobs(r):
    if r.get("bad"):
        return "TBad"
    if "panic" in r:
        return "(TPanic %s %s %s)" % (g_nat(r["panic"]), g_list([g_map(b) for b in r["before"]]),
                                      g_bool(r["can_run"]))
    info = g_list(["(%s, %s, %s)" % (g_obool(i[0]), g_bool(i[1]), g_bool(i[2])) for i in r["info"]])
    return "(TOk %s %s %s %s %s %s)" % (
        g_list([g_map(b) for b in r["before"]]), g_bool(r["can_run"]), info,
        g_list([g_kv(e) for e in r["emitted"]]), g_list([g_map(a) for a in r["after"]]), g_nat(r["used"]))


def tick_term(case, res):
    if "rounds" not in res:
        return 3
    rs = []
    for rnd, r in zip(case["rounds"], res["rounds"]):
        if "before" not in r:
            return 3
        ds = r.get("ds_used", rnd.get("ds", []))
        push = g_list(["(%s, (%d, %d))" % (g_nat(i), k, v) for i, k, v in rnd.get("push", [])])
        rs.append("{| t_push := %s; t_order := %s; t_ds := %s; t_obs := %s |}" % (
            push, g_list([g_ln(order_of(b)) for b in r["before"]]), g_script(ds), g_tobs(r)))
    return "(run_trounds %s %s)" % (g_list([g_hook(h) for h in case["hooks"]]), g_list(rs))


def g_thook(h):
    k = h["kind"]
    if k == "top_order":
        return "(TOrder %s)" % g_ln(h["q"])
    if k == "top_fold":
        return "(TFold %s)" % g_ln(h["q"])
    if k == "top_merge":
        return "(TMerge %s %s)" % (g_ln(h["q"]), g_ln(h["q2"]))
    if k in ("top_keyed_order", "top_partial"):
        return "(TKeyed %s %s)" % (g_bool(k == "top_partial"), g_map(h["m"]))
    if k == "top_kmerge":
        return "(TKMerge %s %s)" % (g_map(h["m"]), g_map(h["m2"]))
    raise ValueError(k)


def merged(m):
    d = {}
    for k, q in m:
        d.setdefault(k, []).extend(q)
    return d


def in_impl_order(h, before):
    """present a keyed observation hook's map(s) in the implementation's iteration order"""
    if "m" not in h:
        return h
    d = merged(h["m"])
    if h["kind"] == "top_kmerge":
        d2 = merged(h["m2"])
        n1 = len(d)
        o = order_of(before)
        return dict(h, m=[[k, d.get(k, [])] for k in o[:n1]], m2=[[k, d2.get(k, [])] for k in o[n1:]])
    return dict(h, m=[[k, d.get(k, [])] for k in order_of(before)])


def top_term(case, res):
    """single-round case on a top-level (observation) hook"""
    if "rounds" not in res or not res["rounds"]:
        return 3
    rnd, r = case["rounds"][0], res["rounds"][0]
    if "before" not in r:
        return 3
    ds = r.get("ds_used", rnd.get("ds", []))
    h = in_impl_order(case["hook"], r["before"])
    return "(top_verdict %s %s %s %s)" % (g_thook(h), g_bool(rnd.get("force", False)),
                                           g_script(ds), g_obs(r))


def inline_term(case, res):
    keyed_kind = case["kind"] in ("kshuffle", "partial", "kmerge")
    if res.get("bad"):
        out, used = "None", 0
    elif "out" in res:
        o = res["kout"] if keyed_kind else res["out"]
        if len(o) != 1:
            return 3
        out, used = "(Some %s)" % (g_kv(o[0]) if keyed_kind else g_ln(o[0])), res["used"]
    else:
        return 3
    ds = g_script(res.get("ds_used", case.get("ds", [])))
    if case["kind"] == "kshuffle":
        if res.get("group_order") is None:
            return 3
        return "(kshuffle_verdict %s %s %s %s %s)" % (g_kv(case["input"]), g_ln(res["group_order"]), ds, out, g_nat(used))
    if case["kind"] == "partial":
        return "(partial_verdict %s %s %s %s)" % (g_kv(case["input"]), ds, out, g_nat(used))
    if case["kind"] == "kmerge":
        return "(kmerge_verdict %s %s %s %s %s)" % (g_kv(case["first"]), g_kv(case["second"]), ds, out, g_nat(used))
    if case["kind"] == "shuffle":
        return "(shuffle_verdict %s %s %s %s)" % (g_ln(case["input"]), ds, out, g_nat(used))
    return "(merge_verdict %s %s %s %s %s)" % (g_ln(case["first"]), g_ln(case["second"]), ds, out, g_nat(used))


def g_str(x):
    return '"' + x.replace('"', '""') + '"%string'


def log_term(case, res):
    """C38: run_log over the rounds the implementation executed, with its decision-log text"""
    if "rounds" not in res:
        return 3
    rs = []
    for rnd, r in zip(case["rounds"], res["rounds"]):
        if "before" not in r:
            return 3
        ds = r.get("ds_used", rnd.get("ds", []))
        push = g_list(["(%s, (%d, %d))" % (g_nat(i), k, v) for i, k, v in rnd.get("push", [])])
        tr = "{| t_push := %s; t_order := %s; t_ds := %s; t_obs := %s |}" % (
            push, g_list([g_ln(order_of(b)) for b in r["before"]]), g_script(ds), g_tobs(r))
        text = g_opt(g_str(r["log"])) if ("log" in r and "panic" not in r and not r.get("bad")) else "None"
        rs.append("{| l_round := %s; l_log := %s |}" % (tr, text))
    return "(run_log %s %s)" % (g_list([g_hook(h) for h in case["hooks"]]), g_list(rs))


def case_term(case, res):
    if case["k"] == "inline":
        return inline_term(case, res)
    if case["k"] == "hook" and case["hook"]["kind"] in TOP:
        return top_term(case, res)
    if case["k"] == "hook":
        return hook_term(case, res)
    if case["k"] == "tick":
        return tick_term(case, res)
    raise ValueError(case["k"])


# ---------------------------------------------------------------- shrinking

def shrink_case(case):
    """drop rounds, drop hooks, shorten queues / scripts"""
    c = case
    if c["k"] == "inline":
        return
    if len(c["rounds"]) > 1:
        for i in range(len(c["rounds"])):
            d = copy.deepcopy(c)
            del d["rounds"][i:]
            if d["rounds"]:
                yield d
    hooks = [c["hook"]] if c["k"] == "hook" else c["hooks"]
    if c["k"] == "tick" and len(hooks) > 1 and all(not r.get("push") for r in c["rounds"]):
        for i in range(len(hooks)):
            d = copy.deepcopy(c)
            del d["hooks"][i]
            for r in d["rounds"]:
                r.pop("ds", None)
                r["seed"] = r.get("seed", 1)
            yield d
    for hi, h in enumerate(hooks):
        if "q" in h and h["q"]:
            d = copy.deepcopy(c)
            hh = d["hook"] if c["k"] == "hook" else d["hooks"][hi]
            hh["q"] = hh["q"][:-1]
            yield d
        if "m" in h:
            for ki in range(len(h["m"])):
                d = copy.deepcopy(c)
                hh = d["hook"] if c["k"] == "hook" else d["hooks"][hi]
                if hh["m"][ki][1]:
                    hh["m"][ki][1] = hh["m"][ki][1][:-1]
                else:
                    del hh["m"][ki]
                yield d


# ---------------------------------------------------------------- compiled programs (e2e)

E2E_ENV_TOOLCHAIN = "1.96.0-x86_64-unknown-linux-gnu"


def e2e_env():
    """environment of the e2e harness: the simulator shells out to cargo for the generated
    crate, which must use the toolchain and target dir the harness itself was built with"""
    import os
    from tools import vlib
    tc = E2E_ENV_TOOLCHAIN
    home = os.path.expanduser("~/.rustup/toolchains/" + tc)
    # checking an alternative checkout (HV_REPO, seeded-change runs): the harness was built from the
    # private copy into the -alt target dir; the generated crate must go there too, never into the
    # cache of the real tree (stageleft names staged macros after the checkout path)
    alt = vlib.REPO != "/repo"
    env = dict(vlib.cargo_env("hydro-e2e" + ("-alt" if alt else "")))
    mdir = (os.path.join(vlib.WORK, "harness_alt_%d" % os.getpid(), "h_sim", "e2e") if alt
            else os.path.join(vlib.ROOT, "harness", "h_sim", "e2e"))
    env.update({
        "RUSTUP_TOOLCHAIN": tc,
        "LD_LIBRARY_PATH": "%s/lib/rustlib/x86_64-unknown-linux-gnu/lib:%s/lib" % (home, home),
        "CARGO_MANIFEST_DIR": mdir,
        "HV_CASE_TIMEOUT_MS": "3000000",
    })
    return env


def e2e_ticks(case):
    p, a, b = case["prog"], case["a"], case.get("b", [])
    if p == "batch_total":
        return [[{"kind": "stream_t", "q": a, "tr": None}]], False
    if p == "batch_noorder":
        return [[{"kind": "stream_n", "q": a, "tr": None}]], True
    if p == "two_ticks":
        return [[{"kind": "stream_t", "q": a, "tr": None}], [{"kind": "stream_t", "q": b, "tr": None}]], False
    if p == "two_hooks":
        return [[{"kind": "stream_t", "q": a, "tr": None}, {"kind": "stream_t", "q": b, "tr": None}]], False
    raise ValueError(p)


def p_sim_run(ticks, sh, ask):
    ticks = copy.deepcopy(ticks)
    while True:
        rd = [i for i, t in enumerate(ticks) if any(can_nt(h) for h in t)]
        if not rd:
            return
        t = ticks[rd[ask(0, len(rd) - 1)]]
        before = [len(h["q"]) for h in t]
        p_run_hooks(t, ask)
        if sh:
            for h, n0 in zip(t, before):
                n = n0 - len(h["q"])
                for src in range(0, n - 1):
                    ask(src, n - 1)


def e2e_scripts(case, limit=20000):
    ticks, sh = e2e_ticks(case)
    return enum_scripts(lambda ask: p_sim_run(ticks, sh, ask), limit)


def g_lln(x):
    return g_list([g_ln(b) for b in x])


def g_o2(o):
    return g_list([g_list([g_lln(run) for run in tick]) for tick in o])


def e2e_outcome(case, o):
    """harness outcome JSON -> per tick, per run, per hook value lists"""
    p = case["prog"]
    if p in ("batch_total", "batch_noorder"):
        return [[[b] for b in o[0]]]
    if p == "two_ticks":
        return [[[b] for b in o[0]], [[b] for b in o[1]]]
    if p == "two_hooks":
        return [[[x, y] for x, y in o[0]]]
    raise ValueError(p)


def e2e_term(case, res):
    if "outcomes" not in res:
        return 3
    ticks, sh = e2e_ticks(case)
    a, b = case["a"], case.get("b", [])
    spec = {"batch_total": "(spec_total %s)" % g_ln(a), "batch_noorder": "(spec_noorder %s)" % g_ln(a),
            "two_ticks": "(spec_two_ticks %s %s)" % (g_ln(a), g_ln(b)), "two_hooks": "[]"}[case["prog"]]
    scripts = e2e_scripts(case)
    fuel = len(a) + len(b) + 1
    return "(e2e_verdict %s %s %s %s %s %s %s)" % (
        g_nat(fuel), g_bool(sh), g_list([g_list([g_hook(h) for h in t]) for t in ticks]),
        g_list([g_script(s) for s in scripts]),
        g_list([g_o2(e2e_outcome(case, o)) for o in res["outcomes"]]), g_nat(res["executions"]), spec)


def e2e_notes(log):
    """decision-log text of a compiled simulation -> per tick run, the note lines ('^ ...')"""
    out = []
    for chunk in log.split("\nRunning Tick\n")[1:]:
        out.append([l[l.index("^ "):] for l in chunk.split("\n") if "^ " in l])
    return out


def e2e_log_term(case, run):
    """the real run's notes and outcome must be those of some valid decision string of the model"""
    ticks, sh = e2e_ticks(case)
    a, b = case["a"], case.get("b", [])
    scripts = e2e_scripts(case)
    notes = g_list([g_list([g_str(n) for n in t]) for t in e2e_notes(run["log"])])
    return "(e2e_log_verdict %s %s %s %s %s %s)" % (
        g_nat(len(a) + len(b) + 1), g_bool(sh), g_list([g_list([g_hook(h) for h in t]) for t in ticks]),
        g_list([g_script(x) for x in scripts]), notes, g_o2(e2e_outcome(case, run["result"])))
