"""GraphAlg engine (C17) support: case generators, Gallina printers, shrinkers.

Case kinds (JSON):
  {"k":"topo","nodes":[..],"adj":[[n,[preds..]],..]}
  {"k":"validate","order":[..],"adj":[..]}
  {"k":"uf","ops":[["u",a,b]|["f",a]|["s",a,b],..]}
  {"k":"sm","keys":[..],"adj":[..],"enemies":[[a,b],..],"merges":[[u,v],..]}
"""
import glob
import itertools
import json
import os

from tools.vlib import ROOT

# ------------------------------------------------------------------ Gallina printing


def g_ln(xs):
    return "[" + "; ".join("%d" % x for x in xs) + "]"


def g_adj(adj):
    return "[" + "; ".join("(%d, %s)" % (n, g_ln(ps)) for n, ps in adj) + "]"


def g_pairs(ps):
    return "[" + "; ".join("(%d, %d)" % (a, b) for a, b in ps) + "]"


def g_lln(xss):
    return "[" + "; ".join(g_ln(xs) for xs in xss) + "]"


def g_snap(s):
    return "(%s, %s)" % (g_lln(s["sgs"]), g_ln(s["reps"]))


def g_uop(o):
    if o[0] == "u":
        return "UUnion %d %d" % (o[1], o[2])
    if o[0] == "f":
        return "UFind %d" % o[1]
    return "USame %d %d" % (o[1], o[2])


def term(case, res):
    """Gallina term of type N (bit0 model mismatch, bit1 property fails on the implementation)."""
    k = case["k"]
    bad = any(x in res for x in ("hang", "crash", "garbled", "bad_case"))
    if k == "validate":
        # a panic is a specified outcome of validate_topo_sort ("predecessor not in topo sort")
        if bad:
            return 3
        if "panic" in res:
            obs = "VPanic"
        elif res["v"] == "ok":
            obs = "VOk"
        else:
            obs = "(VErr %d %d)" % (res["p"], res["s"])
        return "(chk_validate %s %s %s)" % (g_ln(case["order"]), g_adj(case["adj"]), obs)
    if bad or "panic" in res:
        return 3  # none of these functions may panic / hang on inputs inside the preconditions
    if k == "topo":
        obs = "(ObsOk %s)" % g_ln(res["ok"]) if "ok" in res else "(ObsErr %s)" % g_ln(res["err"])
        return "(chk_topo %s %s %s)" % (g_ln(case["nodes"]), g_adj(case["adj"]), obs)
    if k == "uf":
        return "(chk_uf [%s] %s)" % ("; ".join(g_uop(o) for o in case["ops"]), g_ln(res["outs"]))
    if k == "sm":
        if "cycle" in res:
            obs = "(SmCycle %s)" % g_ln(res["cycle"])
        else:
            obs = "(SmRun %s [%s])" % (g_snap(res["s0"]), "; ".join(
                "(%s, %s)" % ("true" if s["r"] else "false", g_snap(s)) for s in res["steps"]))
        return "(chk_sm %s %s %s %s %s)" % (g_ln(case["keys"]), g_adj(case["adj"]), g_pairs(case["enemies"]),
                                            g_pairs(case["merges"]), obs)
    raise ValueError(k)


# ------------------------------------------------------------------ graph helpers


def edges_to_adj(n_or_nodes, edges, rng=None):
    """edges: (pred, succ) pairs -> adjacency [[succ,[preds]]...] (only nodes with preds listed)."""
    nodes = list(range(n_or_nodes)) if isinstance(n_or_nodes, int) else list(n_or_nodes)
    m = {}
    for p, s in edges:
        m.setdefault(s, []).append(p)
    adj = [[s, m[s]] for s in nodes if s in m]
    for s in m:
        if s not in nodes:
            adj.append([s, m[s]])
    if rng is not None:
        adj = rng.shuffle(adj)
    return adj


def adj_edges(adj):
    seen, out = set(), []
    for s, ps in adj:
        if s in seen:
            continue
        seen.add(s)
        out += [(p, s) for p in ps]
    return out


def all_graphs(n, self_loops):
    pairs = [(a, b) for a in range(n) for b in range(n) if self_loops or a != b]
    for bits in range(1 << len(pairs)):
        yield [pairs[i] for i in range(len(pairs)) if bits >> i & 1]


def is_dag(n_nodes, edges):
    nodes = set(n_nodes)
    for p, s in edges:
        nodes.add(p)
        nodes.add(s)
    preds = {x: set() for x in nodes}
    for p, s in edges:
        preds[s].add(p)
    left = set(nodes)
    while True:
        src = [x for x in left if not (preds[x] & left)]
        if not src:
            return not left
        left -= set(src)


def rand_graph(rng, n, cyclic):
    """random graph on 0..n-1; mostly a DAG along a random permutation, optionally back edges"""
    perm = rng.shuffle(list(range(n)))
    dens = rng.choice([1, 2, 3, 5])  # edge probability dens/8
    edges = []
    for i in range(n):
        for j in range(i + 1, n):
            if rng.chance(dens, 8):
                edges.append((perm[i], perm[j]))
    if rng.chance(1, 4) and edges:  # multi-edge
        edges.append(rng.choice(edges))
    if cyclic:
        for _ in range(rng.range(1, 2)):
            i = rng.below(n)
            j = rng.below(n)
            if rng.chance(1, 6):
                j = i  # self loop
            edges.append((perm[max(i, j)], perm[min(i, j)]))
    return rng.shuffle(edges)


def gen_merges(rng, n, edges, k):
    ms = []
    for _ in range(k):
        if edges and rng.chance(3, 5):
            p, s = rng.choice(edges)
            ms.append([p, s] if rng.chance(1, 2) else [s, p])
        else:
            ms.append([rng.below(n), rng.below(n)])
    return ms


def gen_enemies(rng, n, k):
    out = []
    for _ in range(k):
        if n < 2:
            break
        a = rng.below(n)
        b = rng.below(n - 1)
        if b >= a:
            b += 1
        out.append([a, b])
    return out


def sm_case(rng, n, edges, src):
    ne = rng.choice([0, 0, 1, 1, 2, 3, n])
    nm = rng.range(1, 15) if n > 1 else (rng.range(0, 3) if n == 1 else 0)
    keys = rng.shuffle(list(range(n)))
    if rng.chance(1, 10) and keys:
        keys.append(rng.choice(keys))  # duplicate key: SecondaryMap collapses it
    return {"k": "sm", "keys": keys, "adj": edges_to_adj(n, edges, rng), "enemies": gen_enemies(rng, n, ne),
            "merges": gen_merges(rng, n, edges, nm), "src": src}


def topo_case(rng, n, edges, src, wild=False):
    nodes = rng.shuffle(list(range(n)))
    adj = edges_to_adj(n, edges, rng)
    if wild:
        # outside the closed / duplicate-free shape: duplicated node ids, predecessors that are
        # not listed as nodes (topo_sort itself is total on these)
        if rng.chance(1, 2) and nodes:
            nodes.insert(rng.below(len(nodes) + 1), rng.choice(nodes))
        if rng.chance(1, 2) and nodes:
            extra = n + rng.below(3)
            adj.append([rng.choice(nodes), [extra]])
            if rng.chance(1, 2):
                adj.append([extra, [rng.choice(nodes)]])
        if rng.chance(1, 3) and len(nodes) > 1:
            nodes = nodes[:-1]
    return {"k": "topo", "nodes": nodes, "adj": adj, "src": src}


def validate_case(rng, n, edges, src):
    order = rng.shuffle(list(range(n)))
    if is_dag(range(n), edges) and rng.chance(2, 3):
        # a valid order, possibly perturbed by one swap
        preds = {x: set() for x in range(n)}
        for p, s in edges:
            preds[s].add(p)
        left, order = set(range(n)), []
        while left:
            src_nodes = sorted(x for x in left if not (preds[x] & left))
            x = rng.choice(src_nodes)
            order.append(x)
            left.discard(x)
        if rng.chance(1, 2) and n > 1:
            i = rng.below(n - 1)
            order[i], order[i + 1] = order[i + 1], order[i]
    if rng.chance(1, 12) and order:
        order = order[:-1]  # a predecessor may now be missing: panic is the specified outcome
    if rng.chance(1, 12) and order:
        order.append(rng.choice(order))
    return {"k": "validate", "order": order, "adj": edges_to_adj(n, edges, rng), "src": src}


def uf_case(rng, src):
    n = rng.range(1, 9)
    ops = []
    for _ in range(rng.range(1, 25)):
        r = rng.below(10)
        if r < 5:
            ops.append(["u", rng.below(n), rng.below(n)])
        elif r < 7:
            ops.append(["f", rng.below(n)])
        else:
            ops.append(["s", rng.below(n), rng.below(n)])
    return {"k": "uf", "ops": ops, "src": src}


def corpus_cases(prop="C17"):
    out = []
    for p in sorted(glob.glob(os.path.join(ROOT, "corpus", prop, "*.json"))):
        d = json.load(open(p))
        cs = d["cases"] if "cases" in d else [d["case"]] if "case" in d else [d]
        for c in cs:
            c = dict(c)
            c["src"] = "corpus"
            out.append(c)
    return out


def gen(rng, tier, n):
    cases = corpus_cases()
    # exhaustive small scopes
    if tier == "thorough":
        scopes = [(0, True), (1, True), (2, True), (3, True), (4, True)]
    else:
        scopes = [(0, True), (1, True), (2, True), (3, False)]
    for k, loops in scopes:
        for edges in all_graphs(k, loops):
            cases.append(topo_case(rng, k, edges, "exh%d" % k))
            if is_dag(range(k), edges) or rng.chance(1, 8 if k < 4 else 64):
                cases.append(sm_case(rng, k, edges, "exh%d" % k))
                if tier == "thorough" and k >= 3:
                    cases.append(sm_case(rng, k, edges, "exh%d" % k))
    if tier == "thorough":
        # every merge-attempt sequence of length <= 2 over ordered pairs on every DAG with 3 nodes,
        # for every enemy set of size <= 1
        pr = [(a, b) for a in range(3) for b in range(3)]
        for edges in all_graphs(3, False):
            if not is_dag(range(3), edges):
                continue
            for en in [[]] + [[[a, b]] for a in range(3) for b in range(a + 1, 3)]:
                for m1 in pr:
                    for m2 in pr:
                        cases.append({"k": "sm", "keys": [0, 1, 2], "adj": edges_to_adj(3, edges),
                                      "enemies": en, "merges": [list(m1), list(m2)], "src": "exh3seq"})
    # random larger
    for i in range(n):
        r = rng.below(20)
        sz = rng.range(1, 12)
        if r < 6:
            cases.append(topo_case(rng, sz, rand_graph(rng, sz, rng.chance(2, 5)), "rnd", wild=rng.chance(1, 5)))
        elif r < 8:
            cases.append(validate_case(rng, sz, rand_graph(rng, sz, rng.chance(1, 5)), "rnd"))
        elif r < 10:
            cases.append(uf_case(rng, "rnd"))
        else:
            sz = rng.range(2, 12)
            cases.append(sm_case(rng, sz, rand_graph(rng, sz, rng.chance(1, 10)), "rnd"))
    return cases


# ------------------------------------------------------------------ shrinking


def _without(xs, i):
    return xs[:i] + xs[i + 1:]


def drop_node(case, x):
    c = dict(case)
    c["adj"] = [[s, [p for p in ps if p != x]] for s, ps in case["adj"] if s != x]
    c["adj"] = [e for e in c["adj"] if e[1]]
    if "nodes" in c:
        c["nodes"] = [y for y in c["nodes"] if y != x]
    if "order" in c:
        c["order"] = [y for y in c["order"] if y != x]
    if "keys" in c:
        c["keys"] = [y for y in c["keys"] if y != x]
        c["enemies"] = [e for e in c["enemies"] if x not in e]
        c["merges"] = [m for m in c["merges"] if x not in m]
    return c


def shrink(case):
    k = case["k"]
    mk = lambda **kw: dict(case, src="shrunk", **kw)  # noqa: E731
    if k == "uf":
        for i in range(len(case["ops"])):
            yield mk(ops=_without(case["ops"], i))
        return
    if k == "sm":
        for i in range(len(case["merges"]) - 1, -1, -1):
            yield mk(merges=_without(case["merges"], i))
        for i in range(len(case["enemies"])):
            yield mk(enemies=_without(case["enemies"], i))
    nodes = case.get("nodes") or case.get("order") or case.get("keys") or []
    for x in sorted(set(nodes), reverse=True):
        c = drop_node(case, x)
        c["src"] = "shrunk"
        yield c
    for i, (s, ps) in enumerate(case["adj"]):
        for j in range(len(ps)):
            adj = [list(e) for e in case["adj"]]
            adj[i] = [s, _without(ps, j)]
            yield mk(adj=[e for e in adj if e[1]])


# ------------------------------------------------------------------ statistics


def refusal_reason(case, groups, a, b):
    ga = next((g for g in groups if a in g), [])
    gb = next((g for g in groups if b in g), [])
    for x, y in case["enemies"]:
        if (x in ga and y in gb) or (x in gb and y in ga):
            return "enemy"
    return "cycle"


def distribution(cases, results):
    d = {"kind": {}, "src": {}, "nodes": {}, "topo": {"ok": 0, "cycle": 0}, "validate": {"ok": 0, "err": 0, "panic": 0},
         "uf_ops": {"u": 0, "f": 0, "s": 0}, "sm_new_cycle": 0,
         "try_merge": {"noop_true": 0, "merged": 0, "refused_enemy": 0, "refused_cycle": 0},
         "merge_seq_len": {}, "enemy_pairs": {}, "panics_or_hangs": 0}
    for c, r in zip(cases, results):
        k = c["k"]
        d["kind"][k] = d["kind"].get(k, 0) + 1
        d["src"][c.get("src", "?")] = d["src"].get(c.get("src", "?"), 0) + 1
        if k != "validate" and any(x in r for x in ("panic", "hang", "crash", "garbled")):
            d["panics_or_hangs"] += 1
            continue
        if k == "topo":
            n = len(set(c["nodes"]))
            d["nodes"][str(n)] = d["nodes"].get(str(n), 0) + 1
            d["topo"]["ok" if "ok" in r else "cycle"] += 1
        elif k == "validate":
            d["validate"]["panic" if "panic" in r else r.get("v", "panic")] += 1
        elif k == "uf":
            for o in c["ops"]:
                d["uf_ops"][o[0]] += 1
        elif k == "sm":
            n = len(set(c["keys"]))
            d["nodes"][str(n)] = d["nodes"].get(str(n), 0) + 1
            ml = str(len(c["merges"]))
            d["merge_seq_len"][ml] = d["merge_seq_len"].get(ml, 0) + 1
            el = str(len(c["enemies"]))
            d["enemy_pairs"][el] = d["enemy_pairs"].get(el, 0) + 1
            if "cycle" in r:
                d["sm_new_cycle"] += 1
                continue
            groups = r["s0"]["sgs"]
            for (a, b), st in zip(c["merges"], r["steps"]):
                if st["r"]:
                    d["try_merge"]["merged" if len(st["sgs"]) < len(groups) else "noop_true"] += 1
                else:
                    d["try_merge"]["refused_" + refusal_reason(c, groups, a, b)] += 1
                groups = st["sgs"]
    return d


def nontrivial(case, res):
    k = case["k"]
    if k == "topo":
        return len(set(case["nodes"])) >= 2 and any(ps for _, ps in case["adj"])
    if k == "validate":
        return len(case["order"]) >= 2 and any(ps for _, ps in case["adj"])
    if k == "uf":
        return any(o[0] == "u" and o[1] != o[2] for o in case["ops"])
    if k == "sm":
        if "steps" not in res:
            return "cycle" in res
        n0 = len(res["s0"]["sgs"])
        return any((not s["r"]) or len(s["sgs"]) < n0 for s in res["steps"])
    return False
